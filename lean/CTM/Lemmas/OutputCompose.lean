/-
  C15, last sentence — composition of the output model (group I) with the tree
  model (group A: `CTM/Model/Tree.lean`) and the marker model (group E:
  `CTM/Model/Markers.lean`):

  * `ofTree`: the embedded taxonomy dict read back (`TaxonomyTree.from_str`),
    as a `RawTree` of group A's model;
  * `RunOutput` / `runOutput`: the extended output of a run with its
    `marker_genes` block — E's `stage … .reported` (= `serialize_markers` on the
    RUN tree) carried next to the blob, i.e. in what `blob_to_hdf5` calls the
    metadata (everything but `results`, copied verbatim);
  * `stage_run_inv`: what a successful marker stage of a run with ANY
    `drop_level` / `flatten` consists of (cache of the run tree, consulted
    parents, used lists, reported table).

  Core Lean only (imports the lemma files of the three groups, no Mathlib).
-/
import CTM.Lemmas.OutBridge
import CTM.Lemmas.BridgeWF
import CTM.Lemmas.Markers

namespace CTM
namespace OutCompose

open OutBridge Markers

/-! ## the embedded taxonomy, read back -/

/-- `TaxonomyTree.from_str(json.dumps(output["taxonomy_tree"]))` as data of
group A's model: the dict has a `hierarchy`, its node keys are JSON strings, the
ignorable keys (`name_mapper`, `hierarchy_mapper`) are set aside -/
def ofTree (e : Output.Tree) : RawTree :=
  { hasHierarchy := true, hierarchy := e.hierarchy, levels := e.levels, nodesAreStr := true }

theorem ofTree_toTree (t : RawTree) (nm : NameMapper) (hm : HierarchyMapper)
    (h1 : t.hasHierarchy = true) (h2 : t.nodesAreStr = true) :
    ofTree (toTree t nm hm) = t := by
  cases t
  simp_all [ofTree, toTree]

/-- the tree of the blob of any run is the stored tree without its cell lists
(group A's `dropCells`), with the name tables copied -/
theorem blob_tree_eq (t0 : RawTree) (cfg : LevelLoop.Config) (nm : NameMapper)
    (hm : HierarchyMapper) (nR : Nat) (out : List LevelLoop.Record)
    (hk : (t0.levels.map (·.1)).Nodup) :
    (toBlob t0 cfg nm hm nR out).tree = toTree t0.dropCells nm hm :=
  (toTree_dropCells t0 nm hm hk).symm

/-! ## the output with its `marker_genes` block -/

/-- the extended output: the part the serialisers look into (`Output.Blob`) and
the `marker_genes` block (metadata) -/
structure RunOutput where
  blob : Output.Blob
  /-- `output["marker_genes"]`: parent key ↦ gene names -/
  markerGenes : List (PKey × List Gene)

/-- `_run_mapping`: `output["marker_genes"] = serialize_markers(cache, taxonomy_tree)`
where both the cache and `taxonomy_tree` belong to the tree of the RUN (after
`drop_level` / `flatten`) — E's `stage`; the records come from the level loop -/
def runOutput (t0 : RawTree) (cfg : LevelLoop.Config) (nm : NameMapper) (hm : HierarchyMapper)
    (nR : Nat) (lk : Lookup) (R Q : List Gene) (m : Nat) (records : List LevelLoop.Record) :
    Except MErr RunOutput :=
  match stage t0 lk R Q m cfg.dropLevel cfg.flatten with
  | .error e => .error e
  | .ok s => .ok { blob := toBlob t0 cfg nm hm nR records, markerGenes := s.reported }

/-- the HDF5 file: the datasets of `Output.H5` plus the rest of the `metadata`
dataset -/
structure H5File where
  h5 : Output.H5
  markerGenes : List (PKey × List Gene)

/-- `blob_to_hdf5`: `metadata[k] = output_blob[k]` for every key but `results` -/
def writeH5 (o : RunOutput) : Except Output.Err H5File :=
  match Output.toH5 o.blob with
  | .error e => .error e
  | .ok h => .ok { h5 := h, markerGenes := o.markerGenes }

/-- `hdf5_to_blob`: `blob = json.loads(src['metadata'])`, then the results -/
def readH5 (f : H5File) : Except Output.Err RunOutput :=
  match Output.ofH5 f.h5 with
  | .error e => .error e
  | .ok b => .ok { blob := b, markerGenes := f.markerGenes }

/-! ## the marker stage of a run, taken apart -/

theorem usedOf_spec (c : Cache) : ∀ (ps : List PKey) (out : List (PKey × List Gene)),
    usedOf c ps = .ok out → out.map (·.1) = ps ∧ ∀ e ∈ out, assemble c e.1 = .ok e.2
  | [], out, h => by
    simp only [usedOf, Except.ok.injEq] at h
    subst h; simp
  | p :: ps, out, h => by
    simp only [usedOf] at h
    cases ha : assemble c p with
    | error e => simp [ha] at h
    | ok g =>
      cases hr : usedOf c ps with
      | error e => simp [ha, hr] at h
      | ok r =>
        simp only [ha, hr, Except.ok.injEq] at h
        subst h
        obtain ⟨h1, h2⟩ := usedOf_spec c ps r hr
        refine ⟨by simp [h1], ?_⟩
        intro e he
        rcases List.mem_cons.1 he with rfl | he
        · exact ha
        · exact h2 e he

/-- a successful plain marker stage: the cache was written, the consulted
parents were enumerated, their gene lists assembled, the table serialised -/
theorem stage_plain_inv (t : RawTree) (lk : Lookup) (R Q : List Gene) (m : Nat) (s : StageOut)
    (h : stage t lk R Q m none false = .ok s) :
    ∃ c cons, createCache (some t) lk R Q m = .ok c ∧
      consultedOf t t.allParents = .ok cons ∧ usedOf c cons = .ok s.used ∧
      serialize t c = .ok s.reported := by
  simp only [stage, Bool.false_eq_true, if_false] at h
  cases hc : createCache (some t) lk R Q m with
  | error e => simp [hc] at h
  | ok c =>
    simp only [hc] at h
    cases hr : reconcile t c with
    | error e => simp [hr] at h
    | ok u =>
      simp only [hr] at h
      cases hcons : consultedOf t t.allParents with
      | error e => simp [hcons] at h
      | ok cons =>
        simp only [hcons] at h
        cases hu : usedOf c cons with
        | error e => simp [hu] at h
        | ok used =>
          cases hs : serialize t c with
          | error e => simp [hu, hs] at h
          | ok rep =>
            simp only [hu, hs, Except.ok.injEq] at h
            subst h
            exact ⟨c, cons, rfl, rfl, hu, hs⟩

/-- the keys of the serialised table: every node of every non-leaf level of the
tree, then `None` -/
theorem serialize_keys (t : RawTree) (c : Cache) (out : List (PKey × List Gene))
    (h : serialize t c = .ok out) :
    out.map (·.1) =
      (t.hierarchy.dropLast.flatMap (fun l => (t.nodesAt l).map (fun n => some (l, n)))) ++ [none] := by
  unfold serialize at h
  simp only at h
  cases hn : serializeNodes t c
      (t.hierarchy.dropLast.flatMap (fun l => (t.nodesAt l).map (fun n => (l, n)))) with
  | error e => simp [hn] at h
  | ok r =>
    simp only [hn] at h
    cases hcr : childrenOf t none with
    | error e => simp [hcr] at h
    | ok chr =>
      simp only [hcr] at h
      obtain ⟨i1, _⟩ := serializeNodes_spec t c _ r hn
      have hflat : (t.hierarchy.dropLast.flatMap (fun l => (t.nodesAt l).map (fun n => (l, n)))).map some =
          t.hierarchy.dropLast.flatMap (fun l => (t.nodesAt l).map (fun n => some (l, n))) := by
        simp [List.map_flatMap, List.map_map, Function.comp_def]
      cases hg : (if chr.length < 2 then Except.ok [] else reportedGroup c none :
          Except MErr (List Gene)) with
      | error e => simp [hg] at h
      | ok g =>
        simp only [hg, Except.ok.injEq] at h
        subst h
        simp [i1, hflat]

/-- one entry per parent -/
theorem serialize_keys_nodup (t : RawTree) (hT : TreeWF t) (c : Cache)
    (out : List (PKey × List Gene)) (h : serialize t c = .ok out) :
    (out.map (·.1)).Nodup := by
  rw [serialize_keys t c out h]
  have hp := (treeOK_of_wf t hT).parentsNodup
  unfold RawTree.allParents at hp
  rw [List.nodup_cons] at hp
  rw [List.nodup_append]
  refine ⟨hp.2, by simp, ?_⟩
  intro a ha b hb
  simp only [List.mem_cons, List.not_mem_nil, or_false] at hb
  subst hb
  intro hab
  subst hab
  exact hp.1 ha

end OutCompose
end CTM
