/-
  Lemmas for C20 (the path sanitiser).
-/
import CTM.Model.Sanitize

namespace CTM.Sanitize

instance instDecEqExcept {ε α : Type} [DecidableEq ε] [DecidableEq α] : DecidableEq (Except ε α) :=
  fun a b => match a, b with
  | .ok x, .ok y => if h : x = y then isTrue (by rw [h]) else isFalse (fun e => h (by cases e; rfl))
  | .error x, .error y =>
    if h : x = y then isTrue (by rw [h]) else isFalse (fun e => h (by cases e; rfl))
  | .ok _, .error _ => isFalse (fun e => by cases e)
  | .error _, .ok _ => isFalse (fun e => by cases e)

/-! ### path parsing: components are non-empty and contain no '/' -/

theorem splitOnGo_no_sep (sep : Char) (s cur : Str) (hc : sep ∉ cur) :
    ∀ x ∈ splitOnGo sep cur s, sep ∉ x := by
  induction s generalizing cur with
  | nil => intro x hx; simp only [splitOnGo, List.mem_singleton] at hx; subst hx; exact hc
  | cons c cs ih =>
    intro x hx
    simp only [splitOnGo] at hx
    split at hx
    · rcases List.mem_cons.mp hx with rfl | hx
      · exact hc
      · exact ih [] (by simp) x hx
    · rename_i hne
      refine ih (cur ++ [c]) ?_ x hx
      intro hm
      rcases List.mem_append.mp hm with h | h
      · exact hc h
      · simp only [List.mem_singleton] at h
        subst h
        simp at hne

/-- well-formed path: what `pathlib` guarantees of `parts` -/
def Path.WF (p : Path) : Prop := ∀ x ∈ p.parts, x ≠ [] ∧ '/' ∉ x

theorem parsePath_wf (s : Str) : (parsePath s).WF := by
  intro x hx
  simp only [parsePath, splitOn, List.mem_filter, Bool.and_eq_true, Bool.not_eq_true',
    List.isEmpty_eq_false_iff] at hx
  exact ⟨hx.2.1, splitOnGo_no_sep '/' s [] (by simp) x hx.1⟩

theorem joinSlash_head (ps : List Str) (h : ∀ x ∈ ps, x ≠ [] ∧ '/' ∉ x) :
    (joinSlash ps).head? ≠ some '/' := by
  match ps with
  | [] => simp [joinSlash]
  | [p] =>
    simp only [joinSlash]
    have := h p (by simp)
    cases p with
    | nil => exact absurd rfl this.1
    | cons c cs =>
      simp only [List.head?_cons, ne_eq, Option.some.injEq]
      intro hc; subst hc; exact this.2 (by simp)
  | p :: q :: rest =>
    simp only [joinSlash]
    have := h p (by simp)
    cases p with
    | nil => exact absurd rfl this.1
    | cons c cs =>
      simp only [List.cons_append, List.head?_cons, ne_eq, Option.some.injEq]
      intro hc; subst hc; exact this.2 (by simp)

theorem name_head (p : Path) (h : p.WF) : p.name.head? ≠ some '/' := by
  unfold Path.name
  cases hl : p.parts.getLast? with
  | none => simp
  | some x =>
    have hx : x ∈ p.parts := List.mem_of_getLast? hl
    have := h x hx
    simp only [Option.getD_some]
    cases x with
    | nil => exact absurd rfl this.1
    | cons c cs =>
      simp only [List.head?_cons, ne_eq, Option.some.injEq]
      intro hc; subst hc; exact this.2 (by simp)

/-- the file name of a well-formed path contains no '/' at all -/
theorem name_no_slash (p : Path) (h : p.WF) : '/' ∉ p.name := by
  unfold Path.name
  cases hl : p.parts.getLast? with
  | none => simp
  | some x => simpa using (h x (List.mem_of_getLast? hl)).2

/-- a replacement never starts with '/' -/
theorem safeName_head (h : Host) (p : Path) (hp : p.WF) (v : Str)
    (hv : safeName h p = .ok v) : v.head? ≠ some '/' := by
  unfold safeName at hv
  simp only at hv
  split at hv
  · split at hv
    · simp only [Except.ok.injEq] at hv
      subst hv
      split
      · simp
      · apply joinSlash_head
        intro x hx
        exact parsePath_wf (h.resolve p) x (List.mem_of_mem_drop hx)
    · cases hv
  · simp only [Except.ok.injEq] at hv
    subst hv
    exact name_head p hp

/-! ### `is_exposed`: an existing proper ancestor is enough -/

theorem isExposedRev_of_suffix (ex : Path → Bool) (root : Nat) (rev pre : List Str)
    (hpre : pre ≠ []) (hsuf : pre <:+ rev) (hex : ex ⟨root, pre.reverse⟩ = true) :
    isExposedRev ex root rev = true := by
  induction rev with
  | nil =>
    have : pre = [] := List.eq_nil_of_suffix_nil hsuf
    exact absurd this hpre
  | cons p rest ih =>
    simp only [isExposedRev, Bool.or_eq_true]
    rcases List.suffix_cons_iff.mp hsuf with h | h
    · left; rw [← h]; exact hex
    · right; exact ih h

/-- if a non-root ancestor-or-self `⟨root, pre⟩` of the path exists, the path is exposed -/
theorem isExposed_of_ancestor (ex : Path → Bool) (root : Nat) (pre parts : List Str)
    (hpre : pre ≠ []) (hp : pre <+: parts) (hex : ex ⟨root, pre⟩ = true) :
    isExposed ex ⟨root, parts⟩ = true := by
  unfold isExposed
  apply isExposedRev_of_suffix ex root parts.reverse pre.reverse
  · simpa using hpre
  · exact List.reverse_suffix.mpr hp
  · simpa using hex

/-! ### `str.replace` and `str.split` on a single word -/

theorem replaceGo_skip (old new : Str) (n : Nat) (s : Str) :
    replaceGo old new n s = replaceGo old new 0 (s.drop n) := by
  induction s generalizing n with
  | nil => cases n <;> simp [replaceGo]
  | cons c cs ih =>
    cases n with
    | zero => simp
    | succ k => simp only [replaceGo, List.drop_succ_cons]; exact ih k

theorem isPrefixOf_self (s : Str) : s.isPrefixOf s = true := by
  induction s with
  | nil => rfl
  | cons c cs ih => simp [List.isPrefixOf, ih]

/-- replacing a word inside itself gives exactly the replacement -/
theorem replace_self (old new : Str) (h : old ≠ []) : replace old new old = new := by
  cases old with
  | nil => exact absurd rfl h
  | cons c cs =>
    unfold replace
    simp only [replaceGo, isPrefixOf_self, if_true]
    rw [replaceGo_skip]
    simp [replaceGo]

theorem splitWsGo_noWs (s cur : Str) (h : ∀ c ∈ s, isWs c = false) :
    splitWsGo cur s = if (cur ++ s).isEmpty then [] else [cur ++ s] := by
  induction s generalizing cur with
  | nil => simp [splitWsGo]
  | cons c cs ih =>
    have hc : isWs c = false := h c (by simp)
    simp only [splitWsGo, hc, Bool.false_eq_true, if_false]
    rw [ih (cur ++ [c]) (fun x hx => h x (List.mem_cons_of_mem _ hx))]
    simp

/-- a non-empty string without whitespace is one word -/
theorem splitWs_word (w : Str) (hne : w ≠ []) (h : ∀ c ∈ w, isWs c = false) :
    splitWs w = [w] := by
  unfold splitWs
  rw [splitWsGo_noWs w [] h]
  simp [hne]

/-! ### structures: `sanitize_paths` on a dict is pointwise on the values -/

theorem sanitizeKvs_pointwise (h : Host) (xs ys : List (Str × Val))
    (hs : sanitizeKvs h xs = .ok ys) :
    ∀ kv ∈ ys, ∃ v0, (kv.1, v0) ∈ xs ∧ sanitizeVal h v0 = .ok kv.2 := by
  induction xs generalizing ys with
  | nil =>
    simp only [sanitizeKvs, Except.ok.injEq] at hs
    subst hs; simp
  | cons x rest ih =>
    obtain ⟨k, v⟩ := x
    simp only [sanitizeKvs] at hs
    split at hs
    · cases hs
    · rename_i y hy
      split at hs
      · cases hs
      · rename_i ys' hys'
        simp only [Except.ok.injEq] at hs
        subst hs
        intro kv hkv
        rcases List.mem_cons.mp hkv with rfl | hkv
        · exact ⟨v, by simp, hy⟩
        · obtain ⟨v0, hm, hv0⟩ := ih ys' hys' kv hkv
          exact ⟨v0, List.mem_cons_of_mem _ hm, hv0⟩

theorem sanitizeKvs_keys (h : Host) (xs ys : List (Str × Val))
    (hs : sanitizeKvs h xs = .ok ys) : ys.map (·.1) = xs.map (·.1) := by
  induction xs generalizing ys with
  | nil =>
    simp only [sanitizeKvs, Except.ok.injEq] at hs
    subst hs; rfl
  | cons x rest ih =>
    obtain ⟨k, v⟩ := x
    simp only [sanitizeKvs] at hs
    split at hs
    · cases hs
    · split at hs
      · cases hs
      · rename_i ys' hys'
        simp only [Except.ok.injEq] at hs
        subst hs
        simp [ih ys' hys']

theorem popKey_spec (k : Str) (xs ys : List (Str × Val)) (hp : popKey k xs = .ok ys) :
    (∀ kv ∈ ys, kv ∈ xs ∧ kv.1 ≠ k) ∧ (∀ kv ∈ xs, kv.1 ≠ k → kv ∈ ys) ∧ k ∈ xs.map (·.1) := by
  unfold popKey at hp
  split at hp
  · rename_i hany
    simp only [Except.ok.injEq] at hp
    subst hp
    refine ⟨?_, ?_, ?_⟩
    · intro kv hkv
      have := List.mem_filter.mp hkv
      exact ⟨this.1, by simpa using this.2⟩
    · intro kv hkv hne
      exact List.mem_filter.mpr ⟨hkv, by simpa using hne⟩
    · obtain ⟨kv, hkv, he⟩ := List.any_eq_true.mp hany
      have : kv.1 = k := by simpa using he
      exact List.mem_map.mpr ⟨kv, hkv, this⟩
  · cases hp

end CTM.Sanitize
