/-
  C18 along the whole path in the composed model: the home step at one node
  (`node_home`), the induction along `walkFrom` (`walkFrom_home`) and the
  post-loops on a way home (`home_finish`).  See design_notes/compose.md.
-/
import CTM.Lemmas.Compose
import CTM.Props.C18
namespace CTM.Compose
open CTM CTM.LevelLoop CTM.OutBridge CTM.Election CTM.Numeric

/-- reference row of a leaf at a node: its mean profile on the node's genes -/
def refRow (P : ElectionParams) (p : Parent) (leaf : Node) : List Rat :=
  pick (P.rcols p) (P.means leaf)

/-- the guard of C18 at one node for the cell `x` and the leaf `l`: the cell's
profile on the node's genes is leaf `l`'s mean profile; on every drawn subset it
is not constant and no other leaf below the node is perfectly correlated with
it; the correlation reported for `l`'s row has signed square 1 -/
structure NodeGuard (P : ElectionParams) (p : Parent) (kl : List (Node × List Node))
    (x : List Rat) (l : Node) : Prop where
  noRaise : NoRaise P p kl x
  query : nodeQuery P p x = refRow P p l
  guard : ∀ s ∈ P.subsets p x, var (pick s (refRow P p l)) ≠ 0 ∧
    ∀ m ∈ (nodeRows kl).1, m ≠ l → corrSsq (pick s (refRow P p m)) (pick s (refRow P p l)) ≠ 1
  corr : ∀ it j, (nodeRows kl).1[j]? = some l →
    P.corrOf p x it j * |P.corrOf p x it j| = 1

/-- C18 at one node of the composed model: under the guard the answer written
back is the type of leaf `l`'s row with probability 1, correlation 1 and no
runner-up -/
theorem node_home (P : ElectionParams) (htie : TieOK P) (p : Parent)
    (kl : List (Node × List Node)) (x : List Rat) (l : Node)
    (hmem : l ∈ (nodeRows kl).1) (hg : NodeGuard P p kl x l) :
    ∃ j, (nodeRows kl).1[j]? = some l ∧
      entryOf (electionVote P p kl x) =
        { assignment := (nodeRows kl).2.getD j 0, prob := 1, corr := some 1,
          ru := some ([], [], []) } := by
  obtain ⟨j, hj, hjl⟩ := List.mem_iff_getElem.1 hmem
  have hj? : (nodeRows kl).1[j]? = some l := by rw [List.getElem?_eq_getElem hj, hjl]
  refine ⟨j, hj?, ?_⟩
  obtain ⟨ch, hch⟩ := nodeChoice_isSome P htie p kl x hg.noRaise
  obtain ⟨tally, ht, hc, _⟩ := nodeChoice_some hch
  have hrefsj : j < (nodeRefs P p kl).length := by simpa [nodeRefs] using hj
  have hrefget : ∀ (i : Nat) (hi : i < (nodeRefs P p kl).length),
      (nodeRefs P p kl)[i] = refRow P p ((nodeRows kl).1[i]'(by simpa [nodeRefs] using hi)) := by
    intro i hi; simp [nodeRefs, refRow]
  have hsorted := (assembleRows_spec (kl.map (fun (e : Node × List Node) => e.1))
    (leavesOfKids kl)).1
  have hnodup : (nodeRows kl).1.Nodup := hsorted.imp (fun h => Nat.ne_of_lt h)
  have hres := C18.perfectly_correlated_maps_home (nodeRefs P p kl) (nodeQuery P p x)
    (nodeRows kl).2 (P.subsets p x) (P.corrOf p x) j hrefsj
    (by rw [nodeRows_length]; simp [nodeRefs])
    (by intro s hs i hi; rw [nodeQuery, pick_length]; exact (hg.noRaise.range s hs i hi).1)
    (by
      intro s hs m hm i hi
      unfold nodeRefs at hm
      obtain ⟨leaf, _, rfl⟩ := List.mem_map.1 hm
      rw [pick_length]; exact (hg.noRaise.range s hs i hi).2)
    (by
      intro s hs
      obtain ⟨hv, ho⟩ := hg.guard s hs
      rw [hrefget j hrefsj, hg.query]
      simp only [hjl]
      refine ⟨corrSsq_self _ hv, ?_⟩
      intro i hi hne
      rw [hrefget i hi]
      have hi' : i < (nodeRows kl).1.length := by simpa [nodeRefs] using hi
      apply ho _ (List.getElem_mem hi')
      intro e
      apply hne
      have := (hnodup.getElem_inj_iff (hi := hi') (hj := hj)).1 (by rw [e, hjl])
      exact this)
    (fun it => hg.corr it j hj?)
    P.nAssign _ ch tally ht (htie _ _ _) hc
  obtain ⟨r1, r2, r3, r4⟩ := hres
  have : electionVote P p kl x = voteOfChoice ch := by
    unfold electionVote; rw [hch]
  rw [this, entryOf_voteOfChoice, r1, r2, r3, r4]

end CTM.Compose

namespace CTM.Compose
open CTM CTM.LevelLoop CTM.OutBridge CTM.Election CTM.Numeric

theorem leavesOfKids_kidsOf (t : RawTree) (l : Level) : ∀ (kids : List Node) (c : Node),
    c ∈ kids → leavesOfKids (kidsOf t l kids) c = t.asLeaves l c
  | [], c, h => by simp at h
  | k :: kids, c, h => by
    unfold leavesOfKids kidsOf
    simp only [List.map_cons, List.lookup_cons]
    by_cases e : c = k
    · subst e; simp
    · have hb : (c == k) = false := by simpa using e
      rw [hb]
      have hc : c ∈ kids := by
        rcases List.mem_cons.1 h with h | h
        · exact absurd h e
        · exact h
      exact leavesOfKids_kidsOf t l kids c hc

theorem nodeRows_mem (kl : List (Node × List Node)) (x : Node) :
    x ∈ (nodeRows kl).1 ↔ ∃ c ∈ kl.map (fun (e : Node × List Node) => e.1), x ∈ leavesOfKids kl c :=
  (assembleRows_spec _ _).2.1 x

theorem nodeRows_type (kl : List (Node × List Node)) (i : Nat) (hi : i < (nodeRows kl).1.length) :
    (nodeRows kl).2.getD i 0 ∈ kl.map (fun (e : Node × List Node) => e.1) ∧
    (nodeRows kl).1[i] ∈ leavesOfKids kl ((nodeRows kl).2.getD i 0) :=
  (assembleRows_spec _ _).2.2.2 i hi

/-- the way home of leaf `lf` for the cell `x`: `path` lists, top level first,
the ancestors of `lf` (the last one being `lf` itself); each is a child of the
one before (of the root for the first), the only child of that parent whose
leaves contain `lf`; and wherever the parent has a choice the guard of C18
holds for `x` and `lf` -/
def HomePath (P : ElectionParams) (t : RawTree) (x : List Rat) (lf : Node) :
    Parent → List (Level × Node) → Prop
  | _, [] => True
  | p, (l, a) :: rest =>
    (∃ kids, t.children p = .ok kids ∧ a ∈ kids ∧ lf ∈ t.asLeaves l a ∧
      (∀ k ∈ kids, k ≠ a → lf ∉ t.asLeaves l k) ∧
      (2 ≤ kids.length → NodeGuard P p (kidsOf t l kids) x lf)) ∧
    HomePath P t x lf (some (l, a)) rest

/-- what the walk records on the way home: at every level the ancestor, with
probability 1 and no runner-up; correlation 1 where the parent had a choice,
none (to be inherited) under a single-child parent -/
def HomeWalk (t : RawTree) : Parent → List (Level × Node) → List (Level × Entry) → Prop
  | _, [], [] => True
  | p, (l, a) :: rest, (l', e) :: es =>
    l' = l ∧ e.assignment = a ∧ e.prob = 1 ∧ e.ru = some ([], [], []) ∧
    (∃ kids, t.children p = .ok kids ∧ kids ≠ [] ∧ ((∃ only, kids = [only]) → e.corr = none) ∧
      (2 ≤ kids.length → e.corr = some 1)) ∧
    HomeWalk t (some (l, a)) rest es
  | _, _, _ => False

/-- C18 along the whole path, raw walk: induction along `walkFrom` -/
theorem walkFrom_home (P : ElectionParams) (htie : TieOK P) (t : RawTree) (x : List Rat)
    (lf : Node) : ∀ (path : List (Level × Node)) (p : Parent), HomePath P t x lf p path →
    ∃ es, walkFrom t (electionVote P) x (path.map (·.1)) p = .ok es ∧ HomeWalk t p path es
  | [], p, _ => ⟨[], rfl, trivial⟩
  | (l, a) :: rest, p, h => by
    obtain ⟨⟨kids, hk, hak, hlf, huniq, hguard⟩, hrest⟩ := h
    obtain ⟨tl, htl, hhome⟩ := walkFrom_home P htie t x lf rest (some (l, a)) hrest
    have hkne : kids.isEmpty = false := by
      cases kids with
      | nil => simp at hak
      | cons _ _ => rfl
    -- the vote at this step
    have hvote : (entryOf (voteFn t (electionVote P) p l kids x)).assignment = a ∧
        (entryOf (voteFn t (electionVote P) p l kids x)).prob = 1 ∧
        (entryOf (voteFn t (electionVote P) p l kids x)).ru = some ([], [], []) ∧
        ((∃ only, kids = [only]) → (entryOf (voteFn t (electionVote P) p l kids x)).corr = none) ∧
        (2 ≤ kids.length → (entryOf (voteFn t (electionVote P) p l kids x)).corr = some 1) := by
      match kids, hak, huniq, hguard with
      | [only], hak, _, _ =>
        have : a = only := by simpa using hak
        subst this
        exact ⟨rfl, rfl, rfl, fun _ => rfl, fun h2 => by simp at h2⟩
      | k1 :: k2 :: ks, hak, huniq, hguard =>
        have hg := hguard (by simp)
        simp only [voteFn]
        have hfst := kidsOf_fst t l (k1 :: k2 :: ks)
        have hmem : lf ∈ (nodeRows (kidsOf t l (k1 :: k2 :: ks))).1 := by
          refine (nodeRows_mem _ lf).2 ⟨a, ?_, ?_⟩
          · rw [hfst]; exact hak
          · rw [leavesOfKids_kidsOf t l _ a hak]; exact hlf
        obtain ⟨j, hj, hent⟩ := node_home P htie p _ x lf hmem hg
        have hjlt : j < (nodeRows (kidsOf t l (k1 :: k2 :: ks))).1.length := by
          by_contra hn
          rw [List.getElem?_eq_none (Nat.le_of_not_lt hn)] at hj
          cases hj
        obtain ⟨hty, hin⟩ := nodeRows_type _ j hjlt
        have hrow : (nodeRows (kidsOf t l (k1 :: k2 :: ks))).1[j] = lf := by
          rw [List.getElem?_eq_getElem hjlt] at hj; exact Option.some.inj hj
        have htyk : (nodeRows (kidsOf t l (k1 :: k2 :: ks))).2.getD j 0 ∈ k1 :: k2 :: ks := by
          rw [hfst] at hty; exact hty
        have hta : (nodeRows (kidsOf t l (k1 :: k2 :: ks))).2.getD j 0 = a := by
          by_contra hne
          apply huniq _ htyk hne
          rw [leavesOfKids_kidsOf t l _ _ htyk, hrow] at hin
          exact hin
        rw [hent, hta]
        exact ⟨rfl, rfl, rfl, fun ⟨only, ho⟩ => by simp at ho, fun _ => rfl⟩
    obtain ⟨v1, v2, v3, v4, v5⟩ := hvote
    refine ⟨(l, entryOf (voteFn t (electionVote P) p l kids x)) :: tl, ?_, ?_⟩
    · simp only [List.map_cons, walkFrom, hk, hkne, Bool.false_eq_true, if_false]
      have hasg : (voteFn t (electionVote P) p l kids x).assignment = a := by
        rw [← entryOf_assignment]; exact v1
      rw [hasg, htl]
    · exact ⟨rfl, v1, v2, v3, ⟨kids, hk, List.ne_nil_of_mem hak, v4, v5⟩, hhome⟩

end CTM.Compose

namespace CTM.Compose
open CTM CTM.LevelLoop CTM.OutBridge CTM.Election CTM.Numeric

theorem findSome_corr_dich : ∀ L : List LevelRec,
    (∀ r ∈ L, r.avgCorr = none ∨ r.avgCorr = some 1) →
    L.findSome? (·.avgCorr) = none ∨ L.findSome? (·.avgCorr) = some 1
  | [], _ => Or.inl rfl
  | r :: L, h => by
    rw [List.findSome?_cons]
    rcases h r (by simp) with h0 | h1
    · rw [h0]; exact findSome_corr_dich L (fun q hq => h q (by simp [hq]))
    · rw [h1]; exact Or.inr rfl

theorem prod_take_ones : ∀ (ps : List Rat) (k : Nat), (∀ q ∈ ps, q = 1) → (ps.take k).prod = 1
  | [], _, _ => by simp
  | q :: ps, 0, _ => by simp
  | q :: ps, k + 1, h => by
    rw [List.take_succ_cons, List.prod_cons, h q (by simp),
      prod_take_ones ps k (fun r hr => h r (by simp [hr]))]
    norm_num

/-- the post-loops on a way home: probability 1 at every level makes every
aggregate 1; correlations that are 1 or missing stay so, and are all 1 as soon
as one level had a choice (single-child levels inherit) -/
theorem home_finish (es : List (Level × Entry))
    (h : ∀ le ∈ es, le.2.prob = 1 ∧ le.2.ru = some ([], [], []) ∧
      (le.2.corr = none ∨ le.2.corr = some 1)) :
    ∀ le ∈ LevelLoop.finishCell es, le.2.prob = 1 ∧ le.2.agg = some 1 ∧
      le.2.ru = some ([], [], []) ∧ (le.2.corr = none ∨ le.2.corr = some 1) ∧
      ((∃ le' ∈ es, le'.2.corr = some 1) → le.2.corr = some 1) := by
  intro le hle
  obtain ⟨k, hk, hkle⟩ := List.mem_iff_getElem.1 hle
  have hru : ∀ le ∈ es, le.2.ru.isSome = true := fun le hle => by rw [(h le hle).2.1]; rfl
  have hag := finishCell_agree es hru
  have hlenF : (LevelLoop.finishCell es).length = es.length := by
    have := congrArg List.length (assignments_finishCell es)
    simpa [assignments] using this
  have hk' : k < (es.map (fun le => toElectionRec le.2)).length := by
    rw [List.length_map]; omega
  have hfin := finishCell_getElem? (es.map (fun le => toElectionRec le.2)) k hk'
  rw [← hag, List.getElem?_map, List.getElem?_eq_getElem hk, hkle] at hfin
  simp only [Option.map_some, Option.some.injEq, List.getElem_map] at hfin
  have hke : k < es.length := by omega
  have hp := congrArg OutRec.prob hfin
  have hc := congrArg OutRec.avgCorr hfin
  have hr := congrArg OutRec.runners hfin
  have hg := congrArg OutRec.aggregate hfin
  simp only [toElectionOut, toElectionRec] at hp hr hg
  simp only [toElectionOut] at hc
  have hek := h es[k] (List.getElem_mem hke)
  have hrecs : ∀ r ∈ es.map (fun le => toElectionRec le.2),
      r.avgCorr = none ∨ r.avgCorr = some 1 := by
    intro r hr
    obtain ⟨le', hle', rfl⟩ := List.mem_map.1 hr
    exact (h le' hle').2.2
  have hab : corrAbove (es.map (fun le => toElectionRec le.2)) k = none ∨
      corrAbove (es.map (fun le => toElectionRec le.2)) k = some 1 := by
    unfold corrAbove
    exact findSome_corr_dich _
      (fun r hr => hrecs r (List.mem_of_mem_take (List.mem_reverse.1 hr)))
  have hbe : corrBelow (es.map (fun le => toElectionRec le.2)) k = none ∨
      corrBelow (es.map (fun le => toElectionRec le.2)) k = some 1 := by
    unfold corrBelow
    exact findSome_corr_dich _ (fun r hr => hrecs r (List.mem_of_mem_drop hr))
  have hown : (toElectionRec es[k].2).avgCorr = es[k].2.corr := rfl
  have hcorr : le.2.corr = none ∨ le.2.corr = some 1 := by
    rw [hc, hown]
    rcases hek.2.2 with h0 | h1
    · rw [h0]
      rcases hab with a0 | a1
      · rw [a0]; simpa using hbe
      · rw [a1]; simp
    · rw [h1]; simp
  have hagg : le.2.agg = some 1 := by
    have hs := finishCell_agg es le hle
    have : le.2.agg.getD 0 = 1 := by
      rw [hg, List.map_map]
      apply prod_take_ones
      intro q hq
      obtain ⟨le', hle', rfl⟩ := List.mem_map.1 hq
      exact (h le' hle').1
    cases hq : le.2.agg with
    | none => rw [hq] at hs; cases hs
    | some v => rw [hq] at this; simp at this; rw [this]
  refine ⟨by rw [hp]; exact hek.1, hagg, by rw [hr, hek.2.1]; rfl, hcorr, ?_⟩
  rintro ⟨le', hle', hc1⟩
  have hsome := finishCell_corr es ⟨le', hle', by rw [hc1]; rfl⟩ le hle
  rcases hcorr with h0 | h1
  · rw [h0] at hsome; cases hsome
  · exact h1

end CTM.Compose

namespace CTM.Compose
open CTM CTM.LevelLoop CTM.OutBridge CTM.Election CTM.Numeric

/-- some parent on the way has at least two children -/
def ChoiceOnPath (t : RawTree) : Parent → List (Level × Node) → Prop
  | _, [] => False
  | p, (l, a) :: rest =>
    (∃ kids, t.children p = .ok kids ∧ 2 ≤ kids.length) ∨ ChoiceOnPath t (some (l, a)) rest

theorem homeWalk_facts (t : RawTree) : ∀ (path : List (Level × Node)) (p : Parent)
    (es : List (Level × Entry)), HomeWalk t p path es →
    assignments es = path ∧
    (∀ le ∈ es, le.2.prob = 1 ∧ le.2.ru = some ([], [], []) ∧
      (le.2.corr = none ∨ le.2.corr = some 1)) ∧
    (ChoiceOnPath t p path → ∃ le ∈ es, le.2.corr = some 1)
  | [], p, [], _ => ⟨rfl, by simp, fun h => h.elim⟩
  | [], p, _ :: _, h => h.elim
  | _ :: _, p, [], h => h.elim
  | (l, a) :: rest, p, (l', e) :: es, h => by
    obtain ⟨rfl, ha, hp, hr, ⟨kids, hk, hne, hc1, hc2⟩, hrest⟩ := h
    obtain ⟨i1, i2, i3⟩ := homeWalk_facts t rest (some (l', a)) es hrest
    have hdich : e.corr = none ∨ e.corr = some 1 := by
      match kids, hne with
      | [only], _ => exact Or.inl (hc1 ⟨only, rfl⟩)
      | _ :: _ :: _, _ => exact Or.inr (hc2 (by simp))
    refine ⟨?_, ?_, ?_⟩
    · simp only [assignments, List.map_cons, ha] at i1 ⊢
      rw [i1]
    · intro le hle
      rcases List.mem_cons.1 hle with rfl | hle
      · exact ⟨hp, hr, hdich⟩
      · exact i2 le hle
    · rintro (⟨kids', hk', h2⟩ | hch)
      · rw [hk] at hk'
        cases hk'
        exact ⟨_, List.mem_cons_self, hc2 h2⟩
      · obtain ⟨le, hle, hc⟩ := i3 hch
        exact ⟨le, List.mem_cons_of_mem _ hle, hc⟩

end CTM.Compose
namespace CTM.Compose
open CTM CTM.LevelLoop CTM.OutBridge CTM.Election CTM.Numeric

/-- `exP` with subsets on which the centroid of leaf 30 is separated from the
other leaves, and reported correlation 1 -/
def exPHome : ElectionParams :=
  { exP with subsets := fun _ _ => [[0, 1, 2], [0, 1]], corrOf := fun _ _ _ _ => 1 }

theorem exPHome_tie : TieOK exPHome := fun _ _ V => stableTie_valid V

/-- the way home of leaf 30 in `exTree` for its centroid written in the
query's gene order -/
theorem exPHome_path :
    HomePath exPHome exTree [2, 4, 1] 30 none [(0, 10), (1, 20), (2, 30)] := by
  refine ⟨⟨[10], rfl, by simp, by decide, by simp, fun h => by simp at h⟩,
    ⟨[21, 20], rfl, by simp, by decide, by decide, fun _ => ?_⟩,
    ⟨[30], rfl, by simp, by decide, by simp, fun h => by simp at h⟩, trivial⟩
  refine ⟨⟨by simp [exPHome], ?_, by decide, by simp [exPHome, exP]⟩, by decide +kernel,
    by decide +kernel, ?_⟩
  · intro s hs i hi
    simp only [exPHome, exP, List.mem_cons, List.not_mem_nil, or_false] at hs
    rcases hs with rfl | rfl <;> simp at hi <;> simp [exPHome, exP] <;> omega
  · intro it j _
    simp [exPHome]

end CTM.Compose
