/-
  Glue between the tree model's `leafPairs` (C10: `leaves_to_compare`) and the
  selection model's per-parent pair list (C12: a list of column indices of the
  reference-marker table, obtained through `pair_to_idx`).

  Kept apart from `BridgeWF.lean` because `CTM/Lemmas/Selection.lean` imports
  Mathlib modules and the other bridges need none.
-/
import CTM.Lemmas.Tree
import CTM.Lemmas.Selection

namespace CTM.Bridge
open CTM CTM.RawTree

/-- `pair_to_idx` restricted to the pairs of one parent is injective: distinct
taxonomy pairs have distinct columns in the reference-marker table -/
def IdxInjOn (idx : Node × Node → Nat) (ps : List (Node × Node)) : Prop :=
  ∀ x ∈ ps, ∀ y ∈ ps, idx x = idx y → x = y

/-- the selector's duplicate test is `Nodup` -/
theorem selection_hasDup_false_iff : ∀ (xs : List Nat), Selection.hasDup xs = false ↔ xs.Nodup
  | [] => by simp [Selection.hasDup]
  | x :: xs => by
    simp only [Selection.hasDup, Bool.or_eq_false_iff, List.nodup_cons,
      selection_hasDup_false_iff xs]
    constructor
    · rintro ⟨h1, h2⟩; exact ⟨by simpa using h1, h2⟩
    · rintro ⟨h1, h2⟩; exact ⟨by simpa using h1, h2⟩

theorem nodup_map_of_injOn {idx : Node × Node → Nat} :
    ∀ {ps : List (Node × Node)}, ps.Nodup → IdxInjOn idx ps → (ps.map idx).Nodup
  | [], _, _ => by simp
  | x :: ps, hnd, hinj => by
    have h := List.nodup_cons.mp hnd
    simp only [List.map_cons, List.nodup_cons, List.mem_map, not_exists, not_and]
    refine ⟨?_, nodup_map_of_injOn h.2
      (fun a ha b hb hab => hinj a (List.mem_cons_of_mem _ ha) b (List.mem_cons_of_mem _ hb) hab)⟩
    intro y hy he
    have := hinj y (List.mem_cons_of_mem _ hy) x List.mem_cons_self he
    exact h.1 (this ▸ hy)

end CTM.Bridge
