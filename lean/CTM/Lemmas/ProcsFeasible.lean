/-
  The completion orders the start / poll loop can produce (`Procs.feasibleOrder`)
  against the stage machine (`Procs.pollLoop`).

  Part 1 (`feasible_iff_window`): for a permutation `σ` of the workers,
  `feasibleOrder nProc σ` says exactly that the `k`-th worker to complete is one
  of the first `k + nProc` workers dispatched (the workers that can have been
  started when `k` workers have completed and at most `nProc` are outstanding).
-/
import CTM.Lemmas.Procs
import CTM.Lemmas.ProcsMerge

namespace CTM.Procs

/-- the `k`-th completion is one of the first `k + nProc` workers -/
def Window (nProc : Nat) (σ : List Nat) : Prop := ∀ (k w : Nat), σ[k]? = some w → w < k + nProc

theorem countP_lt_range (m n : Nat) : (List.range n).countP (fun x => decide (x < m)) = min m n := by
  induction n with
  | zero => simp
  | succ n ih =>
    rw [List.range_succ, List.countP_append, ih]
    by_cases h : n < m
    · simp [h]; omega
    · simp [h]; omega

theorem countP_lt_perm {σ : List Nat} {n : Nat} (hp : σ.Perm (List.range n)) (m : Nat) :
    σ.countP (fun x => decide (x < m)) = min m n := by
  rw [hp.countP_eq, countP_lt_range]

theorem feasible_of_window {nProc n : Nat} {σ : List Nat} (hp : σ.Perm (List.range n))
    (hw : Window nProc σ) : feasibleOrder nProc σ = true := by
  unfold feasibleOrder
  rw [List.all_eq_true]
  rintro ⟨w, k⟩ hm
  have hk : σ[k]? = some w := by
    have := List.mem_zipIdx_iff_getElem?.1 hm
    simpa using this
  simp only [decide_eq_true_eq]
  have hkl : k < σ.length := (List.getElem?_eq_some_iff.1 hk).1
  have hwn : w < n := by
    have : w ∈ List.range n := hp.subset (List.mem_of_getElem? hk)
    simpa using this
  have hlen : σ.length = n := by simpa using hp.length_eq
  -- split σ at position k
  have hsplit : σ = σ.take k ++ w :: σ.drop (k + 1) := by
    have h1 := (List.take_append_drop k σ).symm
    rw [List.drop_eq_getElem_cons hkl] at h1
    have h2 : σ[k] = w := (List.getElem?_eq_some_iff.1 hk).2
    rw [h2] at h1
    exact h1
  let m := min n (k + nProc)
  have hwm : w < m := by
    have := hw k w hk
    simp only [m]; omega
  -- everything before position k is < m
  have hL : ∀ x ∈ σ.take k, x < m := by
    intro x hx
    obtain ⟨j, hj⟩ := List.mem_iff_getElem?.1 hx
    rw [List.getElem?_take] at hj
    by_cases hjk : j < k
    · simp only [hjk, if_true] at hj
      have h1 := hw j x hj
      have h2 : x < n := by
        have : x ∈ List.range n := hp.subset (List.mem_of_getElem? hj)
        simpa using this
      simp only [m]; omega
    · simp [hjk] at hj
  have hLlen : (σ.take k).length = k := by simp; omega
  have cL : (σ.take k).countP (fun x => decide (x < m)) = k := by
    have h := (List.countP_eq_length (p := fun x => decide (x < m)) (l := σ.take k)).2
      (fun x hx => by simpa using hL x hx)
    rw [h, hLlen]
  have cm := countP_lt_perm hp m
  have cw := countP_lt_perm hp w
  rw [hsplit, List.countP_append, List.countP_cons] at cm cw
  have hmono : (σ.drop (k + 1)).countP (fun x => decide (x < w)) ≤
      (σ.drop (k + 1)).countP (fun x => decide (x < m)) := by
    apply List.countP_mono_left
    intro x _ hx
    simp only [decide_eq_true_eq] at hx ⊢
    omega
  simp only [hwm, decide_true, if_true, Nat.lt_irrefl, decide_false, Bool.false_eq_true, if_false,
    Nat.add_zero] at cm cw
  rw [List.countP_eq_length_filter] at cw
  rw [cL] at cm
  have hmn : min m n = m := by simp only [m]; omega
  have hwn' : min w n = w := by omega
  rw [hmn] at cm
  rw [hwn'] at cw
  have hmk : m ≤ k + nProc := by simp only [m]; omega
  omega

theorem window_of_feasible {nProc : Nat} {σ : List Nat} (hf : feasibleOrder nProc σ = true) :
    Window nProc σ := by
  intro k w hk
  unfold feasibleOrder at hf
  rw [List.all_eq_true] at hf
  have hm : (w, k) ∈ σ.zipIdx := List.mem_zipIdx_iff_getElem?.2 (by simpa using hk)
  have := hf (w, k) hm
  simp only [decide_eq_true_eq] at this
  have h1 : ((σ.take k).filter (fun x => decide (x < w))).length ≤ k := by
    refine Nat.le_trans (List.length_filter_le _ _) ?_
    simp
    omega
  omega

/-- for a permutation of the workers: feasible ⇔ the `k`-th completion is among
the first `k + nProc` workers dispatched -/
theorem feasible_iff_window {nProc n : Nat} {σ : List Nat} (hp : σ.Perm (List.range n)) :
    feasibleOrder nProc σ = true ↔ Window nProc σ :=
  ⟨window_of_feasible, feasible_of_window hp⟩

/-! ### Part 2: every order in the window is produced by the machine

The schedule `sing σ` reveals the exit codes one worker at a time, in the order
`σ`; all workers exit with code 0; list container, `keyOf = id`. -/

/-- the schedule that makes the workers' exit codes visible one at a time, in
the order `σ` -/
def sing (σ : List Nat) : List Poll := σ.map (fun w => [w])

theorem winnow_zero {kind : Container} {exit : Nat → Int} (poll : Poll) (c : Procs)
    (hz : ∀ e ∈ c, exit e.2 = 0) :
    winnow kind exit poll c = .ok (c.filter (fun e => (view exit poll e.2).isNone)) := by
  have hbad : ∀ p ∈ c.map (fun e => (e, view exit poll e.2)), badCode p.2 = none := by
    intro p hp
    obtain ⟨e, he, rfl⟩ := List.mem_map.mp hp
    simp only
    by_cases hm : e.2 ∈ poll
    · rw [view_of_mem hm, hz e he]; simp [badCode]
    · rw [view_of_not_mem hm]; simp [badCode]
  have hf : ((c.map (fun e => (e, view exit poll e.2))).filter (fun p => p.2.isNone)).map (·.1)
      = c.filter (fun e => (view exit poll e.2).isNone) := by
    rw [List.filter_map, List.map_map]
    simp [Function.comp_def]
  cases kind with
  | list => simp only [winnow, winnowList_eq, (lastBad_none_iff _).mpr hbad, hf]
  | dict => simp only [winnow, winnowDict_eq, (firstBadKey_none_iff _).mpr hbad, hf]

theorem view_singleton_isNone (exit : Nat → Int) (a w : Nat) :
    (view exit [a] w).isNone = (w != a) := by
  by_cases h : w = a
  · subst h; simp [view]
  · have : (w != a) = true := by simpa using h
    simp [view, h, this]

theorem length_filter_ne (l : Procs) (hn : (l.map (·.2)).Nodup) (a : Nat)
    (ha : a ∈ l.map (·.2)) : (l.filter (fun x => x.2 != a)).length + 1 = l.length := by
  induction l with
  | nil => cases ha
  | cons x r ih =>
    simp only [List.map_cons, List.nodup_cons] at hn
    simp only [List.map_cons, List.mem_cons] at ha
    by_cases hx : x.2 = a
    · have hna : a ∉ r.map (·.2) := hx ▸ hn.1
      have hall : r.filter (fun y => y.2 != a) = r := by
        rw [List.filter_eq_self]
        intro y hy
        have : y.2 ≠ a := fun h => hna (h ▸ List.mem_map.mpr ⟨y, hy, rfl⟩)
        simpa using this
      simp [List.filter_cons, hx, hall]
    · have har : a ∈ r.map (·.2) := by
        rcases ha with h | h
        · exact absurd h.symm hx
        · exact h
      have := ih hn.2 har
      have hx' : (x.2 != a) = true := by simpa using hx
      simp only [List.filter_cons, hx', if_true, List.length_cons]
      omega

/-- state of the machine when `r` workers have completed, in the order `σ` -/
structure FInv (σ : List Nat) (s : St) (r : Nat) : Prop where
  sched : s.sched = sing (σ.drop r)
  mem : ∀ e : Nat × Nat, e ∈ s.procs ↔ (e.1 = e.2 ∧ e.2 < s.started ∧ e.2 ∉ σ.take r)
  nodup : (s.procs.map (·.2)).Nodup
  len : s.procs.length + r = s.started

theorem not_mem_take_of_getElem? {σ : List Nat} (hσ : σ.Nodup) {r a : Nat}
    (ha : σ[r]? = some a) : a ∉ σ.take r := by
  intro hm
  obtain ⟨j, hj⟩ := List.mem_iff_getElem?.1 hm
  rw [List.getElem?_take] at hj
  by_cases hjr : j < r
  · simp only [hjr, if_true] at hj
    have hjl : j < σ.length := (List.getElem?_eq_some_iff.1 hj).1
    have := (List.getElem?_inj hjl hσ).1 (hj.trans ha.symm)
    omega
  · simp [hjr] at hj

/-- one poll: the revealed worker has been started, so it leaves the container -/
theorem poll_step {σ : List Nat} (hσ : σ.Nodup) {s : St} {r a : Nat} (inv : FInv σ s r)
    (ha : σ[r]? = some a) (hst : a < s.started) :
    winnow .list (fun _ => 0) [a] s.procs = .ok (s.procs.filter (fun e => e.2 != a)) ∧
    FInv σ { s with procs := s.procs.filter (fun e => e.2 != a), sched := sing (σ.drop (r + 1)) }
      (r + 1) ∧
    (s.procs.filter (fun e => e.2 != a)).length + 1 = s.procs.length := by
  have hw := winnow_zero (kind := .list) (exit := fun _ => 0) [a] s.procs (fun _ _ => rfl)
  have hfe : s.procs.filter (fun e => (view (fun _ => 0) [a] e.2).isNone)
      = s.procs.filter (fun e => e.2 != a) := by
    apply List.filter_congr
    intro e _
    exact view_singleton_isNone _ a e.2
  rw [hfe] at hw
  have hnt := not_mem_take_of_getElem? hσ ha
  have hin : (a, a) ∈ s.procs := (inv.mem (a, a)).2 ⟨rfl, hst, hnt⟩
  have hlen := length_filter_ne s.procs inv.nodup a (List.mem_map.mpr ⟨(a, a), hin, rfl⟩)
  have htake : σ.take (r + 1) = σ.take r ++ [a] := by
    rw [List.take_succ, ha]; rfl
  refine ⟨hw, ⟨rfl, ?_, ?_, ?_⟩, hlen⟩
  · intro e
    simp only [List.mem_filter, inv.mem e, htake, List.mem_append, List.mem_singleton, not_or,
      bne_iff_ne, ne_eq]
    constructor
    · rintro ⟨⟨h1, h2, h3⟩, h4⟩; exact ⟨h1, h2, h3, h4⟩
    · rintro ⟨h1, h2, h3, h4⟩; exact ⟨⟨h1, h2, h3⟩, h4⟩
  · exact inv.nodup.sublist ((List.filter_sublist).map _)
  · simp only
    have := inv.len
    omega

/-- `while len(c) >= limit`: as long as the workers whose turn it is have been
started, the loop takes exactly `m = len + 1 - limit` polls -/
theorem wait_loop {σ : List Nat} (hσ : σ.Nodup) {limit : Nat} (hl : 0 < limit) :
    ∀ (m : Nat) (s : St) (r : Nat), FInv σ s r → s.procs.length + 1 - limit = m →
      (∀ j, r ≤ j → j < r + m → ∃ a, σ[j]? = some a ∧ a < s.started) →
      ∃ procs', waitBelow .list (fun _ => 0) limit s.procs s.sched
          = .done procs' (sing (σ.drop (r + m))) ∧
        FInv σ { s with procs := procs', sched := sing (σ.drop (r + m)) } (r + m) ∧
        procs'.length + m = s.procs.length
  | 0, s, r, inv, hm, _ => by
    have hlt : s.procs.length < limit := by omega
    refine ⟨s.procs, ?_, ?_, rfl⟩
    · rw [inv.sched]
      cases hd : sing (σ.drop r) with
      | nil => simp [waitBelow, hlt]
      | cons q rest => simp [waitBelow, hlt]
    · exact ⟨by simp, inv.mem, inv.nodup, inv.len⟩
  | m + 1, s, r, inv, hm, hstarted => by
    have hge : ¬ s.procs.length < limit := by omega
    obtain ⟨a, ha, hst⟩ := hstarted r (Nat.le_refl _) (by omega)
    have hdrop : σ.drop r = a :: σ.drop (r + 1) := by
      have hr : r < σ.length := (List.getElem?_eq_some_iff.1 ha).1
      rw [List.drop_eq_getElem_cons hr, (List.getElem?_eq_some_iff.1 ha).2]
    obtain ⟨hw, inv1, hlen1⟩ := poll_step hσ inv ha hst
    have ih := wait_loop hσ hl m
      { s with procs := s.procs.filter (fun e => e.2 != a), sched := sing (σ.drop (r + 1)) }
      (r + 1) inv1 (by simp only; omega)
      (by
        intro j hj1 hj2
        exact hstarted j (by omega) (by omega))
    obtain ⟨procs', hwb, inv', hlen'⟩ := ih
    refine ⟨procs', ?_, ?_, ?_⟩
    · rw [inv.sched, hdrop]
      simp only [sing, List.map_cons, waitBelow, hge, if_false, hw]
      have : r + 1 + m = r + (m + 1) := by omega
      rw [← this]
      exact hwb
    · have : r + 1 + m = r + (m + 1) := by omega
      rw [← this]
      exact inv'
    · simp only at hlen'
      omega

/-- the environment of the completeness run: `n` items, `p` slots, every worker
exits with code 0 -/
def fenv (n p : Nat) : Env := { nItems := n, nProc := p, keyOf := id, exit := fun _ => 0 }

theorem start_inv {σ : List Nat} {p : Nat} (hp : 0 < p) (hw : Window p σ) {s : St} {i : Nat}
    (inv : FInv σ s (i + 1 - p)) (hst : s.started = i) :
    FInv σ { s with started := i + 1, procs := s.procs ++ [(i, i)] } (i + 1 - p) := by
  have hnot : i ∉ σ.take (i + 1 - p) := by
    intro hm
    obtain ⟨j, hj⟩ := List.mem_iff_getElem?.1 hm
    rw [List.getElem?_take] at hj
    by_cases hjr : j < i + 1 - p
    · simp only [hjr, if_true] at hj
      have := hw j i hj
      omega
    · simp [hjr] at hj
  refine ⟨inv.sched, ?_, ?_, ?_⟩
  · intro e
    simp only [List.mem_append, List.mem_singleton, inv.mem e, hst]
    constructor
    · rintro (⟨h1, h2, h3⟩ | rfl)
      · exact ⟨h1, by omega, h3⟩
      · exact ⟨rfl, by simp, hnot⟩
    · rintro ⟨h1, h2, h3⟩
      by_cases he : e.2 = i
      · right
        obtain ⟨a, b⟩ := e
        simp only at h1 he
        subst h1 he
        rfl
      · left; exact ⟨h1, by omega, h3⟩
  · simp only [List.map_append, List.map_cons, List.map_nil]
    rw [List.nodup_append]
    refine ⟨inv.nodup, by simp, ?_⟩
    intro a ha b hb
    simp only [List.mem_singleton] at hb
    subst hb
    obtain ⟨e, he, rfl⟩ := List.mem_map.1 ha
    have := ((inv.mem e).1 he).2.1
    omega
  · simp only [List.length_append, List.length_singleton]
    have := inv.len
    omega

theorem dispatch_ok {σ : List Nat} {n p : Nat} (hσ : σ.Nodup) (hlen : σ.length = n) (hp : 0 < p)
    (hw : Window p σ) :
    ∀ (d i : Nat) (s : St), i + d = n → FInv σ s (i + 1 - p) → s.started = i →
      ∃ s', execDispatch .list (fenv n p) [.start true, .pollWhileFull] d s = .ok s' ∧
        FInv σ s' (n + 1 - p) ∧ s'.started = n
  | 0, i, s, hid, inv, hst => by
    have : i = n := by omega
    subst this
    exact ⟨s, rfl, inv, hst⟩
  | d + 1, i, s, hid, inv, hst => by
    have hin : i < n := by omega
    have inv1 := start_inv hp hw inv hst
    -- the poll after the start
    have hm : ∃ m, (s.procs ++ [(i, i)]).length + 1 - p = m ∧ (i + 1 - p) + m = i + 2 - p := by
      refine ⟨_, rfl, ?_⟩
      have := inv.len
      simp only [List.length_append, List.length_singleton]
      omega
    obtain ⟨m, hm1, hm2⟩ := hm
    obtain ⟨procs', hwb, inv2, _⟩ := wait_loop hσ hp m
      { s with started := i + 1, procs := s.procs ++ [(i, i)] } (i + 1 - p) inv1 hm1
      (by
        intro j hj1 hj2
        have hjn : j < σ.length := by omega
        refine ⟨σ[j], List.getElem?_eq_getElem hjn, ?_⟩
        have := hw j σ[j] (List.getElem?_eq_getElem hjn)
        simp only
        omega)
    rw [hm2] at hwb inv2
    have ih := dispatch_ok hσ hlen hp hw d (i + 1)
      { s with started := i + 1, procs := procs', sched := sing (σ.drop (i + 2 - p)) }
      (by omega) (by simpa using inv2) rfl
    obtain ⟨s', hs', inv', hst'⟩ := ih
    refine ⟨s', ?_, inv', hst'⟩
    have hbody : execBody .list (fenv n p) [.start true, .pollWhileFull] s =
        .ok { s with started := i + 1, procs := procs', sched := sing (σ.drop (i + 2 - p)) } := by
      simp only [execBody, execLoopStmt, if_true, fenv, register, hst, id]
      simp only at hwb
      rw [hwb]
    simp only [execDispatch, hbody]
    exact hs'

/-- **completeness of `feasibleOrder` w.r.t. the machine**: if every `k`-th
completion is among the first `k + nProc` workers, the poll loop fed with the
exit codes one at a time in that order returns normally (so it has seen the
workers complete in exactly that order) -/
theorem machine_produces {σ : List Nat} {n p : Nat} (hperm : σ.Perm (List.range n)) (hp : 0 < p)
    (hw : Window p σ) :
    (pollLoop .list n p id (sing σ) (fun _ => 0)).outcome = .ok := by
  have hσ : σ.Nodup := hperm.symm.nodup List.nodup_range
  have hlen : σ.length = n := by simpa using hperm.length_eq
  have inv0 : FInv σ ({ sched := sing σ } : St) (0 + 1 - p) := by
    have : 0 + 1 - p = 0 := by omega
    rw [this]
    exact ⟨by simp, by intro e; simp, by simp, rfl⟩
  obtain ⟨s1, hd, inv1, hst1⟩ := dispatch_ok hσ hlen hp hw n 0 { sched := sing σ } (by omega) inv0 rfl
  -- the drain
  obtain ⟨procs', hwb, _, hl'⟩ := wait_loop hσ (limit := 1) (by decide) s1.procs.length s1
    (n + 1 - p) inv1 (by omega)
    (by
      intro j _ hj2
      have hjn : j < σ.length := by
        have := inv1.len
        omega
      refine ⟨σ[j], List.getElem?_eq_getElem hjn, ?_⟩
      have : σ[j] ∈ List.range n := hperm.subset (List.getElem_mem hjn)
      rw [hst1]
      simpa using this)
  have hd' : execDispatch .list { nItems := n, nProc := p, keyOf := id, exit := fun _ => 0 }
      [.start true, .pollWhileFull] n { sched := sing σ } = .ok s1 := hd
  simp only [pollLoop, canonicalProg, exec, execStmt, hd', hwb, Res.outcome]

/-! ### Part 3: every order the machine accepts is in the window

If the poll loop, shown the exit codes one worker at a time in the order `σ`,
returns normally, then every `k`-th completion was among the first `k + nProc`
workers: a reveal of a worker that is not in the container is lost (the worker
is never shown again), so a normal return means that no reveal was lost. -/

/-- state of an arbitrary run after `c` polls -/
structure SInv (σ : List Nat) (p : Nat) (s : St) (c : Nat) : Prop where
  sched : s.sched = sing (σ.drop c)
  shape : ∀ e ∈ s.procs, e.1 = e.2 ∧ e.2 < s.started
  nodup : (s.procs.map (·.2)).Nodup
  count : s.started ≤ s.procs.length + c
  seen : ∀ w, w < s.started → (w, w) ∈ s.procs ∨ w ∈ σ.take c
  past : ∀ (j a : Nat), j < c → σ[j]? = some a → a < j + p ∨ (a, a) ∈ s.procs ∨ s.started ≤ a

theorem length_filter_ne_ge (l : Procs) (hn : (l.map (·.2)).Nodup) (a : Nat) :
    l.length ≤ (l.filter (fun x => x.2 != a)).length + 1 := by
  by_cases ha : a ∈ l.map (·.2)
  · have := length_filter_ne l hn a ha
    omega
  · have hall : l.filter (fun y => y.2 != a) = l := by
      rw [List.filter_eq_self]
      intro y hy
      have : y.2 ≠ a := fun h => ha (h ▸ List.mem_map.mpr ⟨y, hy, rfl⟩)
      simpa using this
    rw [hall]
    omega

/-- one poll of an arbitrary run -/
theorem spoll_step {σ : List Nat} (hσ : σ.Nodup) {p : Nat} {s : St} {c a : Nat}
    (inv : SInv σ p s c) (ha : σ[c]? = some a) (hlen : s.procs.length ≤ p) :
    winnow .list (fun _ => 0) [a] s.procs = .ok (s.procs.filter (fun e => e.2 != a)) ∧
    SInv σ p { s with procs := s.procs.filter (fun e => e.2 != a), sched := sing (σ.drop (c + 1)) }
      (c + 1) := by
  have hw := winnow_zero (kind := .list) (exit := fun _ => 0) [a] s.procs (fun _ _ => rfl)
  have hfe : s.procs.filter (fun e => (view (fun _ => 0) [a] e.2).isNone)
      = s.procs.filter (fun e => e.2 != a) := by
    apply List.filter_congr
    intro e _
    exact view_singleton_isNone _ a e.2
  rw [hfe] at hw
  have hnt := not_mem_take_of_getElem? hσ ha
  have htake : σ.take (c + 1) = σ.take c ++ [a] := by
    rw [List.take_succ, ha]; rfl
  refine ⟨hw, ⟨rfl, ?_, ?_, ?_, ?_, ?_⟩⟩
  · intro e he
    exact inv.shape e (List.mem_filter.1 he).1
  · exact inv.nodup.sublist ((List.filter_sublist).map _)
  · have h1 := length_filter_ne_ge s.procs inv.nodup a
    have h2 := inv.count
    simp only
    omega
  · intro w hw'
    rw [htake]
    by_cases hwa : w = a
    · right; simp [hwa]
    · rcases inv.seen w hw' with h | h
      · left
        exact List.mem_filter.2 ⟨h, by simpa using hwa⟩
      · right; exact List.mem_append_left _ h
  · intro j b hj hb
    by_cases hjc : j = c
    · subst hjc
      rw [ha] at hb
      cases hb
      -- the worker revealed by this very poll
      by_cases hst : a < s.started
      · rcases inv.seen a hst with h | h
        · left
          have := inv.count
          omega
        · exact absurd h hnt
      · right; right; simp only; omega
    · have hjc' : j < c := by omega
      rcases inv.past j b hjc' hb with h | h | h
      · exact Or.inl h
      · right; left
        have hba : b ≠ a := by
          intro hba
          subst hba
          have hjl : j < σ.length := (List.getElem?_eq_some_iff.1 hb).1
          have := (List.getElem?_inj hjl hσ).1 (hb.trans ha.symm)
          omega
        exact List.mem_filter.2 ⟨h, by simpa using hba⟩
      · exact Or.inr (Or.inr h)

theorem swait {σ : List Nat} (hσ : σ.Nodup) {p limit : Nat} :
    ∀ (sched : List Poll) (s : St) (c : Nat), s.sched = sched → SInv σ p s c →
      s.procs.length ≤ p → ∀ procs' sched',
      waitBelow .list (fun _ => 0) limit s.procs s.sched = .done procs' sched' →
      procs'.length < limit ∧ procs'.length ≤ p ∧
        ∃ c', SInv σ p { s with procs := procs', sched := sched' } c'
  | [], s, c, hs, inv, hlen, procs', sched', h => by
    rw [hs] at h
    simp only [waitBelow] at h
    by_cases hl : s.procs.length < limit
    · simp only [hl, if_true, WaitRes.done.injEq] at h
      obtain ⟨rfl, rfl⟩ := h
      refine ⟨hl, hlen, c, ?_⟩
      exact ⟨by rw [← hs]; exact inv.sched, inv.shape, inv.nodup, inv.count, inv.seen, inv.past⟩
    · simp [hl] at h
  | poll :: rest, s, c, hs, inv, hlen, procs', sched', h => by
    rw [hs] at h
    simp only [waitBelow] at h
    by_cases hl : s.procs.length < limit
    · simp only [hl, if_true, WaitRes.done.injEq] at h
      obtain ⟨rfl, rfl⟩ := h
      refine ⟨hl, hlen, c, ?_⟩
      exact ⟨by rw [← hs]; exact inv.sched, inv.shape, inv.nodup, inv.count, inv.seen, inv.past⟩
    · simp only [hl, if_false] at h
      -- the poll is the next entry of `sing σ`
      have hsd : sing (σ.drop c) = poll :: rest := by rw [← inv.sched, hs]
      have hc : c < σ.length := by
        rcases Nat.lt_or_ge c σ.length with h1 | h1
        · exact h1
        · rw [List.drop_eq_nil_of_le h1] at hsd; cases hsd
      rw [List.drop_eq_getElem_cons hc] at hsd
      simp only [sing, List.map_cons, List.cons.injEq] at hsd
      obtain ⟨rfl, hrest⟩ := hsd
      have ha : σ[c]? = some σ[c] := List.getElem?_eq_getElem hc
      obtain ⟨hw, inv1⟩ := spoll_step hσ inv ha hlen
      rw [hw] at h
      simp only at h
      have hlen1 : (s.procs.filter (fun e => e.2 != σ[c])).length ≤ p :=
        Nat.le_trans (List.length_filter_le _ _) hlen
      have := swait hσ rest
        { s with procs := s.procs.filter (fun e => e.2 != σ[c]), sched := sing (σ.drop (c + 1)) }
        (c + 1) (by simp only [sing]; exact hrest) inv1 hlen1 procs' sched'
        (by simp only [sing]; rw [hrest]; exact h)
      exact this

theorem sdispatch {σ : List Nat} (hσ : σ.Nodup) {n p : Nat} :
    ∀ (d : Nat) (s : St) (c : Nat), SInv σ p s c → s.procs.length < p → ∀ s',
      execDispatch .list (fenv n p) [.start true, .pollWhileFull] d s = .ok s' →
      s'.procs.length < p ∧ ∃ c', SInv σ p s' c'
  | 0, s, c, inv, hlen, s', h => by
    simp only [execDispatch, Res.ok.injEq] at h
    subst h
    exact ⟨hlen, c, inv⟩
  | d + 1, s, c, inv, hlen, s', h => by
    simp only [execDispatch] at h
    cases hb : execBody .list (fenv n p) [.start true, .pollWhileFull] s with
    | failed code s1 => simp [hb] at h
    | spin s1 => simp [hb] at h
    | ok s2 =>
      rw [hb] at h
      simp only at h
      -- the start
      have inv1 : SInv σ p
          { s with started := s.started + 1, procs := s.procs ++ [(s.started, s.started)] } c := by
        refine ⟨inv.sched, ?_, ?_, ?_, ?_, ?_⟩
        · intro e he
          simp only [List.mem_append, List.mem_singleton] at he
          rcases he with he | rfl
          · have := inv.shape e he
            exact ⟨this.1, by simp only; omega⟩
          · exact ⟨rfl, by simp⟩
        · simp only [List.map_append, List.map_cons, List.map_nil]
          rw [List.nodup_append]
          refine ⟨inv.nodup, by simp, ?_⟩
          intro a ha b hb'
          simp only [List.mem_singleton] at hb'
          subst hb'
          obtain ⟨e, he, rfl⟩ := List.mem_map.1 ha
          have := (inv.shape e he).2
          omega
        · simp only [List.length_append, List.length_singleton]
          have := inv.count
          omega
        · intro w hw'
          simp only at hw'
          by_cases hws : w = s.started
          · left; subst hws; simp
          · rcases inv.seen w (by omega) with h1 | h1
            · left; exact List.mem_append_left _ h1
            · right; exact h1
        · intro j a hj ha
          rcases inv.past j a hj ha with h1 | h1 | h1
          · exact Or.inl h1
          · right; left; exact List.mem_append_left _ h1
          · by_cases hws : a = s.started
            · right; left; subst hws; simp
            · right; right; simp only; omega
      simp only [execBody, execLoopStmt, if_true, fenv, register, id] at hb
      cases hw : waitBelow .list (fun _ => 0) p (s.procs ++ [(s.started, s.started)]) s.sched with
      | failed code => simp [hw] at hb
      | spin => simp [hw] at hb
      | done procs' sched' =>
        rw [hw] at hb
        simp only [Res.ok.injEq] at hb
        subst hb
        have hl1 : (s.procs ++ [(s.started, s.started)]).length ≤ p := by
          simp only [List.length_append, List.length_singleton]; omega
        obtain ⟨hlt, _, c', inv2⟩ := swait hσ s.sched
          { s with started := s.started + 1, procs := s.procs ++ [(s.started, s.started)] } c rfl
          inv1 hl1 procs' sched' hw
        exact sdispatch hσ d _ c' inv2 hlt s' h

/-- **soundness of `feasibleOrder` w.r.t. the machine**: if the poll loop, shown
the exit codes one worker at a time in the order `σ` (a permutation of the
workers), returns normally, then `σ` is in the window -/
theorem machine_accepts_window {σ : List Nat} {n p : Nat} (hperm : σ.Perm (List.range n))
    (hp : 0 < p) {s : St} (h : pollLoop .list n p id (sing σ) (fun _ => 0) = .ok s) :
    Window p σ := by
  have hσ : σ.Nodup := hperm.symm.nodup List.nodup_range
  have hstarted := pollLoop_ok_started h
  have inv0 : SInv σ p ({ sched := sing σ } : St) 0 := by
    refine ⟨?_, ?_, ?_, ?_, ?_, ?_⟩
    · simp
    · intro e he; cases he
    · simp
    · simp
    · intro w hw; cases hw
    · intro j a hj; cases hj
  simp only [pollLoop, canonicalProg, exec, execStmt] at h
  cases hd : execDispatch .list { nItems := n, nProc := p, keyOf := id, exit := fun _ => 0 }
      [.start true, .pollWhileFull] n { sched := sing σ } with
  | failed c s1 => simp [hd] at h
  | spin s1 => simp [hd] at h
  | ok s1 =>
    rw [hd] at h
    simp only at h
    obtain ⟨hlt, c1, inv1⟩ := sdispatch hσ (n := n) (p := p) n { sched := sing σ } 0 inv0
      (by simpa using hp) s1 hd
    cases hw : waitBelow .list (fun _ => 0) 1 s1.procs s1.sched with
    | failed c => simp [hw] at h
    | spin => simp [hw] at h
    | done procs' sched' =>
      rw [hw] at h
      simp only [Res.ok.injEq] at h
      subst h
      obtain ⟨hl1, _, c', inv'⟩ := swait hσ s1.sched s1 c1 rfl inv1 (Nat.le_of_lt hlt) procs'
        sched' hw
      have hnil : procs' = [] := by
        cases procs' with
        | nil => rfl
        | cons x xs => simp at hl1
      subst hnil
      simp only at hstarted
      intro k w hk
      have hkn : k < n := by
        have := (List.getElem?_eq_some_iff.1 hk).1
        have hl : σ.length = n := by simpa using hperm.length_eq
        omega
      have hwn : w < n := by
        have : w ∈ List.range n := hperm.subset (List.mem_of_getElem? hk)
        simpa using this
      have hc := inv'.count
      simp only [List.length_nil, Nat.zero_add] at hc
      rcases inv'.past k w (by omega) hk with h1 | h1 | h1
      · exact h1
      · cases h1
      · simp only at h1; omega

end CTM.Procs

namespace CTM.Procs

/-! ### the enumeration `permutations` is complete -/

theorem mem_insertEverywhere {α} (x : α) (a b : List α) :
    a ++ x :: b ∈ insertEverywhere x (a ++ b) := by
  induction a with
  | nil =>
    cases b with
    | nil => simp [insertEverywhere]
    | cons y r => simp [insertEverywhere]
  | cons y a ih =>
    simp only [List.cons_append, insertEverywhere, List.mem_cons, List.mem_map]
    right
    exact ⟨_, ih, rfl⟩

theorem mem_permutations_of_perm {α} : ∀ (l o : List α), o.Perm l → o ∈ permutations l
  | [], o, h => by
    have : o = [] := List.perm_nil.mp h
    subst this
    simp [permutations]
  | x :: r, o, h => by
    have hx : x ∈ o := h.symm.subset (by simp)
    obtain ⟨a, b, rfl⟩ := List.append_of_mem hx
    have hab : (a ++ b).Perm r := by
      have h1 : (a ++ x :: b).Perm (x :: (a ++ b)) := List.perm_middle
      exact (List.Perm.cons_inv (h1.symm.trans h))
    simp only [permutations, List.mem_flatMap]
    exact ⟨a ++ b, mem_permutations_of_perm r (a ++ b) hab, mem_insertEverywhere x a b⟩

theorem mem_completionOrders_iff {n p : Nat} {σ : List Nat} :
    σ ∈ completionOrders n p ↔ σ.Perm (List.range n) ∧ feasibleOrder p σ = true := by
  simp only [completionOrders, List.mem_filter]
  constructor
  · rintro ⟨h1, h2⟩
    exact ⟨permutations_perm _ σ h1, h2⟩
  · rintro ⟨h1, h2⟩
    exact ⟨mem_permutations_of_perm _ σ h1, h2⟩

end CTM.Procs
