/-
  C03 × C01 × C15 — the confidence fields, from `choose_node` to the records of
  the pipeline output.

  `Props/C03.lean` states the arithmetic contract about group C's model of
  `choose_node` / the post-loops / `backfill_assignments` for ONE cell, with the
  vote arithmetic interpreted.  Group D's model of the mapping loop
  (`Model/LevelLoop.lean`) keeps the vote as an uninterpreted oracle.  Here:

   * the per-node result of `Election.chooseCell`, turned into an oracle answer
     (`OutBridge.voteOfChoice`), returns a child of the parent (`VoteOK`) and
     satisfies `PayloadOK` — so `OutBridge.outInv_of_pipeline` and the
     theorems of `Props/C15/Bridge.lean` apply to the interpreted oracle;
   * the record-level clauses of C03 (directly assigned levels carry runner-up
     lists of equal length ≤ the requested number; inferred levels repeat the
     numbers of the level below without runner-up fields and are flagged
     `directly_assigned = False`) hold for EVERY record of EVERY successful
     pipeline run (plain, flatten, drop_level, any chunking / gather order).
-/
import CTM.Lemmas.OutBridge
import CTM.Props.C03

namespace CTM.C03
open CTM CTM.LevelLoop CTM.OutBridge

/-- "name distinct siblings of the winner under the same parent": the winner
itself is one of the `reference_types`, i.e. (when these are children of the
parent) a child of the parent — group D's `VoteOK` for the interpreted vote -/
theorem chooseCell_winner_mem (types votes : List Nat) (corr : List Rat) (iters nAssign : Nat)
    (order : List Nat) (ch : Election.Choice)
    (hlen : votes.length = types.length)
    (hv : Election.ValidOrder (Election.columns types votes corr).1 order)
    (h : Election.chooseCell types votes corr iters nAssign order = .ok ch) :
    ch.winner ∈ types := by
  obtain ⟨w, hw, hwin, _⟩ := Election.chooseCols_winner hv h
  rw [← Election.columns_types_mem types votes corr, hwin]
  have hw' : w < (Election.columns types votes corr).2.2.length := by
    rw [Election.columns_length types votes corr hlen]; exact hw
  have hget : (Election.columns types votes corr).2.2.getD w 0 =
      (Election.columns types votes corr).2.2[w] := by simp [hw']
  rw [hget]
  exact List.getElem_mem hw'

example : (Election.chooseCell [7, 5, 9] [2, 3, 1] [1, 2, 1 / 2] 6 3 [1, 0, 2]).toOption.map
    (·.winner) = some 5 := by decide +kernel

/-- "the runner-up lists have equal length not exceeding the requested number,
name distinct siblings of the winner under the same parent": the answer
`choose_node` gives for one cell satisfies the payload contract the bridge to
the serialisers needs (`PayloadOKVote`, requested number = `nAssign - 1`):
correlation present, at most `nAssign - 1` valid runner-up tuples, all of them
children of the parent (`kids` ⊇ the reference types). -/
theorem chooseCell_payloadOK (types votes : List Nat) (corr : List Rat) (iters nAssign : Nat)
    (order : List Nat) (ch : Election.Choice) (kids : List Node)
    (hlen : votes.length = types.length)
    (hv : Election.ValidOrder (Election.columns types votes corr).1 order)
    (htypes : ∀ a ∈ types, a ∈ kids)
    (h : Election.chooseCell types votes corr iters nAssign order = .ok ch) :
    PayloadOKVote (nAssign - 1) kids (voteOfChoice ch) := by
  obtain ⟨_, _, h3, _, _, h6, _, _⟩ := runners types votes corr iters nAssign order ch hlen hv h
  refine ⟨rfl, ?_⟩
  intro r hr
  simp only [voteOfChoice, Option.some.injEq] at hr
  subst hr
  refine ⟨?_, ?_⟩
  · simp only [Election.keepRunners, List.length_map] at h3
    simpa [List.filter_map, Function.comp_def] using h3
  · intro x hx hval
    simp only [List.mem_map] at hx
    obtain ⟨r0, hr0, rfl⟩ := hx
    apply htypes
    apply h6
    simp only [Election.keepRunners, List.mem_map, List.mem_filter]
    exact ⟨r0, ⟨hr0, hval⟩, rfl⟩

example : PayloadOKVote 2 [5, 7, 9] (voteOfChoice
    ⟨5, 1 / 2, 2 / 3, [⟨7, true, 1 / 2, 1 / 3⟩, ⟨9, true, 1 / 2, 1 / 6⟩]⟩) :=
  chooseCell_payloadOK [7, 5, 9] [2, 3, 1] [1, 2, 1 / 2] 6 3 [1, 0, 2] _ [5, 7, 9] rfl
    (by decide +kernel) (by decide) (by decide +kernel)

/-- an oracle every answer of which is some result of `choose_node` on
reference types that are children of the parent asked about (any tally, any
iteration count, any tie order) satisfies both hypotheses of the pipeline
theorems: `VoteOK` (C01 / C06 / C17) and `PayloadOK` (C15 bridge), with
`n_runners_up = n_assignments - 1` -/
theorem interpreted_oracle_ok {κ} (t : RawTree) (vote : Oracle κ) (nAssign : Nat)
    (h : ∀ (p : Parent) (cl : Level) (kids : List Node) (c : κ), 2 ≤ kids.length →
      ∃ types votes corr iters order ch,
        votes.length = types.length ∧
        Election.ValidOrder (Election.columns types votes corr).1 order ∧
        (∀ a ∈ types, a ∈ kids) ∧
        Election.chooseCell types votes corr iters nAssign order = .ok ch ∧
        vote p (kidsOf t cl kids) c = voteOfChoice ch) :
    VoteOK t vote ∧ PayloadOK (nAssign - 1) t vote := by
  refine ⟨?_, ?_⟩
  · intro p cl kids c hk
    obtain ⟨types, votes, corr, iters, order, ch, hlen, hv, htypes, hch, heq⟩ := h p cl kids c hk
    rw [heq]
    exact htypes _ (chooseCell_winner_mem types votes corr iters nAssign order ch hlen hv hch)
  · intro p cl kids c hk
    obtain ⟨types, votes, corr, iters, order, ch, hlen, hv, htypes, hch, heq⟩ := h p cl kids c hk
    rw [heq]
    exact chooseCell_payloadOK types votes corr iters nAssign order ch kids hlen hv htypes hch

/-- the hypothesis of `interpreted_oracle_ok` is satisfiable: an oracle that
answers with a `choose_node` result whatever it is asked (3 iterations, all
votes on the first child) -/
example : ∀ (p : Parent) (cl : Level) (kids : List Node) (c : Nat), 2 ≤ kids.length →
    ∃ types votes corr iters order ch,
      votes.length = types.length ∧
      Election.ValidOrder (Election.columns types votes corr).1 order ∧
      (∀ a ∈ types, a ∈ kids) ∧
      Election.chooseCell types votes corr iters 1 order = .ok ch ∧
      (fun (_ : Parent) (ks : List (Node × List Node)) (_ : Nat) =>
        voteOfChoice ⟨((ks.head?).map (·.1)).getD 0, 1, 1, []⟩) p (kidsOf exTree cl kids) c =
        voteOfChoice ch := by
  intro p cl kids c hk
  match kids, hk with
  | a :: b :: rest, _ =>
    refine ⟨[a], [3], [3], 3, [0], ⟨a, 1, 1, []⟩, rfl, ?_, by simp, ?_, by simp [kidsOf]⟩
    · simp [Election.ValidOrder, Election.columns, Election.hasDupTypes, Election.uniqSorted,
        Election.insertUniq]
    simp [Election.chooseCell, Election.columns, Election.hasDupTypes, Election.uniqSorted,
      Election.insertUniq, Election.chooseCols]

/-- "a parent with a single child yields probability 1 with no runners-up ...
and inferred levels repeat the numbers of the voted descendant without
runner-up fields" / "at every directly assigned level ... the runner-up lists
have equal length not exceeding the requested number" — as facts about EVERY
record of EVERY successful run of the whole pipeline (stored tree `t0`, run
tree `t` after `drop_level` / `flatten`, any chunking, worker count and gather
order).  For each record and each level `l` of the stored hierarchy the dict
exists, names a node of level `l`, has `avg_correlation` and
`aggregate_probability` present, and
 * if the run voted on `l`: `directly_assigned = True` and the three
   runner-up lists are present, of equal length ≤ `nR`, naming nodes of `l`;
 * otherwise: `directly_assigned = False` and the runner-up keys are absent;
and every level the run did not vote on is the copy of the dict of the level
right below it — same probability, correlation and aggregate probability —
with the parent (in the stored tree) of that level's assignment. -/
theorem pipeline_record_clauses {κ} (t0 t : RawTree) (cfg : Config) (vote : Oracle κ) (nR : Nat)
    (ids : List CellId) (cells : List κ) (order : List Nat)
    (hwf0 : wfb t0 = true) (hrun : runTree t0 cfg = .ok t)
    (hv : VoteOK t vote) (hpay : PayloadOK nR t vote) (hch : hasChoice t = true)
    (hlen : ids.length = cells.length) (hnd : ids.Nodup)
    (hproc : 1 ≤ cfg.nProc) (hcs : 1 ≤ cfg.chunkSize)
    (horder : order.Perm (List.range
      (chunks cells.length (effChunk cells.length cfg.nProc cfg.chunkSize)).length))
    (out : List Record) (hout : mapPipeline t0 cfg vote ids cells order = .ok out) :
    ∀ o ∈ out,
      (∀ l ∈ t0.hierarchy, ∃ e, o.levels.lookup l = some e ∧
        e.assignment ∈ t0.nodesAt l ∧ e.corr.isSome = true ∧ e.agg.isSome = true ∧
        (l ∈ t.hierarchy → e.direct = some true ∧
          ∃ ra rc rp, e.ru = some (ra, rc, rp) ∧ ra.length = rc.length ∧
            ra.length = rp.length ∧ ra.length ≤ nR ∧ ∀ a ∈ ra, a ∈ t0.nodesAt l) ∧
        (l ∉ t.hierarchy → e.direct = some false ∧ e.ru = none)) ∧
      (∀ cp ∈ pairsOf t0.hierarchy.reverse, cp.2 ∉ t.hierarchy →
        ∃ ec pn, o.levels.lookup cp.1 = some ec ∧
          t0.childToParent cp.1 ec.assignment = some pn ∧
          o.levels.lookup cp.2 =
            some { ec with assignment := pn, ru := none, direct := some false }) := by
  have rt := runTreeOK_of_runTree hwf0 hrun
  obtain ⟨_, hrec⟩ := pipeline_records t0 t cfg vote ids cells order hrun rt.wf hv hlen hnd
    hproc hcs horder out hout
  intro o ho
  obtain ⟨id, c, hc⟩ := hrec o ho
  refine ⟨?_, ?_⟩
  · intro l hl
    obtain ⟨e, he, hg⟩ := (cellResult_good rt hv hpay hch id c o hc).2 l hl
    refine ⟨e, he, hg.node, hg.corr, hg.agg, ?_, ?_⟩
    · intro hm
      have hcont : t.hierarchy.contains l = true := List.contains_iff_mem.mpr hm
      rw [hcont] at hg
      exact ⟨hg.direct, hg.voted rfl⟩
    · intro hm
      have hcont : t.hierarchy.contains l = false := by
        cases hb : t.hierarchy.contains l with
        | false => rfl
        | true => exact absurd (List.contains_iff_mem.mp hb) hm
      rw [hcont] at hg
      exact ⟨hg.direct, hg.inferred rfl⟩
  · exact (cellResult_levels rt hv id c o hc).2.2

/-- a flattened run of the example taxonomy: levels 0 and 1 are inferred, they
repeat the numbers of the leaf level and have no runner-up fields -/
example : ((mapPipeline exTree { flatten := true } (exVoteP 2) [7] [1] [0]).toOption.getD []).flatMap
    (fun r => r.levels.map
      (fun le => ((le.1 : Nat), (le.2.assignment : Nat), le.2.prob, le.2.ru.isSome, le.2.direct))) =
    [(2, 31, 1 / 2, true, some true), (1, 21, 1 / 2, false, some false),
      (0, 10, 1 / 2, false, some false)] := by decide +kernel

/-- **every record of the pipeline output is group C's model applied to the
votes along the cell's walk.**  For each record `o` of a successful run there
are the cell's raw per-level votes `raw` (one per level of the run's tree: the
oracle's answer, or the constants of the single-child branch) such that
 * the flagged walk — which `o` keeps unchanged at every level the run voted
   on — is `Election.finishCell` of `raw`: so *"the aggregate probability is
   the running product of the bootstrapping probabilities of the directly
   assigned levels from the top"* (`C03.aggregate`, `C03.finished_level`) and
   *"a parent with a single child yields probability 1 with no runners-up and
   the correlation of the nearest level where a real choice was made"*
   (`C03.single_child`) hold for it verbatim;
 * `o` is `Election.inferLevels` of the flagged walk with the parents of the
   stored tree: so *"inferred levels repeat the numbers of the voted
   descendant without runner-up fields"* (`C03.inferred`) holds for it. -/
theorem pipeline_record_is_election_model {κ} (t0 t : RawTree) (cfg : Config) (vote : Oracle κ)
    (nR : Nat) (ids : List CellId) (cells : List κ) (order : List Nat)
    (hwf0 : wfb t0 = true) (hrun : runTree t0 cfg = .ok t)
    (hv : VoteOK t vote) (hpay : PayloadOK nR t vote)
    (hlen : ids.length = cells.length) (hnd : ids.Nodup)
    (hproc : 1 ≤ cfg.nProc) (hcs : 1 ≤ cfg.chunkSize)
    (horder : order.Perm (List.range
      (chunks cells.length (effChunk cells.length cfg.nProc cfg.chunkSize)).length))
    (out : List Record) (hout : mapPipeline t0 cfg vote ids cells order = .ok out) :
    ∀ o ∈ out, ∃ (c : κ) (raw : List (Level × Entry)) (flagged : Record),
      walkFrom t vote c t.hierarchy none = .ok raw ∧
      raw.map (·.1) = t.hierarchy ∧ flagged.levels.map (·.1) = t.hierarchy ∧
      flagged.levels.map (fun le => toElectionOut le.2) =
        Election.finishCell (raw.map (fun le => toElectionRec le.2)) ∧
      (∀ l ∈ t.hierarchy, o.levels.lookup l = flagged.levels.lookup l) ∧
      Election.inferLevels t0.childToParent t0.hierarchy (toElectionCell flagged) =
        .ok (toElectionCell o) := by
  have rt := runTreeOK_of_runTree hwf0 hrun
  obtain ⟨_, hrec⟩ := pipeline_records t0 t cfg vote ids cells order hrun rt.wf hv hlen hnd
    hproc hcs horder out hout
  intro o ho
  obtain ⟨id, c, hc⟩ := hrec o ho
  obtain ⟨raw, h1, h2, h3, h4, h5⟩ := cellResult_election rt hv hpay id c o hc
  exact ⟨c, raw, _, h1, h2, h3, h4, (cellResult_levels rt hv id c o hc).2.1, h5⟩

example : ∀ o ∈ (List.zipWith (mkRecord exTree (exVoteP 1)) [7, 3, 9] [0, 1, 2]).map
      (markDirect exTree.hierarchy),
    ∃ (c : Nat) (raw : List (Level × Entry)) (flagged : Record),
      walkFrom exTree (exVoteP 1) c exTree.hierarchy none = .ok raw ∧
      raw.map (·.1) = exTree.hierarchy ∧ flagged.levels.map (·.1) = exTree.hierarchy ∧
      flagged.levels.map (fun le => toElectionOut le.2) =
        Election.finishCell (raw.map (fun le => toElectionRec le.2)) ∧
      (∀ l ∈ exTree.hierarchy, o.levels.lookup l = flagged.levels.lookup l) ∧
      Election.inferLevels exTree.childToParent exTree.hierarchy (toElectionCell flagged) =
        .ok (toElectionCell o) :=
  pipeline_record_is_election_model exTree exTree { chunkSize := 2, nProc := 2 } (exVoteP 1) 1
    [7, 3, 9] [0, 1, 2] [1, 0] exTree_wf rfl (exVoteP_ok _ _) (exVoteP_payload _ _) rfl
    (by decide) (by decide) (by decide) (by decide) _
    (by
      have := mapPipeline_plain_ok exTree { chunkSize := 2, nProc := 2 } (exVoteP 1) [7, 3, 9]
        [0, 1, 2] [1, 0] rfl rfl exTree_wf (exVoteP_ok _ _) rfl (by decide) (by decide)
        (by decide) (by decide)
      exact this)

/-- "a parent with a single child yields probability 1 with no runners-up":
what the level loop records at such a parent — the hypotheses `hp`, `hc`, `hr`
of `C03.single_child`, here read off group D's model of the loop -/
theorem single_child_vote {κ} (t : RawTree) (vote : Oracle κ) (p : Parent) (cl : Level)
    (only : Node) (c : κ) :
    entryOf (voteFn t vote p cl [only] c) =
      { assignment := only, prob := 1, corr := none, ru := some ([], [], []) } ∧
    (toElectionRec (entryOf (voteFn t vote p cl [only] c))).prob = 1 ∧
    (toElectionRec (entryOf (voteFn t vote p cl [only] c))).avgCorr = none ∧
    (toElectionRec (entryOf (voteFn t vote p cl [only] c))).runnerAssignment = [] ∧
    (toElectionRec (entryOf (voteFn t vote p cl [only] c))).runnerCorrelation = [] ∧
    (toElectionRec (entryOf (voteFn t vote p cl [only] c))).runnerProbability = [] :=
  ⟨rfl, rfl, rfl, rfl, rfl, rfl⟩

example : (entryOf (voteFn exTree (exVoteP 1) (some (1, 20)) 2 [30] 0)).prob = 1 :=
  (congrArg Entry.prob (single_child_vote exTree (exVoteP 1) (some (1, 20)) 2 30 0).1)

/-- "the aggregate probability is the running product of the bootstrapping
probabilities of the directly assigned levels from the top" — on group D's
loop: after the post-loops the `aggregate_probability` entries of a cell are
the running products of the `bootstrapping_probability` entries the level loop
wrote, top level first (through `finishCell_agree` and `C03.aggregate`) -/
theorem aggregate_running_product (es : List (Level × Entry))
    (h : ∀ le ∈ es, le.2.ru.isSome = true) :
    (LevelLoop.finishCell es).map (fun le => le.2.agg) =
      (Election.runningProduct 1 (es.map (fun le => le.2.prob))).map some := by
  have h1 := congrArg (List.map (·.aggregate)) (finishCell_agree es h)
  rw [aggregate, List.map_map, List.map_map] at h1
  have h2 : ∀ le ∈ LevelLoop.finishCell es, le.2.agg = some (le.2.agg.getD 0) := by
    intro le hle
    have := finishCell_agg es le hle
    cases hagg : le.2.agg with
    | none => rw [hagg] at this; cases this
    | some a => rfl
  have h3 : (LevelLoop.finishCell es).map (fun le => le.2.agg) =
      ((LevelLoop.finishCell es).map (fun le => le.2.agg.getD 0)).map some := by
    rw [List.map_map]
    exact List.map_congr_left h2
  rw [h3]
  exact congrArg (List.map some) h1

example : (LevelLoop.finishCell [(0, ⟨1, 1 / 2, some (1 / 3), some ([], [], []), none, none⟩),
    (1, ⟨2, 1 / 2, none, some ([], [], []), none, none⟩)]).map (fun le => le.2.agg) =
    [some (1 / 2), some (1 / 4)] := by decide +kernel

end CTM.C03
