/-
  C03 × C01 — the arithmetic contract for EVERY record of the composed pipeline
  (`mapPipeline` with the interpreted oracle `Compose.electionVote`).
-/
import CTM.Lemmas.Compose

namespace CTM.C03
open CTM CTM.LevelLoop CTM.OutBridge CTM.Election CTM.Numeric CTM.Compose

/-- one level of a walk, as C03 sees it: under a single-child parent
"probability 1 with no runners-up" and no correlation of its own; otherwise
the whole contract of a voted level (`NodeContract`) -/
def StepContract (P : ElectionParams) (t : RawTree) (c : List Rat) (p : Parent) (l : Level)
    (e : Entry) : Prop :=
  ∃ kids, Asked t p l kids ∧
    ((∃ only, kids = [only] ∧
        e = { assignment := only, prob := 1, corr := none, ru := some ([], [], []) }) ∨
     (2 ≤ kids.length ∧
        NodeContract P.nAssign (P.subsets p c).length (kidsOf t l kids) e))

/-- the contract of one voted level, from the model of `choose_node`:
"the bootstrapping probability is a whole number of votes out of the iteration
count and lies in (0,1]; the runner-up lists have equal length not exceeding
the requested number, name distinct siblings of the winner under the same
parent, carry strictly positive probabilities in non-increasing order none
larger than the winner's, and winner plus runners-up sum to at most 1 (exactly 1
when all siblings could be listed). Correlations lie in [-1,1]" -/
theorem node_contract (P : ElectionParams) (htie : TieOK P) (hcorr : CorrOK P) (p : Parent)
    (kl : List (Node × List Node)) (x : List Rat) (hnr : NoRaise P p kl x) :
    NodeContract P.nAssign (P.subsets p x).length kl (entryOf (electionVote P p kl x)) :=
  nodeRecompute_contract P hcorr p kl x _ (electionVote_nodeRecompute P htie p kl x hnr)

/-- **All clauses of C03 for every record of the composed pipeline.**  Stored
tree `t0` well-formed, `t` the run's tree (any `drop_level` / `flatten`), any
chunking, worker count and gather order; any drawn subsets and tie orders; the
reported per-iteration correlations in [-1,1] (`CorrOK`); no Python `raise` on
the questions asked.  Every record `o` has a raw walk `raw` down the run's tree
with
 1. every step satisfying `StepContract`: single child ⇒ probability 1, no
    runners-up; real choice ⇒ `NodeContract` (prob_whole, runners, sum_le_one,
    correlation range), the winner and the runners-up being children of the
    parent the walk had reached;
 2. at every directly assigned level `raw[k].1` the record holds the step's
    assignment, probability and runner-up lists; its correlation is the step's
    own, else that of the nearest voted level above, else below ("a parent
    with a single child yields ... the correlation of the nearest level where a
    real choice was made"); "the aggregate probability is the running product
    of the bootstrapping probabilities of the directly assigned levels from the
    top"; `directly_assigned = True`;
 3. "inferred levels repeat the numbers of the voted descendant without
    runner-up fields": every stored level the run did not vote on holds the copy
    of the dict of the level right below it, with that node's parent in the
    stored tree, no runner-up keys, `directly_assigned = False`. -/
theorem pipeline_contract (t0 t : RawTree) (cfg : Config) (P : ElectionParams)
    (ids : List CellId) (cells : List (List Rat)) (order : List Nat)
    (hwf0 : wfb t0 = true) (hrun : runTree t0 cfg = .ok t)
    (htie : TieOK P) (hcorr : CorrOK P) (hnr : NoRaiseAll P t)
    (hlen : ids.length = cells.length) (hnd : ids.Nodup)
    (hproc : 1 ≤ cfg.nProc) (hcs : 1 ≤ cfg.chunkSize)
    (horder : order.Perm (List.range
      (chunks cells.length (effChunk cells.length cfg.nProc cfg.chunkSize)).length))
    (out : List Record)
    (hout : mapPipeline t0 cfg (electionVote P) ids cells order = .ok out) :
    ∀ o ∈ out, ∃ (c : List Rat) (raw : List (Level × Entry)),
      c ∈ cells ∧ raw.map (·.1) = t.hierarchy ∧
      Linked (StepContract P t c) none raw ∧
      (∀ (k : Nat) (hk : k < raw.length), ∃ e, o.levels.lookup raw[k].1 = some e ∧
        e.assignment = raw[k].2.assignment ∧ e.prob = raw[k].2.prob ∧ e.ru = raw[k].2.ru ∧
        e.corr = (raw[k].2.corr.or (corrAbove (raw.map (fun le => toElectionRec le.2)) k)).or
          (corrBelow (raw.map (fun le => toElectionRec le.2)) k) ∧
        e.agg.getD 0 = ((raw.map (fun le => le.2.prob)).take (k + 1)).prod ∧
        e.direct.getD false = true) ∧
      (∀ cp ∈ pairsOf t0.hierarchy.reverse, cp.2 ∉ t.hierarchy →
        ∃ ec pn, o.levels.lookup cp.1 = some ec ∧
          t0.childToParent cp.1 ec.assignment = some pn ∧
          o.levels.lookup cp.2 =
            some { ec with assignment := pn, ru := none, direct := some false }) := by
  have rt := runTreeOK_of_runTree hwf0 hrun
  obtain ⟨hv, hpay⟩ := electionVote_ok t P htie
  have hrec := pipeline_records_idx t0 t cfg (electionVote P) ids cells order hrun rt.wf hv hlen
    hnd hproc hcs horder out hout
  intro o ho
  obtain ⟨i, id, c, _, hi2, hc, _⟩ := hrec o ho
  obtain ⟨raw, h1, h2, h3, h4, _⟩ := cellResult_election rt hv hpay id c o hc
  have hlv := cellResult_levels rt hv id c o hc
  obtain ⟨_, hlinked⟩ := walk_stepOK P htie rt.wf hnr c raw h1
  have hnd' := wfb_nodup_hierarchy rt.wf
  have hru : ∀ le ∈ raw, le.2.ru.isSome = true := by
    obtain ⟨hraw, _⟩ := walkFrom_raw rt.wf hv hpay c t.hierarchy [] none (by simp)
      (Or.inl ⟨rfl, rfl⟩) raw h1
    intro le hle
    obtain ⟨_, ra, rc, rp, hr, _⟩ := hraw le hle
    rw [hr]; rfl
  refine ⟨c, raw, List.mem_of_getElem? hi2, h2, ?_, ?_, hlv.2.2⟩
  · refine Linked.imp ?_ none raw hlinked
    rintro p l e ⟨kids, hask, hcase⟩
    refine ⟨kids, hask, ?_⟩
    rcases hcase with hs | ⟨h2k, hnode⟩
    · exact Or.inl hs
    · exact Or.inr ⟨h2k, nodeRecompute_contract P hcorr p _ c e hnode⟩
  · intro k hk
    obtain ⟨e, he, ha, hp, hr, _, hg, hd⟩ :=
      record_level_of_raw hnd' o _ raw h2 h3 h4 hlv.2.1 k hk
    obtain ⟨e', he', hc'⟩ := record_level_corr hnd' o _ raw h2 h3 h4 hlv.2.1 k hk
    rw [he] at he'
    cases he'
    exact ⟨e, he, ha, hp, hr (hru _ (List.getElem_mem hk)), hc', hg, hd⟩

/-- non-vacuity: the example taxonomy with the parameters `exP` -/
example := pipeline_contract exTree exTree { chunkSize := 1, nProc := 2 } exP [7, 3]
  [[2, 4, 1], [2, 9, 2]] [1, 0] exTree_wf rfl exP_tie (fun _ _ _ _ => by simp only [exP]; rw [abs_of_pos (by norm_num)]; norm_num)
  exP_noRaise rfl (by decide) (by decide) (by decide) (by decide) _
  (mapPipeline_plain_ok exTree { chunkSize := 1, nProc := 2 } (electionVote exP) [7, 3]
    [[2, 4, 1], [2, 9, 2]] [1, 0] rfl rfl exTree_wf (electionVote_ok exTree exP exP_tie).1 rfl
    (by decide) (by decide) (by decide) (by decide))

/-- a flattened run of the composed model: levels 0 and 1 are inferred from the
leaf level, which was voted among the three leaves with one runner-up kept -/
example : ((mapPipeline exTree { flatten := true } (electionVote exP) [3] [[2, 9, 2]]
      [0]).toOption.getD []).flatMap
    (fun r => r.levels.map (fun le =>
      ((le.1 : Nat), (le.2.assignment : Nat), le.2.prob, le.2.ru.isSome, le.2.direct))) =
    [(2, 30, 1 / 2, true, some true), (1, 20, 1 / 2, false, some false),
     (0, 10, 1 / 2, false, some false)] := by decide +kernel

end CTM.C03
