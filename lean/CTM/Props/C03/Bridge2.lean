/-
  C03 × C01 × C10 — `Props/C03/Compose.lean` with the tree validator's
  acceptance of the STORED taxonomy as the only hypothesis on the taxonomy.

  `pipeline_contract` takes `wfb t0` and `NoRaiseAll P t` (run tree).  Both are
  discharged from `t0.validate = .ok ()` + `DictOK t0` (`Bridge.wfb_of_validate`,
  `Bridge.WF_runTree`, `Compose.noRaiseAll_of_validate`); what remains of
  `NoRaiseAll` is about the parameters only.
-/
import CTM.Props.C03.Compose
import CTM.Lemmas.ComposeWF

namespace CTM.C03
open CTM CTM.LevelLoop CTM.OutBridge CTM.Election CTM.Numeric CTM.Compose CTM.Bridge

/-- **All clauses of C03 for every record of the composed pipeline**, on every
taxonomy the tree validator accepts: "the bootstrapping probability is a whole
number of votes out of the iteration count and lies in (0,1]; the runner-up
lists ...; a parent with a single child yields probability 1 with no runners-up
and the correlation of the nearest level where a real choice was made; the
aggregate probability is the running product ...; inferred levels repeat the
numbers of the voted descendant without runner-up fields" — any `drop_level` /
`flatten` whose run tree `t` exists, any chunking, worker count and gather
order, any drawn subsets (≥ 1 iteration, indices into the node's gene list) and
tie orders, reported correlations in [-1,1]. -/
theorem pipeline_contract_of_validate (t0 t : RawTree) (cfg : Config) (P : ElectionParams)
    (ids : List CellId) (cells : List (List Rat)) (order : List Nat)
    (hval : t0.validate = .ok ()) (hd : RawTree.DictOK t0) (hrun : runTree t0 cfg = .ok t)
    (htie : TieOK P) (hcorr : CorrOK P)
    (hiters : ∀ p x, P.subsets p x ≠ [])
    (hrange : ∀ p x, ∀ s ∈ P.subsets p x, ∀ i ∈ s,
      i < (P.qcols p).length ∧ i < (P.rcols p).length)
    (hA : 1 ≤ P.nAssign)
    (hlen : ids.length = cells.length) (hnd : ids.Nodup)
    (hproc : 1 ≤ cfg.nProc) (hcs : 1 ≤ cfg.chunkSize)
    (horder : order.Perm (List.range
      (chunks cells.length (effChunk cells.length cfg.nProc cfg.chunkSize)).length))
    (out : List Record)
    (hout : mapPipeline t0 cfg (electionVote P) ids cells order = .ok out) :
    ∀ o ∈ out, ∃ (c : List Rat) (raw : List (Level × Entry)),
      c ∈ cells ∧ raw.map (·.1) = t.hierarchy ∧
      Linked (StepContract P t c) none raw ∧
      (∀ (k : Nat) (hk : k < raw.length), ∃ e, o.levels.lookup raw[k].1 = some e ∧
        e.assignment = raw[k].2.assignment ∧ e.prob = raw[k].2.prob ∧ e.ru = raw[k].2.ru ∧
        e.corr = (raw[k].2.corr.or (corrAbove (raw.map (fun le => toElectionRec le.2)) k)).or
          (corrBelow (raw.map (fun le => toElectionRec le.2)) k) ∧
        e.agg.getD 0 = ((raw.map (fun le => le.2.prob)).take (k + 1)).prod ∧
        e.direct.getD false = true) ∧
      (∀ cp ∈ pairsOf t0.hierarchy.reverse, cp.2 ∉ t.hierarchy →
        ∃ ec pn, o.levels.lookup cp.1 = some ec ∧
          t0.childToParent cp.1 ec.assignment = some pn ∧
          o.levels.lookup cp.2 =
            some { ec with assignment := pn, ru := none, direct := some false }) := by
  have w := WF_runTree (RawTree.WF.of_validate hval hd) hrun
  exact pipeline_contract t0 t cfg P ids cells order (wfb_of_validate hval hd) hrun htie hcorr
    (noRaiseAll_of_validate P w.valid w.hNodup hiters hrange hA)
    hlen hnd hproc hcs horder out hout

/-- non-vacuity: the example taxonomy (accepted by the validator) with the
parameters `exP` -/
example := pipeline_contract_of_validate exTree exTree { chunkSize := 1, nProc := 2 } exP [7, 3]
  [[2, 4, 1], [2, 9, 2]] [1, 0] (by decide) (RawTree.dictOK_of_b (by decide)) rfl exP_tie
  (fun _ _ _ _ => by simp only [exP]; rw [abs_of_pos (by norm_num)]; norm_num)
  (fun _ _ => by simp [exP])
  (by
    intro p x s hs i hi
    simp only [exP, List.mem_cons, List.not_mem_nil, or_false] at hs
    rcases hs with rfl | rfl <;> simp at hi <;> simp [exP] <;> omega)
  (by simp [exP]) rfl (by decide) (by decide) (by decide) (by decide) _
  (mapPipeline_plain_ok exTree { chunkSize := 1, nProc := 2 } (electionVote exP) [7, 3]
    [[2, 4, 1], [2, 9, 2]] [1, 0] rfl rfl exTree_wf (electionVote_ok exTree exP exP_tie).1 rfl
    (by decide) (by decide) (by decide) (by decide))

end CTM.C03
