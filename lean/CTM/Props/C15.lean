import CTM.Model.Output
namespace CTM.C15
theorem placeholder_true : True := trivial
end CTM.C15
