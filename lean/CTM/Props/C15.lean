/-
  C15 — JSON, CSV and HDF5 outputs tell the same story and round-trip.

  Theorems about the model `CTM/Model/Output.lean` (which mirrors
  `utils/output_utils.py`, `cli/from_specified_markers.py`,
  `taxonomy_tree.py: to_str / label_to_name / level_to_name`).  The tie to the
  Python code is the correspondence suite `harness/props/c15.py`.
-/
import CTM.Model.Output
import CTM.Lemmas.Output
import CTM.Lemmas.OutputFmt
import CTM.Lemmas.OutputClean

namespace CTM.C15
open CTM.Output

/-! ## sample values used by the non-vacuity examples -/

/-- two levels (10 ⊃ 11), leaf level 11 with nodes 3, 4; node 3 has a name and
an alias, level 10 has a readable name -/
def sampleTree : Tree :=
  { hierarchy := [10, 11],
    levels := [(10, [(1, [3]), (2, [4])]), (11, [(3, [100, 101]), (4, [102])])],
    nameMapper := some [(11, [(3, ⟨some 30, some 31⟩)])],
    hierarchyMapper := some [(10, 20)] }

def sampleRec (cid : Nat) (a b : NodeId) (runner : List NodeId) : Record :=
  { cellId := cid,
    levels := [
      (10, { assignment := a, prob := .val 1, corr := .val (-1), agg := .val 1, direct := false,
             runAsg := none, runProb := none, runCorr := none }),
      (11, { assignment := b, prob := .val 3, corr := .nan, agg := .val 3, direct := true,
             runAsg := some runner, runProb := some (runner.map (fun _ => .val 0)),
             runCorr := some (runner.map (fun _ => .val 2)) })] }

/-- two cells; level 10 inferred, level 11 directly assigned with 1 resp. 0
runners-up out of 2 requested -/
def sampleBlob : Blob :=
  { tree := sampleTree, nRunners := 2,
    results := [sampleRec 50 1 3 [4], sampleRec 51 2 4 []] }

/-- a one-leaf taxonomy: no correlation was computed (`avg_correlation` is `null`) -/
def nullLevel : LevelRec :=
  { assignment := 5, prob := .val 1, corr := .null, agg := .val 1, direct := true,
    runAsg := some [], runProb := some [], runCorr := some [] }

def nullBlob : Blob :=
  { tree := { hierarchy := [1], levels := [(1, [(5, [])])], nameMapper := none,
              hierarchyMapper := none },
    nRunners := 0,
    results := [{ cellId := 0, levels := [(1, nullLevel)] }] }

/-! ## HDF5 -/

/-- *"Writing the result to HDF5 and reading it back reproduces every cell id,
assignment, probability, correlation, runner-up list and directly-assigned
flag of the JSON output."*

For every output satisfying `OutInv` (≥ 1 cell; distinct level names; every
record has exactly the levels of the hierarchy; each assignment and runner-up
is a node of its level; numbers are not JSON `null`; on directly assigned
levels the three runner-up lists are present with equal length ≤
`n_runners_up`, on inferred levels they are absent; the flag is uniform per
level), `blob_to_hdf5` succeeds and `hdf5_to_blob` returns exactly the blob:
all fields of all records, in order.  No bound on cells, levels, nodes or
runners-up. -/
theorem h5_roundtrip (b : Blob) (hinv : outInv b = true) :
    ∃ h, toH5 b = .ok h ∧ ofH5 h = .ok b :=
  ofH5_toH5 b hinv

example : outInv sampleBlob = true := by decide
example : (toH5 sampleBlob).toOption.bind (fun h => (ofH5 h).toOption) = some sampleBlob := by
  decide

/-- field-wise reading of `h5_roundtrip`: the blob read back has the same
cell ids in the same order and, for every cell and level, the same record
(`assignment`, `bootstrapping_probability`, `avg_correlation`,
`aggregate_probability`, `directly_assigned`, the three `runner_up_*` lists) -/
theorem h5_roundtrip_fields (b : Blob) (hinv : outInv b = true) :
    ∃ h b', toH5 b = .ok h ∧ ofH5 h = .ok b' ∧
      b'.results.map (·.cellId) = b.results.map (·.cellId) ∧
      b'.results.map (·.levels) = b.results.map (·.levels) ∧
      b'.tree = b.tree ∧ b'.nRunners = b.nRunners := by
  obtain ⟨h, h1, h2⟩ := ofH5_toH5 b hinv
  exact ⟨h, b, h1, h2, rfl, rfl, rfl, rfl⟩

example : ∃ r ∈ sampleBlob.results, ∃ e ∈ r.levels, e.2.runAsg = some [4] := by decide

/-- *"fixed-width runner-up arrays padded with −1"* (mechanism of the
property): for **any** blob that `blob_to_hdf5` accepts, the datasets are
rectangular — one row per cell, one column per level, and (iff
`n_runners_up > 0`) runner-up rows of exactly `n_runners_up` entries -/
theorem h5_shapes (b : Blob) (h : H5) (hh : toH5 b = .ok h) :
    h.cellId = b.results.map (·.cellId) ∧
    h.assignment.length = b.results.length ∧
    (∀ row ∈ h.assignment, row.length = b.tree.hierarchy.length) ∧
    (h.runners.isSome ↔ b.nRunners > 0) ∧
    (∀ r, h.runners = some r →
      ∀ cell ∈ r.asg, cell.length = b.tree.hierarchy.length ∧
        ∀ row ∈ cell, row.length = b.nRunners) := by
  obtain ⟨slots, hes, _, _, hc, ha, _, _, _, hrun⟩ := toH5_inv hh
  obtain ⟨hl, hg⟩ := encCells_good hes
  refine ⟨hc, by simp [ha, hl], ?_, ?_, ?_⟩
  · intro row hrow
    rw [ha] at hrow
    obtain ⟨row0, h0, rfl⟩ := List.mem_map.mp hrow
    simp [(hg row0 h0).1]
  · by_cases hn : b.nRunners > 0 <;> simp [hrun, hn]
  · intro r hr cell hcell
    by_cases hn : b.nRunners > 0
    · simp only [hrun, hn, if_true, Option.some.injEq] at hr
      subst hr
      obtain ⟨row0, h0, rfl⟩ := List.mem_map.mp hcell
      refine ⟨by simp [(hg row0 h0).1], ?_⟩
      intro row hrow
      obtain ⟨s, hs, rfl⟩ := List.mem_map.mp hrow
      exact ((hg row0 h0).2 s hs).2.2.2.1
    · simp [hrun, hn] at hr

example : ∃ h, toH5 sampleBlob = .ok h ∧ (h.runners.map (·.asg)) = some [[[-1, -1], [1, -1]], [[-1, -1], [-1, -1]]] := by
  exact ⟨_, rfl, by decide⟩

/-- the code as it is: `_blob_to_hdf5_results` stores `None` into a float64
array (it becomes `NaN`), so whatever blob was written, the probabilities
and correlations `hdf5_to_blob` returns are never JSON `null` … -/
theorem h5_never_null (b b' : Blob) (h : H5) (h1 : toH5 b = .ok h) (h2 : ofH5 h = .ok b') :
    ∀ r ∈ b'.results, ∀ e ∈ r.levels,
      e.2.prob ≠ .null ∧ e.2.corr ≠ .null ∧ e.2.agg ≠ .null := by
  intro r hr e he
  obtain ⟨g1, g2, g3⟩ := ofH5_toH5_numOK h1 h2 r hr e he
  refine ⟨?_, ?_, ?_⟩ <;> intro hn <;> simp [hn, numOK] at *

/-- … hence an output in which some `avg_correlation` (or probability) is
`null` — what the mapper produces for a taxonomy with a single leaf — is
**not** reproduced by the HDF5 round trip: the hypothesis "no `null`" of
`OutInv` in `h5_roundtrip` cannot be dropped (finding
`C15/pipeline/h5/avg_correlation/null-becomes-nan/single-leaf-taxonomy`) -/
theorem h5_null_not_reproduced (b : Blob) (r : Record) (e : Lvl × LevelRec)
    (hr : r ∈ b.results) (he : e ∈ r.levels)
    (hnull : e.2.prob = .null ∨ e.2.corr = .null ∨ e.2.agg = .null) :
    ∀ h, toH5 b = .ok h → ofH5 h ≠ .ok b := by
  intro h h1 h2
  obtain ⟨g1, g2, g3⟩ := h5_never_null b b h h1 h2 r hr e he
  rcases hnull with hn | hn | hn
  · exact g1 hn
  · exact g2 hn
  · exact g3 hn

example : (∃ r ∈ nullBlob.results, ∃ e ∈ r.levels, e.2.corr = .null) ∧
    ∃ h b', toH5 nullBlob = .ok h ∧ ofH5 h = .ok b' ∧ b' ≠ nullBlob :=
  ⟨by decide, _, _, rfl, rfl, by decide⟩

/-- converse of `h5_roundtrip` (the hypotheses are not an artefact): if the
HDF5 round trip reproduces a blob exactly, then no number in it is `null`,
every level record has the three runner-up lists with equal length ≤
`n_runners_up` when `directly_assigned` and none of them otherwise, and all
records carry the same levels with the same `directly_assigned` flags -/
theorem h5_roundtrip_only_if (b : Blob) (h : H5) (h1 : toH5 b = .ok h) (h2 : ofH5 h = .ok b) :
    (∀ r ∈ b.results, ∀ e ∈ r.levels,
      e.2.prob ≠ .null ∧ e.2.corr ≠ .null ∧ e.2.agg ≠ .null ∧ e.2.runnerShape b.nRunners) ∧
    (∀ r₁ ∈ b.results, ∀ r₂ ∈ b.results,
      r₁.levels.map (fun e => (e.1, e.2.direct)) = r₂.levels.map (fun e => (e.1, e.2.direct))) := by
  obtain ⟨hshape, hflags⟩ := ofH5_toH5_shape h1 h2
  constructor
  · intro r hr e he
    obtain ⟨g1, g2, g3⟩ := h5_never_null b b h h1 h2 r hr e he
    exact ⟨g1, g2, g3, hshape r hr e he⟩
  · intro r₁ hr₁ r₂ hr₂
    rw [hflags r₁ hr₁, hflags r₂ hr₂]

example : ∃ h, toH5 sampleBlob = .ok h ∧ ofH5 h = .ok sampleBlob := ⟨_, rfl, by decide⟩

/-- the three files tell the same story: the CSV written from the blob read
back from HDF5 is the CSV written from the JSON blob -/
theorem csv_after_h5 (b : Blob) (hinv : outInv b = true) (taint : List Lvl) (ck : ConfKey) :
    ∃ h b', toH5 b = .ok h ∧ ofH5 h = .ok b' ∧
      csvRows b'.tree taint ck b'.results = csvRows b.tree taint ck b.results ∧
      csvColumns b'.tree = csvColumns b.tree := by
  obtain ⟨h, h1, h2⟩ := ofH5_toH5 b hinv
  exact ⟨h, b, h1, h2, rfl, rfl⟩

/-! ## CSV -/

/-- *"The CSV output has one row per cell in query order whose label, name and
alias columns are the JSON assignments translated through the taxonomy's name
tables and whose confidence column is the JSON value to four decimals."*

If every record has every level of the hierarchy, `blob_to_csv` succeeds and
row `i` is, column by column, `cellSpec` of record `i`: `cell_id`; per level
the assignment (`label`), `label_to_name(.., 'name')`, at the leaf level only
`label_to_name(.., 'alias')`, and the number under the confidence key printed
with `%.4f`; and the header is the same column keys with level names made
readable. -/
theorem csv_rows (t : Tree) (taint : List Lvl) (ck : ConfKey) (rs : List Record)
    (h : ∀ r ∈ rs, ∀ l ∈ t.hierarchy, (r.levels.lookup l).isSome) :
    csvRows t taint ck rs = .ok (rs.map (fun r => (csvKeys t).map (cellSpec t taint ck r))) ∧
    csvColumns t = (csvKeys t).map (Option.map (fun (l, k) => (t.levelToName l, k))) :=
  ⟨csvRows_eq t taint ck rs h, csvColumns_eq t⟩

example : ∀ r ∈ sampleBlob.results, ∀ l ∈ sampleTree.hierarchy, (r.levels.lookup l).isSome := by
  decide
example : csvColumns sampleTree =
    [none, some (20, .label), some (20, .name), some (20, .conf),
     some (11, .label), some (11, .name), some (11, .alias), some (11, .conf)] := by
  decide

/-- the same under the invariant of `h5_roundtrip`: for every output
satisfying `OutInv` the CSV is written and is, row by row and column by column,
the specification -/
theorem csv_rows_outInv (b : Blob) (hinv : outInv b = true) (taint : List Lvl) (ck : ConfKey) :
    csvRows b.tree taint ck b.results =
      .ok (b.results.map (fun r => (csvKeys b.tree).map (cellSpec b.tree taint ck r))) := by
  apply csvRows_eq
  obtain ⟨t, nR, results⟩ := b
  cases results with
  | nil => simp [outInv] at hinv
  | cons first rest =>
    simp only [outInv, Bool.and_eq_true, List.all_eq_true, beq_iff_eq] at hinv
    obtain ⟨hnd, hall⟩ := hinv
    intro r hr l hl
    obtain ⟨hkeys, _⟩ := hall r hr
    rw [← hkeys] at hl hnd
    obtain ⟨e, he, rfl⟩ := List.mem_map.mp hl
    rw [lookup_of_nodupB hnd e he]
    rfl

example : (csvRows sampleBlob.tree [] (confidenceKey 10) sampleBlob.results).toOption.map
    (·.map (·.length)) = some [8, 8] := by decide +kernel

/-- one row per record, in the order of the records, each starting with the
record's cell id -/
theorem csv_one_row_per_record (t : Tree) (taint : List Lvl) (ck : ConfKey) (rs : List Record)
    (h : ∀ r ∈ rs, ∀ l ∈ t.hierarchy, (r.levels.lookup l).isSome) :
    ∃ rows, csvRows t taint ck rs = .ok rows ∧ rows.length = rs.length ∧
      rows.map (·.head?) = rs.map (fun r => some (Cell.str r.cellId)) := by
  refine ⟨_, csvRows_eq t taint ck rs h, by simp, ?_⟩
  simp [csvKeys, cellSpec, Function.comp_def]

/-- the label column is the JSON assignment; the name and alias columns are
the look-ups in `name_mapper`, which default to the label when the table, the
level, the node or the key is missing -/
theorem csv_label_name_alias (t : Tree) (taint : List Lvl) (ck : ConfKey) (r : Record)
    (l : Lvl) (lr : LevelRec) (h : r.levels.lookup l = some lr) :
    cellSpec t taint ck r (some (l, .label)) = .str lr.assignment ∧
    cellSpec t taint ck r (some (l, .name)) = .str (t.labelToName l lr.assignment .name) ∧
    cellSpec t taint ck r (some (l, .alias)) = .str (t.labelToName l lr.assignment .alias) ∧
    (t.nameMapper = none → t.labelToName l lr.assignment .name = lr.assignment ∧
      t.labelToName l lr.assignment .alias = lr.assignment) := by
  refine ⟨by simp [cellSpec, h], by simp [cellSpec, h], by simp [cellSpec, h], ?_⟩
  intro hn
  simp [Tree.labelToName, hn]

example : sampleTree.labelToName 11 3 .name = 30 ∧ sampleTree.labelToName 11 3 .alias = 31 ∧
    sampleTree.labelToName 11 4 .name = 4 ∧ sampleTree.labelToName 10 1 .name = 1 := by decide

/-- the alias column exists at the leaf level only -/
theorem csv_alias_leaf_only (t : Tree) (l : Lvl) :
    some (l, ColKind.alias) ∈ levelKeys t l ↔ some l = t.leafLevel := by
  by_cases h : some l = t.leafLevel <;> simp [levelKeys, h]

/-- *"… whose confidence column is the JSON value to four decimals
(bootstrapping probability, or correlation when a single iteration was
run)"*: when no readable level name contains `label` / `name` / `alias` /
`assignment` (`taint = []`), the confidence field of level `l` is
`'%.4f' %` the finite JSON number stored under `bootstrapping_probability`
(`bootstrap_iteration ≠ 1`) or `avg_correlation` (`bootstrap_iteration = 1`). -/
theorem csv_confidence (t : Tree) (iters : Nat) (r : Record) (l : Lvl) (lr : LevelRec)
    (h : r.levels.lookup l = some lr) :
    (iters ≠ 1 → ∀ q, lr.prob = .val q →
      cellSpec t [] (confidenceKey iters) r (some (l, .conf)) = .fixed4 (fmt4 q)) ∧
    (iters = 1 → ∀ q, lr.corr = .val q →
      cellSpec t [] (confidenceKey iters) r (some (l, .conf)) = .fixed4 (fmt4 q)) := by
  constructor
  · intro hi q hq
    simp [cellSpec, h, confidenceKey, hi, LevelRec.conf, hq, confCell]
  · intro hi q hq
    simp [cellSpec, h, confidenceKey, hi, LevelRec.conf, hq, confCell]

example : cellSpec sampleTree [] (confidenceKey 1) (sampleRec 50 1 3 [4]) (some (10, .conf))
    = .fixed4 (-1) := by decide +kernel

/-- the code as it is: in a level whose readable name contains `label`,
`name`, `alias` or `assignment` the confidence is *not* printed with `%.4f`
(pandas does not apply `float_format` to the categorical column) — the
hypothesis `taint = []` of `csv_confidence` cannot be dropped -/
theorem csv_confidence_tainted (t : Tree) (taint : List Lvl) (ck : ConfKey) (r : Record)
    (l : Lvl) (lr : LevelRec) (q : Rat) (h : r.levels.lookup l = some lr)
    (hq : lr.conf ck = .val q) (ht : l ∈ taint) :
    cellSpec t taint ck r (some (l, .conf)) = .raw q := by
  simp [cellSpec, h, hq, confCell, ht]

/-- the known finding, precisely delimited.  `blob_to_df` decides by SUBSTRINGS
of the column name which columns become pandas categories, and
`to_csv(float_format='%.4f')` leaves categorical columns alone; so for a finite
confidence `q` of a level `l` of the hierarchy

* the field is `'%.4f' % q`  ⇔  the column name `f"{readable}_{key}"` contains
  NONE of `label`, `name`, `alias`, `assignment`
  ⇔  the readable level name contains none of them (the suffixes
  `_bootstrapping_probability` / `_avg_correlation` contain none and a word
  cannot straddle the `_`);
* the field is the unformatted float  ⇔  the column name contains one of them;

and one of the two always holds.  The first direction is the property, the
second is the signature of the known finding
`C15/…/confidence-not-4-decimals/level-name-contains-label-name-alias`. -/
theorem csv_confidence_formatted_iff (t : Tree) (text : Lvl → String) (ck : ConfKey)
    (r : Record) (l : Lvl) (lr : LevelRec) (q : Rat)
    (hl : l ∈ t.hierarchy) (h : r.levels.lookup l = some lr) (hq : lr.conf ck = .val q) :
    (cellSpec t (taintOf text ck t.hierarchy) ck r (some (l, .conf)) = .fixed4 (fmt4 q) ↔
      ∀ w ∈ taintWords, strContains (dfConfColumn (text l) ck) w = false) ∧
    (cellSpec t (taintOf text ck t.hierarchy) ck r (some (l, .conf)) = .raw q ↔
      ∃ w ∈ taintWords, strContains (dfConfColumn (text l) ck) w = true) ∧
    ((∀ w ∈ taintWords, strContains (dfConfColumn (text l) ck) w = false) ↔
      ∀ w ∈ taintWords, strContains (text l) w = false) := by
  have hcell : cellSpec t (taintOf text ck t.hierarchy) ck r (some (l, .conf)) =
      confCell ((taintOf text ck t.hierarchy).contains l) (.val q) := by
    simp [cellSpec, h, hq]
  have hcat : colIsCategory (dfConfColumn (text l) ck) = true ↔
      ∃ w ∈ taintWords, strContains (dfConfColumn (text l) ck) w = true := by
    simp [colIsCategory, List.any_eq_true]
  have hnot : colIsCategory (dfConfColumn (text l) ck) = false ↔
      ∀ w ∈ taintWords, strContains (dfConfColumn (text l) ck) w = false := by
    rw [← Bool.not_eq_true, hcat]
    simp
  have hnot' : colIsCategory (dfConfColumn (text l) ck) = false ↔
      ∀ w ∈ taintWords, strContains (text l) w = false := by
    rw [colIsCategory_dfConfColumn, ← Bool.not_eq_true, List.any_eq_true]
    simp
  rw [hcell]
  cases hc : colIsCategory (dfConfColumn (text l) ck) with
  | false =>
    have ht : (taintOf text ck t.hierarchy).contains l = false := by
      rw [← Bool.not_eq_true, mem_taintOf]; simp [hc]
    rw [ht]
    have hv : confCell false (.val q) = .fixed4 (fmt4 q) := by simp [confCell]
    refine ⟨⟨fun _ => hnot.1 hc, fun _ => hv⟩, ⟨?_, ?_⟩, ⟨fun _ => hnot'.1 hc, fun _ => hnot.1 hc⟩⟩
    · intro hraw
      rw [hv] at hraw
      cases hraw
    · intro hex
      rw [← hcat, hc] at hex
      cases hex
  | true =>
    have ht : (taintOf text ck t.hierarchy).contains l = true := (mem_taintOf _ _ _ _).2 ⟨hl, hc⟩
    rw [ht]
    have hv : confCell true (.val q) = .raw q := by simp [confCell]
    refine ⟨⟨?_, ?_⟩, ⟨fun _ => hcat.1 hc, fun _ => hv⟩, ?_⟩
    · intro hfix
      rw [hv] at hfix
      cases hfix
    · intro hall
      rw [← hnot, hc] at hall
      cases hall
    · rw [← hnot, ← hnot']

example : colIsCategory (dfConfColumn "class_label" .bootstrappingProbability) = true ∧
    colIsCategory (dfConfColumn "class" .bootstrappingProbability) = false ∧
    colIsCategory (dfConfColumn "my assignment" .avgCorrelation) = true ∧
    strContains "subclass_name" "name" = true ∧ strContains "nam_e" "name" = false := by decide

/-- *"… preceded by comment lines naming the JSON file, the hierarchy …"*:
the comment block carries the metadata file name and the hierarchy; the
readable hierarchy line is present exactly when some level has a different
readable name, and then lists the readable names -/
theorem csv_comments (t : Tree) (m : Option StrId) (f : Option Bool) :
    (csvComments t m f).metadata = m ∧
    (csvComments t m f).hierarchy = t.hierarchy ∧
    (csvComments t m f).algorithmIsCorrelation = f ∧
    ((csvComments t m f).readable = none ↔ t.hierarchy.map t.levelToName = t.hierarchy) ∧
    (∀ r, (csvComments t m f).readable = some r → r = t.hierarchy.map t.levelToName) := by
  refine ⟨rfl, rfl, rfl, ?_, ?_⟩
  · by_cases h : t.hierarchy.map t.levelToName = t.hierarchy <;> simp [csvComments, h]
  · intro r hr
    by_cases h : t.hierarchy.map t.levelToName = t.hierarchy
    · simp [csvComments, h] at hr
    · simp only [csvComments, ne_eq, h, not_false_eq_true, if_true, Option.some.injEq] at hr
      exact hr.symm

example : (csvComments sampleTree (some 7) (some false)).readable = some [20, 11] := by decide

/-! ## `%.4f` -/

/-- `'%.4f'` prints a multiple of 10⁻⁴ -/
theorem fmt4_grid (x : Rat) : ∃ n : Int, fmt4 x = (n : Rat) / 10000 :=
  ⟨roundHalfEven (x * 10000), rfl⟩

/-- *"to four decimals"*: the printed value differs from the exact binary
value by at most half a unit of the fourth decimal -/
theorem fmt4_error (x : Rat) : |fmt4 x - x| ≤ 1 / 20000 := by
  have h := rhe_error (x * 10000)
  unfold fmt4
  rw [abs_le]
  constructor <;> linarith [h.1, h.2]

/-- no four-decimal number is closer to `x` than the one printed -/
theorem fmt4_nearest (x : Rat) (n : Int) : |fmt4 x - x| ≤ |(n : Rat) / 10000 - x| := by
  have h := rhe_nearest (x * 10000) n
  have e1 : fmt4 x - x = (((roundHalfEven (x * 10000) : Int) : Rat) - x * 10000) / 10000 := by
    unfold fmt4; ring
  have e2 : (n : Rat) / 10000 - x = ((n : Rat) - x * 10000) / 10000 := by ring
  rw [e1, e2, abs_div, abs_div]
  exact div_le_div_of_nonneg_right h (abs_nonneg _)

/-- printing is monotone: a larger confidence never prints smaller -/
theorem fmt4_mono {x y : Rat} (h : x ≤ y) : fmt4 x ≤ fmt4 y := by
  have h1 : x * 10000 ≤ y * 10000 := by linarith
  have h2 := rhe_mono h1
  have h3 : ((roundHalfEven (x * 10000) : Int) : Rat) ≤ ((roundHalfEven (y * 10000) : Int) : Rat) := by
    exact_mod_cast h2
  unfold fmt4
  exact div_le_div_of_nonneg_right h3 (by norm_num)

/-- a number that already has four decimals is printed unchanged; printing is
idempotent -/
theorem fmt4_exact (n : Int) : fmt4 ((n : Rat) / 10000) = (n : Rat) / 10000 := by
  unfold fmt4
  have : (n : Rat) / 10000 * 10000 = (n : Rat) := by ring
  rw [this, rhe_intCast]

theorem fmt4_idem (x : Rat) : fmt4 (fmt4 x) = fmt4 x := by
  obtain ⟨n, hn⟩ := fmt4_grid x
  rw [hn, fmt4_exact]

/-- ties go to the even digit: if the exact value is `k·10⁻⁴ + ½·10⁻⁴` the
printed value is `k·10⁻⁴` or `(k+1)·10⁻⁴`, whichever has an even last digit
(`0.03125 ↦ 0.0312`, `0.09375 ↦ 0.0938`) -/
theorem fmt4_tie_even (x : Rat) (k : Int) (h : x * 10000 = (k : Rat) + 1 / 2) :
    ∃ n : Int, fmt4 x = (n : Rat) / 10000 ∧ n % 2 = 0 ∧ (n = k ∨ n = k + 1) :=
  ⟨roundHalfEven (x * 10000), rfl, rhe_tie_even _ k h⟩

example : fmt4 (1 / 32) = 312 / 10000 ∧ fmt4 (3 / 32) = 938 / 10000 := by decide +kernel
example : fmt4Str (1 / 32) = "0.0312" ∧ fmt4Str (-1 / 100000) = "-0.0000" := by decide +kernel

/-! ## the embedded taxonomy -/

/-- *"The taxonomy embedded in the output reconstructs the input taxonomy
without its cell lists"*: whatever `drop_level` / `flatten` say, the embedded
tree is the input tree with every leaf's cell list emptied — same hierarchy,
same name tables, same nodes (in the same order) at every level, same children
at every non-leaf level, `[]` under every leaf -/
theorem tree_embedded (t : Tree) (dropLevel : Option Lvl) (flatten : Bool) :
    let e := embeddedTree t dropLevel flatten
    e = t.dropCells ∧
    e.hierarchy = t.hierarchy ∧ e.nameMapper = t.nameMapper ∧
    e.hierarchyMapper = t.hierarchyMapper ∧
    (∀ l, e.nodesAt l = t.nodesAt l) ∧
    (∀ l, some l ≠ t.leafLevel → e.levels.lookup l = t.levels.lookup l) ∧
    (∀ l m, some l = t.leafLevel → e.levels.lookup l = some m →
      ∀ nv ∈ m, nv.2 = []) := by
  refine ⟨rfl, rfl, rfl, rfl, dropCells_nodesAt t, ?_, ?_⟩
  · intro l hl
    show t.dropCells.levels.lookup l = _
    rw [dropCells_lookup]
    cases t.levels.lookup l <;> simp [dropLevelCells, hl]
  · intro l m hl hm nv hnv
    have : t.dropCells.levels.lookup l = some m := hm
    rw [dropCells_lookup] at this
    cases hx : t.levels.lookup l with
    | none => simp [hx] at this
    | some m0 =>
      simp only [hx, Option.map_some, dropLevelCells, hl, if_true, Option.some.injEq] at this
      subst this
      obtain ⟨x, _, rfl⟩ := List.mem_map.mp hnv
      rfl

example : (embeddedTree sampleTree (some 10) true).levels =
    [(10, [(1, [3]), (2, [4])]), (11, [(3, []), (4, [])])] := by decide

/-- the node ↔ integer tables of the HDF5 file and the CSV name look-ups are
the same whether they are computed from the embedded tree or from the input
tree (they never look at cell lists) -/
theorem tree_embedded_lookups (t : Tree) (l : Lvl) (n : NodeId) (k : NameKey) :
    t.dropCells.nodesAt l = t.nodesAt l ∧
    t.dropCells.labelToName l n k = t.labelToName l n k ∧
    t.dropCells.levelToName l = t.levelToName l ∧
    t.dropCells.leafLevel = t.leafLevel :=
  ⟨dropCells_nodesAt t l, rfl, rfl, rfl⟩

/-- dropping the cells twice is dropping them once -/
theorem dropCells_idem (t : Tree) : t.dropCells.dropCells = t.dropCells := by
  have hl : t.dropCells.leafLevel = t.leafLevel := rfl
  cases t with
  | mk hier levels nm hm =>
    simp only [Tree.dropCells, Tree.leafLevel, List.map_map, Tree.mk.injEq, and_true, true_and]
    apply List.map_congr_left
    intro kv _
    obtain ⟨k, v⟩ := kv
    by_cases h : some k = hier.getLast? <;> simp [Function.comp_def, h]

/-! ## cells in query order -/

/-- *"one row per cell in query order"*: `re_order_blob` returns, for every
cell id of the query file in turn, a record of the results with that id — so
the JSON records (and with `csv_one_row_per_record` the CSV rows) are in query
order, one per query cell -/
theorem reorder_query_order (rs : List Record) (order : List StrId)
    (h : ∀ c ∈ order, c ∈ rs.map (·.cellId)) :
    ∃ rs', reorder rs order = .ok rs' ∧ rs'.map (·.cellId) = order ∧ ∀ r ∈ rs', r ∈ rs :=
  reorder_ok rs order h

example : ∃ rs', reorder sampleBlob.results [51, 50] = .ok rs' ∧ rs'.map (·.cellId) = [51, 50] :=
  ⟨_, rfl, rfl⟩

/-- … and when the cell ids of the results are distinct and the query lists
each of them once, nothing is lost or duplicated: the output is a permutation
of the results (the one that puts them in query order) -/
theorem reorder_permutation (rs : List Record) (order : List StrId)
    (hids : (rs.map (·.cellId)).Nodup) (hord : order.Nodup)
    (h1 : ∀ c ∈ order, c ∈ rs.map (·.cellId)) (h2 : ∀ r ∈ rs, r.cellId ∈ order) :
    ∃ rs', reorder rs order = .ok rs' ∧ rs'.map (·.cellId) = order ∧ rs'.Perm rs := by
  obtain ⟨rs', e1, e2, e3⟩ := reorder_ok rs order h1
  exact ⟨rs', e1, e2, reorder_perm rs rs' order hids hord h2 e2 e3⟩

example : (sampleBlob.results.map (·.cellId)).Nodup ∧ [51, 50].Nodup := by decide

/-! ## `clean_for_json` -/

/-- mechanism *"numpy scalars and sets converted before JSON encoding"*: if
every leaf is `None`, a `bool`, `np.bool_`, `int`, `np.int64`, `float` or `str`,
the cleaned value is made of `None`, `bool`, `int`, `float`, `str`, `list`,
`dict` only (no numpy scalar, tuple, set or array is left at any depth) -/
theorem clean_for_json_plain (v : PyVal) (h : noOther v = true) : plain (clean v) = true :=
  clean_plain v h

/-- … the JSON value it stands for is unchanged (only Python types change; a
set stands for the sorted list of its elements) … -/
theorem clean_for_json_value (v : PyVal) : erase (clean v) = erase v := erase_clean v

/-- … cleaning is idempotent, and the result does not depend on the order in
which a set happens to be enumerated (`PYTHONHASHSEED`) -/
theorem clean_for_json_idem (v : PyVal) : clean (clean v) = clean v := clean_idem v

theorem clean_for_json_set_order (xs ys : List Int) (h : xs.Perm ys) :
    clean (.intSet xs) = clean (.intSet ys) := clean_intSet_perm h

example : noOther (.dict [(.str 1, .tuple [.npInt64 3, .intSet [3, 1, 2], .ndarray [.npBool true]])])
    = true := by decide
example : plain (.tuple [.int 1]) = false ∧ plain (clean (.tuple [.int 1])) = true := by decide

end CTM.C15
