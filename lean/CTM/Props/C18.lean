/-
  C18 — the stages compose: cluster centroids map back to themselves.

  Theorems about the executable model for ALL inputs (helper lemmas in
  CTM/Lemmas/Election.lean).  The first clause of the property ("produced by
  the pipeline's own stages, accepted by the next stage, names consistent") is
  about files and is checked on the real stages by harness/props/c18.py; it
  is not a theorem here.
-/
import CTM.Lemmas.Election

namespace CTM.C18
open CTM.Numeric CTM.Election

/-- Pearson(x|S, x|S) = 1 for a row that is not constant on S, and
    Pearson(x|S, y|S) ≤ 1 for every y (signed squared form on `Rat`). -/
theorem self_corr (x : List Rat) (hx : var x ≠ 0) :
    corrSsq x x = 1 ∧ ∀ y : List Rat, corrSsq x y ≤ 1 ∧ corrSsq y x ≤ 1 :=
  ⟨corrSsq_self x hx, fun y => ⟨corrSsq_le_one x y, corrSsq_le_one y x⟩⟩

example : var [1, 2, 4] ≠ 0 ∧ corrSsq [1, 2, 4] [1, 2, 4] = 1 := by decide +kernel

/-- ... with equality iff `y|S` is a positive affine image of `x|S`
    (equality case of Cauchy–Schwarz): "perfectly correlated on the genes used"
    means exactly this. -/
theorem perfect_iff_affine (x y : List Rat) (hlen : x.length = y.length) (hx : var x ≠ 0) :
    corrSsq x y = 1 ↔ ∃ a b : Rat, 0 < a ∧ y = x.map (fun v => a * v + b) := by
  constructor
  · exact affine_of_corrSsq_eq_one x y hlen hx
  · rintro ⟨a, b, ha, rfl⟩
    exact corrSsq_affine x a b ha hx

example : corrSsq [1, 2, 4] [5, 7, 11] = 1 ∧ [5, 7, 11] = [1, 2, 4].map (fun v => 2 * v + 3) := by
  decide +kernel

/-- one iteration: a query row equal to leaf `l`'s mean row votes for `l`, with
    signed squared correlation 1, on every subset on which the row is not
    constant and no other leaf below the node is perfectly correlated with it. -/
theorem centroid_iteration (refs : List (List Rat)) (s : List Nat) (l : Nat)
    (hl : l < refs.length)
    (hsr : ∀ m ∈ refs, ∀ i ∈ s, i < m.length)
    (hvar : var (pick s refs[l]) ≠ 0)
    (hother : ∀ (j : Nat) (hj : j < refs.length), j ≠ l →
      corrSsq (pick s refs[j]) (pick s refs[l]) ≠ 1) :
    tallyIter refs refs[l] s = .ok (l, 1) :=
  tallyIter_home refs refs[l] s l hl (hsr _ (List.getElem_mem hl)) hsr
    (corrSsq_self _ hvar) hother

example : tallyIter [[1, 2, 4], [3, 1, 2]] [1, 2, 4] [0, 2] = .ok (0, 1) := by decide +kernel

/-- "A query cell whose ... profile equals the mean profile of a leaf cluster
    is assigned to that leaf['s child at this node] with bootstrapping probability
    1 and average correlation 1 ..., for any bootstrap factor, whenever no other
    leaf below the same node is perfectly correlated with it on the genes used":
    for ANY list of subsets (any factor, any random draws), any leaf -> child
    map, any number of runners-up requested and any tie order.  `corrOf it l` is
    the correlation value numpy reports for the winning leaf; all that is assumed
    about it is that its signed square is the exact one (1).  Applied at every
    node with a choice on the leaf's path this is the property's second
    sentence. -/
theorem centroid_maps_home (refs : List (List Rat)) (types : List Nat)
    (subsets : List (List Nat)) (corrOf : Nat → Nat → Rat) (l : Nat)
    (hl : l < refs.length) (hlen : types.length = refs.length)
    (hsr : ∀ s ∈ subsets, ∀ m ∈ refs, ∀ i ∈ s, i < m.length)
    (hguard : ∀ s ∈ subsets, var (pick s refs[l]) ≠ 0 ∧
      ∀ (j : Nat) (hj : j < refs.length), j ≠ l →
        corrSsq (pick s refs[j]) (pick s refs[l]) ≠ 1)
    (hcorr : ∀ it, corrOf it l * |corrOf it l| = 1)
    (nAssign : Nat) (order : List Nat) (ch : Choice) (tally : List Nat × List Rat)
    (htally : tallyVotes refs refs[l] subsets corrOf = .ok tally)
    (hv : ValidOrder (columns types tally.1 tally.2).1 order)
    (hch : chooseCell types tally.1 tally.2 subsets.length nAssign order = .ok ch) :
    ch.winner = types.getD l 0 ∧ ch.prob = 1 ∧ ch.avgCorr = 1 ∧
      keepRunners ch.runners = ([], [], []) := by
  have hiter : ∀ s ∈ subsets, tallyIter refs refs[l] s = .ok (l, 1) := fun s hs =>
    centroid_iteration refs s l hl (hsr s hs) (hguard s hs).1 (hguard s hs).2
  obtain ⟨rows, hrows, hlenr, hall⟩ := tallyVotes_unanimous refs refs[l] subsets corrOf l hiter
    (fun it => signed_root_one _ (hcorr it))
  rw [hrows] at htally
  cases htally
  rw [← hlenr] at hch
  exact chooseCell_unanimous types refs.length hlen.symm rows l (by omega) hall nAssign order ch
    hv hch

/-- the same for any query row that is perfectly correlated, on every drawn
    subset, with leaf `l`'s mean row and with no other leaf's — by
    `perfect_iff_affine` e.g. any positive affine image `a·m + b` of the mean row
    (a differently scaled or shifted copy of the centroid). -/
theorem perfectly_correlated_maps_home (refs : List (List Rat)) (x : List Rat) (types : List Nat)
    (subsets : List (List Nat)) (corrOf : Nat → Nat → Rat) (l : Nat)
    (hl : l < refs.length) (hlen : types.length = refs.length)
    (hsx : ∀ s ∈ subsets, ∀ i ∈ s, i < x.length)
    (hsr : ∀ s ∈ subsets, ∀ m ∈ refs, ∀ i ∈ s, i < m.length)
    (hguard : ∀ s ∈ subsets, corrSsq (pick s refs[l]) (pick s x) = 1 ∧
      ∀ (j : Nat) (hj : j < refs.length), j ≠ l → corrSsq (pick s refs[j]) (pick s x) ≠ 1)
    (hcorr : ∀ it, corrOf it l * |corrOf it l| = 1)
    (nAssign : Nat) (order : List Nat) (ch : Choice) (tally : List Nat × List Rat)
    (htally : tallyVotes refs x subsets corrOf = .ok tally)
    (hv : ValidOrder (columns types tally.1 tally.2).1 order)
    (hch : chooseCell types tally.1 tally.2 subsets.length nAssign order = .ok ch) :
    ch.winner = types.getD l 0 ∧ ch.prob = 1 ∧ ch.avgCorr = 1 ∧
      keepRunners ch.runners = ([], [], []) := by
  have hiter : ∀ s ∈ subsets, tallyIter refs x s = .ok (l, 1) := fun s hs =>
    tallyIter_home refs x s l hl (hsx s hs) (hsr s hs) (hguard s hs).1 (hguard s hs).2
  obtain ⟨rows, hrows, hlenr, hall⟩ := tallyVotes_unanimous refs x subsets corrOf l hiter
    (fun it => signed_root_one _ (hcorr it))
  rw [hrows] at htally
  cases htally
  rw [← hlenr] at hch
  exact chooseCell_unanimous types refs.length hlen.symm rows l (by omega) hall nAssign order ch
    hv hch

example : tallyIter [[1, 2, 4], [3, 1, 2]] [5, 7, 11] [0, 1, 2] = .ok (0, 1) := by decide +kernel

/-- the guard is satisfiable: on the subset `[0, 1]` row 0 is not constant and
    neither other row is perfectly correlated with it -/
example : var (pick [0, 1] [1, 2, 4]) ≠ 0 ∧
    corrSsq (pick [0, 1] [3, 1, 2]) (pick [0, 1] [1, 2, 4]) ≠ 1 ∧
    corrSsq (pick [0, 1] [2, 2, 9]) (pick [0, 1] [1, 2, 4]) ≠ 1 ∧
    ValidOrder (columns [8, 8, 6] [3, 0, 0] [3, 0, 0]).1 [1, 0] := by decide +kernel

example : ∃ tally, tallyVotes [[1, 2, 4], [3, 1, 2], [2, 2, 9]] [1, 2, 4] [[0, 1], [0, 2], [0, 1, 2]]
      (fun _ _ => 1) = .ok tally ∧
    (chooseCell [8, 8, 6] tally.1 tally.2 3 2 [1, 0]).toOption.map
      (fun c => (c.winner, c.prob, c.avgCorr)) = some (8, 1, 1) ∧
    (chooseCell [8, 8, 6] tally.1 tally.2 3 2 [1, 0]).toOption.map
      (fun c => keepRunners c.runners) = some ([], [], []) := by
  refine ⟨([3, 0, 0], [3, 0, 0]), ?_, ?_, ?_⟩ <;> decide +kernel

end CTM.C18
