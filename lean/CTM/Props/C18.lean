import CTM.Model.Election
namespace CTM.C18
theorem placeholder_true : True := trivial
end CTM.C18
