/-
  C01 — every query cell gets one complete, ordered, tree-consistent assignment.

  Theorems about the model `CTM/Model/LevelLoop.lean` (which the suite
  `harness/props/c01.py` compares with `/repo` on every run).  Hypotheses used
  throughout:
    `wfb t = true`   the decidable well-formedness of the tree the run votes on
                     (distinct level names and node names, every parent node has
                     children, all of them nodes of the next level, no shared
                     child, every node has a parent): evaluated by the driver on
                     every generated tree and compared with the real validator;
    `VoteOK t vote`  the oracle (`_run_type_assignment`, modelled by group
                     C_election) returns a child of the parent it is asked about.
-/
import CTM.Lemmas.LevelLoop

namespace CTM.C01
open CTM CTM.LevelLoop

/-- "the assignments of a cell form one root-to-leaf path": **the batch loop
`run_type_assignment` computes, row by row, the walk of that row's cell** —
descend from the root; at each node take the single child or ask the oracle.
(All the `previously_assigned` / `chosen_idx` / write-back-by-row-index
bookkeeping is discharged here, once.) -/
theorem levelLoop_refines_walk {κ} (t : RawTree) (vote : Oracle κ) (cells : List κ)
    (hwf : wfb t = true) (hv : VoteOK t vote) :
    runLevelLoop t vote cells = cells.mapM (walk t vote) :=
  runLevelLoop_eq_mapM_walk t vote cells hwf hv

example : runLevelLoop exTree exVote [0, 1, 5, 2] = [0, 1, 5, 2].mapM (walk exTree exVote) :=
  levelLoop_refines_walk _ _ _ exTree_wf (exVote_ok _)

/-- "exactly one record per query cell ... with an assignment at every level of
the taxonomy. Each assignment is a node of its level and the assignments of a
cell form one root-to-leaf path of that taxonomy": `run_type_assignment`
succeeds on every well-formed tree (any depth, single-child chains, a single
node at the top), returns as many rows as cells, and every row binds every
level of the hierarchy, in order, to a node of that level, consecutive ones
related by `child_to_parent`. -/
theorem path {κ} (t : RawTree) (vote : Oracle κ) (cells : List κ)
    (hwf : wfb t = true) (hv : VoteOK t vote) :
    ∃ rs, runLevelLoop t vote cells = .ok rs ∧ rs.length = cells.length ∧
      ∀ r ∈ rs, IsRootToLeafPath t r := by
  rw [runLevelLoop_eq_mapM_walk t vote cells hwf hv]
  obtain ⟨rs, hrs, hlen, hpt⟩ := mapM_ok_of_forall (walk t vote) cells
    (fun c _ => by obtain ⟨r, hr, _⟩ := walk_path hwf hv c; exact ⟨r, hr⟩)
  refine ⟨rs, hrs, hlen, ?_⟩
  intro r hr
  obtain ⟨i, hi, rfl⟩ := List.getElem_of_mem hr
  have hi' : i < cells.length := by omega
  have hw := hpt i cells[i] rs[i] (by simp [hi']) (by simp [hi])
  obtain ⟨r', hr', hp⟩ := walk_path hwf hv cells[i]
  rw [hw] at hr'
  cases hr'
  exact hp

example : ∃ rs, runLevelLoop exTree exVote [3, 4] = .ok rs ∧ rs.length = 2 ∧
    ∀ r ∈ rs, IsRootToLeafPath exTree r :=
  path exTree exVote [3, 4] exTree_wf (exVote_ok _)

/-- the chunk borders `(r0, r1)` of `run_type_assignment_on_h5ad_cpu` tile the
rows for every chunk size >= 1: concatenating the slices `xs[r0:r1]` gives `xs`
back (no row lost, none repeated, order kept) -/
theorem chunks_cover {α} (xs : List α) (n nProc chunkSize : Nat) (hn : xs.length = n)
    (hcs : 1 ≤ chunkSize) :
    (chunks n (effChunk n nProc chunkSize)).flatMap (fun r => slice xs r.1 r.2) = xs := by
  subst hn
  exact LevelLoop.chunks_cover xs _ (effChunk_pos hcs)

example : (chunks 7 (effChunk 7 3 5)).flatMap (fun r => slice [10, 11, 12, 13, 14, 15, 16] r.1 r.2)
    = [10, 11, 12, 13, 14, 15, 16] :=
  chunks_cover _ 7 3 5 rfl (by decide)

/-- "results keyed by cell id and re-emitted in obs order": `re_order_blob`
turns any permutation of records with distinct ids into the obs order -/
theorem reorder_any_order (ids : List CellId) (blob target : List Record)
    (hperm : blob.Perm target) (hids : target.map (·.cellId) = ids) (hnd : ids.Nodup) :
    reorderBlob ids blob = .ok target :=
  reorderBlob_perm ids blob target hperm hids hnd

/-- "returns exactly one record per query cell, in the query file's cell order
and carrying that cell's identifier": for every chunk size >= 1, worker count
>= 1 and ANY order in which the chunk results are gathered (completion order
or sorted file names), the whole data flow of `_run_mapping` is the per-cell
map `ids[i], cells[i] ↦ backfill (flag (walk cells[i]))` in obs order. -/
theorem order_ids {κ} (t0 t : RawTree) (cfg : Config) (vote : Oracle κ)
    (ids : List CellId) (cells : List κ) (order : List Nat)
    (hrun : runTree t0 cfg = .ok t) (hwf : wfb t = true) (hv : VoteOK t vote)
    (hlen : ids.length = cells.length) (hnd : ids.Nodup)
    (hproc : 1 ≤ cfg.nProc) (hcs : 1 ≤ cfg.chunkSize)
    (horder : order.Perm (List.range
      (chunks cells.length (effChunk cells.length cfg.nProc cfg.chunkSize)).length)) :
    mapPipeline t0 cfg vote ids cells order =
      backfill t0.dropCells
        ((List.zipWith (mkRecord t vote) ids cells).map (markDirect t.hierarchy)) ∧
    ∀ out, mapPipeline t0 cfg vote ids cells order = .ok out →
      out.map (·.cellId) = ids ∧ out.length = cells.length := by
  have hspec := mapPipeline_spec t0 t cfg vote ids cells order hrun hwf hv hlen hnd hproc hcs horder
  refine ⟨hspec, ?_⟩
  intro out hout
  rw [hspec] at hout
  unfold backfill at hout
  have h1 := mapM_key_preserved (fun r : Record => r.cellId) _
    (fun r r' h => backfillPairs_cellId _ _ r r' h) _ out hout
  have h2 : ((List.zipWith (mkRecord t vote) ids cells).map (markDirect t.hierarchy)).map
      (fun r => r.cellId) = ids := by
    rw [List.map_map]
    exact map_cellId_zipWith t vote ids cells hlen
  have h3 : out.map (fun r => r.cellId) = ids := by rw [h1, h2]
  refine ⟨h3, ?_⟩
  have := congrArg List.length h3
  simp only [List.length_map] at this
  omega

example : (mapPipeline exTree { chunkSize := 2, nProc := 2 } exVote [7, 3, 9] [0, 1, 2] [1, 0]).toOption.map
    (fun out => out.map (·.cellId)) = some [7, 3, 9] := by decide

/-- "the levels that were not voted on are inferred from the voted descendant
and flagged as not directly assigned" (`backfill_assignments`, one cell): if
the levels present in the record agree with a path `path` of the stored tree
(consecutive levels related by `child_to_parent`) and the leaf level is
present, then backfilling succeeds, binds EVERY level of the stored hierarchy
to the node of that path, leaves the voted levels untouched and writes at each
missing level the copy of the level below with the parent as assignment, no
runner-ups and `directly_assigned = False`. -/
theorem backfill_path (tMeta : RawTree) (path : Level → Node) (r : Record)
    (hnd : tMeta.hierarchy.Nodup)
    (hlink : ∀ cp ∈ pairsOf tMeta.hierarchy.reverse,
      tMeta.childToParent cp.1 (path cp.1) = some (path cp.2))
    (hagree : ∀ l e, r.levels.lookup l = some e → e.assignment = path l)
    (hleaf : ∀ l, tMeta.hierarchy.getLast? = some l → (r.levels.lookup l).isSome) :
    ∃ r', backfillPairs tMeta (pairsOf tMeta.hierarchy.reverse) r = .ok r' ∧
      r'.cellId = r.cellId ∧
      (∀ l ∈ tMeta.hierarchy, ∃ e, r'.levels.lookup l = some e ∧ e.assignment = path l) ∧
      (∀ l e, r.levels.lookup l = some e → r'.levels.lookup l = some e) ∧
      (∀ cp ∈ pairsOf tMeta.hierarchy.reverse, r.levels.lookup cp.2 = none →
        ∃ ec, r'.levels.lookup cp.1 = some ec ∧
          r'.levels.lookup cp.2 = some (inferred ec (path cp.2))) := by
  obtain ⟨r', h1, h2, h3, h4, _, h6⟩ := backfillPairs_spec tMeta path tMeta.hierarchy.reverse r
    (nodup_reverse hnd) hlink hagree
    (fun l hl => hleaf l (by simpa [List.head?_reverse] using hl))
  exact ⟨r', h1, h2, fun l hl => h3 l (List.mem_reverse.mpr hl), h4, h6⟩

example : (backfill exTree.dropCells
    [{ cellId := 1, levels := [(2, { assignment := 31, prob := 1, corr := none, ru := some ([], [], []) })] }]).toOption.map
      (fun out => out.map (fun r => r.levels.map (fun le => (le.1, le.2.assignment, le.2.direct))))
    = some [[(2, 31, none), (1, 21, some false), (0, 10, some false)]] := by decide

/-- "Every taxonomy the tree validator accepts ... is mapped without error"
(the part that concerns the level loop and the data flow, for a run without
`drop_level` / `flatten`): on a well-formed tree, with an oracle returning
children, the pipeline cannot fail — whatever the depth, single-child chains, a
single node at the top — and returns, in obs order, each cell's flagged walk.
(The marker side of the clause is C08's; with `drop_level` / `flatten` the
success of the backfill is `backfill_path`.) -/
theorem no_error_plain {κ} (t0 : RawTree) (cfg : Config) (vote : Oracle κ)
    (ids : List CellId) (cells : List κ) (order : List Nat)
    (hdrop : cfg.dropLevel = none) (hflat : cfg.flatten = false)
    (hwf : wfb t0 = true) (hv : VoteOK t0 vote)
    (hlen : ids.length = cells.length) (hnd : ids.Nodup)
    (hproc : 1 ≤ cfg.nProc) (hcs : 1 ≤ cfg.chunkSize)
    (horder : order.Perm (List.range
      (chunks cells.length (effChunk cells.length cfg.nProc cfg.chunkSize)).length)) :
    mapPipeline t0 cfg vote ids cells order =
      .ok ((List.zipWith (mkRecord t0 vote) ids cells).map (markDirect t0.hierarchy)) :=
  mapPipeline_plain_ok t0 cfg vote ids cells order hdrop hflat hwf hv hlen hnd hproc hcs horder

example : mapPipeline exTree { chunkSize := 2, nProc := 2 } exVote [7, 3, 9] [0, 1, 2] [1, 0] =
    .ok ((List.zipWith (mkRecord exTree exVote) [7, 3, 9] [0, 1, 2]).map (markDirect exTree.hierarchy)) :=
  no_error_plain exTree { chunkSize := 2, nProc := 2 } exVote [7, 3, 9] [0, 1, 2] [1, 0] rfl rfl
    exTree_wf (exVote_ok _) rfl (by decide) (by decide) (by decide) (by decide)

/-- "this also holds when the taxonomy is flattened ..., in which case the
levels that were not voted on are inferred from the voted descendant and
flagged as not directly assigned": a flattened run on a well-formed stored tree
(the flattened tree is then well-formed too, `wfb_flatten`) NEVER fails (any depth, chains, single-node levels), returns one record per
cell, and every record binds every level of the STORED hierarchy to a node of
that level, consecutive ones related by `child_to_parent` of the stored tree
(`path`), every level above the leaf level flagged `directly_assigned = False`
and without runner-ups. -/
theorem flatten_path {κ} (t0 : RawTree) (cfg : Config) (vote : Oracle κ) (ll : Level)
    (ids : List CellId) (cells : List κ) (order : List Nat)
    (hdrop : cfg.dropLevel = none) (hflat : cfg.flatten = true)
    (hleaf : t0.leafLevel = some ll)
    (hwf0 : wfb t0 = true) (hv : VoteOK t0.flatten vote)
    (hlen : ids.length = cells.length) (hnd : ids.Nodup)
    (hproc : 1 ≤ cfg.nProc) (hcs : 1 ≤ cfg.chunkSize)
    (horder : order.Perm (List.range
      (chunks cells.length (effChunk cells.length cfg.nProc cfg.chunkSize)).length)) :
    ∃ out, mapPipeline t0 cfg vote ids cells order = .ok out ∧ out.length = cells.length ∧
      ∀ o ∈ out, ∃ path : Level → Node,
        (∀ cp ∈ pairsOf t0.hierarchy.reverse,
          t0.childToParent cp.1 (path cp.1) = some (path cp.2)) ∧
        ∀ l ∈ t0.hierarchy, path l ∈ t0.nodesAt l ∧
          ∃ e', o.levels.lookup l = some e' ∧ e'.assignment = path l ∧
            (l ≠ ll → e'.direct = some false ∧ e'.ru = none) :=
  mapPipeline_flatten_paths t0 cfg vote ll ids cells order hdrop hflat hleaf hwf0
    (wfb_flatten hwf0 hleaf) hv hlen hnd hproc hcs horder

example : ∃ out, mapPipeline exTree { flatten := true, chunkSize := 2, nProc := 2 } exVote
    [7, 3, 9] [0, 1, 2] [1, 0] = .ok out ∧ out.length = 3 :=
  (fun ⟨out, h1, h2, _⟩ => ⟨out, h1, h2⟩) <| flatten_path exTree { flatten := true, chunkSize := 2, nProc := 2 } exVote 2 [7, 3, 9] [0, 1, 2]
    [1, 0] rfl rfl (by decide) exTree_wf (exVote_ok _) rfl (by decide) (by decide)
    (by decide) (by decide)

/-- "... or a level is dropped for the run, in which case the levels that were
not voted on are inferred from the voted descendant and flagged as not
directly assigned": a run with `drop_level = l` (`l` any non-leaf level: top or
middle; `cl` the level right below it) on a well-formed stored tree (the
reduced tree is then well-formed too, `wfb_dropLevel`) NEVER fails, returns one record per cell, and every
record binds every level of the STORED hierarchy to a node of that level,
consecutive ones related by `child_to_parent` of the stored tree; the voted
levels are flagged `directly_assigned = True`, the dropped level `False` and
without runner-ups. -/
theorem drop_path {κ} (t0 t' : RawTree) (cfg : Config) (vote : Oracle κ)
    (l cl : Level) (pre post : List Level)
    (ids : List CellId) (cells : List κ) (order : List Nat)
    (hcfg : cfg.dropLevel = some l) (hflat : cfg.flatten = false)
    (hdrop : t0.dropLevel l = .ok t') (hs : t0.hierarchy = pre ++ l :: cl :: post)
    (hwf0 : wfb t0 = true) (hv : VoteOK t' vote)
    (hlen : ids.length = cells.length) (hnd : ids.Nodup)
    (hproc : 1 ≤ cfg.nProc) (hcs : 1 ≤ cfg.chunkSize)
    (horder : order.Perm (List.range
      (chunks cells.length (effChunk cells.length cfg.nProc cfg.chunkSize)).length)) :
    ∃ out, mapPipeline t0 cfg vote ids cells order = .ok out ∧ out.length = cells.length ∧
      ∀ o ∈ out, ∃ path : Level → Node,
        (∀ cp ∈ pairsOf t0.hierarchy.reverse,
          t0.childToParent cp.1 (path cp.1) = some (path cp.2)) ∧
        ∀ x ∈ t0.hierarchy, path x ∈ t0.nodesAt x ∧
          ∃ e', o.levels.lookup x = some e' ∧ e'.assignment = path x ∧
            (x = l → e'.direct = some false ∧ e'.ru = none) ∧
            (x ≠ l → e'.direct = some true) :=
  mapPipeline_drop_paths t0 t' cfg vote l cl pre post ids cells order hcfg hflat hdrop hs hwf0
    (wfb_dropLevel hwf0 hdrop hs) hv hlen hnd hproc hcs horder

/-- the example taxonomy without its middle level (what `drop_level` returns) -/
def exDropped : RawTree :=
  { hierarchy := [0, 2],
    levels := [(0, [(10, [31, 32, 30])]), (2, [(30, [5]), (31, [6]), (32, [])])] }

example : ∃ out, mapPipeline exTree { dropLevel := some 1, chunkSize := 2, nProc := 2 } exVote
    [7, 3, 9] [0, 1, 2] [1, 0] = .ok out ∧ out.length = 3 :=
  (fun ⟨out, h1, h2, _⟩ => ⟨out, h1, h2⟩) <|
    drop_path exTree exDropped { dropLevel := some 1, chunkSize := 2, nProc := 2 } exVote 1 2 [0] []
      [7, 3, 9] [0, 1, 2] [1, 0] rfl rfl (by rfl) rfl exTree_wf (exVote_ok _) rfl
      (by decide) (by decide) (by decide) (by decide)

/-- flatten AND drop_level together (`drop_level = l` a non-leaf level of the
stored tree): the run never fails, returns one record per cell, and every
record is a root-to-leaf path of the STORED tree; every level above the leaf
level — the dropped one included — is flagged `directly_assigned = False` and
carries no runner-ups. -/
theorem flatten_drop_path {κ} (t0 t' : RawTree) (cfg : Config) (vote : Oracle κ)
    (l cl ll : Level) (pre post : List Level)
    (ids : List CellId) (cells : List κ) (order : List Nat)
    (hdrop : t0.dropLevel l = .ok t') (hs : t0.hierarchy = pre ++ l :: cl :: post)
    (hleaf : t0.leafLevel = some ll) (hwf0 : wfb t0 = true) (hv : VoteOK t0.flatten vote)
    (hlen : ids.length = cells.length) (hnd : ids.Nodup)
    (hproc : 1 ≤ cfg.nProc) (hcs : 1 ≤ cfg.chunkSize)
    (horder : order.Perm (List.range
      (chunks cells.length (effChunk cells.length cfg.nProc cfg.chunkSize)).length)) :
    ∃ out, mapPipeline t0 { cfg with dropLevel := some l, flatten := true } vote ids cells order
        = .ok out ∧ out.length = cells.length ∧
      ∀ o ∈ out, ∃ path : Level → Node,
        (∀ cp ∈ pairsOf t0.hierarchy.reverse,
          t0.childToParent cp.1 (path cp.1) = some (path cp.2)) ∧
        ∀ x ∈ t0.hierarchy, path x ∈ t0.nodesAt x ∧
          ∃ e', o.levels.lookup x = some e' ∧ e'.assignment = path x ∧
            (x ≠ ll → e'.direct = some false ∧ e'.ru = none) := by
  rw [mapPipeline_flatten_ignores_drop t0 t' cfg vote l cl pre post ids cells order hdrop hs hwf0 hv
    hlen hnd hproc hcs horder]
  exact flatten_path t0 { cfg with dropLevel := none, flatten := true } vote ll ids cells order rfl rfl
    hleaf hwf0 hv hlen hnd hproc hcs horder

example : ∃ out, mapPipeline exTree { dropLevel := some 1, flatten := true, chunkSize := 2, nProc := 2 }
    exVote [7, 3, 9] [0, 1, 2] [1, 0] = .ok out ∧ out.length = 3 :=
  (fun ⟨out, h1, h2, _⟩ => ⟨out, h1, h2⟩) <|
    flatten_drop_path exTree exDropped { chunkSize := 2, nProc := 2 } exVote 1 2 2 [0] []
      [7, 3, 9] [0, 1, 2] [1, 0] (by rfl) rfl (by decide) exTree_wf (exVote_ok _) rfl
      (by decide) (by decide) (by decide) (by decide)

/-- "for ... any chunk size, any worker count": HOW the rows are cut into chunks
is immaterial.  For ANY borders that tile the rows (consecutive, non-empty,
ending at the last row — `tilesB`, checked on the borders the workers are
really handed) and any gathering order, the pipeline is the per-cell map in obs
order with each cell's id.  (The clamp `effChunk` of the present code is one
instance: `chunks_tile`.) -/
theorem order_ids_any_chunks {κ} (t0 t : RawTree) (cfg : Config) (vote : Oracle κ)
    (ids : List CellId) (cells : List κ) (borders : List (Nat × Nat)) (order : List Nat)
    (hrun : runTree t0 cfg = .ok t) (hwf : wfb t = true) (hv : VoteOK t vote)
    (hlen : ids.length = cells.length) (hnd : ids.Nodup)
    (htiles : tilesB cells.length borders = true)
    (horder : order.Perm (List.range borders.length)) :
    mapPipelineChunks t0 cfg vote ids cells borders order =
      backfill t0.dropCells
        ((List.zipWith (mkRecord t vote) ids cells).map (markDirect t.hierarchy)) :=
  mapPipelineChunks_spec t0 t cfg vote ids cells borders order hrun hwf hv hlen hnd htiles horder

example : mapPipelineChunks exTree {} exVote [7, 3, 9, 4] [0, 1, 2, 3] [(0, 1), (1, 4)] [1, 0] =
    mapPipelineChunks exTree {} exVote [7, 3, 9, 4] [0, 1, 2, 3] [(0, 2), (2, 3), (3, 4)] [2, 0, 1] := by
  rw [order_ids_any_chunks exTree exTree {} exVote [7, 3, 9, 4] [0, 1, 2, 3] [(0, 1), (1, 4)] [1, 0]
      rfl exTree_wf (exVote_ok _) rfl (by decide) (by decide) (by decide),
    order_ids_any_chunks exTree exTree {} exVote [7, 3, 9, 4] [0, 1, 2, 3]
      [(0, 2), (2, 3), (3, 4)] [2, 0, 1] rfl exTree_wf (exVote_ok _) rfl (by decide) (by decide)
      (by decide)]

/-- the borders the present code uses (row iterator at the clamped chunk size)
are such a tiling, and `mapPipeline` is `mapPipelineChunks` on them -/
theorem chunks_tile {κ} (t0 : RawTree) (cfg : Config) (vote : Oracle κ)
    (ids : List CellId) (cells : List κ) (order : List Nat)
    (hproc : 1 ≤ cfg.nProc) (hcs : 1 ≤ cfg.chunkSize) :
    tilesB cells.length (chunks cells.length (effChunk cells.length cfg.nProc cfg.chunkSize)) = true ∧
    mapPipeline t0 cfg vote ids cells order =
      mapPipelineChunks t0 cfg vote ids cells
        (chunks cells.length (effChunk cells.length cfg.nProc cfg.chunkSize)) order :=
  ⟨chunks_tiles _ _ (effChunk_pos hcs),
   mapPipeline_eq_chunks t0 cfg vote ids cells order hproc hcs⟩

example : tilesB 23 (chunks 23 (effChunk 23 2 7)) = true ∧ tilesB 23 [(0, 6), (6, 12), (12, 18), (18, 23)] = true := by
  decide

end CTM.C01
