import CTM.Model.LevelLoop
namespace CTM.C01
theorem placeholder_true : True := trivial
end CTM.C01
