/-
  C03 — confidence fields obey the documented arithmetic contract.

  Theorems about the executable model (CTM/Model/Election.lean) for ALL
  inputs; helper lemmas in CTM/Lemmas/Election.lean; the tie to /repo is
  harness/props/c03.py.

  Shared hypotheses, and where they come from:
   * `ValidOrder cols.votes order` — `order` is SOME result numpy's argsort
     (reversed) may return for the vote row: the theorems hold for every tie
     order;
   * `votes.length = types.length` — one vote-array column per reference row;
   * `votes.sum = iters` — every iteration casts exactly one vote
     (`C02.tally_counts`, third clause).
-/
import CTM.Lemmas.Election

namespace CTM.C03
open CTM.Numeric CTM.Election

/-- "the bootstrapping probability is a whole number of votes out of the
    iteration count and lies in (0,1]" -/
theorem prob_whole (types votes : List Nat) (corr : List Rat) (iters nAssign : Nat)
    (order : List Nat) (ch : Choice)
    (hlen : votes.length = types.length) (hsum : votes.sum = iters)
    (hv : ValidOrder (columns types votes corr).1 order)
    (h : chooseCell types votes corr iters nAssign order = .ok ch) :
    ∃ k : Nat, ch.prob * (iters : Rat) = (k : Rat) ∧ 1 ≤ k ∧ k ≤ iters ∧
      0 < ch.prob ∧ ch.prob ≤ 1 :=
  chooseCols_prob hv h (by rw [columns_sum types votes corr hlen, hsum])

example : (chooseCell [7, 5, 7] [2, 0, 1] [3 / 2, 0, 1 / 4] 3 3 [1, 0]).toOption.map (·.prob) =
    some 1 := by decide +kernel

/-- "the runner-up lists have equal length not exceeding the requested number,
    name distinct siblings of the winner under the same parent, carry strictly
    positive probabilities in non-increasing order none larger than the
    winner's" (`types` lists the children of the parent, one entry per leaf
    below it; the requested number is `nAssign - 1`) -/
theorem runners (types votes : List Nat) (corr : List Rat) (iters nAssign : Nat)
    (order : List Nat) (ch : Choice)
    (hlen : votes.length = types.length)
    (hv : ValidOrder (columns types votes corr).1 order)
    (h : chooseCell types votes corr iters nAssign order = .ok ch) :
    (keepRunners ch.runners).1.length = (keepRunners ch.runners).2.1.length ∧
    (keepRunners ch.runners).2.1.length = (keepRunners ch.runners).2.2.length ∧
    (keepRunners ch.runners).1.length ≤ nAssign - 1 ∧
    (keepRunners ch.runners).1.Nodup ∧ ch.winner ∉ (keepRunners ch.runners).1 ∧
    (∀ a ∈ (keepRunners ch.runners).1, a ∈ types) ∧
    (∀ p ∈ (keepRunners ch.runners).2.2, 0 < p ∧ p ≤ ch.prob) ∧
    (keepRunners ch.runners).2.2.Pairwise (· ≥ ·) := by
  obtain ⟨h1, h2, h3, h4, h5, h6, h7, h8⟩ := chooseCols_runners hv h
    (columns_types_nodup types votes corr) (columns_length types votes corr hlen)
  exact ⟨h1, h2, h3, h4, h5, fun a ha => (columns_types_mem types votes corr a).1 (h6 a ha),
    h7, h8⟩

/-- the shared hypotheses are satisfiable together -/
example : ValidOrder (columns [7, 5, 9] [2, 3, 1] [1, 2, 1 / 2]).1 [1, 0, 2] ∧
    [2, 3, 1].length = [7, 5, 9].length ∧ [2, 3, 1].sum = 6 := by decide +kernel

example : (chooseCell [7, 5, 9] [2, 3, 1] [1, 2, 1 / 2] 6 3 [1, 0, 2]).toOption.map
    (fun c => keepRunners c.runners) = some ([7, 9], [1 / 2, 1 / 2], [1 / 3, 1 / 6]) := by decide +kernel

/-- "winner plus runners-up sum to at most 1 (exactly 1 when all siblings could
    be listed)" — a statement about vote counts over the iteration count, not
    about float addition. -/
theorem sum_le_one (types votes : List Nat) (corr : List Rat) (iters nAssign : Nat)
    (order : List Nat) (ch : Choice)
    (hlen : votes.length = types.length) (hsum : votes.sum = iters)
    (hv : ValidOrder (columns types votes corr).1 order)
    (h : chooseCell types votes corr iters nAssign order = .ok ch) :
    ch.prob + (keepRunners ch.runners).2.2.sum ≤ 1 ∧
    ((columns types votes corr).2.2.length ≤ nAssign →
      ch.prob + (keepRunners ch.runners).2.2.sum = 1) := by
  have := chooseCols_sum hv h (by rw [columns_sum types votes corr hlen, hsum])
  rw [columns_length types votes corr hlen]
  exact this

example : (chooseCell [7, 5, 9] [2, 3, 1] [1, 2, 1 / 2] 6 3 [1, 0, 2]).toOption.map
    (fun c => c.prob + (keepRunners c.runners).2.2.sum) = some 1 := by decide +kernel

/-- "Correlations lie in [-1,1]", part 1: the Pearson correlation of any two
    rows.  `corrSsq` is its signed square `sign(r) r^2` (Cauchy–Schwarz on
    `Rat`); any `r` whose signed square it is — the correlation itself — lies in
    [-1, 1]. -/
theorem corr_range (m x : List Rat) :
    -1 ≤ corrSsq m x ∧ corrSsq m x ≤ 1 ∧
    ∀ r : Rat, r * |r| = corrSsq m x → -1 ≤ r ∧ r ≤ 1 :=
  ⟨neg_one_le_corrSsq m x, corrSsq_le_one m x,
   fun r hr => signed_root_range r _ hr (neg_one_le_corrSsq m x) (corrSsq_le_one m x)⟩

example : corrSsq [1, 2, 4] [1, 2, 5] = 361 / 364 := by decide +kernel

/-- "Correlations lie in [-1,1]", part 2: the reported average correlations.
    If every per-iteration winning correlation lies in [-1,1], so does the
    average correlation of the winner and of every runner-up, for the tally of
    any rows, any leaf -> child map and any tie order. -/
theorem avg_corr_range (types : List Nat) (n : Nat) (rows : List (Nat × Rat))
    (hrows : ∀ r ∈ rows, |r.2| ≤ 1) (iters nAssign : Nat) (order : List Nat) (ch : Choice)
    (h : chooseCell types (tallyCell n rows).1 (tallyCell n rows).2 iters nAssign order = .ok ch) :
    |ch.avgCorr| ≤ 1 ∧ (∀ r ∈ ch.runners, |r.avgCorr| ≤ 1) ∧
    ∀ c ∈ (keepRunners ch.runners).2.1, |c| ≤ 1 := by
  have hb := columns_corr_bound types _ _ (tallyCell_corr_bound n rows hrows)
  obtain ⟨h1, h2⟩ := chooseCols_corr_range h hb
  refine ⟨h1, h2, ?_⟩
  intro c hc
  unfold keepRunners at hc
  simp only [List.mem_map, List.mem_filter] at hc
  obtain ⟨r, ⟨hr, _⟩, rfl⟩ := hc
  exact h2 r hr

example : (chooseCell [7, 5] (tallyCell 2 [(0, 1), (1, -1), (0, 1 / 2)]).1
    (tallyCell 2 [(0, 1), (1, -1), (0, 1 / 2)]).2 3 2 [0, 1]).toOption.map (·.avgCorr) =
    some (3 / 4) := by decide +kernel

/-- "the aggregate probability is the running product of the bootstrapping
    probabilities of the directly assigned levels from the top"; the other
    fields of a level are what the level loop recorded, and the correlation is
    the level's own if a choice was made there, else that of the nearest level
    above where one was made, else that of the nearest level below, else null
    (a chain with no choice anywhere). -/
theorem finished_level (recs : List LevelRec) (k : Nat) (hk : k < recs.length) :
    (finishCell recs).length = recs.length ∧
    (finishCell recs)[k]? = some
      { assignment := recs[k].assignment, prob := recs[k].prob,
        avgCorr := ((recs[k].avgCorr.or (corrAbove recs k)).or (corrBelow recs k)),
        aggregate := ((recs.map (·.prob)).take (k + 1)).prod,
        runners := some (recs[k].runnerAssignment, recs[k].runnerCorrelation,
          recs[k].runnerProbability),
        directlyAssigned := true } :=
  ⟨finishCell_length recs, finishCell_getElem? recs k hk⟩

/-- the aggregate probability alone, as a list -/
theorem aggregate (recs : List LevelRec) :
    (finishCell recs).map (·.aggregate) = runningProduct 1 (recs.map (·.prob)) := by
  unfold finishCell
  simp only [List.map_map]
  have hp : (fillUp (fillDown none recs)).map (·.prob) = recs.map (·.prob) := by
    rw [fillUp_prob, fillDown_prob]
  rw [hp]
  have hl : (fillUp (fillDown none recs)).length =
      (runningProduct 1 (recs.map (·.prob))).length := by
    rw [fillUp_length, fillDown_length, runningProduct_length, List.length_map]
  have : ((fun r : OutRec => r.aggregate) ∘ fun x : LevelRec × Rat =>
      ({ assignment := x.1.assignment, prob := x.1.prob, avgCorr := x.1.avgCorr,
         aggregate := x.2,
         runners := some (x.1.runnerAssignment, x.1.runnerCorrelation, x.1.runnerProbability),
         directlyAssigned := true } : OutRec)) = Prod.snd := by
    funext x; rfl
  rw [this, ← List.unzip_snd, List.unzip_zip hl]

example : (finishCell [⟨1, 1 / 2, some (1 / 3), [], [], []⟩, ⟨2, 1, none, [], [], []⟩,
    ⟨3, 1 / 4, some (1 / 5), [4], [1 / 6], [1 / 4]⟩]).map (fun r => (r.aggregate, r.avgCorr)) =
    [(1 / 2, some (1 / 3)), (1 / 2, some (1 / 3)), (1 / 8, some (1 / 5))] := by decide +kernel

/-- "a parent with a single child yields probability 1 with no runners-up and
    the correlation of the nearest level where a real choice was made": the
    level loop records (prob 1, correlation null, no runners-up) at such a level;
    after the post-loops the level still has probability 1 and no runners-up, and
    its correlation is that of the nearest voted level above, or — when no level
    above voted (single-node top levels) — of the nearest voted level below. -/
theorem single_child (recs : List LevelRec) (k : Nat) (hk : k < recs.length)
    (hp : recs[k].prob = 1) (hc : recs[k].avgCorr = none)
    (hr : recs[k].runnerAssignment = [] ∧ recs[k].runnerCorrelation = [] ∧
      recs[k].runnerProbability = []) :
    ∃ o, (finishCell recs)[k]? = some o ∧ o.prob = 1 ∧ o.runners = some ([], [], []) ∧
      o.avgCorr = (corrAbove recs k).or (corrBelow recs k) ∧
      (∀ c, corrAbove recs k = some c → o.avgCorr = some c) ∧
      (corrAbove recs k = none → o.avgCorr = corrBelow recs k) := by
  refine ⟨_, finishCell_getElem? recs k hk, hp, ?_, ?_, ?_, ?_⟩
  · simp only [hr.1, hr.2.1, hr.2.2]
  · simp only [hc, Option.none_or]
  · intro c h; simp only [hc, Option.none_or, h, Option.some_or]
  · intro h; simp only [hc, Option.none_or, h]

example : (finishCell [⟨1, 1, none, [], [], []⟩, ⟨2, 1, none, [], [], []⟩,
    ⟨3, 1 / 4, some (1 / 5), [], [], []⟩, ⟨4, 1, none, [], [], []⟩]).map (·.avgCorr) =
    [some (1 / 5), some (1 / 5), some (1 / 5), some (1 / 5)] := by decide +kernel

/-- a taxonomy with no choice anywhere legitimately has a null correlation at
    every level -/
theorem pure_chain (recs : List LevelRec) (h : ∀ r ∈ recs, r.avgCorr = none) :
    ∀ o ∈ finishCell recs, o.avgCorr = none := by
  intro o ho
  obtain ⟨k, hk, hko⟩ := List.mem_iff_getElem.1 ho
  have hk' : k < recs.length := by rw [finishCell_length] at hk; exact hk
  have hget := finishCell_getElem? recs k hk'
  rw [List.getElem?_eq_getElem hk, hko] at hget
  have ho' := Option.some.inj hget
  have h1 : recs[k].avgCorr = none := h _ (List.getElem_mem hk')
  have h2 : corrAbove recs k = none := by
    unfold corrAbove
    rw [List.findSome?_eq_none_iff]
    intro r hr
    exact h r (List.mem_of_mem_take (List.mem_reverse.1 hr))
  have h3 : corrBelow recs k = none := by
    unfold corrBelow
    rw [List.findSome?_eq_none_iff]
    intro r hr
    exact h r (List.mem_of_mem_drop hr)
  rw [ho']
  simp only [h1, h2, h3, Option.or_none]

example : (finishCell [⟨1, 1, none, [], [], []⟩, ⟨2, 1, none, [], [], []⟩]).map (·.avgCorr) =
    [none, none] := by decide +kernel

/-- "inferred levels repeat the numbers of the voted descendant without
    runner-up fields": after `backfill_assignments`, every level that was present
    keeps its record, and every level that was added carries the record of the
    level directly below it (`(cl, l)` is a (child level, parent level) pair of
    the hierarchy) with the parent's name, `runner_up_*` removed and
    `directly_assigned = False` — by induction down the hierarchy, the numbers
    of the nearest voted descendant. -/
theorem inferred (parentOf : Nat → Nat → Option Nat) (hier : List Nat) (cell cell' : Cell)
    (h : inferLevels parentOf hier cell = .ok cell') :
    (∀ l r, cell.lookup l = some r → cell'.lookup l = some r) ∧
    (∀ e ∈ cell', e ∈ cell ∨ ∃ cl c p, (cl, e.1) ∈ bottomUpPairs hier ∧
      cell'.lookup cl = some c ∧ parentOf cl c.assignment = some p ∧
      e.2 = { c with assignment := p, runners := none, directlyAssigned := false }) :=
  inferLoop_spec parentOf (bottomUpPairs hier) cell cell' h

example : (inferLevels (fun _ c => some (c + 10)) [0, 1, 2]
    [(2, ⟨5, 1 / 2, some (1 / 3), 1 / 4, some ([6], [1], [1 / 2]), true⟩)]).toOption =
    some [(2, ⟨5, 1 / 2, some (1 / 3), 1 / 4, some ([6], [1], [1 / 2]), true⟩),
          (1, ⟨15, 1 / 2, some (1 / 3), 1 / 4, none, false⟩),
          (0, ⟨25, 1 / 2, some (1 / 3), 1 / 4, none, false⟩)] := by decide +kernel

end CTM.C03
