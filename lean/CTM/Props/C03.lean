import CTM.Model.Election
namespace CTM.C03
theorem placeholder_true : True := trivial
end CTM.C03
