/-
  C10 — the taxonomy stays a strict tree under construction and transformation.

  Theorems about the executable model `CTM/Model/Tree.lean` (which mirrors
  taxonomy/utils.py + taxonomy/taxonomy_tree.py of cell_type_mapper), for ALL
  trees: no bound on depth, width or number of rows.

  Vocabulary (CTM/Lemmas/TreeDefs.lean):
    `DictOK t`  every Python dict of the tree has distinct keys
    `WF t`      `validate t = .ok ()`, `t.hierarchy.Nodup`, `t.hierarchy ≠ []`, `DictOK t`
                (= `validate t = .ok () ∧ DictOK t`, see `wf_iff_validate`)
    `(pl, cl) ∈ levelPairs t.hierarchy`   cl is the level right below pl
    `t.level l` the dict of level l (association list node ↦ children / rows),
    `t.nodesAt l` its keys, `t.entry l n` = `tree[l][n]`
-/
import CTM.Lemmas.Tree
import CTM.Lemmas.TreeLca
import CTM.Lemmas.TreeLinks
import CTM.Lemmas.TreeEquivWF
import CTM.Generated.TreeConsts

namespace CTM.C10
open CTM CTM.RawTree

/-! ### a concrete tree for the non-vacuity examples

levels 0 > 1 > 2 (2 = leaf level); nodes 10,11 / 20,21,22 / 30..33; rows 0..4 -/
def exTree : RawTree :=
  { hierarchy := [0, 1, 2]
    levels := [(1, [(21, [31, 32]), (20, [30]), (22, [33])]),
               (0, [(10, [21, 20]), (11, [22])]),
               (2, [(30, [0]), (31, [1, 2]), (32, []), (33, [4, 3])])] }

theorem exTree_wf_test : WF exTree :=
  ⟨by rfl, by decide, by decide, dictOK_of_b (by decide)⟩

/-! ### the validator -/

/-- *"A taxonomy is accepted only if every node below the top level has exactly
one parent, every listed child exists and no reference cell belongs to two
leaves"* — for every accepted tree (Python dicts have distinct keys), and every
pair of adjacent levels `pl > cl`:
 1. every listed child is a key of the next level; every node of `pl` has at
    least one child (the `fix:` commit 876e36e);
 2. every node of `cl` is listed exactly once in all the child lists of `pl`
    together (one parent, listed once);
 3. that parent is unique as a node: `∃! p`;
and no row occurs twice in the leaf level's row lists (neither in two leaves
nor twice in one); the level keys are exactly the hierarchy. -/
theorem validate_sound (t : RawTree) (d : DictOK t) (hv : t.validate = .ok ()) :
    (∀ pl cl, (pl, cl) ∈ levelPairs t.hierarchy →
      (∀ p, p ∈ t.nodesAt pl → ∀ c, c ∈ t.entry pl p → c ∈ t.nodesAt cl) ∧
      (∀ p, p ∈ t.nodesAt pl → t.entry pl p ≠ []) ∧
      (∀ c, c ∈ t.nodesAt cl → ((t.level pl).flatMap (·.2)).count c = 1) ∧
      (∀ c, c ∈ t.nodesAt cl → ∃ p, (p ∈ t.nodesAt pl ∧ c ∈ t.entry pl p) ∧
          ∀ p', (p' ∈ t.nodesAt pl ∧ c ∈ t.entry pl p') → p' = p)) ∧
    t.allRows.Nodup ∧
    (∀ k, k ∈ t.levels.map (·.1) ↔ k ∈ t.hierarchy) := by
  have s := strict_of_validate hv
  refine ⟨fun pl cl hpc => ?_, s.rowsNodup, fun k => ⟨s.keysSub k, s.hierSub k⟩⟩
  obtain ⟨i, hi, rfl, rfl⟩ := idx_of_mem_levelPairs hpc
  refine ⟨fun p hp c hc => s.entry_sub hi hp hc,
    fun p hp => s.childNe _ _ hpc p _ (mem_level_entry hp), fun c hc => ?_, fun c hc => ?_⟩
  · rw [flatMap_snd_eq_flatMap_entry d]
    have hnd := s.children_nodup hi (d.nodesAt_nodup _) (fun _ h => h)
    rw [hnd.count, if_pos ((s.children_perm_next d hi).mem_iff.2 hc)]
  · obtain ⟨p, cs, hp, hcs⟩ := s.hasParent _ _ hpc c hc
    have hpn : p ∈ t.nodesAt t.hierarchy[i] := mem_nodesAt.2 ⟨cs, hp⟩
    have hce : c ∈ t.entry t.hierarchy[i] p := by rw [entry_of_mem d hp]; exact hcs
    exact ⟨p, ⟨hpn, hce⟩, fun p' hp' => s.entry_disjoint hi hp'.1 hpn hp'.2 hce⟩

example : exTree.validate = .ok () ∧ DictOK exTree := ⟨by rfl, dictOK_of_b (by decide)⟩

/-- No reference cell belongs to two leaves, in the words of the statement. -/
theorem validate_rows_one_leaf (t : RawTree) (d : DictOK t) (hne : t.hierarchy ≠ [])
    (hv : t.validate = .ok ()) (n₁ n₂ : Node) (r : Nat)
    (h₁ : n₁ ∈ t.nodesAt (t.hierarchy.getLast hne)) (h₂ : n₂ ∈ t.nodesAt (t.hierarchy.getLast hne))
    (hr₁ : r ∈ t.entry (t.hierarchy.getLast hne) n₁) (hr₂ : r ∈ t.entry (t.hierarchy.getLast hne) n₂) :
    n₁ = n₂ := by
  have s := strict_of_validate hv
  have hrows := s.rowsNodup
  have hll : t.leafLevel = some (t.hierarchy.getLast hne) := by
    simp [leafLevel, List.getLast?_eq_some_getLast hne]
  simp only [allRows, hll] at hrows
  rw [flatMap_snd_eq_flatMap_entry d] at hrows
  unfold List.Nodup at hrows
  rw [List.pairwise_flatMap] at hrows
  have hp := hrows.2
  exact if h : n₁ = n₂ then h else absurd rfl (pairwise_disj hp h₁ h₂ h hr₁ hr₂)
where
  pairwise_disj {l : List Node} {f : Node → List Nat}
      (hp : l.Pairwise (fun a₁ a₂ => ∀ x, x ∈ f a₁ → ∀ y, y ∈ f a₂ → x ≠ y))
      {a b : Node} (ha : a ∈ l) (hb : b ∈ l) (hab : a ≠ b) {r : Nat} (hra : r ∈ f a) (hrb : r ∈ f b) :
      r ≠ r := by
    induction l with
    | nil => cases ha
    | cons x xs ih =>
      rw [List.pairwise_cons] at hp
      rcases List.mem_cons.1 ha with rfl | ha'
      · rcases List.mem_cons.1 hb with rfl | hb'
        · exact absurd rfl hab
        · exact hp.1 b hb' r hra r hrb
      · rcases List.mem_cons.1 hb with rfl | hb'
        · exact (hp.1 a ha' r hrb r hra)
        · exact ih hp.2 ha' hb'

/-- The validator decides exactly the strict-tree specification `Strict`
(CTM/Lemmas/TreeDefs.lean: key set = hierarchy, string node names, every listed
child exists, no orphan, no second parent, no childless parent, no repeated
child, no repeated row) together with: distinct level names, a non-empty
hierarchy and a node at the top level.  Nothing less is accepted and nothing
more is demanded (sound and complete, no hypothesis). -/
theorem validate_iff_strict (t : RawTree) :
    t.validate = .ok () ↔ Strict t ∧ t.hierarchy.Nodup ∧ t.hierarchy ≠ [] ∧
      ∀ l0, t.hierarchy.head? = some l0 → t.nodesAt l0 ≠ [] :=
  validate_ok_iff

/-- Since the `fix:` commits 799c7a6 / 6649211 the hypotheses "distinct level
names", "non-empty hierarchy" and "the taxonomy has a node" are CONSEQUENCES of
acceptance: an accepted tree lists no level twice, has at least one level, and
every level of its hierarchy has at least one node (top level by the validator,
the others because every node above the leaf level has a child). -/
theorem validate_wellformed (t : RawTree) (hv : t.validate = .ok ()) :
    t.hierarchy.Nodup ∧ t.hierarchy ≠ [] ∧
    (∃ l0 n, t.hierarchy.head? = some l0 ∧ n ∈ t.nodesAt l0) ∧
    ∀ l, l ∈ t.hierarchy → t.nodesAt l ≠ [] :=
  ⟨hierarchy_nodup_of_validate hv, hierarchy_ne_nil_of_validate hv,
    exists_top_node_of_validate hv, fun _ hl => nodesAt_ne_nil_of_validate_lv hv hl⟩

example : exTree.validate = .ok () := by decide

/-- Hence `WF` — the hypothesis of the theorems below — is exactly "accepted by
the validator + Python dict-key uniqueness": every theorem stated for `w : WF t`
applies to any accepted tree through `WF.of_validate hv d`. -/
theorem wf_iff_validate (t : RawTree) : WF t ↔ t.validate = .ok () ∧ DictOK t :=
  ⟨fun w => ⟨w.valid, w.dict⟩, fun h => WF.of_validate h.1 h.2⟩

example : exTree.hierarchy.Nodup := by decide

/-! ### each one-edit corruption class is rejected

`∃ e, t.validate = .error e` is `t.validate ≠ .ok ()`: which error class is
reported depends on which test of the validator fires first. -/

/-- a listed child that is not a key of the next level -/
theorem validate_rejects_missing_child_key (t : RawTree) {pl cl : Level} {p c : Node}
    {cs : List Node} (hm : (pl, cl) ∈ levelPairs t.hierarchy) (hp : (p, cs) ∈ t.level pl)
    (hc : c ∈ cs) (hnot : c ∉ t.nodesAt cl) : ∃ e, t.validate = .error e :=
  rejects_missing_child hm hp hc hnot

example : ({ exTree with levels := exTree.levels.map (fun (l, m) =>
    if l = 1 then (l, m.filter (fun e => e.1 != 20)) else (l, m)) } : RawTree).validate
    = .error .missingChild := by rfl

/-- a node below the top level that no parent lists -/
theorem validate_rejects_orphan (t : RawTree) {pl cl : Level} {c : Node}
    (hm : (pl, cl) ∈ levelPairs t.hierarchy) (hc : c ∈ t.nodesAt cl)
    (hnot : ¬ ∃ p cs, (p, cs) ∈ t.level pl ∧ c ∈ cs) : ∃ e, t.validate = .error e :=
  rejects_orphan hm hc hnot

example : ({ exTree with levels := exTree.levels.map (fun (l, m) =>
    if l = 1 then (l, m ++ [(29, [])]) else (l, m)) } : RawTree).validate
    = .error .orphan := by rfl

/-- a node listed by two different parents -/
theorem validate_rejects_second_parent (t : RawTree) {pl cl : Level} {p₁ p₂ c : Node}
    {cs₁ cs₂ : List Node} (hm : (pl, cl) ∈ levelPairs t.hierarchy) (h₁ : (p₁, cs₁) ∈ t.level pl)
    (h₂ : (p₂, cs₂) ∈ t.level pl) (hc₁ : c ∈ cs₁) (hc₂ : c ∈ cs₂) (hne : p₁ ≠ p₂) :
    ∃ e, t.validate = .error e :=
  rejects_two_parents hm h₁ h₂ hc₁ hc₂ hne

example : ({ exTree with levels := exTree.levels.map (fun (l, m) =>
    if l = 0 then (l, [(10, [21, 20]), (11, [22, 20])]) else (l, m)) } : RawTree).validate
    = .error .twoParents := by rfl

/-- a parent that lists the same child twice (defect D5 of the pinned tree,
fixed in /repo by the `fix:` commit; `validateWith false` is the old validator) -/
theorem validate_rejects_repeated_child (t : RawTree) {pl cl : Level} {p : Node} {cs : List Node}
    (hm : (pl, cl) ∈ levelPairs t.hierarchy) (hp : (p, cs) ∈ t.level pl) (hd : ¬ cs.Nodup) :
    ∃ e, t.validate = .error e :=
  rejects_repeated_child hm hp hd

example : ({ exTree with levels := exTree.levels.map (fun (l, m) =>
    if l = 0 then (l, [(10, [21, 20, 21]), (11, [22])]) else (l, m)) } : RawTree).validate
    = .error .repeatedChild := by rfl

/-- a node above the leaf level with an empty child list -/
theorem validate_rejects_childless_parent (t : RawTree) {pl cl : Level} {p : Node}
    (hm : (pl, cl) ∈ levelPairs t.hierarchy) (hp : (p, []) ∈ t.level pl) :
    ∃ e, t.validate = .error e :=
  rejects_childless_parent hm hp

example : ({ exTree with levels := exTree.levels.map (fun (l, m) =>
    if l = 0 then (l, m ++ [(12, [])]) else (l, m)) } : RawTree).validate
    = .error .noChildren ∧
  -- emptying a child list orphans the former children: the orphan test fires first
  ({ exTree with levels := exTree.levels.map (fun (l, m) =>
    if l = 0 then (l, [(10, [21, 20]), (11, [])]) else (l, m)) } : RawTree).validate
    = .error .orphan := by decide

/-- a reference row listed twice (in two leaves or twice in one) -/
theorem validate_rejects_repeated_row (t : RawTree) (hd : ¬ t.allRows.Nodup) :
    ∃ e, t.validate = .error e :=
  rejects_dup_rows hd

example : ({ exTree with levels := exTree.levels.map (fun (l, m) =>
    if l = 2 then (l, [(30, [0]), (31, [1, 2]), (32, [1]), (33, [4, 3])]) else (l, m)) } : RawTree).validate
    = .error .dupRows := by rfl

/-- a level dict whose key is not in the hierarchy (stray key / a level the
hierarchy no longer lists) -/
theorem validate_rejects_stray_key (t : RawTree) (hh : t.hasHierarchy = true)
    (hn : t.hierarchy.Nodup) {k : Level}
    (hk : k ∈ t.levels.map (·.1)) (hnot : k ∉ t.hierarchy) : t.validate = .error .badKeys :=
  rejects_stray_key hh hn hk hnot

example : ({ exTree with hierarchy := [0, 1] } : RawTree).validate = .error .badKeys := by rfl

/-- a hierarchy entry without a level dict (ghost level) -/
theorem validate_rejects_ghost_level (t : RawTree) (hh : t.hasHierarchy = true)
    (hn : t.hierarchy.Nodup) {k : Level}
    (hk : k ∈ t.hierarchy) (hnot : k ∉ t.levels.map (·.1)) : t.validate = .error .badKeys :=
  rejects_ghost_level hh hn hk hnot

example : ({ exTree with hierarchy := [0, 1, 2, 7] } : RawTree).validate = .error .badKeys := by rfl

/-- a level name listed twice in the hierarchy (tested right after the
`hierarchy` key itself, `fix:` 799c7a6) -/
theorem validate_rejects_duplicate_level (t : RawTree) (hh : t.hasHierarchy = true)
    (h : ¬ t.hierarchy.Nodup) : t.validate = .error .dupLevel :=
  rejects_dup_level_exact hh h

example : ({ exTree with hierarchy := [0, 1, 2, 1] } : RawTree).validate = .error .dupLevel ∧
    -- the cycle x → y → x spelled with a repeated level name
    (⟨true, [0, 1, 0], [(0, [(5, [6])]), (1, [(6, [5])])], true⟩ : RawTree).validate
      = .error .dupLevel := by decide

/-- a taxonomy without a node at its top level — in particular an empty
hierarchy (`fix:` 6649211) -/
theorem validate_rejects_no_nodes (t : RawTree) :
    (t.hierarchy = [] → ∃ e, t.validate = .error e) ∧
    (∀ l0, t.hierarchy.head? = some l0 → t.nodesAt l0 = [] → ∃ e, t.validate = .error e) :=
  ⟨rejects_empty_hierarchy, fun _ h0 h => rejects_no_nodes h0 h⟩

example : (⟨true, [], [], true⟩ : RawTree).validate = .error .noNodes ∧
    (⟨true, [0], [(0, [])], true⟩ : RawTree).validate = .error .noNodes := by decide

/-- no `hierarchy` key at all -/
theorem validate_rejects_no_hierarchy (t : RawTree) (h : t.hasHierarchy = false) :
    t.validate = .error .noHierarchy :=
  rejects_no_hierarchy h

example : ({ exTree with hasHierarchy := false } : RawTree).validate = .error .noHierarchy := by rfl

/-- a node name that is not a `str` -/
theorem validate_rejects_non_str_node (t : RawTree) (hh : t.hasHierarchy = true)
    (hn : t.hierarchy.Nodup)
    (hk : t.keysMatch = true) (h : t.nodesAreStr = false) : t.validate = .error .nonStrNode :=
  rejects_non_str_node hh hn hk h

example : ({ exTree with nodesAreStr := false } : RawTree).validate = .error .nonStrNode := by rfl

/-! ### leaves -/

/-- *"the descendant leaves of a node's children partition the node's leaves"*:
for a node `p` of a non-leaf level `pl` (children at level `cl`),
 1. the concatenated `as_leaves` lists of its children are a permutation of its
    own `as_leaves` list (union, with multiplicity),
 2. which has no duplicate — so the children's lists are duplicate free and
 3. pairwise disjoint. -/
theorem leaves_partition (t : RawTree) (w : WF t) {pl cl : Level}
    (hpc : (pl, cl) ∈ levelPairs t.hierarchy) {p : Node} (hp : p ∈ t.nodesAt pl) :
    ((t.entry pl p).flatMap (t.asLeaves cl)).Perm (t.asLeaves pl p) ∧
    (t.asLeaves pl p).Nodup ∧
    (t.entry pl p).Pairwise (fun c₁ c₂ => ∀ a, a ∈ t.asLeaves cl c₁ → a ∉ t.asLeaves cl c₂) := by
  have s := strict_of_validate w.valid
  obtain ⟨i, hi, rfl, rfl⟩ := idx_of_mem_levelPairs hpc
  have hperm := asLeaves_perm_children w.hNodup hi p
  have hnd := asLeaves_nodup s w.hNodup (by omega) hp
  refine ⟨hperm.symm, hnd, ?_⟩
  have h2 := hperm.nodup hnd
  unfold List.Nodup at h2
  rw [List.pairwise_flatMap] at h2
  exact h2.2.imp (fun h a ha hb => h a ha a hb rfl)

example : exTree.asLeaves 0 10 = [30, 31, 32] ∧ exTree.entry 0 10 = [21, 20] ∧
    exTree.asLeaves 1 21 = [31, 32] ∧ exTree.asLeaves 1 20 = [30] := by decide

/-- At every level the `as_leaves` lists of the level's nodes partition the
leaf level: every leaf lies under exactly one node of each level. -/
theorem leaves_partition_level (t : RawTree) (w : WF t) {l : Level} (hl : l ∈ t.hierarchy) :
    ((t.nodesAt l).flatMap (t.asLeaves l)).Perm (t.nodesAt (t.hierarchy.getLast w.hNe)) ∧
    (t.nodesAt (t.hierarchy.getLast w.hNe)).Nodup := by
  have s := strict_of_validate w.valid
  obtain ⟨i, hi, rfl⟩ := List.mem_iff_getElem.1 hl
  have := asLeaves_cover s w.dict w.hNodup hi
  rw [List.getLast_eq_getElem]
  exact ⟨this, w.dict.nodesAt_nodup _⟩

example : (exTree.nodesAt 0).flatMap (exTree.asLeaves 0) = [30, 31, 32, 33] ∧
    exTree.nodesAt 2 = [30, 31, 32, 33] := by decide

/-- Every node of an accepted tree has at least one leaf below it (every node
above the leaf level has a child), so no `as_leaves` list is empty. -/
theorem leaves_nonempty (t : RawTree) (w : WF t) {l : Level} (hl : l ∈ t.hierarchy)
    {n : Node} (hn : n ∈ t.nodesAt l) : t.asLeaves l n ≠ [] := by
  obtain ⟨i, hi, rfl⟩ := List.mem_iff_getElem.1 hl
  exact asLeaves_ne_nil (strict_of_validate w.valid) w.hNodup hi hn

example : 11 ∈ exTree.nodesAt 0 ∧ exTree.asLeaves 0 11 = [33] := by decide

/-! ### parents and children -/

/-- *"parent and child queries are mutually inverse"*: for adjacent levels
`pl > cl`, `c` is among `children(pl, p)` iff `parents(cl, c)[pl] == p`, iff the
child→parent table maps `c` to `p`. -/
theorem parent_child_inverse (t : RawTree) (w : WF t) {pl cl : Level}
    (hpc : (pl, cl) ∈ levelPairs t.hierarchy) (p c : Node) (cs : List Node)
    (hcs : t.children (some (pl, p)) = .ok cs) :
    (c ∈ cs ↔ (t.parents cl c).lookup pl = some p) ∧
    (c ∈ cs ↔ t.childToParent cl c = some p) := by
  have s := strict_of_validate w.valid
  obtain ⟨i, hi, rfl, rfl⟩ := idx_of_mem_levelPairs hpc
  have hpn := (children_some_ok_iff.1 hcs).2
  obtain ⟨hpn, rfl⟩ := hpn
  have h2 : c ∈ t.entry t.hierarchy[i] p ↔ t.childToParent t.hierarchy[i+1] c = some p := by
    rw [childToParent_eq_some_iff s w.hNodup hi, isChild_iff w.dict]
    exact ⟨fun h => ⟨hpn, h⟩, fun h => h.2⟩
  refine ⟨?_, h2⟩
  rw [h2]
  cases hq : t.childToParent t.hierarchy[i+1] c with
  | none =>
    have : t.parents t.hierarchy[i+1] c = [] := by
      unfold parents
      obtain ⟨f, hf⟩ : ∃ f, t.hierarchy.length = f + 1 := ⟨t.hierarchy.length - 1, by omega⟩
      rw [hf]
      simp [parentsAux, parentLevel_succ w.hNodup hi, hq]
    simp [this]
  | some q =>
    rw [parents_succ' s w.hNodup hi hq]
    simp [List.lookup]

example : exTree.children (some (0, 10)) = .ok [21, 20] ∧
    (exTree.parents 1 21).lookup 0 = some 10 ∧ exTree.parents 2 31 = [(1, 21), (0, 10)] := by decide

/-- Every node below the top level has exactly one parent, `parents` lists one
ancestor for each level above (nearest first) and the node is among the
children of its parent. -/
theorem parents_total (t : RawTree) (w : WF t) {pl cl : Level}
    (hpc : (pl, cl) ∈ levelPairs t.hierarchy) {c : Node} (hc : c ∈ t.nodesAt cl) :
    ∃ p, t.childToParent cl c = some p ∧ p ∈ t.nodesAt pl ∧ c ∈ t.entry pl p ∧
      t.parents cl c = (pl, p) :: t.parents pl p := by
  have s := strict_of_validate w.valid
  obtain ⟨i, hi, rfl, rfl⟩ := idx_of_mem_levelPairs hpc
  obtain ⟨p, hp, hpm⟩ := childToParent_isSome s w.hNodup hi hc
  refine ⟨p, hp, hpm, ?_, parents_succ s w.hNodup hi hc hp⟩
  exact ((isChild_iff w.dict).1 ((childToParent_eq_some_iff s w.hNodup hi c p).1 hp)).2

/-- the levels listed by `parents(l, n)` are exactly the levels above `l`,
nearest first -/
theorem parents_levels_above (t : RawTree) (w : WF t) {i : Nat} (hi : i < t.hierarchy.length)
    {n : Node} (hmem : n ∈ t.nodesAt t.hierarchy[i]) :
    (t.parents t.hierarchy[i] n).map (·.1) = (t.hierarchy.take i).reverse :=
  parents_levels (strict_of_validate w.valid) w.hNodup i hi n hmem

/-! ### leaf pairs to discriminate -/

/-- *"The leaf pairs to be discriminated under a parent are exactly the
unordered pairs of leaves lying under two different children of that parent,
each listed once."*  `parent = none` is the root (children = the top-level
nodes); `sibs` are the children of the parent, `cl` the level they live at.
The list returned by `leaves_to_compare(parent)` has no duplicate, and `(a, b)`
is in it iff `a < b` and `a`, `b` lie under two different children. -/
theorem pairs_exact (t : RawTree) (w : WF t) (parent : Option (Level × Node))
    (sibs : List Node) (cl : Level) (hs : t.children parent = .ok sibs)
    (hcl : t.levelUnder parent = some cl) :
    (t.leafPairs parent).Nodup ∧
    ∀ a b, (a, b) ∈ t.leafPairs parent ↔
      a < b ∧ ∃ s₀ s₁, s₀ ∈ sibs ∧ s₁ ∈ sibs ∧ s₀ ≠ s₁ ∧
        a ∈ t.asLeaves cl s₀ ∧ b ∈ t.asLeaves cl s₁ := by
  have s := strict_of_validate w.valid
  have hlen := List.length_pos_iff.2 w.hNe
  -- in both cases the pairs are `crossPairs` over duplicate-free disjoint leaf lists
  suffices h : t.leafPairs parent = crossPairs (t.asLeaves cl) sibs ∧
      (sibs.flatMap (t.asLeaves cl)).Nodup by
    rw [h.1]
    exact ⟨crossPairs_nodup _ _ h.2, fun a b => mem_crossPairs _ _ h.2 a b⟩
  cases parent with
  | none =>
    have h0 : t.hierarchy.head? = some t.hierarchy[0] := by
      rw [List.head?_eq_getElem?]; exact List.getElem?_eq_getElem hlen
    simp only [levelUnder, h0, Option.some.injEq] at hcl
    subst hcl
    simp only [children, h0] at hs
    cases hs
    exact ⟨leafPairs_root _ h0,
      asLeaves_flatMap_nodup s w.hNodup hlen (w.dict.nodesAt_nodup _) (fun _ h => h)⟩
  | some ln =>
    obtain ⟨l, n⟩ := ln
    simp only [levelUnder] at hcl
    have hln := children_some_ok_iff.1 hs
    have hln : l ∈ t.hierarchy ∧ n ∈ t.nodesAt l ∧ sibs = t.entry l n :=
      ⟨s.keysSub l hln.1, hln.2⟩
    obtain ⟨hl, hnm, rfl⟩ := hln
    obtain ⟨i, hi, rfl⟩ := List.mem_iff_getElem.1 hl
    rw [childLevel_getElem w.hNodup hi] at hcl
    have hi1 : i + 1 < t.hierarchy.length := by
      rcases Nat.lt_or_ge (i+1) t.hierarchy.length with h | h
      · exact h
      · rw [List.getElem?_eq_none h] at hcl; cases hcl
    rw [List.getElem?_eq_getElem hi1] at hcl
    cases hcl
    have hleaf : (some t.hierarchy[i] == t.leafLevel) = false := by
      rw [leafLevel_eq w.hNe]
      simp only [beq_eq_false_iff_ne, ne_eq, Option.some.injEq]
      intro he
      have := (List.getElem_inj w.hNodup).1 he
      omega
    refine ⟨leafPairs_node n hleaf (by rw [childLevel_getElem w.hNodup hi]; exact List.getElem?_eq_getElem hi1), ?_⟩
    exact asLeaves_flatMap_nodup s w.hNodup hi1 (s.entry_nodup hi1 hnm)
      (fun c hc => s.entry_sub hi1 hnm hc)

example : exTree.leafPairs none = [(30, 33), (31, 33), (32, 33)] ∧
    exTree.leafPairs (some (0, 10)) = [(30, 31), (30, 32)] ∧
    exTree.children (some (0, 10)) = .ok [21, 20] ∧ exTree.levelUnder (some (0, 10)) = some 1 := by
  decide

/-- each unordered pair is listed exactly once (count form of `pairs_exact`) -/
theorem pairs_count (t : RawTree) (w : WF t) (parent : Option (Level × Node))
    (sibs : List Node) (cl : Level) (hs : t.children parent = .ok sibs)
    (hcl : t.levelUnder parent = some cl) (a b : Node) :
    (t.leafPairs parent).count (a, b) ≤ 1 ∧ (t.leafPairs parent).count (b, a) ≤ 1 ∧
    ((a, b) ∈ t.leafPairs parent → (b, a) ∉ t.leafPairs parent) := by
  obtain ⟨hnd, hmem⟩ := pairs_exact t w parent sibs cl hs hcl
  refine ⟨List.nodup_iff_count.1 hnd _, List.nodup_iff_count.1 hnd _, fun h1 h2 => ?_⟩
  have hab := ((hmem a b).1 h1).1
  have hba := ((hmem b a).1 h2).1
  exact Nat.lt_irrefl _ (Nat.lt_trans hab hba)

/-- no pair for a parent with a single child -/
theorem pairs_single_child (t : RawTree) (parent : Option (Level × Node)) (c : Node)
    (hs : t.children parent = .ok [c]) : t.leafPairs parent = [] := by
  cases parent with
  | none =>
    obtain ⟨l0, h0, he⟩ := children_none_ok_iff.1 hs
    rw [leafPairs_root l0 h0, ← he]
    rfl
  | some ln =>
    obtain ⟨l, n⟩ := ln
    obtain ⟨_, _, he⟩ := children_some_ok_iff.1 hs
    simp only [leafPairs]
    split
    · rfl
    · rename_i cl sibs hsome
      split at hsome
      · cases hsome
      · cases hc : t.childLevel l with
        | none => simp [hc] at hsome
        | some cl' =>
          simp only [hc, Option.map_some, Option.some.injEq, Prod.mk.injEq] at hsome
          obtain ⟨_, rfl⟩ := hsome
          simp [← he, combos2]

example : exTree.children (some (0, 11)) = .ok [22] ∧ exTree.leafPairs (some (0, 11)) = [] := by
  decide

/-- no pair at the leaf level -/
theorem pairs_leaf_level (t : RawTree) (l : Level) (n : Node) (hl : t.leafLevel = some l) :
    t.leafPairs (some (l, n)) = [] :=
  leafPairs_leaf n hl

example : exTree.leafLevel = some 2 ∧ exTree.leafPairs (some (2, 31)) = [] := by decide

/-- Taken over all parents of `all_parents` (the root and every node above the
leaf level), every unordered pair of distinct leaves is listed exactly once:
under their lowest common ancestor and under no other parent. -/
theorem pairs_cover_once (t : RawTree) (w : WF t) {a b : Node}
    (ha : a ∈ t.nodesAt (t.hierarchy.getLast w.hNe))
    (hb : b ∈ t.nodesAt (t.hierarchy.getLast w.hNe)) (hab : a < b) :
    ∃ P, P ∈ t.allParents ∧ (a, b) ∈ t.leafPairs P ∧
      ∀ Q, Q ∈ t.allParents → (a, b) ∈ t.leafPairs Q → Q = P := by
  rw [getLast_eq_leafIdx w] at ha hb
  obtain ⟨P, hP, hmem⟩ := pairs_cover w ha hb hab
  exact ⟨P, hP, hmem, fun Q hQ h2 => pairs_cover_unique w ha hb hQ hP h2 hmem⟩

example : exTree.allParents = [none, some (0, 10), some (0, 11), some (1, 21), some (1, 20),
      some (1, 22)] ∧
    exTree.allParents.map exTree.leafPairs =
      [[(30, 33), (31, 33), (32, 33)], [(30, 31), (30, 32)], [], [(31, 32)], [], []] := by decide

/-! ### flatten, drop_level -/

/-- *"Flattening … preserve[s] the leaf set and each leaf's ancestor at every
remaining level"*: `flatten()` of a well-formed tree is again well formed (so
the constructor's validation passes), its only level is the leaf level, whose
dict (leaf names, their order, their rows) is untouched; the only remaining
level is the leaf level itself, where every leaf is its own ancestor before and
after; and `as_leaves` of a leaf is the leaf. -/
theorem flatten_preserves (t : RawTree) (w : WF t) :
    WF t.flatten ∧
    t.flatten.hierarchy = [t.hierarchy.getLast w.hNe] ∧
    t.flatten.level (t.hierarchy.getLast w.hNe) = t.level (t.hierarchy.getLast w.hNe) ∧
    t.flatten.allRows = t.allRows ∧
    (∀ n, t.flatten.ancestorAt (t.hierarchy.getLast w.hNe) n (t.hierarchy.getLast w.hNe) =
        t.ancestorAt (t.hierarchy.getLast w.hNe) n (t.hierarchy.getLast w.hNe)) ∧
    (∀ n, t.flatten.asLeaves (t.hierarchy.getLast w.hNe) n = [n]) := by
  have hl := w.leafLevel_getLast
  exact ⟨flatten_wf w, flatten_hierarchy hl, flatten_level_leaf w.hNodup hl,
    flatten_allRows w.hNodup, fun n => by rw [ancestorAt_self, ancestorAt_self],
    fun n => flatten_asLeaves hl n⟩

example : exTree.flatten = ⟨true, [2],
    [(2, [(30, [0]), (31, [1, 2]), (32, []), (33, [4, 3])])], true⟩ := by decide

/-- *"dropping any level … preserve[s] the leaf set and each leaf's ancestor at
every remaining level"*: for a well-formed tree with at least two levels and
any non-leaf level `h[i]`, `drop_level(h[i])` succeeds — in particular the
re-validation in the constructor of the new tree never fails —, the result is
well formed, its hierarchy is the old one without `h[i]`, the leaf level's dict
(leaf names, order, rows) is untouched, and every leaf has the same ancestor as
before at every remaining level. -/
theorem drop_preserves (t : RawTree) (w : WF t) {i : Nat} (hi : i + 1 < t.hierarchy.length)
    (allowLeaf : Bool) :
    ∃ t', t.dropLevel (t.hierarchy[i]'(by omega)) allowLeaf = .ok t' ∧
      WF t' ∧
      t'.hierarchy = t.hierarchy.eraseIdx i ∧
      t'.level (t.hierarchy.getLast w.hNe) = t.level (t.hierarchy.getLast w.hNe) ∧
      t'.allRows = t.allRows ∧
      (∀ n, n ∈ t.nodesAt (t.hierarchy.getLast w.hNe) → ∀ l, l ∈ t'.hierarchy →
        t'.ancestorAt (t.hierarchy.getLast w.hNe) n l =
          t.ancestorAt (t.hierarchy.getLast w.hNe) n l) ∧
      (∀ l, l ∈ t'.hierarchy → ∀ n, (t'.asLeaves l n).Perm (t.asLeaves l n)) := by
  have hi' : i < t.hierarchy.length := by omega
  obtain ⟨t', hd, hraw, w'⟩ := dropLevel_eq_ok w hi' (by omega) (allowLeaf := allowLeaf) (Or.inr hi)
  have hh := drop_hierarchy w.hNodup hi' hraw
  refine ⟨t', hd, w', hh, ?_, drop_allRows_nonleaf w.hNodup hi' hraw hi, ?_, ?_⟩
  · have := drop_level_leaf w.hNodup hi' hraw hi
    rw [List.getLast_eq_getElem]
    exact this
  · intro n hn l hl
    exact drop_ancestorAt w hi' hi hraw w.leafLevel_getLast hn hl
  · intro l hl n
    rw [hh] at hl
    have hlt : l ∈ t.hierarchy := (List.eraseIdx_sublist _ _).subset hl
    obtain ⟨j, hj, rfl⟩ := List.mem_iff_getElem.1 hlt
    have hji : j ≠ i := by
      rintro rfl
      rw [List.mem_eraseIdx_iff_getElem] at hl
      obtain ⟨k, hk, hki, hke⟩ := hl
      exact hki ((List.getElem_inj w.hNodup).1 hke)
    exact drop_asLeaves w.hNodup hi' hraw hi hj hji n

example : exTree.dropLevel 1 = .ok ⟨true, [0, 2],
      [(0, [(10, [31, 32, 30]), (11, [33])]),
       (2, [(30, [0]), (31, [1, 2]), (32, []), (33, [4, 3])])], true⟩ ∧
    exTree.dropLevel 0 = .ok ⟨true, [1, 2],
      [(1, [(21, [31, 32]), (20, [30]), (22, [33])]),
       (2, [(30, [0]), (31, [1, 2]), (32, []), (33, [4, 3])])], true⟩ := by decide

/-- `drop_leaf_level()`: the parents of the leaves become the leaves. The
result is well formed, every other level's dict is untouched, the new leaves
are the nodes of the old last-but-one level, each owning the rows of its former
children, and no row is lost or duplicated. -/
theorem drop_leaf_preserves (t : RawTree) (w : WF t) (h2 : 2 ≤ t.hierarchy.length) :
    ∃ t', t.dropLevel (t.hierarchy.getLast w.hNe) true = .ok t' ∧
      WF t' ∧
      t'.hierarchy = t.hierarchy.dropLast ∧
      (∀ j (hj : j + 2 < t.hierarchy.length),
        t'.level (t.hierarchy[j]'(by omega)) = t.level (t.hierarchy[j]'(by omega))) ∧
      t'.nodesAt (t.hierarchy[t.hierarchy.length - 2]'(by omega)) =
        t.nodesAt (t.hierarchy[t.hierarchy.length - 2]'(by omega)) ∧
      (∀ p, t'.entry (t.hierarchy[t.hierarchy.length - 2]'(by omega)) p =
        (t.entry (t.hierarchy[t.hierarchy.length - 2]'(by omega)) p).flatMap
          (t.entry (t.hierarchy.getLast w.hNe))) ∧
      t'.allRows.Perm t.allRows := by
  have hlast : t.hierarchy.getLast w.hNe = t.hierarchy[t.hierarchy.length - 1]'(by omega) :=
    List.getLast_eq_getElem _
  have hi : t.hierarchy.length - 1 < t.hierarchy.length := by omega
  obtain ⟨t', hd, hraw, w'⟩ := dropLevel_eq_ok w hi h2 (allowLeaf := true) (Or.inl rfl)
  have s := strict_of_validate w.valid
  refine ⟨t', by rw [hlast]; exact hd, w', ?_, ?_, ?_, ?_, drop_allRows_perm s w.dict w.hNodup hi hraw⟩
  · rw [drop_hierarchy w.hNodup hi hraw, List.dropLast_eq_take, List.eraseIdx_eq_take_drop_succ]
    rw [List.drop_eq_nil_of_le (by omega), List.append_nil]
  · intro j hj
    apply drop_level_other w.hNodup hi hraw
    · intro e; have := (List.getElem_inj w.hNodup).1 e; omega
    · intro h0 e; have := (List.getElem_inj w.hNodup).1 e; omega
  · apply drop_nodesAt w.hNodup hi hraw
    intro e; have := (List.getElem_inj w.hNodup).1 e; omega
  · intro p
    have h0 : 0 < t.hierarchy.length - 1 := by omega
    have := drop_entry_parent w.hNodup hi hraw h0 p
    simp only [hlast]
    have e : t.hierarchy.length - 1 - 1 = t.hierarchy.length - 2 := by omega
    simp only [e] at this
    exact this

example : exTree.dropLevel 2 true = .ok ⟨true, [0, 1],
      [(1, [(21, [1, 2]), (20, [0]), (22, [4, 3])]),
       (0, [(10, [21, 20]), (11, [22])])], true⟩ := by decide

/-- the refusals of `_drop_level`, in the order the code tests them -/
theorem drop_refusals (t : RawTree) (l : Level) (allowLeaf : Bool) :
    (t.hierarchy.length = 1 → t.dropLevel l allowLeaf = .error .flatTree) ∧
    (t.hierarchy.length ≠ 1 → l ∉ t.hierarchy → t.dropLevel l allowLeaf = .error .levelNotInTree) ∧
    (t.hierarchy.length ≠ 1 → l ∈ t.hierarchy → t.leafLevel = some l →
      t.dropLevel l false = .error .isLeafLevel) := by
  refine ⟨fun h => ?_, fun h hl => ?_, fun h hl hll => ?_⟩
  · simp [dropLevel, dropLevelRaw_flat h]
  · simp [dropLevel, dropLevelRaw_not_in h hl]
  · simp [dropLevel, dropLevelRaw_leaf h hl hll]

example : exTree.dropLevel 2 = .error .isLeafLevel ∧ exTree.dropLevel 9 = .error .levelNotInTree ∧
    exTree.flatten.dropLevel 2 = .error .flatTree := by decide

/-- *"serialising then re-reading preserve[s] the leaf set and each leaf's
ancestor at every remaining level"*, for `to_str(drop_cells=True)` (plain
`to_str` / `from_str` is the identity on the data; JSON itself is trusted): the
tree without its cell lists is well formed, has the same hierarchy, the same
nodes at every level (in the same order), the same dicts above the leaf level,
empty row lists, and every query that does not read rows answers the same:
`parents`, ancestors, `as_leaves`. -/
theorem drop_cells_preserves (t : RawTree) (w : WF t) :
    WF t.dropCells ∧
    t.dropCells.hierarchy = t.hierarchy ∧
    (∀ l, t.dropCells.nodesAt l = t.nodesAt l) ∧
    (∀ l, t.leafLevel ≠ some l → t.dropCells.level l = t.level l) ∧
    (∀ n, t.dropCells.entry (t.hierarchy.getLast w.hNe) n = []) ∧
    (∀ l n, t.dropCells.parents l n = t.parents l n) ∧
    (∀ l n al, t.dropCells.ancestorAt l n al = t.ancestorAt l n al) ∧
    (∀ l n, t.dropCells.asLeaves l n = t.asLeaves l n) :=
  ⟨dropCells_wf w, dropCells_hierarchy, fun l => dropCells_nodesAt w l,
    fun _ hl => dropCells_level_other hl, fun n => dropCells_entry_leaf w n,
    fun l n => dropCells_parents w l n, fun l n al => dropCells_ancestorAt w l n al,
    fun l n => dropCells_asLeaves w l n⟩

example : exTree.dropCells.level 2 = [(30, []), (31, []), (32, []), (33, [])] ∧
    exTree.dropCells.level 1 = exTree.level 1 := by decide

/-- composition: dropping any non-leaf level and then flattening gives exactly
the flattened original (as data), and flattening twice is flattening once.
(Chains of drops stay inside `WF` by `drop_preserves`, so every theorem here
applies again to the result.) -/
theorem flatten_after_drop (t : RawTree) (w : WF t) :
    (∀ i (hi : i + 1 < t.hierarchy.length) (allowLeaf : Bool) (t' : RawTree),
      t.dropLevel (t.hierarchy[i]'(by omega)) allowLeaf = .ok t' → t'.flatten = t.flatten) ∧
    t.flatten.flatten = t.flatten :=
  ⟨fun _ hi _ _ ht' => flatten_drop_eq w hi ht', flatten_flatten w⟩

example : (exTree.dropLevel 1).map (·.flatten) = .ok exTree.flatten := by decide

/-! ### building the tree from per-cell label columns -/

/-- *"building it from per-cell label columns reproduces exactly the label
combinations present"*.  `cols` = the column hierarchy (distinct names, at
least one), `recs` = one list of labels per cell, one label per column.
`get_taxonomy_tree` accepts the records iff there is at least one cell and the
label columns are functionally nested (cells with the same child label have
the same parent label; without any cell the tree has no node and is refused
since `fix:` 6649211); the tree
it returns is well formed, its levels are the columns, the nodes of a level are
the labels occurring in that column, `c` is a child of `p` iff some cell
carries `p` and `c` in adjacent columns, the rows of a leaf are exactly the
indices of the cells carrying that leaf label, and the root-to-leaf paths of
the tree are exactly the label tuples of the cells. -/
theorem from_records (cols : List Level) (recs : List (List Node)) (hc : cols.Nodup)
    (hne : cols ≠ []) (hr : RecsOK cols recs) :
    ((∃ t, fromRecords cols recs = .ok t) ↔ Nested cols recs ∧ recs ≠ []) ∧
    ∀ t, fromRecords cols recs = .ok t →
      WF t ∧ t.hierarchy = cols ∧
      (∀ j (hj : j < cols.length) p,
        p ∈ t.nodesAt cols[j] ↔ ∃ r, r ∈ recs ∧ r[j]? = some p) ∧
      (∀ j (hj : j + 1 < cols.length) p c,
        (p ∈ t.nodesAt (cols[j]'(by omega)) ∧ c ∈ t.entry (cols[j]'(by omega)) p) ↔
          ∃ r, r ∈ recs ∧ r[j]? = some p ∧ r[j+1]? = some c) ∧
      (∀ leaf i, (leaf ∈ t.nodesAt (cols.getLast hne) ∧ i ∈ t.entry (cols.getLast hne) leaf) ↔
          ∃ r, recs[i]? = some r ∧ r.getLast? = some leaf) ∧
      (∀ ns, IsPath t ns ↔ ns ∈ recs) := by
  have hd := fromRecordsRaw_dictOK hc recs
  have hiff : (fromRecordsRaw cols recs).validate = .ok () ↔ Nested cols recs ∧ recs ≠ [] := by
    constructor
    · intro hv
      refine ⟨(fromRecordsRaw_strict_iff hc hr).1 (strict_of_validate hv), ?_⟩
      rintro rfl
      have h0 : (fromRecordsRaw cols []).hierarchy.head? =
          some (cols[0]'(List.length_pos_iff.2 hne)) := by
        rw [fromRecordsRaw_hierarchy, List.head?_eq_getElem?]
        exact List.getElem?_eq_getElem _
      exact hasNode_of_validate hv _ h0 (fromRecordsRaw_nil_noNode hc hne)
    · intro h
      exact (fromRecordsRaw_wf hc hne hr h.1 h.2).valid
  have hok : ∀ t, fromRecords cols recs = .ok t →
      t = fromRecordsRaw cols recs ∧ (fromRecordsRaw cols recs).validate = .ok () := by
    intro t ht
    simp only [fromRecords] at ht
    split at ht
    · cases ht
    · rename_i hv
      cases ht
      exact ⟨rfl, hv⟩
  refine ⟨⟨fun ⟨t, ht⟩ => hiff.1 (hok t ht).2, fun hn => ?_⟩, fun t ht => ?_⟩
  · refine ⟨fromRecordsRaw cols recs, ?_⟩
    simp only [fromRecords, hiff.2 hn]
  · obtain ⟨rfl, hv⟩ := hok t ht
    have hn := (hiff.1 hv).1
    refine ⟨⟨hv, hc, hne, hd⟩, rfl, fun j hj p => fromRecordsRaw_nodes hc hr j hj p,
      fun j hj p c => ?_, fun leaf i => ?_, fun ns => fromRecordsRaw_paths hc hne hr hn ns⟩
    · rw [← isChild_iff hd]
      exact fromRecordsRaw_children hc hr j hj p c
    · rw [← isChild_iff hd]
      exact fromRecordsRaw_rows hc hne hr leaf i

example : fromRecords [0, 1] [[10, 20], [10, 21], [11, 22], [10, 20]] =
    .ok ⟨true, [0, 1],
          [(0, [(10, [20, 21]), (11, [22])]), (1, [(20, [0, 3]), (21, [1]), (22, [2])])], true⟩ ∧
    fromRecords [0, 1] [[10, 20], [11, 20]] = .error .twoParents ∧
    fromRecords [0, 1] [] = .error .noNodes := by decide

/-- The tree lemma behind C17 (*"flattening or dropping a level equals mapping
on the reduced taxonomy"*): for nested label columns, building the tree from
all columns and then dropping level `cols[i]` (any level; the leaf level with
`allow_leaf`; at least one record) succeeds and gives the same tree as building it from the records
with column `i` erased — same hierarchy, same nodes at every level, same
children / rows for every node, up to the order inside the child / row lists
(`TreeEquiv`, CTM/Lemmas/TreeCommute.lean). -/
theorem drop_commutes_build (cols : List Level) (recs : List (List Node)) (hc : cols.Nodup)
    (hr : RecsOK cols recs) (hn : Nested cols recs) (hrec : recs ≠ []) {i : Nat}
    (hi : i < cols.length)
    (h2 : 2 ≤ cols.length) (allowLeaf : Bool) (hl : allowLeaf = true ∨ i + 1 < cols.length) :
    ∃ t', (fromRecordsRaw cols recs).dropLevel cols[i] allowLeaf = .ok t' ∧
      TreeEquiv t' (fromRecordsRaw (cols.eraseIdx i) (recs.map (·.eraseIdx i))) ∧
      Nested (cols.eraseIdx i) (recs.map (·.eraseIdx i)) :=
  let ⟨t', h1, h2'⟩ := RawTree.drop_commutes_build hc hr hn hrec hi h2 allowLeaf hl
  ⟨t', h1, h2', nested_eraseIdx hr hn i⟩

example : (fromRecordsRaw [0, 1, 2] [[10, 20, 30], [10, 21, 31], [11, 22, 32], [10, 20, 33]]).dropLevel 1
      = .ok ⟨true, [0, 2], [(0, [(10, [30, 33, 31]), (11, [32])]),
              (2, [(30, [0]), (31, [1]), (32, [2]), (33, [3])])], true⟩ ∧
    fromRecordsRaw [0, 2] [[10, 30], [10, 31], [11, 32], [10, 33]]
      = ⟨true, [0, 2], [(0, [(10, [30, 31, 33]), (11, [32])]),
              (2, [(30, [0]), (31, [1]), (32, [2]), (33, [3])])], true⟩ := by decide

/-! ### only the relation matters -/

/-- C10 constrains the taxonomy as a RELATION (who is a node of which level,
who is a child of whom, which rows a leaf owns), never the order of a dict or
of a child / row list.  A tree `t₂` that is `TreeEquiv` to a well-formed `t₁`
(same hierarchy, same nodes at every level, child / row lists equal up to
permutation) and is itself a Python dict with the same flags and key set is
well formed, and answers every parent / ancestor query identically and every
`as_leaves` query up to order.  This is what licenses the correspondence suite
to compare the code's `drop_level` / `flatten` / `to_str` / factory results
with the model's as relations (children lists sorted on both sides). -/
theorem relation_invariance (t₁ t₂ : RawTree) (e : TreeEquiv t₁ t₂) (w₁ : WF t₁)
    (d₂ : DictOK t₂) (hh : t₂.hasHierarchy = true) (hs : t₂.nodesAreStr = true)
    (hk : ∀ k, k ∈ t₂.levels.map (·.1) ↔ k ∈ t₂.hierarchy) :
    WF t₂ ∧
    (∀ cl c, t₁.childToParent cl c = t₂.childToParent cl c) ∧
    (∀ l n, t₁.parents l n = t₂.parents l n) ∧
    (∀ l n al, t₁.ancestorAt l n al = t₂.ancestorAt l n al) ∧
    (∀ l, l ∈ t₁.hierarchy → ∀ n, n ∈ t₁.nodesAt l → (t₁.asLeaves l n).Perm (t₂.asLeaves l n)) := by
  have w₂ := wf_of_equiv e w₁ d₂ hh hs hk
  exact ⟨w₂, childToParent_equiv e w₁ w₂, parents_equiv e w₁ w₂, ancestorAt_equiv e w₁ w₂,
    fun l hl n hn => asLeaves_equiv' e w₁ w₂ hl hn⟩

/-- the same taxonomy with every dict and list in another order -/
def exTreeShuffled : RawTree :=
  ⟨true, [0, 1, 2],
    [(0, [(11, [22]), (10, [20, 21])]), (1, [(22, [33]), (21, [32, 31]), (20, [30])]),
     (2, [(33, [3, 4]), (30, [0]), (31, [2, 1]), (32, [])])], true⟩

example : TreeEquiv exTree exTreeShuffled ∧ DictOK exTreeShuffled := by
  refine ⟨⟨by decide, ?_, ?_⟩, dictOK_of_b (by decide)⟩
  · intro l hl n
    have hl' : l = 0 ∨ l = 1 ∨ l = 2 := by simpa [exTree] using hl
    have hp : (exTree.nodesAt l).Perm (exTreeShuffled.nodesAt l) := by
      rcases hl' with rfl | rfl | rfl <;> decide
    exact hp.mem_iff
  · intro l hl n hn
    have hl' : l = 0 ∨ l = 1 ∨ l = 2 := by simpa [exTree] using hl
    rcases hl' with rfl | rfl | rfl
    · have hn' : n = 10 ∨ n = 11 := by simpa [exTree, nodesAt, level, List.lookup] using hn
      rcases hn' with rfl | rfl <;> decide
    · have hn' : n = 21 ∨ n = 20 ∨ n = 22 := by
        simpa [exTree, nodesAt, level, List.lookup] using hn
      rcases hn' with rfl | rfl | rfl <;> decide
    · have hn' : n = 30 ∨ n = 31 ∨ n = 32 ∨ n = 33 := by
        simpa [exTree, nodesAt, level, List.lookup] using hn
      rcases hn' with rfl | rfl | rfl | rfl <;> decide

/-- `drop_preserves` for ANY order of the re-attached grand-children: whatever
tree equals the model's `dropLevel` result as a relation (e.g. the code's, which
is free to list the re-attached children in another order) is well formed and
gives every leaf the ancestors it had before the drop at every remaining level.
(Only `drop_leaf_preserves` mentions a literal concatenation order — of the
row lists of the new leaves — and only as a statement about the model.) -/
theorem drop_preserves_any_order (t : RawTree) (w : WF t) {i : Nat}
    (hi : i + 1 < t.hierarchy.length) (allowLeaf : Bool) (t' t'' : RawTree)
    (hd : t.dropLevel (t.hierarchy[i]'(by omega)) allowLeaf = .ok t')
    (e : TreeEquiv t' t'') (d : DictOK t'') (hh : t''.hasHierarchy = true)
    (hs : t''.nodesAreStr = true)
    (hk : ∀ k, k ∈ t''.levels.map (·.1) ↔ k ∈ t''.hierarchy) :
    WF t'' ∧ t''.hierarchy = t.hierarchy.eraseIdx i ∧
    ∀ n, n ∈ t.nodesAt (t.hierarchy.getLast w.hNe) → ∀ l, l ∈ t''.hierarchy →
      t''.ancestorAt (t.hierarchy.getLast w.hNe) n l =
        t.ancestorAt (t.hierarchy.getLast w.hNe) n l := by
  obtain ⟨t₀, hd₀, w', hh', _, _, hanc, _⟩ := drop_preserves t w hi allowLeaf
  rw [hd] at hd₀
  cases hd₀
  have w'' := wf_of_equiv e w' d hh hs hk
  refine ⟨w'', by rw [← e.hier]; exact hh', fun n hn l hl => ?_⟩
  rw [← ancestorAt_equiv e w' w'']
  exact hanc n hn l (by rw [e.hier]; exact hl)

/-! ### the data-release CSV route -/

/-- *"under construction"*, for the route behind `TaxonomyTree.from_data_release`
(`get_tree_above_leaves` on `cluster_annotation_term.csv`, no cell metadata):
whatever the route accepts is validated, has the requested hierarchy, and is
exactly the taxonomy the rows describe — every row whose level has a level above
it in the hierarchy names THAT level as its parent level and its link is in the
tree (never a silently smaller tree), and every link of the tree comes from a
row. -/
theorem from_links_exact (h : List Level) (rows : List LinkRow) (t : RawTree)
    (ht : fromLinks h rows = .ok t) :
    t.validate = .ok () ∧ t.hierarchy = h ∧
    (∀ r, r ∈ rows → ∀ pl, (pl, r.level) ∈ levelPairs h →
      r.parentLevel = pl ∧ IsChild t pl r.parent r.label) ∧
    (∀ pl cl, (pl, cl) ∈ levelPairs h → ∀ p c, IsChild t pl p c →
      ∃ r, r ∈ rows ∧ r.label = c ∧ r.level = cl ∧ r.parent = p ∧ r.parentLevel = pl) :=
  ⟨(fromLinks_ok ht).1, (fromLinks_ok ht).2.1, fromLinks_rows_present ht,
    fun pl cl hm p c hc => fromLinks_links_from_rows ht pl cl hm p c hc⟩

example :
    fromLinks [0, 1, 2] [⟨20, 1, 10, 0⟩, ⟨31, 2, 20, 1⟩, ⟨30, 2, 20, 1⟩, ⟨10, 0, 0, 0⟩] =
      .ok ⟨true, [0, 1, 2], [(0, [(10, [20])]), (1, [(20, [30, 31])]),
                              (2, [(30, []), (31, [])])], true⟩ ∧
    -- a cluster linked to the level two above: rejected, not dropped
    fromLinks [0, 1, 2] [⟨20, 1, 10, 0⟩, ⟨31, 2, 10, 0⟩, ⟨30, 2, 20, 1⟩] =
      .error .badParentLevel := by decide

/-! ### constants re-extracted from the current source (translator) -/

/-- Generated obligation: `lean/CTM/Generated/TreeConsts.lean` is rewritten by
`./check C10` from the current source of `validate_taxonomy_tree`.  The
translator recognised the function, the keys it ignores are exactly the three
the model and the harness set aside, and the child-list tests (repeated
child, no children), the duplicate-level test and the no-nodes test are present — so `validate` (= `validateWith true`) is the
validator of the source as it stands. -/
theorem generated_validator_constants :
    Generated.TreeConsts.recognised = true ∧
    Generated.TreeConsts.ignorableKeys = ["hierarchy_mapper", "metadata", "name_mapper"] ∧
    Generated.TreeConsts.repeatedChildTest = true ∧
    Generated.TreeConsts.noChildrenTest = true ∧
    Generated.TreeConsts.dupLevelTest = true ∧
    Generated.TreeConsts.noNodesTest = true ∧
    ∀ t : RawTree, t.validate = t.validateWith Generated.TreeConsts.strictChildren := by
  refine ⟨by decide, by decide, by decide, by decide, by decide, by decide, fun t => rfl⟩

end CTM.C10
