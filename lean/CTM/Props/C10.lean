import CTM.Model.Tree
namespace CTM.C10
theorem placeholder_true : True := trivial
end CTM.C10
