/-
  C12 / C04 — the worker level of `select_all_markers`.

  Group G2's `Selection.selectAll` is the per-parent selection (one result per
  parent; "the worker processes do not communicate, so `n_processors` does not
  appear").  Here the worker level is put on top of it, as in
  marker_selection/selection_pipeline.py:

      output_dict = mgr.dict()
      … one `_marker_selection_worker` per parent (at most `n_processors` at a
        time; a "behemoth" parent - more leaf pairs than the cut-off - works
        on the full table, and only one behemoth runs at a time) …
          output_dict[parent_node] = marker_genes        # when the worker is done
      output_dict = dict(output_dict)

  `selectAllWorkers`: parent `i` is registered under the key `keys[i]`; the
  workers' `(key, result)` records reach the dict in the completion order
  `completion` (`Procs.gather`), and the caller reads the returned lookup for
  the keys `ask` (`Procs.mergeDictByKey`).  `selection_worker_indep` composes
  C04 `schedule_indep_dict` (completion order) with C12 `indep_cutoff`
  (behemoth threshold): the lookup is the same for every worker count, every
  completion order the poll loop can produce, and every threshold.
-/
import CTM.Props.C12
import CTM.Props.C04

namespace CTM.C12
open CTM CTM.Selection CTM.Procs

/-- `select_all_markers` with its workers: the returned lookup, read for the
keys `ask` (`none` = the key is not in the dict) -/
def selectAllWorkers (t : RefTable) (query : List Nat) (parents : List Parent) (keys : List Nat)
    (cutoff : Nat) (ties : Nat → Tie) (completion : List Nat) (ask : List Nat) :
    Except Err (List (Option (Except Err (List Nat)))) :=
  match selectAll t query parents cutoff ties with
  | .error e => .error e
  | .ok rs => .ok (mergeDictByKey (gather (keys.zip rs) completion) ask)

theorem selectAll_length {t : RefTable} {query : List Nat} {parents : List Parent} {c : Nat}
    {ties : Nat → Tie} {rs : List (Except Err (List Nat))}
    (h : selectAll t query parents c ties = .ok rs) : rs.length = parents.length := by
  unfold selectAll at h
  cases hth : thin t query with
  | error e => rw [hth] at h; cases h
  | ok th =>
    rw [hth] at h
    simp only [Except.ok.injEq] at h
    subst h
    simp

/-- with distinct keys the dict the workers fill is, whatever the completion
order, the dispatch-order association `keys[i] ↦ rs[i]` -/
theorem workers_lookup {ρ} (keys : List Nat) (rs : List ρ) (hk : keys.Nodup)
    (hlen : rs.length = keys.length) (completion : List Nat)
    (hc : completion.Perm (List.range keys.length)) (ask : List Nat) :
    mergeDictByKey (gather (keys.zip rs) completion) ask =
      ask.map (fun k => (keys.zip rs).lookup k) := by
  have hzl : (keys.zip rs).length = keys.length := by simp [List.length_zip, hlen]
  have hp : (gather (keys.zip rs) completion).Perm (keys.zip rs) :=
    gather_perm _ _ (by rw [hzl]; exact hc)
  have hfst : (keys.zip rs).map (·.1) = keys := by
    rw [List.map_fst_zip]; omega
  have hn : ((keys.zip rs).map (·.1)).Nodup := by rw [hfst]; exact hk
  rw [C04.schedule_indep_dict _ _ hp ((hp.map _).symm.nodup hn) ask]
  simp only [mergeDictByKey, dictOfList_nodup _ hn]
  rfl

theorem lookup_zip_index {ρ} {keys : List Nat} {rs : List ρ} {k : Nat} {v : ρ}
    (h : (keys.zip rs).lookup k = some v) : ∃ i : Nat, keys[i]? = some k ∧ rs[i]? = some v := by
  obtain ⟨l₁, l₂, hl, _⟩ := List.lookup_eq_some_iff.1 h
  have hm : (k, v) ∈ keys.zip rs := by rw [hl]; simp
  obtain ⟨i, hi⟩ := List.mem_iff_getElem?.1 hm
  exact ⟨i, List.getElem?_zip_eq_some.1 hi⟩

/-- "The selection is the same for every worker count, every completion order of
the workers and any threshold deciding which parents are processed on the full
table": two runs of `select_all_markers` on the same reference table, query
and parents (registered under distinct keys), with worker counts `p₁`, `p₂`,
completion orders `σ₁`, `σ₂` the poll loop can produce with that many slots
(`Procs.completionOrders`), behemoth cut-offs `c₁`, `c₂`, and tie-breaking that
looks at the utility array only.  The returned lookups have the same keys, and
under every key both runs selected the same genes (`Perm`: the order of the
forced "desperate" prefix may differ between the behemoth and the down-sampled
path, C12 `indep`). -/
theorem selection_worker_indep {t : RefTable} {query : List Nat} {parents : List Parent}
    {keys : List Nat} {c₁ c₂ p₁ p₂ : Nat} {pol : Nat → List Int → Nat} {σ₁ σ₂ ask : List Nat}
    {r₁ r₂ : List (Option (Except Err (List Nat)))}
    (ht : TableWF t) (hk : keys.Nodup) (hlen : keys.length = parents.length)
    (hσ₁ : σ₁ ∈ completionOrders parents.length p₁) (hσ₂ : σ₂ ∈ completionOrders parents.length p₂)
    (h₁ : selectAllWorkers t query parents keys c₁ (fun i _ u => pol i u) σ₁ ask = .ok r₁)
    (h₂ : selectAllWorkers t query parents keys c₂ (fun i _ u => pol i u) σ₂ ask = .ok r₂) :
    r₁.length = r₂.length ∧
    (∀ j : Nat, (r₁[j]?).map Option.isSome = (r₂[j]?).map Option.isSome) ∧
    ∀ (j : Nat) (a b : List Nat), r₁[j]? = some (some (.ok a)) → r₂[j]? = some (some (.ok b)) →
      a.Perm b := by
  unfold selectAllWorkers at h₁ h₂
  cases hs₁ : selectAll t query parents c₁ (fun i _ u => pol i u) with
  | error e => rw [hs₁] at h₁; cases h₁
  | ok rs₁ =>
    cases hs₂ : selectAll t query parents c₂ (fun i _ u => pol i u) with
    | error e => rw [hs₂] at h₂; cases h₂
    | ok rs₂ =>
      rw [hs₁] at h₁
      rw [hs₂] at h₂
      simp only [Except.ok.injEq] at h₁ h₂
      have hl₁ : rs₁.length = keys.length := by rw [selectAll_length hs₁, hlen]
      have hl₂ : rs₂.length = keys.length := by rw [selectAll_length hs₂, hlen]
      have hc₁ := completionOrders_perm _ _ σ₁ hσ₁
      have hc₂ := completionOrders_perm _ _ σ₂ hσ₂
      rw [← hlen] at hc₁ hc₂
      rw [workers_lookup keys rs₁ hk hl₁ σ₁ hc₁ ask] at h₁
      rw [workers_lookup keys rs₂ hk hl₂ σ₂ hc₂ ask] at h₂
      subst h₁ h₂
      obtain ⟨_, hperm⟩ := indep_cutoff ht hs₁ hs₂
      refine ⟨by simp, ?_, ?_⟩
      · intro j
        simp only [List.getElem?_map]
        cases ask[j]? with
        | none => rfl
        | some k =>
          simp only [Option.map_some, Option.some.injEq]
          -- a key is in the dict iff it is one of `keys`
          have key : ∀ (rs : List (Except Err (List Nat))), rs.length = keys.length →
              ((keys.zip rs).lookup k).isSome = decide (k ∈ keys) := by
            intro rs hl
            rw [Bool.eq_iff_iff, List.lookup_isSome_iff]
            simp only [decide_eq_true_eq]
            constructor
            · rintro ⟨p, hp, hkp⟩
              have : p.1 ∈ keys := (List.of_mem_zip hp).1
              have hkp' : k = p.1 := by simpa using hkp
              rw [hkp']; exact this
            · intro hkm
              obtain ⟨i, hi⟩ := List.mem_iff_getElem?.1 hkm
              have hil : i < rs.length := by
                rw [hl]; exact (List.getElem?_eq_some_iff.1 hi).1
              refine ⟨(k, rs[i]), ?_, by simp⟩
              apply List.mem_iff_getElem?.2
              exact ⟨i, List.getElem?_zip_eq_some.2 ⟨hi, List.getElem?_eq_getElem hil⟩⟩
          rw [key rs₁ hl₁, key rs₂ hl₂]
      · intro j a b ha hb
        simp only [List.getElem?_map, Option.map_eq_some_iff] at ha hb
        obtain ⟨k, hk₁, ha⟩ := ha
        obtain ⟨k', hk₂, hb⟩ := hb
        rw [hk₁] at hk₂
        cases hk₂
        obtain ⟨i, hki, hri⟩ := lookup_zip_index ha
        obtain ⟨i', hki', hri'⟩ := lookup_zip_index hb
        have hii : i = i' :=
          (List.getElem?_inj (List.getElem?_eq_some_iff.1 hki).1 hk).1 (hki.trans hki'.symm)
        subst hii
        exact hperm i a b hri hri'

/-- with the same threshold the two lookups are equal as they stand -/
theorem selection_worker_schedule_indep {t : RefTable} {query : List Nat} {parents : List Parent}
    {keys : List Nat} {c p₁ p₂ : Nat} {ties : Nat → Tie} {σ₁ σ₂ : List Nat}
    (hk : keys.Nodup) (hlen : keys.length = parents.length)
    (hσ₁ : σ₁ ∈ completionOrders parents.length p₁) (hσ₂ : σ₂ ∈ completionOrders parents.length p₂)
    (ask : List Nat) :
    selectAllWorkers t query parents keys c ties σ₁ ask =
      selectAllWorkers t query parents keys c ties σ₂ ask := by
  unfold selectAllWorkers
  cases hs : selectAll t query parents c ties with
  | error e => rfl
  | ok rs =>
    have hl : rs.length = keys.length := by rw [selectAll_length hs, hlen]
    have hc₁ := completionOrders_perm _ _ σ₁ hσ₁
    have hc₂ := completionOrders_perm _ _ σ₂ hσ₂
    rw [← hlen] at hc₁ hc₂
    simp only [workers_lookup keys rs hk hl σ₁ hc₁ ask, workers_lookup keys rs hk hl σ₂ hc₂ ask]

/-- non-vacuity, computed: three parents under the keys 40, 41, 42; two worker
slots with completion order [1, 2, 0] against one worker at a time; key 99 is
not a parent.  (A run with another cut-off does not reduce by `decide` - the
behemoth path sorts with `mergeSort`; C12 `indep_cutoff` has its own example.) -/
example : selectAllWorkers sampleTable [3, 9, 0, 2] [⟨[2], 1⟩, ⟨[], 2⟩, ⟨[1], 1⟩] [40, 41, 42] 7
      (fun _ => tieFirst) [1, 2, 0] [41, 40, 99, 42]
    = .ok [some (.ok []), some (.ok [0, 2]), none, some (.ok [3])] ∧
    selectAllWorkers sampleTable [3, 9, 0, 2] [⟨[2], 1⟩, ⟨[], 2⟩, ⟨[1], 1⟩] [40, 41, 42] 7
      (fun _ => tieFirst) [0, 1, 2] [41, 40, 99, 42]
    = .ok [some (.ok []), some (.ok [0, 2]), none, some (.ok [3])] ∧
    [1, 2, 0] ∈ completionOrders 3 2 ∧ [0, 1, 2] ∈ completionOrders 3 1 := by
  refine ⟨by decide, by decide, by decide, by decide⟩

end CTM.C12
