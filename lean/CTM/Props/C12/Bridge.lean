/-
  C12 — bridge to the taxonomy tree (C10).

  In `CTM/Props/C12.lean` the pairs a parent must discriminate are an INPUT
  (`leaves`: column indices of the reference-marker table, in
  `leaves_to_compare` order).  Here that input is instantiated with what the
  taxonomy really yields: `(t.leafPairs parent).map idx`, where `t.leafPairs` is
  the tree model's `leaves_to_compare` (characterised by C10 `pairs_exact`) and
  `idx` is `pair_to_idx` (`marker_array.idx_of_pair`), any function that sends
  distinct pairs of the parent to distinct columns (`Bridge.IdxInjOn`).

  Hypotheses on the taxonomy: accepted by the model of `validate_taxonomy_tree`,
  dict keys distinct (`DictOK`; together = C10's `WF`).  `sibs` / `cl` name
  the children of the parent and their level (`children parent = .ok sibs`,
  `levelUnder parent = some cl`), as in C10 `pairs_exact`.
-/
import CTM.Props.C10
import CTM.Props.C12
import CTM.Lemmas.BridgeWF
import CTM.Lemmas.BridgePairs

namespace CTM.C12
open CTM CTM.RawTree CTM.Selection CTM.Bridge

/-- "For each parent node ... at least one leaf pair that the parent must
discriminate" — **the pair list the taxonomy yields meets what the selector
expects of its input**: for a validator-accepted taxonomy and any parent, the
list `leaves_to_compare(parent)` mapped through `pair_to_idx`
 1. has no duplicate (the selector's `dupPair` refusal cannot fire),
 2. consists of pairs `(a, b)`, `a < b`, of leaves lying under two different
    children of the parent, and
 3. contains every such pair. -/
theorem tree_pairs_meet_selector_input (t : RawTree) (hval : t.validate = .ok ())
    (hd : DictOK t) (parent : Option (Level × Node))
    (sibs : List Node) (cl : Level) (hs : t.children parent = .ok sibs)
    (hcl : t.levelUnder parent = some cl) (idx : Node × Node → Nat)
    (hinj : IdxInjOn idx (t.leafPairs parent)) :
    Selection.hasDup ((t.leafPairs parent).map idx) = false ∧
    (∀ k ∈ (t.leafPairs parent).map idx, ∃ a b s₀ s₁, k = idx (a, b) ∧ a < b ∧
      s₀ ∈ sibs ∧ s₁ ∈ sibs ∧ s₀ ≠ s₁ ∧ a ∈ t.asLeaves cl s₀ ∧ b ∈ t.asLeaves cl s₁) ∧
    (∀ a b s₀ s₁, a < b → s₀ ∈ sibs → s₁ ∈ sibs → s₀ ≠ s₁ → a ∈ t.asLeaves cl s₀ →
      b ∈ t.asLeaves cl s₁ → idx (a, b) ∈ (t.leafPairs parent).map idx) := by
  obtain ⟨hnd, hmem⟩ := C10.pairs_exact t (WF.of_validate hval hd) parent sibs cl hs hcl
  refine ⟨(selection_hasDup_false_iff _).2 (nodup_map_of_injOn hnd hinj), ?_, ?_⟩
  · intro k hk
    obtain ⟨⟨a, b⟩, hab, rfl⟩ := List.mem_map.1 hk
    obtain ⟨hlt, s₀, s₁, h0, h1, hne, ha, hb⟩ := (hmem a b).1 hab
    exact ⟨a, b, s₀, s₁, rfl, hlt, h0, h1, hne, ha, hb⟩
  · intro a b s₀ s₁ hlt h0 h1 hne ha hb
    exact List.mem_map.2 ⟨(a, b), (hmem a b).2 ⟨hlt, s₀, s₁, h0, h1, hne, ha, hb⟩, rfl⟩

/-- `pair_to_idx` of the examples (leaves 30 … 33): the pair `(a, b)` sits in
column `4 (a - 30) + (b - 30)` -/
def exIdx : Node × Node → Nat := fun ab => 4 * (ab.1 - 30) + (ab.2 - 30)

example : C10.exTree.validate = .ok () ∧ DictOK C10.exTree ∧
    C10.exTree.children (some (0, 10)) = .ok [21, 20] ∧
    C10.exTree.levelUnder (some (0, 10)) = some 1 ∧
    (C10.exTree.leafPairs (some (0, 10))).map exIdx = [1, 2] ∧
    IdxInjOn exIdx (C10.exTree.leafPairs (some (0, 10))) :=
  ⟨by rfl, dictOK_of_b (by decide), by decide, by decide, by decide,
    by unfold IdxInjOn; decide⟩

/-- "For every such leaf pair the number of selected genes that are reference
markers of the pair is at least the smaller of twice the per-direction target
and the number of the pair's reference markers available in the query" — with
"such leaf pair" spelled out on the taxonomy: EVERY pair of leaves `a < b`
lying under two different children `s₀ ≠ s₁` of the parent (C10
`pairs_exact`), `pr` being the table's column for that pair. -/
theorem coverage_on_tree (t : RawTree) (hval : t.validate = .ok ())
    (hd : DictOK t) (parent : Option (Level × Node)) (sibs : List Node) (cl : Level)
    (hs : t.children parent = .ok sibs) (hcl : t.levelUnder parent = some cl)
    (idx : Node × Node → Nat)
    {tbl : RefTable} {query : List Nat} {beh : Bool} {n : Nat} {tie : Tie}
    {th : Thinned} {names : List Nat}
    (ht : TableWF tbl) (hth : thin tbl query = .ok th)
    (h : selectParent th ((t.leafPairs parent).map idx) beh n tie = .ok names) :
    ∀ a b s₀ s₁, a < b → s₀ ∈ sibs → s₁ ∈ sibs → s₀ ≠ s₁ → a ∈ t.asLeaves cl s₀ →
      b ∈ t.asLeaves cl s₁ → ∀ pr, tbl.pairs[idx (a, b)]? = some pr →
        min (2 * n) ((pr.up ++ pr.down).countP (fun g => query.contains g))
          ≤ names.countP (fun g => (pr.up ++ pr.down).contains g) := by
  obtain ⟨_, hmem⟩ := C10.pairs_exact t (WF.of_validate hval hd) parent sibs cl hs hcl
  intro a b s₀ s₁ hlt h0 h1 hne ha hb pr hpr
  exact coverage ht hth h (idx (a, b))
    (List.mem_map.2 ⟨(a, b), (hmem a b).2 ⟨hlt, s₀, s₁, h0, h1, hne, ha, hb⟩, rfl⟩) pr hpr

/-- a marker table for the example taxonomy `C10.exTree` and parent `(0, 10)`:
columns `1`, `2` hold the pairs `(30, 31)`, `(30, 32)`; 4 genes, 16 columns -/
def exTable : RefTable :=
  { nGenes := 4,
    pairs := (List.range 16).map (fun k =>
      if k = 1 then ⟨[0], [1, 2]⟩ else if k = 2 then ⟨[2, 3], [0]⟩ else ⟨[], []⟩) }

/-- (non-vacuity) the hypotheses of the two examples below are met: the table is
well formed, thinning succeeds and the selection for parent `(0, 10)` of
`C10.exTree` succeeds -/
example : TableWF exTable := by
  intro p hp
  have hall : ∀ p ∈ exTable.pairs, (decide (p.up.Nodup ∧ p.down.Nodup ∧
      (∀ g ∈ p.up, g ∉ p.down) ∧ (∀ g ∈ p.up, g < 4) ∧ (∀ g ∈ p.down, g < 4))) = true := by
    decide
  have := hall p hp
  simp only [decide_eq_true_eq] at this
  exact ⟨this.1, this.2.1, this.2.2.1, this.2.2.2.1, this.2.2.2.2⟩

example : ((thin exTable [3, 9, 0, 2]).bind (fun th =>
    selectParent th ((C10.exTree.leafPairs (some (0, 10))).map exIdx) false 1 tieFirst)).toBool
    = true := by decide

example : ∀ th names, TableWF exTable → thin exTable [3, 9, 0, 2] = .ok th →
    selectParent th ((C10.exTree.leafPairs (some (0, 10))).map exIdx) false 1 tieFirst = .ok names →
    ∀ pr, exTable.pairs[exIdx (30, 32)]? = some pr →
      min (2 * 1) ((pr.up ++ pr.down).countP (fun g => [3, 9, 0, 2].contains g))
        ≤ names.countP (fun g => (pr.up ++ pr.down).contains g) :=
  fun th names ht hth h pr hpr =>
    coverage_on_tree C10.exTree (by rfl) (dictOK_of_b (by decide)) (some (0, 10))
      [21, 20] 1 (by decide) (by decide) exIdx ht hth h 30 32 20 21 (by decide) (by decide)
      (by decide) (by decide) (by decide) (by decide) pr hpr

/-- "For each parent node the selected genes are free of duplicates, occur in
the query and are reference markers of at least one leaf pair that the parent
must discriminate" — the last clause on the taxonomy: a pair of leaves lying
under two different children of the parent. -/
theorem wf_on_tree (t : RawTree) (hval : t.validate = .ok ())
    (hd : DictOK t) (parent : Option (Level × Node)) (sibs : List Node) (cl : Level)
    (hs : t.children parent = .ok sibs) (hcl : t.levelUnder parent = some cl)
    (idx : Node × Node → Nat)
    {tbl : RefTable} {query : List Nat} {beh : Bool} {n : Nat} {tie : Tie}
    {th : Thinned} {names : List Nat}
    (ht : TableWF tbl) (hth : thin tbl query = .ok th)
    (h : selectParent th ((t.leafPairs parent).map idx) beh n tie = .ok names) :
    names.Nodup ∧
    (∀ g ∈ names, g ∈ query ∧ g < tbl.nGenes) ∧
    (∀ g ∈ names, ∃ a b s₀ s₁, a < b ∧ s₀ ∈ sibs ∧ s₁ ∈ sibs ∧ s₀ ≠ s₁ ∧
      a ∈ t.asLeaves cl s₀ ∧ b ∈ t.asLeaves cl s₁ ∧
      ∃ pr, tbl.pairs[idx (a, b)]? = some pr ∧ (g ∈ pr.up ∨ g ∈ pr.down)) := by
  obtain ⟨_, hmem⟩ := C10.pairs_exact t (WF.of_validate hval hd) parent sibs cl hs hcl
  obtain ⟨h1, h2, h3⟩ := wf ht hth h
  refine ⟨h1, h2, ?_⟩
  intro g hg
  obtain ⟨k, hk, pr, hpr, hm⟩ := h3 g hg
  obtain ⟨⟨a, b⟩, hab, rfl⟩ := List.mem_map.1 hk
  obtain ⟨hlt, s₀, s₁, h0, h1', hne, ha, hb⟩ := (hmem a b).1 hab
  exact ⟨a, b, s₀, s₁, hlt, h0, h1', hne, ha, hb, pr, hpr, hm⟩

example : ∀ th names, TableWF exTable → thin exTable [3, 9, 0, 2] = .ok th →
    selectParent th ((C10.exTree.leafPairs (some (0, 10))).map exIdx) false 1 tieFirst = .ok names →
    names.Nodup ∧ (∀ g ∈ names, g ∈ [3, 9, 0, 2] ∧ g < exTable.nGenes) :=
  fun th names ht hth h =>
    let r := wf_on_tree C10.exTree (by rfl) (dictOK_of_b (by decide)) (some (0, 10))
      [21, 20] 1 (by decide) (by decide) exIdx ht hth h
    ⟨r.1, r.2.1⟩

/-- "a parent with nothing to discriminate gets none": a parent with a single
child yields no leaf pair (C10 `pairs_single_child`), so the selector returns
the empty list for it — whatever the table, the query and `pair_to_idx`. -/
theorem single_child_parent_gets_none (t : RawTree) (parent : Option (Level × Node)) (c : Node)
    (hs : t.children parent = .ok [c]) (idx : Node × Node → Nat)
    (th : Thinned) (beh : Bool) (n : Nat) (tie : Tie) :
    selectParent th ((t.leafPairs parent).map idx) beh n tie = .ok [] := by
  rw [C10.pairs_single_child t parent c hs]
  rfl

example : selectParent sampleThin ((C10.exTree.leafPairs (some (0, 11))).map exIdx) false 2 tieFirst
    = .ok [] :=
  single_child_parent_gets_none C10.exTree (some (0, 11)) 22 (by decide) exIdx _ _ _ _

/-- "a parent with nothing to discriminate gets none": a node of the leaf level
has no leaf pair (C10 `pairs_leaf_level`), so the selector returns the empty
list for it. -/
theorem leaf_level_parent_gets_none (t : RawTree) (l : Level) (nd : Node)
    (hl : t.leafLevel = some l) (idx : Node × Node → Nat)
    (th : Thinned) (beh : Bool) (n : Nat) (tie : Tie) :
    selectParent th ((t.leafPairs (some (l, nd))).map idx) beh n tie = .ok [] := by
  rw [C10.pairs_leaf_level t l nd hl]
  rfl

example : selectParent sampleThin ((C10.exTree.leafPairs (some (2, 31))).map exIdx) true 2 tieFirst
    = .ok [] :=
  leaf_level_parent_gets_none C10.exTree 2 31 (by decide) exIdx _ _ _ _

/-- C12 `select_all_spec` ∘ C10 `pairs_cover_once`: run `select_all_markers`
over the parents of the taxonomy (`all_parents`), each with the pair list the
taxonomy yields.  Then EVERY pair of distinct leaves `a < b` of the taxonomy is
the business of exactly one parent `P` (their lowest common ancestor), and if
`P`'s selection succeeded it contains at least `min (2 n_P) (available)`
reference markers of that pair. -/
theorem every_leaf_pair_covered (t : RawTree) (hval : t.validate = .ok ())
    (hd : DictOK t) (idx : Node × Node → Nat)
    {tbl : RefTable} {query : List Nat} {cutoff : Nat} {ties : Nat → Tie}
    (nOf : Option (Level × Node) → Nat) {r : List (Except Err (List Nat))}
    (ht : TableWF tbl)
    (h : selectAll tbl query
      (t.allParents.map (fun P => (⟨(t.leafPairs P).map idx, nOf P⟩ : Parent))) cutoff ties = .ok r)
    {a b : Node}
    (ha : a ∈ t.nodesAt (t.hierarchy.getLast (hierarchy_ne_nil_of_validate hval)))
    (hb : b ∈ t.nodesAt (t.hierarchy.getLast (hierarchy_ne_nil_of_validate hval)))
    (hab : a < b) :
    ∃ (i : Nat) (P : Option (Level × Node)), t.allParents[i]? = some P ∧ (a, b) ∈ t.leafPairs P ∧
      (∀ Q, Q ∈ t.allParents → (a, b) ∈ t.leafPairs Q → Q = P) ∧
      ∀ names : List Nat, r[i]? = some (Except.ok names) → ∀ pr, tbl.pairs[idx (a, b)]? = some pr →
        min (2 * nOf P) ((pr.up ++ pr.down).countP (fun g => query.contains g))
          ≤ names.countP (fun g => (pr.up ++ pr.down).contains g) := by
  obtain ⟨P, hP, hmem, huniq⟩ := C10.pairs_cover_once t (WF.of_validate hval hd) ha hb hab
  obtain ⟨i, hi, rfl⟩ := List.getElem_of_mem hP
  refine ⟨i, _, List.getElem?_eq_getElem hi, hmem, huniq, ?_⟩
  intro names hr pr hpr
  have hp : (t.allParents.map (fun P => (⟨(t.leafPairs P).map idx, nOf P⟩ : Parent)))[i]? =
      some ⟨(t.leafPairs t.allParents[i]).map idx, nOf t.allParents[i]⟩ := by
    simp [List.getElem?_map, List.getElem?_eq_getElem hi]
  obtain ⟨_, hall⟩ := select_all_spec ht h
  obtain ⟨_, _, _, _, hcov⟩ := hall i _ names hp hr
  exact hcov (idx (a, b)) (List.mem_map.2 ⟨(a, b), hmem, rfl⟩) pr hpr

example : 30 ∈ C10.exTree.nodesAt 2 ∧ 33 ∈ C10.exTree.nodesAt 2 ∧
    C10.exTree.hierarchy.getLast (by decide) = 2 ∧
    (selectAll sampleTable [3, 9, 0, 2]
      (C10.exTree.allParents.map (fun P => (⟨(C10.exTree.leafPairs P).map (fun _ => 0), 1⟩ : Parent)))
      7 (fun _ => tieFirst)).toBool = true := by decide

end CTM.C12
