import CTM.Model.LevelLoop
namespace CTM.C17
theorem placeholder_true : True := trivial
end CTM.C17
