/-
  C17 — flattening or dropping a level equals mapping on the reduced taxonomy.

  Model statements about `mapPipeline` (the data flow of `_run_mapping`).  The
  oracle (`vote`) is any function of (parent, what the run's tree says about
  the parent's children and their leaves, cell): marker lists are keyed by the
  parent, so "marker groups of removed parents are never consulted" is the
  statement that the oracle is only ever asked about parents of the REDUCED
  tree — which is how `walk` / `runLevelLoop` are written (they only query
  `t.children` of the run's tree).  Both runs of a pair use the same oracle:
  on the implementation that is the common seed (`harness/props/c17.py`
  compares the paired real runs byte-wise).
-/
import CTM.Lemmas.LevelLoop
import CTM.Lemmas.Markers
import CTM.Lemmas.Tree

namespace CTM.C17
open CTM CTM.LevelLoop

/-- "Dropping a level that the taxonomy does not contain changes nothing." -/
theorem absent_level_noop {κ} (t0 : RawTree) (cfg : Config) (vote : Oracle κ) (l : Level)
    (ids : List CellId) (cells : List κ) (order : List Nat) (hl : l ∉ t0.hierarchy) :
    mapPipeline t0 { cfg with dropLevel := some l } vote ids cells order =
      mapPipeline t0 { cfg with dropLevel := none } vote ids cells order := by
  have hc : t0.hierarchy.contains l = false := by
    simpa using hl
  unfold mapPipeline runTree
  simp only [hc, Bool.false_eq_true, if_false]

example : mapPipeline exTree { dropLevel := some 7, chunkSize := 2 } exVote [7, 3] [0, 1] [0] =
    mapPipeline exTree { dropLevel := none, chunkSize := 2 } exVote [7, 3] [0, 1] [0] :=
  absent_level_noop exTree { chunkSize := 2 } exVote 7 _ _ _ (by decide)

/-- "Mapping with a level dropped gives, at all other levels, exactly the
result of mapping against a reference whose taxonomy never had that level, and
the dropped level is the ancestor of the finer assignment."

Run A: stored tree `t0` (well-formed), `drop_level = l`.  Run B: stored tree
`t'` (the taxonomy without `l`; well-formed by `wfb_dropLevel`), nothing
dropped.  `l` is any non-leaf level, `cl` the level right below it
(`t0.hierarchy = pre ++ l :: cl :: post`).
Whenever both runs succeed they return the same cells in the same order;
every level other than `l` carries the identical dict (assignment,
probabilities, correlation, runner-ups, `directly_assigned = True`); run B has
no level `l`; in run A level `l` is the copy of level `cl` whose assignment is
the parent (`child_to_parent` of the stored tree) of the assignment at
`cl`, without runner-ups and with `directly_assigned = False`. -/
theorem drop_eq {κ} (t0 t' : RawTree) (cfg : Config) (vote : Oracle κ) (l cl : Level)
    (pre post : List Level) (ids : List CellId) (cells : List κ) (order : List Nat)
    (hdrop : t0.dropLevel l = .ok t') (hs : t0.hierarchy = pre ++ l :: cl :: post)
    (hwf0 : wfb t0 = true) (hv : VoteOK t' vote)
    (hlen : ids.length = cells.length) (hnd : ids.Nodup)
    (hproc : 1 ≤ cfg.nProc) (hcs : 1 ≤ cfg.chunkSize)
    (horder : order.Perm (List.range
      (chunks cells.length (effChunk cells.length cfg.nProc cfg.chunkSize)).length))
    (outA outB : List Record)
    (hA : mapPipeline t0 { cfg with dropLevel := some l, flatten := false } vote ids cells order
      = .ok outA)
    (hB : mapPipeline t' { cfg with dropLevel := none, flatten := false } vote ids cells order
      = .ok outB)
    (i : Nat) (id : CellId) (c : κ) (hid : ids[i]? = some id) (hc : cells[i]? = some c) :
    ∃ a b, outA[i]? = some a ∧ outB[i]? = some b ∧ a.cellId = b.cellId ∧
      (∀ l', l' ≠ l → a.levels.lookup l' = b.levels.lookup l') ∧
      b.levels.lookup l = none ∧
      ∃ ec pn, b.levels.lookup cl = some ec ∧
        t0.childToParent cl ec.assignment = some pn ∧
        a.levels.lookup l = some (inferred ec pn) := by
  have hnd0 := wfb_nodup_hierarchy hwf0
  have hwf := wfb_dropLevel hwf0 hdrop hs
  have hcl : (cl, l) ∈ pairsOf t0.hierarchy.reverse :=
    (mem_pairsOf_reverse_iff cl l t0.hierarchy).mpr ⟨pre, post, hs⟩
  obtain ⟨hmem, hh'⟩ := dropLevel_hierarchy hdrop
  have hrunA : runTree t0 { cfg with dropLevel := some l, flatten := false } = .ok t' := by
    have : t0.hierarchy.contains l = true := by simpa using hmem
    simp only [runTree, this, if_true, hdrop, Bool.false_eq_true, if_false]
  have hrunB : runTree t' { cfg with dropLevel := none, flatten := false } = .ok t' := by
    simp [runTree]
  obtain ⟨a, ha, hra⟩ := mapPipeline_getElem t0 t' _ vote ids cells order hrunA hwf hv hlen hnd
    hproc hcs horder outA hA i id c hid hc
  obtain ⟨b, hb, hrb⟩ := mapPipeline_getElem t' t' _ vote ids cells order hrunB hwf hv hlen hnd
    hproc hcs horder outB hB i id c hid hc
  refine ⟨a, b, ha, hb, ?_⟩
  -- the record both backfills start from
  have hkeys := record_keys hwf hv id c
  generalize hR : markDirect t'.hierarchy (mkRecord t' vote id c) = R at hkeys
  have hpres : ∀ l', l' ∈ t'.hierarchy → (R.levels.lookup l').isSome := by
    intro l' hl'; exact lookup_isSome_of_keys _ _ (by rw [hkeys]; exact hl')
  have habs : ∀ l', l' ∉ t'.hierarchy → R.levels.lookup l' = none := by
    intro l' hl'; exact lookup_none_of_not_keys _ _ (by rw [hkeys]; exact hl')
  -- run B: nothing to backfill
  have hbR : b = R := by
    unfold cellResult at hrb
    rw [hR, backfillPairs_all_present] at hrb
    · cases hrb; rfl
    · intro cp hm
      apply hpres
      rw [dropCells_hierarchy] at hm
      have : cp ∈ t'.hierarchy.reverse.zip t'.hierarchy.reverse.tail := hm
      exact List.mem_reverse.mp (List.mem_of_mem_tail (List.of_mem_zip this).2)
  subst hbR
  -- run A
  unfold cellResult at hra
  rw [hR, dropCells_hierarchy] at hra
  have hl_not : l ∉ t'.hierarchy := by rw [hh']; exact hnd0.not_mem_erase
  have hmem' : ∀ l', l' ≠ l → l' ∈ t0.hierarchy → l' ∈ t'.hierarchy := by
    intro l' hne hm; rw [hh']; exact (hnd0.mem_erase_iff).mpr ⟨hne, hm⟩
  have hndr := nodup_reverse hnd0
  have hhead : ∀ x, t0.hierarchy.reverse.head? = some x → (b.levels.lookup x).isSome := by
    intro x hx
    apply hpres
    apply hmem' x
    · -- the head of the reversed hierarchy is not in its tail, `l` is
      intro he
      subst he
      have hl_tail : x ∈ t0.hierarchy.reverse.tail := by
        have : (cl, x) ∈ t0.hierarchy.reverse.zip t0.hierarchy.reverse.tail := hcl
        exact (List.of_mem_zip this).2
      cases hrev : t0.hierarchy.reverse with
      | nil => rw [hrev] at hx; cases hx
      | cons y ys =>
        rw [hrev] at hx hl_tail hndr
        simp only [List.head?_cons, Option.some.injEq] at hx
        subst hx
        exact (List.nodup_cons.mp hndr).1 hl_tail
    · exact List.mem_reverse.mp (List.mem_of_mem_head? hx)
  obtain ⟨hid', hkeep, hother, _, hinf⟩ :=
    backfillPairs_ok_spec t0.dropCells t0.hierarchy.reverse b a hndr hhead hra
  refine ⟨hid'.trans rfl, ?_, habs l hl_not, ?_⟩
  · intro l' hne
    by_cases hm : l' ∈ t0.hierarchy
    · have := hpres l' (hmem' l' hne hm)
      cases hb' : b.levels.lookup l' with
      | none => rw [hb'] at this; cases this
      | some e => exact hkeep l' e hb'
    · exact hother l' (fun h => hm (List.mem_reverse.mp h))
  · obtain ⟨ec, pn, hec, hq, hpe⟩ := hinf (cl, l) hcl (habs l hl_not)
    have hcl_mem : cl ∈ t'.hierarchy := by
      have hz : (cl, l) ∈ t0.hierarchy.reverse.zip t0.hierarchy.reverse.tail := hcl
      apply hmem' cl
      · intro he
        -- cl = l would put l both at a position and right after it
        subst he
        -- (l, l) consecutive in a Nodup list is impossible
        clear hinf hec hq hpe hother hkeep hid' hra hhead
        generalize t0.hierarchy.reverse = xs at hz hndr
        induction xs with
        | nil => simp at hz
        | cons y ys ih =>
          cases ys with
          | nil => simp at hz
          | cons z zs =>
            simp only [List.tail_cons, List.zip_cons_cons, List.mem_cons, Prod.mk.injEq] at hz
            rcases hz with ⟨h1, h2⟩ | hz
            · subst h1; subst h2
              exact (List.nodup_cons.mp hndr).1 (by simp)
            · exact ih (by simpa using hz) (List.nodup_cons.mp hndr).2
      · exact List.mem_reverse.mp (List.of_mem_zip hz).1
    have hsome := hpres cl hcl_mem
    cases hbc : b.levels.lookup cl with
    | none => rw [hbc] at hsome; cases hsome
    | some eb =>
      have := hkeep cl eb hbc
      rw [hec] at this
      cases this
      exact ⟨ec, pn, rfl, by rw [← childToParent_dropCells hnd0]; exact hq, hpe⟩

/-- the example taxonomy without its middle level -/
def exDropped : RawTree :=
  { hierarchy := [0, 2],
    levels := [(0, [(10, [31, 32, 30])]), (2, [(30, [5]), (31, [6]), (32, [])])] }

example : ∀ outA outB,
    mapPipeline exTree { dropLevel := some 1, flatten := false, chunkSize := 2, nProc := 2 } exVote
      [7, 3, 9] [0, 1, 2] [1, 0] = .ok outA →
    mapPipeline exDropped { dropLevel := none, flatten := false, chunkSize := 2, nProc := 2 } exVote
      [7, 3, 9] [0, 1, 2] [1, 0] = .ok outB →
    ∃ a b, outA[1]? = some a ∧ outB[1]? = some b ∧ a.cellId = b.cellId ∧
      (∀ l', l' ≠ 1 → a.levels.lookup l' = b.levels.lookup l') ∧
      b.levels.lookup 1 = none ∧
      ∃ ec pn, b.levels.lookup 2 = some ec ∧
        exTree.childToParent 2 ec.assignment = some pn ∧
        a.levels.lookup 1 = some (inferred ec pn) :=
  fun outA outB hA hB =>
    drop_eq exTree exDropped { chunkSize := 2, nProc := 2 } exVote 1 2 [0] [] [7, 3, 9] [0, 1, 2]
      [1, 0] (by rfl) rfl exTree_wf (exVote_ok _) rfl (by decide) (by decide)
      (by decide) (by decide) outA outB hA hB 1 3 1 rfl rfl

/-- (test, not a theorem) the value of run A in the example: level 1 is inferred -/
example : (mapPipeline exTree { dropLevel := some 1, chunkSize := 2, nProc := 2 } exVote [7, 3, 9]
    [0, 1, 2] [1, 0]).toOption.map (fun o => o.map (fun r =>
      (r.cellId, r.levels.map (fun le => (le.1, le.2.assignment, le.2.direct))))) =
    some [(7, [(0, 10, some true), (2, 31, some true), (1, 21, some false)]),
          (3, [(0, 10, some true), (2, 32, some true), (1, 21, some false)]),
          (9, [(0, 10, some true), (2, 30, some true), (1, 20, some false)])] := by rfl

/-- "Mapping with flattening gives at the leaf level exactly the result of
mapping against a one-level taxonomy of the leaves ..., and every coarser level
is the leaf's ancestor."

Run A: stored tree `t0`, `flatten = True`.  Run B: stored tree `t0.flatten`
(hierarchy = the leaf level only), no flattening.  Whenever both succeed, the
leaf-level dicts are identical, and in run A every coarser level `p` (with `c`
the level right below it) is the copy of level `c` whose assignment is the
`child_to_parent` of the assignment at `c`, flagged `directly_assigned = False`. -/
theorem flatten_eq {κ} (t0 : RawTree) (cfg : Config) (vote : Oracle κ) (ll : Level)
    (ids : List CellId) (cells : List κ) (order : List Nat)
    (hleaf : t0.leafLevel = some ll) (hwf0 : wfb t0 = true) (hv : VoteOK t0.flatten vote)
    (hlen : ids.length = cells.length) (hnd : ids.Nodup)
    (hproc : 1 ≤ cfg.nProc) (hcs : 1 ≤ cfg.chunkSize)
    (horder : order.Perm (List.range
      (chunks cells.length (effChunk cells.length cfg.nProc cfg.chunkSize)).length))
    (outA outB : List Record)
    (hA : mapPipeline t0 { cfg with dropLevel := none, flatten := true } vote ids cells order
      = .ok outA)
    (hB : mapPipeline t0.flatten { cfg with dropLevel := none, flatten := false } vote ids cells order
      = .ok outB)
    (i : Nat) (id : CellId) (c : κ) (hid : ids[i]? = some id) (hc : cells[i]? = some c) :
    ∃ a b, outA[i]? = some a ∧ outB[i]? = some b ∧ a.cellId = b.cellId ∧
      a.levels.lookup ll = b.levels.lookup ll ∧ (b.levels.lookup ll).isSome ∧
      ∀ cp ∈ pairsOf t0.hierarchy.reverse,
        ∃ ec pn, a.levels.lookup cp.1 = some ec ∧
          t0.childToParent cp.1 ec.assignment = some pn ∧
          a.levels.lookup cp.2 = some (inferred ec pn) := by
  have hnd0 := wfb_nodup_hierarchy hwf0
  have hwf := wfb_flatten hwf0 hleaf
  have hfh : t0.flatten.hierarchy = [ll] := by
    simp only [RawTree.flatten, hleaf]
  have hrunA : runTree t0 { cfg with dropLevel := none, flatten := true } = .ok t0.flatten := by
    simp [runTree]
  have hrunB : runTree t0.flatten { cfg with dropLevel := none, flatten := false } = .ok t0.flatten := by
    simp [runTree]
  obtain ⟨a, ha, hra⟩ := mapPipeline_getElem t0 t0.flatten _ vote ids cells order hrunA hwf hv hlen
    hnd hproc hcs horder outA hA i id c hid hc
  obtain ⟨b, hb, hrb⟩ := mapPipeline_getElem t0.flatten t0.flatten _ vote ids cells order hrunB hwf hv
    hlen hnd hproc hcs horder outB hB i id c hid hc
  refine ⟨a, b, ha, hb, ?_⟩
  have hkeys := record_keys hwf hv id c
  generalize hR : markDirect t0.flatten.hierarchy (mkRecord t0.flatten vote id c) = R at hkeys
  rw [hfh] at hkeys
  have hbR : b = R := by
    unfold cellResult at hrb
    rw [hR, dropCells_hierarchy, hfh] at hrb
    simp [pairsOf, backfillPairs] at hrb
    exact hrb.symm
  subst hbR
  have hll : (b.levels.lookup ll).isSome := lookup_isSome_of_keys _ _ (by rw [hkeys]; simp)
  unfold cellResult at hra
  rw [hR, dropCells_hierarchy] at hra
  have hndr := nodup_reverse hnd0
  have hhead : ∀ x, t0.hierarchy.reverse.head? = some x → (b.levels.lookup x).isSome := by
    intro x hx
    rw [List.head?_reverse] at hx
    simp only [RawTree.leafLevel] at hleaf
    rw [hleaf] at hx
    cases hx
    exact hll
  obtain ⟨hid', hkeep, _, _, hinf⟩ :=
    backfillPairs_ok_spec t0.dropCells t0.hierarchy.reverse b a hndr hhead hra
  refine ⟨hid', ?_, hll, ?_⟩
  · cases hb' : b.levels.lookup ll with
    | none => rw [hb'] at hll; cases hll
    | some e => exact hkeep ll e hb'
  · intro cp hm
    suffices hnone : b.levels.lookup cp.2 = none by
      obtain ⟨ec, pn, h1, h2, h3⟩ := hinf cp hm hnone
      exact ⟨ec, pn, h1, by rw [← childToParent_dropCells hnd0]; exact h2, h3⟩
    apply lookup_none_of_not_keys
    rw [hkeys]
    simp only [List.mem_singleton]
    -- cp.2 sits in the tail of the reversed hierarchy, ll is its head
    intro he
    have hz : cp ∈ t0.hierarchy.reverse.zip t0.hierarchy.reverse.tail := hm
    have htail := (List.of_mem_zip hz).2
    have hhd : t0.hierarchy.reverse.head? = some ll := by
      rw [List.head?_reverse]; exact hleaf
    cases hrev : t0.hierarchy.reverse with
    | nil => rw [hrev] at hhd; cases hhd
    | cons y ys =>
      rw [hrev] at hhd htail hndr
      simp only [List.head?_cons, Option.some.injEq] at hhd
      subst hhd
      rw [he] at htail
      exact (List.nodup_cons.mp hndr).1 htail

example : ∀ outA outB,
    mapPipeline exTree { dropLevel := none, flatten := true, chunkSize := 2, nProc := 2 } exVote
      [7, 3, 9] [0, 1, 2] [1, 0] = .ok outA →
    mapPipeline exTree.flatten { dropLevel := none, flatten := false, chunkSize := 2, nProc := 2 } exVote
      [7, 3, 9] [0, 1, 2] [1, 0] = .ok outB →
    ∃ a b, outA[2]? = some a ∧ outB[2]? = some b ∧ a.cellId = b.cellId ∧
      a.levels.lookup 2 = b.levels.lookup 2 ∧ (b.levels.lookup 2).isSome ∧
      ∀ cp ∈ pairsOf exTree.hierarchy.reverse,
        ∃ ec pn, a.levels.lookup cp.1 = some ec ∧
          exTree.childToParent cp.1 ec.assignment = some pn ∧
          a.levels.lookup cp.2 = some (inferred ec pn) :=
  fun outA outB hA hB =>
    flatten_eq exTree { chunkSize := 2, nProc := 2 } exVote 2 [7, 3, 9] [0, 1, 2] [1, 0]
      (by decide) exTree_wf (exVote_ok _) rfl (by decide) (by decide)
      (by decide) (by decide) outA outB hA hB 2 9 2 rfl rfl

/-- both runs of `drop_eq` succeed (so `drop_eq` is not vacuous): stored tree
and reduced tree well-formed, `l` a non-leaf level with `cl` right below it -/
theorem drop_both_succeed {κ} (t0 t' : RawTree) (cfg : Config) (vote : Oracle κ)
    (l cl : Level) (pre post : List Level)
    (ids : List CellId) (cells : List κ) (order : List Nat)
    (hdrop : t0.dropLevel l = .ok t') (hs : t0.hierarchy = pre ++ l :: cl :: post)
    (hwf0 : wfb t0 = true) (hv : VoteOK t' vote)
    (hlen : ids.length = cells.length) (hnd : ids.Nodup)
    (hproc : 1 ≤ cfg.nProc) (hcs : 1 ≤ cfg.chunkSize)
    (horder : order.Perm (List.range
      (chunks cells.length (effChunk cells.length cfg.nProc cfg.chunkSize)).length)) :
    (∃ outA, mapPipeline t0 { cfg with dropLevel := some l, flatten := false } vote ids cells order
      = .ok outA) ∧
    (∃ outB, mapPipeline t' { cfg with dropLevel := none, flatten := false } vote ids cells order
      = .ok outB) := by
  have hwf := wfb_dropLevel hwf0 hdrop hs
  constructor
  · obtain ⟨out, h, _⟩ := mapPipeline_drop_paths t0 t' { cfg with dropLevel := some l, flatten := false }
      vote l cl pre post ids cells order rfl rfl hdrop hs hwf0 hwf hv hlen hnd hproc hcs horder
    exact ⟨out, h⟩
  · exact ⟨_, mapPipeline_plain_ok t' { cfg with dropLevel := none, flatten := false } vote ids cells
      order rfl rfl hwf hv hlen hnd hproc hcs horder⟩

/-- both runs of `flatten_eq` succeed -/
theorem flatten_both_succeed {κ} (t0 : RawTree) (cfg : Config) (vote : Oracle κ) (ll : Level)
    (ids : List CellId) (cells : List κ) (order : List Nat)
    (hleaf : t0.leafLevel = some ll)
    (hwf0 : wfb t0 = true) (hv : VoteOK t0.flatten vote)
    (hlen : ids.length = cells.length) (hnd : ids.Nodup)
    (hproc : 1 ≤ cfg.nProc) (hcs : 1 ≤ cfg.chunkSize)
    (horder : order.Perm (List.range
      (chunks cells.length (effChunk cells.length cfg.nProc cfg.chunkSize)).length)) :
    (∃ outA, mapPipeline t0 { cfg with dropLevel := none, flatten := true } vote ids cells order
      = .ok outA) ∧
    (∃ outB, mapPipeline t0.flatten { cfg with dropLevel := none, flatten := false } vote ids cells
      order = .ok outB) := by
  have hwf := wfb_flatten hwf0 hleaf
  constructor
  · obtain ⟨out, h, _⟩ := mapPipeline_flatten_paths t0 { cfg with dropLevel := none, flatten := true }
      vote ll ids cells order rfl rfl hleaf hwf0 hwf hv hlen hnd hproc hcs horder
    exact ⟨out, h⟩
  · exact ⟨_, mapPipeline_plain_ok t0.flatten { cfg with dropLevel := none, flatten := false } vote
      ids cells order rfl rfl hwf hv hlen hnd hproc hcs horder⟩

example : (∃ outA, mapPipeline exTree { dropLevel := some 1, flatten := false, chunkSize := 2, nProc := 2 }
      exVote [7, 3, 9] [0, 1, 2] [1, 0] = .ok outA) ∧
    (∃ outB, mapPipeline exDropped { dropLevel := none, flatten := false, chunkSize := 2, nProc := 2 }
      exVote [7, 3, 9] [0, 1, 2] [1, 0] = .ok outB) :=
  drop_both_succeed exTree exDropped { chunkSize := 2, nProc := 2 } exVote 1 2 [0] [] [7, 3, 9]
    [0, 1, 2] [1, 0] (by rfl) rfl exTree_wf (exVote_ok _) rfl (by decide) (by decide)
    (by decide) (by decide)

/-- flatten TOGETHER with drop_level (the combination `_run_mapping` allows):
the level is dropped first, then the tree is flattened — the run tree is the
one-level tree of the same leaves either way, so the whole output equals that of
the run with flatten alone. -/
theorem flatten_ignores_drop {κ} (t0 t' : RawTree) (cfg : Config) (vote : Oracle κ)
    (l cl : Level) (pre post : List Level)
    (ids : List CellId) (cells : List κ) (order : List Nat)
    (hdrop : t0.dropLevel l = .ok t') (hs : t0.hierarchy = pre ++ l :: cl :: post)
    (hwf0 : wfb t0 = true) (hv : VoteOK t0.flatten vote)
    (hlen : ids.length = cells.length) (hnd : ids.Nodup)
    (hproc : 1 ≤ cfg.nProc) (hcs : 1 ≤ cfg.chunkSize)
    (horder : order.Perm (List.range
      (chunks cells.length (effChunk cells.length cfg.nProc cfg.chunkSize)).length)) :
    mapPipeline t0 { cfg with dropLevel := some l, flatten := true } vote ids cells order =
      mapPipeline t0 { cfg with dropLevel := none, flatten := true } vote ids cells order :=
  mapPipeline_flatten_ignores_drop t0 t' cfg vote l cl pre post ids cells order hdrop hs hwf0 hv
    hlen hnd hproc hcs horder

example : mapPipeline exTree { dropLevel := some 1, flatten := true, chunkSize := 2, nProc := 2 } exVote
      [7, 3, 9] [0, 1, 2] [1, 0] =
    mapPipeline exTree { dropLevel := none, flatten := true, chunkSize := 2, nProc := 2 } exVote
      [7, 3, 9] [0, 1, 2] [1, 0] :=
  flatten_ignores_drop exTree exDropped { chunkSize := 2, nProc := 2 } exVote 1 2 [0] [] [7, 3, 9]
    [0, 1, 2] [1, 0] (by rfl) rfl exTree_wf (exVote_ok _) rfl (by decide) (by decide) (by decide)
    (by decide)

/-- the C17 statement for flatten AND drop_level: the leaf level equals the run
on the one-level reference (`t0.flatten`), every coarser level of the stored
hierarchy — the dropped one included — is the copy of the level below with the
stored tree's parent as assignment, flagged inferred. -/
theorem flatten_drop_eq {κ} (t0 t' : RawTree) (cfg : Config) (vote : Oracle κ)
    (l cl ll : Level) (pre post : List Level)
    (ids : List CellId) (cells : List κ) (order : List Nat)
    (hdrop : t0.dropLevel l = .ok t') (hs : t0.hierarchy = pre ++ l :: cl :: post)
    (hleaf : t0.leafLevel = some ll) (hwf0 : wfb t0 = true) (hv : VoteOK t0.flatten vote)
    (hlen : ids.length = cells.length) (hnd : ids.Nodup)
    (hproc : 1 ≤ cfg.nProc) (hcs : 1 ≤ cfg.chunkSize)
    (horder : order.Perm (List.range
      (chunks cells.length (effChunk cells.length cfg.nProc cfg.chunkSize)).length))
    (outA outB : List Record)
    (hA : mapPipeline t0 { cfg with dropLevel := some l, flatten := true } vote ids cells order
      = .ok outA)
    (hB : mapPipeline t0.flatten { cfg with dropLevel := none, flatten := false } vote ids cells order
      = .ok outB)
    (i : Nat) (id : CellId) (c : κ) (hid : ids[i]? = some id) (hc : cells[i]? = some c) :
    ∃ a b, outA[i]? = some a ∧ outB[i]? = some b ∧ a.cellId = b.cellId ∧
      a.levels.lookup ll = b.levels.lookup ll ∧ (b.levels.lookup ll).isSome ∧
      ∀ cp ∈ pairsOf t0.hierarchy.reverse,
        ∃ ec pn, a.levels.lookup cp.1 = some ec ∧
          t0.childToParent cp.1 ec.assignment = some pn ∧
          a.levels.lookup cp.2 = some (inferred ec pn) := by
  rw [flatten_ignores_drop t0 t' cfg vote l cl pre post ids cells order hdrop hs hwf0 hv hlen hnd
    hproc hcs horder] at hA
  exact flatten_eq t0 cfg vote ll ids cells order hleaf hwf0 hv hlen hnd hproc hcs horder outA outB
    hA hB i id c hid hc

/-- both runs of `flatten_drop_eq` succeed -/
theorem flatten_drop_both_succeed {κ} (t0 t' : RawTree) (cfg : Config) (vote : Oracle κ)
    (l cl ll : Level) (pre post : List Level)
    (ids : List CellId) (cells : List κ) (order : List Nat)
    (hdrop : t0.dropLevel l = .ok t') (hs : t0.hierarchy = pre ++ l :: cl :: post)
    (hleaf : t0.leafLevel = some ll) (hwf0 : wfb t0 = true) (hv : VoteOK t0.flatten vote)
    (hlen : ids.length = cells.length) (hnd : ids.Nodup)
    (hproc : 1 ≤ cfg.nProc) (hcs : 1 ≤ cfg.chunkSize)
    (horder : order.Perm (List.range
      (chunks cells.length (effChunk cells.length cfg.nProc cfg.chunkSize)).length)) :
    (∃ outA, mapPipeline t0 { cfg with dropLevel := some l, flatten := true } vote ids cells order
      = .ok outA) ∧
    (∃ outB, mapPipeline t0.flatten { cfg with dropLevel := none, flatten := false } vote ids cells
      order = .ok outB) := by
  rw [flatten_ignores_drop t0 t' cfg vote l cl pre post ids cells order hdrop hs hwf0 hv hlen hnd
    hproc hcs horder]
  exact flatten_both_succeed t0 cfg vote ll ids cells order hleaf hwf0 hv hlen hnd hproc hcs horder

example : (∃ outA, mapPipeline exTree { dropLevel := some 1, flatten := true, chunkSize := 2, nProc := 2 }
      exVote [7, 3, 9] [0, 1, 2] [1, 0] = .ok outA) ∧
    (∃ outB, mapPipeline exTree.flatten { dropLevel := none, flatten := false, chunkSize := 2, nProc := 2 }
      exVote [7, 3, 9] [0, 1, 2] [1, 0] = .ok outB) :=
  flatten_drop_both_succeed exTree exDropped { chunkSize := 2, nProc := 2 } exVote 1 2 2 [0] []
    [7, 3, 9] [0, 1, 2] [1, 0] (by rfl) rfl (by decide) exTree_wf (exVote_ok _) rfl (by decide)
    (by decide) (by decide) (by decide)

/-! ### "with the union of all marker lists" — the marker table under flatten -/

/-- **the marker table of a flattened run does not depend on `drop_level`**
(what seeded change C17_1 broke): whatever level is dropped (present, absent,
none), the table after the flatten block is the single root list made of EVERY
list of the table — strictly increasing (sorted, no duplicate) and containing
exactly the genes that occur in some list. -/
theorem flatten_markers_indep_of_drop (t0 : RawTree) (cfg : Config) (lk : Markers.Lookup)
    (d d' : Option Level) (t t' : RawTree) (lk1 lk2 : Markers.Lookup)
    (h1 : mapSetup t0 { cfg with flatten := true, dropLevel := d } lk = .ok (t, lk1))
    (h2 : mapSetup t0 { cfg with flatten := true, dropLevel := d' } lk = .ok (t', lk2)) :
    lk1 = lk2 ∧ ∃ genes, lk1 = [(none, genes)] ∧ genes.Pairwise (· < ·) ∧
      ∀ g, g ∈ genes ↔ ∃ e ∈ lk, g ∈ e.2 := by
  have e1 : lk1 = Markers.flattenLookup lk := by
    unfold mapSetup at h1
    split at h1
    · cases h1
    · cases h1; rfl
  have e2 : lk2 = Markers.flattenLookup lk := by
    unfold mapSetup at h2
    split at h2
    · cases h2
    · cases h2; rfl
  refine ⟨e1.trans e2.symm, ?_⟩
  rw [e1]
  exact Markers.flattenLookup_spec lk

/-- a table in which the middle level's parents and a key outside the taxonomy
own genes nobody else lists -/
def exTable : Markers.Lookup :=
  [(none, [4, 1]), (some (0, 10), [1, 2]), (some (1, 21), [7, 2]), (some (1, 20), [8]),
   (some (5, 99), [9, 4])]

example : ∃ t t', mapSetup exTree { flatten := true, dropLevel := some 1 } exTable
      = .ok (t, [(none, [1, 2, 4, 7, 8, 9])]) ∧
    mapSetup exTree { flatten := true, dropLevel := none } exTable
      = .ok (t', [(none, [1, 2, 4, 7, 8, 9])]) :=
  ⟨_, _, by rfl, by rfl⟩

/-- the same statement on group E's full model of the marker stage
(`Markers.stage`: cache creation, reconciliation, the gene list every consulted
parent votes on, the reported table), which the C08 suite compares with the
hook trace: for a validated stored tree, a flattened run with `drop_level = l`
(`l` any non-leaf level) has exactly the marker stage of the flattened run
without `drop_level`. -/
theorem flatten_stage_indep_of_drop (t0 t' : RawTree) (w : RawTree.WF t0) (lk : Markers.Lookup)
    (R Q : List Markers.Gene) (m : Nat) (i : Nat) (hi : i + 1 < t0.hierarchy.length)
    (hdrop : t0.dropLevel (t0.hierarchy[i]'(by omega)) = .ok t') :
    Markers.stage t0 lk R Q m (some (t0.hierarchy[i]'(by omega))) true =
      Markers.stage t0 lk R Q m none true := by
  have hfl := RawTree.flatten_drop_eq w hi hdrop
  have hc : t0.hierarchy.contains (t0.hierarchy[i]'(by omega)) = true := by
    simp
  simp only [Markers.stage, hc, if_true, hdrop, hfl]

theorem exTree_WF : RawTree.WF exTree :=
  ⟨by rfl, by decide, by decide, RawTree.dictOK_of_b (by decide)⟩

example : Markers.stage exTree exTable [9, 8, 7, 4, 2, 1] [1, 2, 4, 7, 8, 9, 11] 1 (some 1) true =
    Markers.stage exTree exTable [9, 8, 7, 4, 2, 1] [1, 2, 4, 7, 8, 9, 11] 1 none true :=
  flatten_stage_indep_of_drop exTree exDropped exTree_WF exTable _ _ 1 1 (by decide) (by rfl)

end CTM.C17
