/-
  C15 × C01 — the serialisers applied to what the mapping loop really outputs.

  `Props/C15.lean` proves the HDF5 round trip and the CSV specification for
  every blob satisfying `Output.outInv`; `Props/C01.lean` describes what
  `mapPipeline` (chunking, workers, gather, re-ordering, `backfill_assignments`)
  returns.  Here the two are composed through `OutBridge.toBlob`
  (`Lemmas/OutBridge.lean`): the output of ANY successful run — plain,
  flattened, a level dropped, or both — satisfies `outInv`, hence round-trips
  through HDF5 and is written to CSV one row per query cell in query order.

  Hypotheses (all theorems):
    `wfb t0`            the stored tree is well-formed (group D's decidable predicate);
    `runTree t0 cfg = .ok t`   `t` is the tree the run votes on;
    `VoteOK t vote`     the oracle returns a child of the parent it is asked about;
    `PayloadOK nR t vote`  its payload: correlation not `None`, at most `nR` valid
                        runner-up tuples, naming children of that parent;
    `hasChoice t`       some parent with ≥ 2 children lies on every way down the
                        run's tree — otherwise `avg_correlation` is `null` in the
                        JSON output and HDF5 does NOT reproduce it (known finding
                        `C15/pipeline/h5/avg_correlation/null-becomes-nan/single-leaf-taxonomy`,
                        `C15.h5_null_not_reproduced`);
    ≥ 1 cell, distinct cell ids, chunk size ≥ 1, ≥ 1 worker, any gather order.
-/
import CTM.Lemmas.OutBridge
import CTM.Props.C01
import CTM.Props.C15

namespace CTM.C15
open CTM CTM.LevelLoop CTM.OutBridge

/-- *"for all mapping outputs (any taxonomy depth, name tables present or
absent, ..., 0..k runners-up, flattened and level-dropped runs,
single-iteration runs)"* — the quantifier of C15 ranges over outputs of the
mapper; this theorem shows that every such output lies in the domain
(`OutInv`) on which `h5_roundtrip`, `csv_rows_outInv`, `csv_after_h5` are
proved: at least one record; every record binds exactly the levels of the
stored hierarchy; each assignment and runner-up is a node of its level in the
embedded tree; no number is `null`; directly assigned levels carry three
runner-up lists of equal length ≤ `n_runners_up`, inferred levels none; the
`directly_assigned` flag depends on the level only. -/
theorem pipeline_outInv {κ} (t0 t : RawTree) (cfg : Config) (vote : Oracle κ)
    (nm : NameMapper) (hm : HierarchyMapper) (nR : Nat)
    (ids : List CellId) (cells : List κ) (order : List Nat)
    (hwf0 : wfb t0 = true) (hrun : runTree t0 cfg = .ok t)
    (hv : VoteOK t vote) (hpay : PayloadOK nR t vote) (hch : hasChoice t = true)
    (hcells : cells ≠ []) (hlen : ids.length = cells.length) (hnd : ids.Nodup)
    (hproc : 1 ≤ cfg.nProc) (hcs : 1 ≤ cfg.chunkSize)
    (horder : order.Perm (List.range
      (chunks cells.length (effChunk cells.length cfg.nProc cfg.chunkSize)).length))
    (out : List Record) (hout : mapPipeline t0 cfg vote ids cells order = .ok out) :
    Output.outInv (toBlob t0 cfg nm hm nR out) = true :=
  outInv_of_pipeline t0 t cfg vote nm hm nR ids cells order hwf0 hrun hv hpay hch hcells hlen hnd
    hproc hcs horder out hout

example : Output.outInv (toBlob exTree { chunkSize := 2, nProc := 2 } none none 1
    ((List.zipWith (mkRecord exTree (exVoteP 1)) [7, 3, 9] [0, 1, 2]).map
      (markDirect exTree.hierarchy))) = true :=
  pipeline_outInv exTree exTree { chunkSize := 2, nProc := 2 } (exVoteP 1) none none 1
    [7, 3, 9] [0, 1, 2] [1, 0] exTree_wf rfl (exVoteP_ok _ _) (exVoteP_payload _ _) (by decide)
    (by simp) rfl (by decide) (by decide) (by decide) (by decide) _
    (C01.no_error_plain exTree { chunkSize := 2, nProc := 2 } (exVoteP 1) [7, 3, 9] [0, 1, 2] [1, 0]
      rfl rfl exTree_wf (exVoteP_ok _ _) rfl (by decide) (by decide) (by decide) (by decide))

/-- the hypothesis `hasChoice` is necessary: on a single-leaf taxonomy (no
parent with two children anywhere) the pipeline succeeds, every
`avg_correlation` is `null`, and the blob does NOT satisfy `outInv` — this is
the known finding `…/null-becomes-nan/single-leaf-taxonomy` -/
example : hasChoice { hierarchy := [0], levels := [(0, [(10, [4])])] } = false ∧
    (mapPipeline { hierarchy := [0], levels := [(0, [(10, [4])])] } {} (exVoteP 1) [7] [0] [0]).toOption.map
      (fun out => Output.outInv
        (toBlob { hierarchy := [0], levels := [(0, [(10, [4])])] } {} none none 1 out)) =
      some false := by decide

/-- *"Writing the result to HDF5 and reading it back reproduces every cell id,
assignment, probability, correlation, runner-up list and directly-assigned
flag of the JSON output"* — for the output of the mapping loop itself: the
blob built from what `mapPipeline` returns is written by `blob_to_hdf5` and
`hdf5_to_blob` returns exactly it; its records carry the query's cell ids in
query order; and (`toRecord` forgets only the order of the per-level dict)
looking any level up in a converted record gives the converted dict the
mapping loop produced — assignment, probability, correlation, aggregate
probability, flag and runner-up lists. -/
theorem pipeline_h5_roundtrip {κ} (t0 t : RawTree) (cfg : Config) (vote : Oracle κ)
    (nm : NameMapper) (hm : HierarchyMapper) (nR : Nat)
    (ids : List CellId) (cells : List κ) (order : List Nat)
    (hwf0 : wfb t0 = true) (hrun : runTree t0 cfg = .ok t)
    (hv : VoteOK t vote) (hpay : PayloadOK nR t vote) (hch : hasChoice t = true)
    (hcells : cells ≠ []) (hlen : ids.length = cells.length) (hnd : ids.Nodup)
    (hproc : 1 ≤ cfg.nProc) (hcs : 1 ≤ cfg.chunkSize)
    (horder : order.Perm (List.range
      (chunks cells.length (effChunk cells.length cfg.nProc cfg.chunkSize)).length))
    (out : List Record) (hout : mapPipeline t0 cfg vote ids cells order = .ok out) :
    (∃ h, Output.toH5 (toBlob t0 cfg nm hm nR out) = .ok h ∧
      Output.ofH5 h = .ok (toBlob t0 cfg nm hm nR out)) ∧
    (toBlob t0 cfg nm hm nR out).results.map (·.cellId) = ids ∧
    ∀ o ∈ out, ∀ l, (toRecord t0.hierarchy o).levels.lookup l =
      (o.levels.lookup l).map toLevelRec := by
  have rt := runTreeOK_of_runTree hwf0 hrun
  refine ⟨h5_roundtrip _ (pipeline_outInv t0 t cfg vote nm hm nR ids cells order hwf0 hrun hv hpay
    hch hcells hlen hnd hproc hcs horder out hout), ?_, ?_⟩
  · have := ((C01.order_ids t0 t cfg vote ids cells order hrun rt.wf hv hlen hnd hproc hcs
      horder).2 out hout).1
    simp only [toBlob, List.map_map]
    exact this
  · intro o ho l
    obtain ⟨_, hrec⟩ := pipeline_records t0 t cfg vote ids cells order hrun rt.wf hv hlen hnd
      hproc hcs horder out hout
    obtain ⟨id, c, hc⟩ := hrec o ho
    exact toRecord_lookup rt hv id c o hc l

/-- a flattened run of the example taxonomy round-trips (evaluated) -/
example : ((mapPipeline exTree { flatten := true } (exVoteP 2) [7, 3, 9] [0, 1, 2] [0]).toOption.bind
    (fun out => (Output.toH5 (toBlob exTree { flatten := true } none none 2 out)).toOption.bind
      (fun h => (Output.ofH5 h).toOption.map
        (fun b => decide (b = toBlob exTree { flatten := true } none none 2 out))))) = some true := by
  decide +kernel

/-- *"The CSV output has one row per cell in query order whose label, name and
alias columns are the JSON assignments translated through the taxonomy's name
tables and whose confidence column is the JSON value to four decimals"* — for
the output of the mapping loop itself: `blob_to_csv` succeeds on it, there is
exactly one row per query cell, row `i` starts with the id of query cell `i`
(query order, whatever the chunking and gather order were), and every field
is `cellSpec` of its column key and the cell's record. -/
theorem pipeline_csv_rows {κ} (t0 t : RawTree) (cfg : Config) (vote : Oracle κ)
    (nm : NameMapper) (hm : HierarchyMapper) (nR : Nat)
    (ids : List CellId) (cells : List κ) (order : List Nat)
    (hwf0 : wfb t0 = true) (hrun : runTree t0 cfg = .ok t)
    (hv : VoteOK t vote) (hpay : PayloadOK nR t vote) (hch : hasChoice t = true)
    (hcells : cells ≠ []) (hlen : ids.length = cells.length) (hnd : ids.Nodup)
    (hproc : 1 ≤ cfg.nProc) (hcs : 1 ≤ cfg.chunkSize)
    (horder : order.Perm (List.range
      (chunks cells.length (effChunk cells.length cfg.nProc cfg.chunkSize)).length))
    (out : List Record) (hout : mapPipeline t0 cfg vote ids cells order = .ok out)
    (taint : List Output.Lvl) (ck : Output.ConfKey) :
    ∃ rows, Output.csvRows (toBlob t0 cfg nm hm nR out).tree taint ck
        (toBlob t0 cfg nm hm nR out).results = .ok rows ∧
      rows = (toBlob t0 cfg nm hm nR out).results.map (fun r =>
        (Output.csvKeys (toBlob t0 cfg nm hm nR out).tree).map
          (Output.cellSpec (toBlob t0 cfg nm hm nR out).tree taint ck r)) ∧
      rows.length = cells.length ∧
      rows.map (·.head?) = ids.map (fun i => some (Output.Cell.str i)) := by
  have rt := runTreeOK_of_runTree hwf0 hrun
  have hinv := pipeline_outInv t0 t cfg vote nm hm nR ids cells order hwf0 hrun hv hpay
    hch hcells hlen hnd hproc hcs horder out hout
  obtain ⟨hids, hl⟩ := (C01.order_ids t0 t cfg vote ids cells order hrun rt.wf hv hlen hnd hproc
    hcs horder).2 out hout
  refine ⟨_, csv_rows_outInv _ hinv taint ck, rfl, ?_, ?_⟩
  · simp [toBlob, hl]
  · rw [← hids]
    simp [toBlob, toRecord, Output.csvKeys, Output.cellSpec, Function.comp_def]

example : ((mapPipeline exTree { dropLevel := some 1 } (exVoteP 2) [7, 3, 9] [0, 1, 2] [0]).toOption.bind
    (fun out => (Output.csvRows (toBlob exTree { dropLevel := some 1 } none none 2 out).tree []
      (Output.confidenceKey 10) (toBlob exTree { dropLevel := some 1 } none none 2 out).results).toOption)).map
      (·.map (·.head?)) = some [some (.str 7), some (.str 3), some (.str 9)] := by
  decide +kernel

/-! ### unconditional forms: the run succeeds (C01) and its output serialises -/

/-- plain run (no `drop_level`, no `flatten`): on a well-formed tree the
mapping cannot fail (`C01.no_error_plain`), and its output round-trips through
HDF5 and is written to CSV with one row per query cell in query order -/
theorem pipeline_serialised_plain {κ} (t0 : RawTree) (cfg : Config) (vote : Oracle κ)
    (nm : NameMapper) (hm : HierarchyMapper) (nR : Nat)
    (ids : List CellId) (cells : List κ) (order : List Nat)
    (hdrop : cfg.dropLevel = none) (hflat : cfg.flatten = false)
    (hwf : wfb t0 = true) (hv : VoteOK t0 vote) (hpay : PayloadOK nR t0 vote)
    (hch : hasChoice t0 = true)
    (hcells : cells ≠ []) (hlen : ids.length = cells.length) (hnd : ids.Nodup)
    (hproc : 1 ≤ cfg.nProc) (hcs : 1 ≤ cfg.chunkSize)
    (horder : order.Perm (List.range
      (chunks cells.length (effChunk cells.length cfg.nProc cfg.chunkSize)).length)) :
    ∃ out, mapPipeline t0 cfg vote ids cells order = .ok out ∧
      (∃ h, Output.toH5 (toBlob t0 cfg nm hm nR out) = .ok h ∧
        Output.ofH5 h = .ok (toBlob t0 cfg nm hm nR out)) ∧
      ∀ taint ck, ∃ rows, Output.csvRows (toBlob t0 cfg nm hm nR out).tree taint ck
          (toBlob t0 cfg nm hm nR out).results = .ok rows ∧
        rows.map (·.head?) = ids.map (fun i => some (Output.Cell.str i)) := by
  have hrun : runTree t0 cfg = .ok t0 := by simp [runTree, hdrop, hflat]
  have hout := C01.no_error_plain t0 cfg vote ids cells order hdrop hflat hwf hv hlen hnd hproc
    hcs horder
  refine ⟨_, hout, ?_, ?_⟩
  · exact (pipeline_h5_roundtrip t0 t0 cfg vote nm hm nR ids cells order hwf hrun hv hpay hch
      hcells hlen hnd hproc hcs horder _ hout).1
  · intro taint ck
    obtain ⟨rows, h1, _, _, h4⟩ := pipeline_csv_rows t0 t0 cfg vote nm hm nR ids cells order hwf
      hrun hv hpay hch hcells hlen hnd hproc hcs horder _ hout taint ck
    exact ⟨rows, h1, h4⟩

example : ∃ out, mapPipeline exTree { chunkSize := 2, nProc := 2 } (exVoteP 1) [7, 3, 9] [0, 1, 2]
    [1, 0] = .ok out ∧ ∃ h, Output.toH5 (toBlob exTree { chunkSize := 2, nProc := 2 } none none 1 out)
      = .ok h ∧ Output.ofH5 h = .ok (toBlob exTree { chunkSize := 2, nProc := 2 } none none 1 out) :=
  (fun ⟨out, h1, h2, _⟩ => ⟨out, h1, h2⟩) <|
    pipeline_serialised_plain exTree { chunkSize := 2, nProc := 2 } (exVoteP 1) none none 1
      [7, 3, 9] [0, 1, 2] [1, 0] rfl rfl exTree_wf (exVoteP_ok _ _) (exVoteP_payload _ _)
      (by decide) (by simp) rfl (by decide) (by decide) (by decide) (by decide)

/-- flattened run: never fails (`C01.flatten_path`); the output — leaf level
voted, every coarser level inferred, `directly_assigned = False`, no runner-up
keys — round-trips through HDF5 and is written to CSV in query order -/
theorem pipeline_serialised_flatten {κ} (t0 : RawTree) (cfg : Config) (vote : Oracle κ)
    (nm : NameMapper) (hm : HierarchyMapper) (nR : Nat) (ll : Level)
    (ids : List CellId) (cells : List κ) (order : List Nat)
    (hdrop : cfg.dropLevel = none) (hflat : cfg.flatten = true)
    (hleaf : t0.leafLevel = some ll)
    (hwf : wfb t0 = true) (hv : VoteOK t0.flatten vote) (hpay : PayloadOK nR t0.flatten vote)
    (hch : hasChoice t0.flatten = true)
    (hcells : cells ≠ []) (hlen : ids.length = cells.length) (hnd : ids.Nodup)
    (hproc : 1 ≤ cfg.nProc) (hcs : 1 ≤ cfg.chunkSize)
    (horder : order.Perm (List.range
      (chunks cells.length (effChunk cells.length cfg.nProc cfg.chunkSize)).length)) :
    ∃ out, mapPipeline t0 cfg vote ids cells order = .ok out ∧
      (∃ h, Output.toH5 (toBlob t0 cfg nm hm nR out) = .ok h ∧
        Output.ofH5 h = .ok (toBlob t0 cfg nm hm nR out)) ∧
      ∀ taint ck, ∃ rows, Output.csvRows (toBlob t0 cfg nm hm nR out).tree taint ck
          (toBlob t0 cfg nm hm nR out).results = .ok rows ∧
        rows.map (·.head?) = ids.map (fun i => some (Output.Cell.str i)) := by
  have hrun : runTree t0 cfg = .ok t0.flatten := by simp [runTree, hdrop, hflat]
  obtain ⟨out, hout, _⟩ := C01.flatten_path t0 cfg vote ll ids cells order hdrop hflat hleaf hwf hv
    hlen hnd hproc hcs horder
  refine ⟨out, hout, ?_, ?_⟩
  · exact (pipeline_h5_roundtrip t0 t0.flatten cfg vote nm hm nR ids cells order hwf hrun hv hpay
      hch hcells hlen hnd hproc hcs horder _ hout).1
  · intro taint ck
    obtain ⟨rows, h1, _, _, h4⟩ := pipeline_csv_rows t0 t0.flatten cfg vote nm hm nR ids cells
      order hwf hrun hv hpay hch hcells hlen hnd hproc hcs horder _ hout taint ck
    exact ⟨rows, h1, h4⟩

example : ∃ out, mapPipeline exTree { flatten := true, chunkSize := 2, nProc := 2 } (exVoteP 2)
    [7, 3, 9] [0, 1, 2] [1, 0] = .ok out ∧
    ∃ h, Output.toH5 (toBlob exTree { flatten := true, chunkSize := 2, nProc := 2 } none none 2 out)
      = .ok h :=
  (fun ⟨out, h1, ⟨h, h2, _⟩, _⟩ => ⟨out, h1, h, h2⟩) <|
    pipeline_serialised_flatten exTree { flatten := true, chunkSize := 2, nProc := 2 } (exVoteP 2)
      none none 2 2 [7, 3, 9] [0, 1, 2] [1, 0] rfl rfl (by decide) exTree_wf (exVoteP_ok _ _)
      (exVoteP_payload _ _) (by decide) (by simp) rfl (by decide) (by decide) (by decide) (by decide)

/-- run with `drop_level = l` (`l` a top or middle level, `cl` the level right
below it): never fails (`C01.drop_path`); the output — level `l` inferred from
the assignment at `cl`, all other levels voted — round-trips through HDF5 and
is written to CSV in query order -/
theorem pipeline_serialised_drop {κ} (t0 t' : RawTree) (cfg : Config) (vote : Oracle κ)
    (nm : NameMapper) (hm : HierarchyMapper) (nR : Nat)
    (l cl : Level) (pre post : List Level)
    (ids : List CellId) (cells : List κ) (order : List Nat)
    (hcfg : cfg.dropLevel = some l) (hflat : cfg.flatten = false)
    (hdrop : t0.dropLevel l = .ok t') (hs : t0.hierarchy = pre ++ l :: cl :: post)
    (hwf : wfb t0 = true) (hv : VoteOK t' vote) (hpay : PayloadOK nR t' vote)
    (hch : hasChoice t' = true)
    (hcells : cells ≠ []) (hlen : ids.length = cells.length) (hnd : ids.Nodup)
    (hproc : 1 ≤ cfg.nProc) (hcs : 1 ≤ cfg.chunkSize)
    (horder : order.Perm (List.range
      (chunks cells.length (effChunk cells.length cfg.nProc cfg.chunkSize)).length)) :
    ∃ out, mapPipeline t0 cfg vote ids cells order = .ok out ∧
      (∃ h, Output.toH5 (toBlob t0 cfg nm hm nR out) = .ok h ∧
        Output.ofH5 h = .ok (toBlob t0 cfg nm hm nR out)) ∧
      ∀ taint ck, ∃ rows, Output.csvRows (toBlob t0 cfg nm hm nR out).tree taint ck
          (toBlob t0 cfg nm hm nR out).results = .ok rows ∧
        rows.map (·.head?) = ids.map (fun i => some (Output.Cell.str i)) := by
  have hc : l ∈ t0.hierarchy := by rw [hs]; simp
  have hrun : runTree t0 cfg = .ok t' := by simp [runTree, hcfg, hflat, hc, hdrop]
  obtain ⟨out, hout, _⟩ := C01.drop_path t0 t' cfg vote l cl pre post ids cells order hcfg hflat
    hdrop hs hwf hv hlen hnd hproc hcs horder
  refine ⟨out, hout, ?_, ?_⟩
  · exact (pipeline_h5_roundtrip t0 t' cfg vote nm hm nR ids cells order hwf hrun hv hpay
      hch hcells hlen hnd hproc hcs horder _ hout).1
  · intro taint ck
    obtain ⟨rows, h1, _, _, h4⟩ := pipeline_csv_rows t0 t' cfg vote nm hm nR ids cells
      order hwf hrun hv hpay hch hcells hlen hnd hproc hcs horder _ hout taint ck
    exact ⟨rows, h1, h4⟩

example : ∃ out, mapPipeline exTree { dropLevel := some 1, chunkSize := 2, nProc := 2 } (exVoteP 2)
    [7, 3, 9] [0, 1, 2] [1, 0] = .ok out ∧
    ∃ h, Output.toH5 (toBlob exTree { dropLevel := some 1, chunkSize := 2, nProc := 2 } none none 2 out)
      = .ok h :=
  (fun ⟨out, h1, ⟨h, h2, _⟩, _⟩ => ⟨out, h1, h, h2⟩) <|
    pipeline_serialised_drop exTree C01.exDropped { dropLevel := some 1, chunkSize := 2, nProc := 2 }
      (exVoteP 2) none none 2 1 2 [0] [] [7, 3, 9] [0, 1, 2] [1, 0] rfl rfl (by rfl) rfl exTree_wf
      (exVoteP_ok _ _) (exVoteP_payload _ _) (by decide) (by simp) rfl (by decide) (by decide)
      (by decide) (by decide)

end CTM.C15
