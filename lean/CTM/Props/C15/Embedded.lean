/-
  C15, last sentence — *"The taxonomy embedded in the output reconstructs the
  input taxonomy without its cell lists and the embedded marker table lists
  what was used."*

  `Props/C15.lean` proves `tree_embedded` about group I's own `Output.Tree`.
  Here the sentence is stated against the models of the groups that own the
  two objects:

  * the taxonomy: group A's `RawTree` (`validate`, `dropCells`, the
    `TaxonomyTree` queries; C10 `drop_cells_preserves`), through X3's
    `OutBridge.toTree` / `toTree_dropCells` and `OutCompose.ofTree` (the dict
    read back with `TaxonomyTree.from_str`);
  * the marker table: group E's `Markers.stage` (`reported` =
    `serialize_markers`, `used` = the gene lists `assemble_query_data` hands to
    the election; C08 `spec`, `reported_is_cache`), on the tree of the RUN
    (`LevelLoop.runTree`: after `drop_level` / `flatten`), carried in the
    output as `OutCompose.RunOutput.markerGenes`.

  Hypotheses: the stored taxonomy is accepted by the model of
  `validate_taxonomy_tree` (`t0.validate = .ok ()`), with distinct level names
  and distinct dict keys (`DictOK`, a Python dict); for the markers also a node
  at the top (`HasNode`) and `runTree t0 cfg = .ok t`.
-/
import CTM.Lemmas.OutputCompose
import CTM.Props.C08.Bridge
import CTM.Props.C10
import CTM.Props.C15

namespace CTM.C15
open CTM CTM.RawTree CTM.OutBridge CTM.OutCompose CTM.Markers CTM.Bridge

/-- *"The taxonomy embedded in the output reconstructs the input taxonomy
without its cell lists"* — against group A's tree model, for a run with ANY
`drop_level` / `flatten`: the `taxonomy_tree` block of the output is (the dict
of) `dropCells` of the STORED tree — not of the reduced tree the run voted on
— with the name tables copied; read back (`from_str`) it is accepted by the
validator again, is well formed, and answers like the input taxonomy: same
hierarchy, same nodes at every level (in the same order), same children at
every level above the leaves, same parents / ancestors of every node, same
leaves under every node; only the cell lists under the leaves are empty. -/
theorem embedded_tree_is_input_tree (t0 : RawTree) (cfg : LevelLoop.Config)
    (nm : NameMapper) (hm : HierarchyMapper) (nR : Nat) (out : List LevelLoop.Record)
    (hval : t0.validate = .ok ()) (hN : t0.hierarchy.Nodup) (hd : DictOK t0) :
    (toBlob t0 cfg nm hm nR out).tree = toTree t0.dropCells nm hm ∧
    (toBlob t0 cfg nm hm nR out).tree.nameMapper = nm ∧
    (toBlob t0 cfg nm hm nR out).tree.hierarchyMapper = hm ∧
    ofTree (toBlob t0 cfg nm hm nR out).tree = t0.dropCells ∧
    t0.dropCells.validate = .ok () ∧ WF t0.dropCells ∧
    t0.dropCells.hierarchy = t0.hierarchy ∧
    (∀ l, t0.dropCells.nodesAt l = t0.nodesAt l) ∧
    (∀ l, t0.leafLevel ≠ some l → t0.dropCells.level l = t0.level l) ∧
    (∀ l n, t0.leafLevel = some l → t0.dropCells.entry l n = []) ∧
    (∀ l n, t0.dropCells.parents l n = t0.parents l n) ∧
    (∀ l n al, t0.dropCells.ancestorAt l n al = t0.ancestorAt l n al) ∧
    (∀ l n, t0.dropCells.asLeaves l n = t0.asLeaves l n) := by
  have w := RawTree.WF.of_validate hval hd
  obtain ⟨w', h1, h2, h3, h4, h5, h6, h7⟩ := C10.drop_cells_preserves t0 w
  have hs := strict_of_validate w'.valid
  have he := blob_tree_eq t0 cfg nm hm nR out hd.levelKeys
  refine ⟨he, by rw [he]; rfl, by rw [he]; rfl, ?_, w'.valid, w', h1, h2, h3, ?_, h5, h6, h7⟩
  · rw [he]
    exact ofTree_toTree _ nm hm hs.hasH hs.str
  · intro l n hl
    have : l = t0.hierarchy.getLast w.hNe := by
      have h := hl
      simp only [RawTree.leafLevel, List.getLast?_eq_some_getLast w.hNe, Option.some.injEq] at h
      exact h.symm
    rw [this]
    exact h4 n

example : LevelLoop.exTree.validate = .ok () ∧ LevelLoop.exTree.hierarchy.Nodup ∧
    DictOK LevelLoop.exTree := ⟨by rfl, by decide, dictOK_of_b (by decide)⟩
example : (toBlob LevelLoop.exTree { dropLevel := some 1, flatten := true } none none 1 []).tree.levels
    = [(0, [(10, [21, 20])]), (1, [(21, [31, 32]), (20, [30])]), (2, [(30, []), (31, []), (32, [])])] := by
  decide

/-- *"… and the embedded marker table lists what was used"* — against group
E's marker model, for a run with ANY `drop_level` / `flatten` whose run tree is
`t`: the `marker_genes` block of the output is E's serialised table of the
cache written for `t`; it has exactly one entry per parent of the RUN tree;
for every parent with at least two children the entry is exactly the gene list
`assemble_query_data` handed to the election at that node — by name, in
reference order (`RowsFor`: the i-th gene is the name of the i-th row of the
node's group in both the reference and the query; rows sorted by reference
index), without repetition; for a parent with fewer than two children it is
`[]`; and conversely every list the election used is an entry of the block.
(What that list IS — own markers in the query, ancestor fallback — is C08
`spec_of_validate` / `spec_nearest_first`.) -/
theorem embedded_markers_are_used (t0 t : RawTree) (cfg : LevelLoop.Config)
    (nm : NameMapper) (hm : HierarchyMapper) (nR : Nat) (lk : Lookup) (R Q : List Gene) (m : Nat)
    (records : List LevelLoop.Record) (o : RunOutput)
    (hval : t0.validate = .ok ()) (hN : t0.hierarchy.Nodup) (hd : DictOK t0)
    (hrun : LevelLoop.runTree t0 cfg = .ok t)
    (ho : runOutput t0 cfg nm hm nR lk R Q m records = .ok o) :
    ∃ c s, createCache (some t) (if cfg.flatten then flattenLookup lk else lk) R Q m = .ok c ∧
      stage t0 lk R Q m cfg.dropLevel cfg.flatten = .ok s ∧
      o.markerGenes = s.reported ∧ serialize t c = .ok o.markerGenes ∧
      o.blob = toBlob t0 cfg nm hm nR records ∧
      (∀ k, k ∈ o.markerGenes.map (·.1) ↔ k ∈ t.allParents) ∧
      (o.markerGenes.map (·.1)).Nodup ∧
      (∀ p ∈ t.allParents, ∀ ch, childrenOf t p = .ok ch → 2 ≤ ch.length →
        ∃ g rows, (p, g) ∈ o.markerGenes ∧ (p, g) ∈ s.used ∧ assemble c p = .ok g ∧
          c.groups.lookup p = some rows ∧ RowsFor R Q rows g ∧
          rows.Pairwise (fun a b => a.1 ≤ b.1) ∧ g.Nodup) ∧
      (∀ p g, (p, g) ∈ o.markerGenes → ∀ ch, childrenOf t p = .ok ch → ch.length < 2 → g = []) ∧
      (∀ e ∈ s.used, e ∈ o.markerGenes ∧ Consulted t e.1 ∧ assemble c e.1 = .ok e.2) := by
  -- the stage succeeded and is the plain stage on the run tree
  unfold runOutput at ho
  cases hs : stage t0 lk R Q m cfg.dropLevel cfg.flatten with
  | error e => simp [hs] at ho
  | ok s =>
    simp only [hs, Except.ok.injEq] at ho
    subst ho
    have hs' := hs
    rw [stage_eq_stage_runTree hrun] at hs'
    obtain ⟨c, cons, hcache, hcons, hused, hser⟩ := stage_plain_inv t _ R Q m s hs'
    have w := WF_runTree (RawTree.WF.of_validate hval hd) hrun
    have hT := treeWF_of_WF w
    obtain ⟨hkeys, hrep⟩ := serialize_spec t c s.reported hser
    obtain ⟨hukeys, huass⟩ := usedOf_spec c cons s.used hused
    have hconsS := consultedOf_spec t _ cons hcons
    -- the list of a consulted parent
    have main : ∀ p ∈ t.allParents, ∀ ch, childrenOf t p = .ok ch → 2 ≤ ch.length →
        ∃ g rows, (p, g) ∈ s.reported ∧ (p, g) ∈ s.used ∧ assemble c p = .ok g ∧
          c.groups.lookup p = some rows ∧ RowsFor R Q rows g ∧
          rows.Pairwise (fun a b => a.1 ≤ b.1) ∧ g.Nodup := by
      intro p hp ch hch h2
      have hc : Consulted t p := ⟨ch, hch, by omega⟩
      obtain ⟨rows, names, hl, hrows, hsorted, hrg, hass, _, hnd⟩ :=
        C08.spec t hT _ R Q m c hcache p hp hc
      refine ⟨names, rows, ?_, ?_, hass, hl, hrows, hsorted, hnd⟩
      · have : p ∈ s.reported.map (·.1) := (hkeys p).2 hp
        obtain ⟨e, he, rfl⟩ := List.mem_map.1 this
        obtain ⟨ch', hch', hg⟩ := hrep e he
        rw [hch] at hch'
        cases hch'
        have hlt : ¬ ch.length < 2 := by omega
        simp only [hlt, if_false] at hg
        rw [hrg] at hg
        cases hg
        exact he
      · have : p ∈ s.used.map (·.1) := by rw [hukeys]; exact (hconsS p).2 ⟨hp, hc⟩
        obtain ⟨e, he, rfl⟩ := List.mem_map.1 this
        have := huass e he
        rw [hass] at this
        cases this
        exact he
    refine ⟨c, s, hcache, rfl, rfl, hser, rfl, hkeys, serialize_keys_nodup t hT c _ hser, main, ?_, ?_⟩
    · intro p g hpg ch hch hlt
      obtain ⟨ch', hch', hg⟩ := hrep (p, g) hpg
      rw [hch] at hch'
      cases hch'
      simpa [hlt] using hg
    · intro e he
      have hmem : e.1 ∈ cons := by
        rw [← hukeys]; exact List.mem_map.2 ⟨e, he, rfl⟩
      obtain ⟨hp, hc⟩ := (hconsS e.1).1 hmem
      obtain ⟨ch, hch, hlen⟩ := hc
      obtain ⟨g, _, hrepd, _, hass, _⟩ := main e.1 hp ch hch (by omega)
      have := huass e he
      rw [hass] at this
      cases this
      exact ⟨hrepd, ⟨ch, hch, hlen⟩, hass⟩

/-- non-vacuity: E's example taxonomy and table, run with the middle level
dropped; the block has one entry per parent of the REDUCED tree, the root's
entry is the list the election used there -/
example : ∃ o, runOutput C08.t0 { dropLevel := some 1 } none none 1 C08.lk0
      [1, 2, 3, 4, 7, 9] [4, 3, 2, 1] 1 [] = .ok o ∧
    o.markerGenes.map (·.1) = [some (0, 10), some (0, 11), none] := by
  refine ⟨_, by rfl, by decide⟩

example : C08.t0.validate = .ok () ∧ C08.t0.hierarchy.Nodup ∧ DictOK C08.t0 ∧
    (∃ t, LevelLoop.runTree C08.t0 { dropLevel := some 1 } = .ok t) :=
  ⟨by rfl, by decide, dictOK_of_b (by decide), _, by rfl⟩

/-- the block is metadata: `blob_to_hdf5` copies it verbatim and `hdf5_to_blob`
returns it, so under `OutInv` the HDF5 file reproduces the whole output — the
records (`h5_roundtrip`) and the marker table -/
theorem marker_table_survives_h5 (o : RunOutput) (hinv : Output.outInv o.blob = true) :
    ∃ f, writeH5 o = .ok f ∧ f.markerGenes = o.markerGenes ∧ readH5 f = .ok o := by
  obtain ⟨h, h1, h2⟩ := h5_roundtrip o.blob hinv
  refine ⟨{ h5 := h, markerGenes := o.markerGenes }, by simp [writeH5, h1], rfl, ?_⟩
  simp [readH5, h2]

example : ∃ f, writeH5 { blob := sampleBlob, markerGenes := [(none, [4, 2])] } = .ok f ∧
    f.markerGenes = [(none, [4, 2])] :=
  ⟨_, rfl, rfl⟩

end CTM.C15
