/-
  Property C16: "Validation rewrites identifiers and integers without altering
  the data" - theorems about the model `CTM.Model.Validate`.
  Helper lemmas: `CTM.Lemmas.Validate`.

  Not covered here (checked by the test harness, not provable on the model):
  "validating an h5ad file never modifies it" (a file-system fact) and "same
  cells in the same order with the same annotations" (obs is copied verbatim).
-/
import CTM.Lemmas.Validate

namespace CTM.C16
open CTM.Validate

/-! ### rounding: "every value moved by at most one half to an integer" -/

/-- "every value moved by at most one half to an integer": `np.round` (nearest
integer, ties to even) moves no value by more than one half. -/
theorem round_half (x : Rat) :
    -(1/2) ≤ (roundHalfEven x : Rat) - x ∧ (roundHalfEven x : Rat) - x ≤ 1/2 :=
  CTM.Validate.round_half x

example : roundHalfEven (5/2) = 2 ∧ roundHalfEven (7/2) = 4 ∧ roundHalfEven (-5/2) = -2 ∧
    roundHalfEven (511/2) = 256 ∧ roundHalfEven (-1/2) = 0 ∧ roundHalfEven (7/4) = 2 := by
  decide +kernel

/-- Rounding is monotone: the rounded minimum and maximum bound every rounded
value (this is why the integer type can be chosen from min and max alone). -/
theorem round_mono {x y : Rat} (h : x ≤ y) : roundHalfEven x ≤ roundHalfEven y :=
  CTM.Validate.round_mono h

example : roundHalfEven (5/2) ≤ roundHalfEven (7/2) := round_mono (by norm_num)

/-- A value that already is an integer is not moved at all. -/
theorem round_int (n : Int) : roundHalfEven (n : Rat) = n :=
  CTM.Validate.round_int n

example : roundHalfEven ((-7 : Int) : Rat) = -7 := round_int (-7)

/-- Ties go to the even neighbour (`np.round` semantics). -/
theorem round_tie_even (x : Rat) (h : x - (x.floor : Rat) = 1/2) : roundHalfEven x % 2 = 0 :=
  CTM.Validate.round_tie_even x h

example : roundHalfEven (255 + 1/2) % 2 = 0 :=
  round_tie_even _ (by rw [show (255 + 1/2 : Rat).floor = 255 by decide +kernel]; norm_num)

/-! ### the integer type: "held in an integer type wide enough for all values"

All statements of this section are for the *exact* comparison of the rounded
bounds with the limits of the integer types (`floatBits = none`).  For the
comparison in the floating-point type of the bounds (what the source does for
float32 / float64 input with NumPy ≥ 2) the statement is false: see
`dtype_float_compare_too_narrow`. -/

/-- "an integer type wide enough for all values": when the ladder of integer
types has a rung accepting the rounded minimum and maximum, every value between
minimum and maximum rounds to an integer inside that rung's range. -/
theorem dtype_fits {mn mx v : Rat} {r : Rung}
    (h : Generated.intLadder.find? (rungAccepts none (roundHalfEven mn) (roundHalfEven mx)) = some r)
    (h1 : mn ≤ v) (h2 : v ≤ mx) : castTo r v = some (roundHalfEven v) :=
  find_fits h h1 h2

example : Generated.intLadder.find? (rungAccepts none (roundHalfEven (-3/2)) (roundHalfEven (255 + 1/2)))
    = some ("int16", -32768, 32767) := by decide +kernel

/-- The chosen rung is the first of the ladder that fits: it accepts the
bounds and no earlier rung does. -/
theorem dtype_first {mn mx : Rat} {r : Rung}
    (h : Generated.intLadder.find? (rungAccepts none (roundHalfEven mn) (roundHalfEven mx)) = some r) :
    chooseIntDtype none mn mx = r ∧
    (r.2.1 ≤ roundHalfEven mn ∧ roundHalfEven mx ≤ r.2.2) ∧
    ∃ pre post, Generated.intLadder = pre ++ r :: post ∧
      ∀ q ∈ pre, ¬ (q.2.1 ≤ roundHalfEven mn ∧ roundHalfEven mx ≤ q.2.2) := by
  obtain ⟨hp, pre, post, e, hq⟩ := find_first h
  refine ⟨chooseIntDtype_of_find h, (rungAccepts_none_iff _ _ _).1 hp, pre, post, e, ?_⟩
  intro q hq' hacc
  have := hq q hq'
  rw [(rungAccepts_none_iff _ _ _).2 hacc] at this
  cases this

example : chooseIntDtype none (-3/2) (255 + 1/2) = ("int16", -32768, 32767) := by decide +kernel

/-- A rung exists whenever the rounded bounds fit uint64 or int64 (proved on
the generated ladder: fails to build if these two types leave the ladder). -/
theorem dtype_exists {mn mx : Rat}
    (h : (0 ≤ roundHalfEven mn ∧ roundHalfEven mx ≤ 18446744073709551615) ∨
      (-9223372036854775808 ≤ roundHalfEven mn ∧ roundHalfEven mx ≤ 9223372036854775807)) :
    ∃ r, Generated.intLadder.find?
      (rungAccepts none (roundHalfEven mn) (roundHalfEven mx)) = some r :=
  ladder_exists _ _ h

example : ∃ r, Generated.intLadder.find?
    (rungAccepts none (roundHalfEven 0) (roundHalfEven 18446744073709551615)) = some r :=
  dtype_exists (Or.inl (by decide +kernel))

/-- "values at integer-type boundaries such as 255.5 and 65535.5": 255.5 rounds
to 256 and needs uint16, 254.5 rounds to 254 and stays uint8, 65535.5 needs
uint32, -0.5 rounds to 0 and stays unsigned, -0.51 needs a signed type. -/
theorem dtype_boundaries :
    chooseIntDtype none 0 (255 + 1/2) = ("uint16", 0, 65535) ∧
    chooseIntDtype none 0 (509/2) = ("uint8", 0, 255) ∧
    chooseIntDtype none 0 (65535 + 1/2) = ("uint32", 0, 4294967295) ∧
    chooseIntDtype none (-1/2) 3 = ("uint8", 0, 255) ∧
    chooseIntDtype none (-51/100) 3 = ("int8", -128, 127) ∧
    chooseIntDtype none (-51/100) 128 = ("int16", -32768, 32767) ∧
    chooseIntDtype none 0 4294967296 = ("uint64", 0, 18446744073709551615) ∧
    chooseIntDtype none (-1) 18446744073709551615 =
      ("int64", -9223372036854775808, 9223372036854775807) := by
  decide +kernel

/-- "wide enough for all values": with exact comparison, if some rung accepts
the bounds then every value of a list bounded by `mn` and `mx` fits the chosen
type (no entry is cast out of range). -/
theorem chosen_dtype_holds_all {mn mx : Rat} {r : Rung} {vals : List Rat}
    (h : Generated.intLadder.find? (rungAccepts none (roundHalfEven mn) (roundHalfEven mx)) = some r)
    (hb : ∀ v ∈ vals, mn ≤ v ∧ v ≤ mx) :
    vals.map (castTo (chooseIntDtype none mn mx)) = vals.map (fun v => some (roundHalfEven v)) := by
  rw [chooseIntDtype_of_find h]
  apply List.map_congr_left
  intro v hv
  exact find_fits h (hb v hv).1 (hb v hv).2

example : [1/2, 255 + 1/2, 0].map (castTo (chooseIntDtype none 0 (255 + 1/2))) = [some 0, some 256, some 0] := by
  decide +kernel

/-- FINDING (the statement "wide enough" is false for the source as it is):
when the bounds are float32 scalars, `choose_int_dtype` compares them with the
limits converted to float32; 4294967295 becomes 4294967296.0, so uint32 is
chosen for a maximum of 2^32, which it cannot hold.  Same for float64 at 2^64
(uint64) and 2^63 (int64). -/
theorem dtype_float_compare_too_narrow :
    (chooseIntDtype (some 24) 0 4294967296 = ("uint32", 0, 4294967295) ∧
      castTo ("uint32", 0, 4294967295) 4294967296 = none) ∧
    (chooseIntDtype (some 53) 0 18446744073709551616 = ("uint64", 0, 18446744073709551615) ∧
      castTo ("uint64", 0, 18446744073709551615) 18446744073709551616 = none) ∧
    (chooseIntDtype (some 53) (-5) 9223372036854775808 =
        ("int64", -9223372036854775808, 9223372036854775807) ∧
      castTo ("int64", -9223372036854775808, 9223372036854775807) 9223372036854775808 = none) := by
  decide +kernel

example : Generated.intLadderExactCompare = false := rfl

/-! ### gene identifiers -/

/-- "the same genes in the same order": the mapped list has one entry per input gene. -/
theorem genes_length {lookup : List (Name × Name)} {placeholder : Nat → Name} {start : Nat}
    {genes : List Name} {o : MapOut} (h : mapGenes lookup placeholder start genes = .ok o) :
    o.mapped.length = genes.length := by
  rw [(mapGenes_ok h).1, List.length_map, renameFrom_length]

example : mapGenes demoLookup demoPlaceholder 2 demoInput.genes =
    .ok ⟨[['E','N','S','G','0','1'], ['E','N','S','G','0','7'], ['u','_','x','x'], ['u','_','x','x','x']], 2, 4⟩ := by
  decide +kernel

/-- "Ensembl identifiers are kept (minus version suffix), known gene symbols are
replaced by their Ensembl identifier, unknown ones by placeholders": entry `i`
of the output is computed from entry `i` of the input (order preserved); the
placeholder counter is the start value plus the number of unknown names before `i`. -/
theorem genes_pointwise {lookup : List (Name × Name)} {placeholder : Nat → Name} {start : Nat}
    {genes : List Name} {o : MapOut} (h : mapGenes lookup placeholder start genes = .ok o)
    (i : Nat) (hi : i < genes.length) :
    o.mapped[i]? = some (stripSuffix (
      if isEnsembl genes[i] then genes[i]
      else match lookup.lookup genes[i] with
        | some e => e
        | none => placeholder (start +
            (genes.take i).countP (fun g => !isEnsembl g && (lookup.lookup g).isNone)))) := by
  rw [(mapGenes_ok h).1, List.getElem?_map, renameFrom_getElem?, List.getElem?_eq_getElem hi]
  rfl

example : demoInput.genes[2]? = some ['x','y'] ∧ isEnsembl ['x','y'] = false ∧
    demoLookup.lookup ['x','y'] = none ∧ stripSuffix (demoPlaceholder (2 + 0)) = ['u','_','x','x'] := by
  decide +kernel

/-- "the number of mapped genes": the reported number of unmapped genes is the
number of unknown names, and the placeholder counter advanced by exactly that. -/
theorem genes_unmapped_count {lookup : List (Name × Name)} {placeholder : Nat → Name} {start : Nat}
    {genes : List Name} {o : MapOut} (h : mapGenes lookup placeholder start genes = .ok o) :
    o.nUnmapped = genes.countP (fun g => !isEnsembl g && (lookup.lookup g).isNone) ∧
    o.ct = start + o.nUnmapped := by
  obtain ⟨_, h2, h3⟩ := mapGenes_ok h
  exact ⟨h2, by rw [h3, h2]⟩

example : demoInput.genes.countP (fun g => !isEnsembl g && (demoLookup.lookup g).isNone) = 2 := by
  decide +kernel

/-- "placeholders unique within the file": if the placeholder names (after the
suffix cut) of different counters differ, two different unknown genes get
different names. -/
theorem placeholders_distinct {lookup : List (Name × Name)} {placeholder : Nat → Name} {start : Nat}
    {genes : List Name} {o : MapOut} (h : mapGenes lookup placeholder start genes = .ok o)
    (hinj : Function.Injective (fun k => stripSuffix (placeholder k)))
    {i j : Nat} (hij : i < j) (hj : j < genes.length)
    (hui : isEnsembl genes[i] = false ∧ lookup.lookup genes[i] = none)
    (huj : isEnsembl genes[j] = false ∧ lookup.lookup genes[j] = none) :
    o.mapped[i]? ≠ o.mapped[j]? := by
  rw [genes_pointwise h i (by omega), genes_pointwise h j hj]
  simp only [hui.1, hui.2, huj.1, huj.2, Bool.false_eq_true, if_false]
  intro e
  have e' := hinj (Option.some.inj e)
  have hlt := countP_take_lt (p := fun g => !isEnsembl g && (lookup.lookup g).isNone)
    hij (Nat.le_of_lt hj)
    ⟨genes[i], List.getElem?_eq_getElem (by omega), by simp [hui.1, hui.2]⟩
  omega

example : Function.Injective (fun k => stripSuffix (demoPlaceholder k)) := demoPlaceholder_injective

end CTM.C16
