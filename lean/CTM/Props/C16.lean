import CTM.Model.Validate
namespace CTM.C16
theorem placeholder_true : True := trivial
end CTM.C16
