/-
  Property C16: "Validation rewrites identifiers and integers without altering
  the data" - theorems about the model `CTM.Model.Validate`.
  Helper lemmas: `CTM.Lemmas.Validate`.

  Not covered here (checked by the test harness, not provable on the model):
  "validating an h5ad file never modifies it" (a file-system fact) and "same
  cells in the same order with the same annotations" (obs is copied verbatim).
-/
import CTM.Lemmas.Validate

namespace CTM.C16
open CTM.Validate

/-! ### rounding: "every value moved by at most one half to an integer" -/

/-- "every value moved by at most one half to an integer": `np.round` (nearest
integer, ties to even) moves no value by more than one half. -/
theorem round_half (x : Rat) :
    -(1/2) ≤ (roundHalfEven x : Rat) - x ∧ (roundHalfEven x : Rat) - x ≤ 1/2 :=
  CTM.Validate.round_half x

example : roundHalfEven (5/2) = 2 ∧ roundHalfEven (7/2) = 4 ∧ roundHalfEven (-5/2) = -2 ∧
    roundHalfEven (511/2) = 256 ∧ roundHalfEven (-1/2) = 0 ∧ roundHalfEven (7/4) = 2 := by
  decide +kernel

/-- Rounding is monotone: the rounded minimum and maximum bound every rounded
value (this is why the integer type can be chosen from min and max alone). -/
theorem round_mono {x y : Rat} (h : x ≤ y) : roundHalfEven x ≤ roundHalfEven y :=
  CTM.Validate.round_mono h

example : roundHalfEven (5/2) ≤ roundHalfEven (7/2) := round_mono (by norm_num)

/-- A value that already is an integer is not moved at all. -/
theorem round_int (n : Int) : roundHalfEven (n : Rat) = n :=
  CTM.Validate.round_int n

example : roundHalfEven ((-7 : Int) : Rat) = -7 := round_int (-7)

/-- Ties go to the even neighbour (`np.round` semantics). -/
theorem round_tie_even (x : Rat) (h : x - (x.floor : Rat) = 1/2) : roundHalfEven x % 2 = 0 :=
  CTM.Validate.round_tie_even x h

example : roundHalfEven (255 + 1/2) % 2 = 0 :=
  round_tie_even _ (by rw [show (255 + 1/2 : Rat).floor = 255 by decide +kernel]; norm_num)

/-! ### the integer type: "held in an integer type wide enough for all values"

All statements of this section are for the *exact* comparison of the rounded
bounds with the limits of the integer types (`floatBits = none`).  For the
comparison in the floating-point type of the bounds (what the source does for
float32 / float64 input with NumPy ≥ 2) the statement is false: see
`dtype_float_compare_too_narrow`. -/

/-- "an integer type wide enough for all values": when the ladder of integer
types has a rung accepting the rounded minimum and maximum, every value between
minimum and maximum rounds to an integer inside that rung's range. -/
theorem dtype_fits {mn mx v : Rat} {r : Rung}
    (h : Generated.intLadder.find? (rungAccepts none (roundHalfEven mn) (roundHalfEven mx)) = some r)
    (h1 : mn ≤ v) (h2 : v ≤ mx) : castTo r v = some (roundHalfEven v) :=
  find_fits h h1 h2

example : Generated.intLadder.find? (rungAccepts none (roundHalfEven (-3/2)) (roundHalfEven (255 + 1/2)))
    = some ("int16", -32768, 32767) := by decide +kernel

/-- The chosen rung is the first of the ladder that fits: it accepts the
bounds and no earlier rung does. -/
theorem dtype_first {mn mx : Rat} {r : Rung}
    (h : Generated.intLadder.find? (rungAccepts none (roundHalfEven mn) (roundHalfEven mx)) = some r) :
    chooseIntDtype none mn mx = r ∧
    (r.2.1 ≤ roundHalfEven mn ∧ roundHalfEven mx ≤ r.2.2) ∧
    ∃ pre post, Generated.intLadder = pre ++ r :: post ∧
      ∀ q ∈ pre, ¬ (q.2.1 ≤ roundHalfEven mn ∧ roundHalfEven mx ≤ q.2.2) := by
  obtain ⟨hp, pre, post, e, hq⟩ := find_first h
  refine ⟨chooseIntDtype_of_find h, (rungAccepts_none_iff _ _ _).1 hp, pre, post, e, ?_⟩
  intro q hq' hacc
  have := hq q hq'
  rw [(rungAccepts_none_iff _ _ _).2 hacc] at this
  cases this

example : chooseIntDtype none (-3/2) (255 + 1/2) = ("int16", -32768, 32767) := by decide +kernel

/-- A rung exists whenever the rounded bounds fit uint64 or int64 (proved on
the generated ladder: fails to build if these two types leave the ladder). -/
theorem dtype_exists {mn mx : Rat}
    (h : (0 ≤ roundHalfEven mn ∧ roundHalfEven mx ≤ 18446744073709551615) ∨
      (-9223372036854775808 ≤ roundHalfEven mn ∧ roundHalfEven mx ≤ 9223372036854775807)) :
    ∃ r, Generated.intLadder.find?
      (rungAccepts none (roundHalfEven mn) (roundHalfEven mx)) = some r :=
  ladder_exists _ _ h

example : ∃ r, Generated.intLadder.find?
    (rungAccepts none (roundHalfEven 0) (roundHalfEven 18446744073709551615)) = some r :=
  dtype_exists (Or.inl (by decide +kernel))

/-- "values at integer-type boundaries such as 255.5 and 65535.5": 255.5 rounds
to 256 and needs uint16, 254.5 rounds to 254 and stays uint8, 65535.5 needs
uint32, -0.5 rounds to 0 and stays unsigned, -0.51 needs a signed type. -/
theorem dtype_boundaries :
    chooseIntDtype none 0 (255 + 1/2) = ("uint16", 0, 65535) ∧
    chooseIntDtype none 0 (509/2) = ("uint8", 0, 255) ∧
    chooseIntDtype none 0 (65535 + 1/2) = ("uint32", 0, 4294967295) ∧
    chooseIntDtype none (-1/2) 3 = ("uint8", 0, 255) ∧
    chooseIntDtype none (-51/100) 3 = ("int8", -128, 127) ∧
    chooseIntDtype none (-51/100) 128 = ("int16", -32768, 32767) ∧
    chooseIntDtype none 0 4294967296 = ("uint64", 0, 18446744073709551615) ∧
    chooseIntDtype none (-1) 18446744073709551615 =
      ("int64", -9223372036854775808, 9223372036854775807) := by
  decide +kernel

/-- "wide enough for all values": with exact comparison, if some rung accepts
the bounds then every value of a list bounded by `mn` and `mx` fits the chosen
type (no entry is cast out of range). -/
theorem chosen_dtype_holds_all {mn mx : Rat} {r : Rung} {vals : List Rat}
    (h : Generated.intLadder.find? (rungAccepts none (roundHalfEven mn) (roundHalfEven mx)) = some r)
    (hb : ∀ v ∈ vals, mn ≤ v ∧ v ≤ mx) :
    vals.map (castTo (chooseIntDtype none mn mx)) = vals.map (fun v => some (roundHalfEven v)) := by
  rw [chooseIntDtype_of_find h]
  apply List.map_congr_left
  intro v hv
  exact find_fits h (hb v hv).1 (hb v hv).2

example : [1/2, 255 + 1/2, 0].map (castTo (chooseIntDtype none 0 (255 + 1/2))) = [some 0, some 256, some 0] := by
  decide +kernel

/-- "wide enough for all values" holds as well when the bounds are floats but
the source compares them as Python ints (comparison mode `exact`, any stored
float type): the choice is the one made for exact bounds. -/
theorem dtype_fits_mode_exact (fb : Option Nat) {mn mx v : Rat} {r : Rung}
    (h : Generated.intLadder.find?
      (rungAcceptsMode .exact fb (roundHalfEven mn) (roundHalfEven mx)) = some r)
    (h1 : mn ≤ v) (h2 : v ≤ mx) :
    chooseIntDtypeMode .exact fb mn mx = r ∧ castTo r v = some (roundHalfEven v) := by
  rw [rungAcceptsMode_exact] at h
  exact ⟨by rw [chooseIntDtypeMode_exact, chooseIntDtype_of_find h], find_fits h h1 h2⟩

example : chooseIntDtypeMode .exact (some 24) 0 4294967296 = ("uint64", 0, 18446744073709551615) ∧
    castTo ("uint64", 0, 18446744073709551615) 4294967296 = some 4294967296 := by
  decide +kernel

/-- FINDING (the statement "wide enough" is false for the comparison in the
floating-point type of the bounds, mode `native`, which is what the source does
with NumPy ≥ 2): for float32 bounds the limit 4294967295 is seen as
4294967296.0, so uint32 is chosen for a maximum of 2^32, which it cannot hold.
Same for float64 bounds (modes `native` and `float64`) at 2^64 (uint64) and
2^63 (int64). -/
theorem dtype_float_compare_too_narrow :
    (chooseIntDtypeMode .native (some 24) 0 4294967296 = ("uint32", 0, 4294967295) ∧
      castTo ("uint32", 0, 4294967295) 4294967296 = none) ∧
    (chooseIntDtypeMode .native (some 53) 0 18446744073709551616 =
        ("uint64", 0, 18446744073709551615) ∧
      chooseIntDtypeMode .float64 (some 24) 0 18446744073709551616 =
        ("uint64", 0, 18446744073709551615) ∧
      castTo ("uint64", 0, 18446744073709551615) 18446744073709551616 = none) ∧
    (chooseIntDtypeMode .native (some 53) (-5) 9223372036854775808 =
        ("int64", -9223372036854775808, 9223372036854775807) ∧
      chooseIntDtypeMode .float64 (some 53) (-5) 9223372036854775808 =
        ("int64", -9223372036854775808, 9223372036854775807) ∧
      castTo ("int64", -9223372036854775808, 9223372036854775807) 9223372036854775808 = none) := by
  decide +kernel

/-- the function the pipeline uses is the one of the comparison mode read from the source -/
example (fb : Option Nat) (mn mx : Rat) :
    chooseIntDtype fb mn mx = chooseIntDtypeMode sourceMode fb mn mx :=
  chooseIntDtype_eq_mode fb mn mx

/-! ### gene identifiers -/

/-- "the same genes in the same order": the mapped list has one entry per input gene. -/
theorem genes_length {lookup : List (Name × Name)} {placeholder : Nat → Name} {start : Nat}
    {genes : List Name} {o : MapOut} (h : mapGenes lookup placeholder start genes = .ok o) :
    o.mapped.length = genes.length := by
  rw [(mapGenes_ok h).1, List.length_map, renameFrom_length]

example : mapGenes demoLookup demoPlaceholder 2 demoInput.genes =
    .ok ⟨[['E','N','S','G','0','1'], ['E','N','S','G','0','7'], ['u','_','x','x'], ['u','_','x','x','x']], 2, 4⟩ := by
  decide +kernel

/-- "Ensembl identifiers are kept (minus version suffix), known gene symbols are
replaced by their Ensembl identifier, unknown ones by placeholders": entry `i`
of the output is computed from entry `i` of the input (order preserved); the
placeholder counter is the start value plus the number of unknown names before `i`. -/
theorem genes_pointwise {lookup : List (Name × Name)} {placeholder : Nat → Name} {start : Nat}
    {genes : List Name} {o : MapOut} (h : mapGenes lookup placeholder start genes = .ok o)
    (i : Nat) (hi : i < genes.length) :
    o.mapped[i]? = some (stripSuffix (
      if isEnsembl genes[i] then genes[i]
      else match lookup.lookup genes[i] with
        | some e => e
        | none => placeholder (start +
            (genes.take i).countP (fun g => !isEnsembl g && (lookup.lookup g).isNone)))) := by
  rw [(mapGenes_ok h).1, List.getElem?_map, renameFrom_getElem?, List.getElem?_eq_getElem hi]
  rfl

example : demoInput.genes[2]? = some ['x','y'] ∧ isEnsembl ['x','y'] = false ∧
    demoLookup.lookup ['x','y'] = none ∧ stripSuffix (demoPlaceholder (2 + 0)) = ['u','_','x','x'] := by
  decide +kernel

/-- "the number of mapped genes": the reported number of unmapped genes is the
number of unknown names, and the placeholder counter advanced by exactly that. -/
theorem genes_unmapped_count {lookup : List (Name × Name)} {placeholder : Nat → Name} {start : Nat}
    {genes : List Name} {o : MapOut} (h : mapGenes lookup placeholder start genes = .ok o) :
    o.nUnmapped = genes.countP (fun g => !isEnsembl g && (lookup.lookup g).isNone) ∧
    o.ct = start + o.nUnmapped := by
  obtain ⟨_, h2, h3⟩ := mapGenes_ok h
  exact ⟨h2, by rw [h3, h2]⟩

example : demoInput.genes.countP (fun g => !isEnsembl g && (demoLookup.lookup g).isNone) = 2 := by
  decide +kernel

/-- "placeholders unique within the file": if the placeholder names (after the
suffix cut) of different counters differ, two different unknown genes get
different names. -/
theorem placeholders_distinct {lookup : List (Name × Name)} {placeholder : Nat → Name} {start : Nat}
    {genes : List Name} {o : MapOut} (h : mapGenes lookup placeholder start genes = .ok o)
    (hinj : Function.Injective (fun k => stripSuffix (placeholder k)))
    {i j : Nat} (hij : i < j) (hj : j < genes.length)
    (hui : isEnsembl genes[i] = false ∧ lookup.lookup genes[i] = none)
    (huj : isEnsembl genes[j] = false ∧ lookup.lookup genes[j] = none) :
    o.mapped[i]? ≠ o.mapped[j]? := by
  rw [genes_pointwise h i (by omega), genes_pointwise h j hj]
  simp only [hui.1, hui.2, huj.1, huj.2, Bool.false_eq_true, if_false]
  intro e
  have e' := hinj (Option.some.inj e)
  have hlt := countP_take_lt (p := fun g => !isEnsembl g && (lookup.lookup g).isNone)
    hij (Nat.le_of_lt hj)
    ⟨genes[i], List.getElem?_eq_getElem (by omega), by simp [hui.1, hui.2]⟩
  omega

example : Function.Injective (fun k => stripSuffix (demoPlaceholder k)) := demoPlaceholder_injective

/-- "Ensembl identifiers are kept (minus version suffix)": what is kept is still
an Ensembl identifier, and it has no version suffix any more. -/
theorem strip_ensembl {s : Name} (h : isEnsembl s = true) :
    isEnsembl (stripSuffix s) = true ∧ '.' ∉ stripSuffix s :=
  isEnsembl_stripSuffix h

example : isEnsembl ['E','N','S','M','U','S','G','0','1','.','1','2'] = true ∧
    stripSuffix ['E','N','S','M','U','S','G','0','1','.','1','2'] = ['E','N','S','M','U','S','G','0','1'] ∧
    isEnsembl ['E','N','S','0','1'] = false ∧ isEnsembl ['E','N','S','G','0','1','.'] = false := by
  decide +kernel

/-- "Ensembl identifiers are kept (minus version suffix)", in the mapper's output:
at the position of an Ensembl identifier stands that identifier without its
version suffix, whatever the lookup table says. -/
theorem ensembl_kept {lookup : List (Name × Name)} {placeholder : Nat → Name} {start : Nat}
    {genes : List Name} {o : MapOut} (h : mapGenes lookup placeholder start genes = .ok o)
    (i : Nat) (hi : i < genes.length) (he : isEnsembl genes[i] = true) :
    o.mapped[i]? = some (stripSuffix genes[i]) ∧ isEnsembl (stripSuffix genes[i]) = true := by
  rw [genes_pointwise h i hi, if_pos he]
  exact ⟨rfl, (isEnsembl_stripSuffix he).1⟩

example : isEnsembl demoInput.genes[0] = true := by decide +kernel

/-- "known gene symbols are replaced by their Ensembl identifier": at the
position of a name that is not an Ensembl identifier but is in the lookup table
stands the table's entry (minus version suffix). -/
theorem known_symbol_replaced {lookup : List (Name × Name)} {placeholder : Nat → Name} {start : Nat}
    {genes : List Name} {o : MapOut} (h : mapGenes lookup placeholder start genes = .ok o)
    (i : Nat) (hi : i < genes.length) (he : isEnsembl genes[i] = false) {e : Name}
    (hl : lookup.lookup genes[i] = some e) :
    o.mapped[i]? = some (stripSuffix e) := by
  rw [genes_pointwise h i hi, he, hl]
  rfl

example : isEnsembl demoInput.genes[1] = false ∧
    demoLookup.lookup demoInput.genes[1] = some ['E','N','S','G','0','7'] := by decide +kernel

/-! ### what `_validate_h5ad` writes -/

/-- "the same genes in the same order" / identifiers: the `var` index of the
result is exactly the output of the gene mapper (which `genes_pointwise`
describes entry by entry), and it has no repeated name. -/
theorem written_genes {placeholder : Nat → Name} {inp : Input} {plan : Plan}
    (h : validate placeholder inp = .ok plan) :
    (∃ o, mapGenes inp.lookup placeholder inp.start inp.genes = .ok o ∧ plan.genes = o.mapped) ∧
    plan.genes.length = inp.genes.length ∧ plan.genes.Nodup := by
  obtain ⟨_, hg, _, mv, k, mn, mx, hm, _, hd, _, hgen, _⟩ := validate_ok_inv h
  obtain ⟨o, ho, hcase⟩ := mapGeneIdsInVar_ok hm
  have hlen : o.mapped.length = inp.genes.length := by
    rw [(mapGenes_ok ho).1, List.length_map, renameFrom_length]
  rcases hcase with ⟨e, rfl, _⟩ | ⟨_, rfl, _⟩
  · simp only [Option.getD_none] at hgen
    rw [hgen]
    exact ⟨⟨o, ho, e.symm⟩, rfl, (hasDup_false_iff _).1 hg⟩
  · simp only [Option.getD_some] at hgen
    rw [hgen]
    exact ⟨⟨o, ho, rfl⟩, hlen, (hasDup_false_iff _).1 (hd _ rfl)⟩


example : validate demoPlaceholder demoInput = .ok
    { writeNew := true
      genes := [['E','N','S','G','0','1'], ['E','N','S','G','0','7'], ['u','_','x','x'], ['u','_','x','x','x']]
      values := [some 0, some 256, some 0, some 3, some 3, some 0, some 2, some 0]
      dtype := some "uint16"
      mapping := some [(['E','N','S','G','0','1','.','2'], ['E','N','S','G','0','1']),
        (['A','b','c'], ['E','N','S','G','0','7']), (['x','y'], ['u','_','x','x']),
        (['z'], ['u','_','x','x','x'])]
      nMapped := 2, hasWarnings := true } := by decide +kernel

/-- "the applied renaming and the number of mapped genes are recorded in the
file": the recorded renaming is the list of pairs (old name, new name) of the
genes whose name changed, in `var` order, and the recorded number of mapped
genes is the number of genes minus the number of unknown names. -/
theorem renaming_record {placeholder : Nat → Name} {inp : Input} {plan : Plan}
    {m : List (Name × Name)}
    (h : validate placeholder inp = .ok plan) (hm : plan.mapping = some m) :
    m = (inp.genes.zip plan.genes).filter (fun p => p.1 != p.2) ∧
    plan.nMapped = inp.genes.length -
      inp.genes.countP (fun g => !isEnsembl g && (inp.lookup.lookup g).isNone) := by
  obtain ⟨_, _, _, mv, k, mn, mx, hmv, _, _, _, hgen, _, _, hmap, hn⟩ := validate_ok_inv h
  obtain ⟨o, ho, hcase⟩ := mapGeneIdsInVar_ok hmv
  rcases hcase with ⟨_, rfl, _⟩ | ⟨_, rfl, rfl⟩
  · rw [hmap] at hm; cases hm
  · rw [hmap] at hm
    simp only [Option.map_some, Option.some.injEq] at hm
    simp only [Option.getD_some] at hgen
    rw [hgen, hn, (mapGenes_ok ho).2.1]
    exact ⟨hm.symm, rfl⟩


example : (validate demoPlaceholder demoInput).toOption.map (fun p => (p.mapping, p.nMapped)) =
    some (some [(['E','N','S','G','0','1','.','2'], ['E','N','S','G','0','1']),
      (['A','b','c'], ['E','N','S','G','0','7']), (['x','y'], ['u','_','x','x']),
      (['z'], ['u','_','x','x','x'])], 2) := by decide +kernel

/-- The renaming is recorded exactly when some gene name changed. -/
theorem renaming_recorded_iff {placeholder : Nat → Name} {inp : Input} {plan : Plan}
    (h : validate placeholder inp = .ok plan) :
    plan.mapping.isSome = true ↔ plan.genes ≠ inp.genes := by
  obtain ⟨_, _, _, mv, k, mn, mx, hmv, _, _, _, hgen, _, _, hmap, _⟩ := validate_ok_inv h
  obtain ⟨o, ho, hcase⟩ := mapGeneIdsInVar_ok hmv
  rcases hcase with ⟨_, rfl, _⟩ | ⟨hne, rfl, _⟩
  · simp [hmap, hgen]
  · simp [hmap, hgen, hne]


example : (validate demoPlaceholder { demoInput with genes := [['E','N','S','G','0','1'], ['E','N','S','G','0','2']] }).toOption.map
    (fun p => (p.mapping, p.genes)) = some (none, [['E','N','S','G','0','1'], ['E','N','S','G','0','2']]) := by
  decide +kernel

/-- "an X matrix equal to the requested layer ... unchanged otherwise": when
rounding is not requested, or the stored type is an integer type, or all values
are integers already (to within `eps`), the values are written unchanged and no
integer type is imposed. -/
theorem unchanged_when {placeholder : Nat → Name} {inp : Input} {plan : Plan}
    (h : validate placeholder inp = .ok plan)
    (hc : inp.roundToInt = false ∨ inp.intDtype = true ∨
      isIntegersChunked inp.eps inp.storage.readChunks = true) :
    plan.values = inp.storage.values.map some ∧ plan.dtype = none := by
  obtain ⟨_, _, _, mv, k, mn, mx, _, _, _, _, _, hv, hd, _⟩ := validate_ok_inv h
  have hcn : castNeeded inp = false := by
    unfold castNeeded
    rcases hc with hc | hc | hc <;> simp [hc]
  simp only [hcn, Bool.false_eq_true, if_false] at hv hd
  exact ⟨hv, hd⟩


example : (validate demoPlaceholder { demoInput with roundToInt := false }).toOption.map
    (fun p => (p.values, p.dtype)) =
    some ([some (1/2), some (255 + 1/2), some 0, some 3, some 3, some 0, some (7/4), some (-1/2)], none) := by
  decide +kernel

/-- same, because every value is an integer already -/
example : (validate demoPlaceholder
    { demoInput with storage := .sparse [3, 0, 70000, 2] (some 3) }).toOption.map (fun p => (p.values, p.dtype)) =
    some ([some 3, some 0, some 70000, some 2], none) := by
  decide +kernel

/-- "every value moved by at most one half": the new X has one entry per entry
of the requested layer, at the same position, and no written entry differs from
the original by more than one half. -/
theorem moved_at_most_half {placeholder : Nat → Name} {inp : Input} {plan : Plan}
    (h : validate placeholder inp = .ok plan) :
    plan.values.length = inp.storage.values.length ∧
    ∀ (i : Nat) (v w : Rat), inp.storage.values[i]? = some v → plan.values[i]? = some (some w) →
      -(1/2) ≤ w - v ∧ w - v ≤ 1/2 := by
  obtain ⟨_, _, _, mv, k, mn, mx, _, _, _, _, _, hv, _⟩ := validate_ok_inv h
  rw [hv]
  constructor
  · split <;> simp
  · intro i v w hi hw
    split at hw
    · rw [List.getElem?_map, hi] at hw
      simp only [Option.map_some, Option.some.injEq] at hw
      cases hc : castTo (chooseIntDtype inp.floatBits mn mx) v with
      | none => rw [hc] at hw; cases hw
      | some z =>
        rw [hc] at hw
        simp only [Option.map_some, Option.some.injEq] at hw
        subst hw
        have : z = roundHalfEven v := by
          unfold castTo at hc
          simp only [] at hc
          split at hc
          · exact (Option.some.inj hc).symm
          · cases hc
        subst this
        exact CTM.Validate.round_half v
    · rw [List.getElem?_map, hi] at hw
      simp only [Option.map_some, Option.some.injEq] at hw
      subst hw
      norm_num


example : (validate demoPlaceholder demoInput).toOption.map (fun p => p.values) =
    some [some 0, some 256, some 0, some 3, some 3, some 0, some 2, some 0] ∧
    demoInput.storage.values = [1/2, 255 + 1/2, 0, 3, 3, 0, 7/4, -1/2] := by
  decide +kernel

/-- "to an integer held in an integer type": when an integer type `d` is
imposed, it is the name of a rung of the ladder (or the default), every entry
is either the rounded original value - when that lies in the rung's range - or
marked as not representable, and rounding was requested. -/
theorem cast_values {placeholder : Nat → Name} {inp : Input} {plan : Plan} {d : String}
    (h : validate placeholder inp = .ok plan) (hd : plan.dtype = some d) :
    inp.roundToInt = true ∧
    ∃ rung : Rung, (rung ∈ Generated.intLadder ∨ rung = Generated.intLadderDefault) ∧ rung.1 = d ∧
      plan.values = inp.storage.values.map (fun v =>
        if rung.2.1 ≤ roundHalfEven v ∧ roundHalfEven v ≤ rung.2.2
        then some (roundHalfEven v : Rat) else none) := by
  obtain ⟨_, _, _, mv, k, mn, mx, _, _, _, _, _, hv, hdt, _⟩ := validate_ok_inv h
  rw [hdt] at hd
  split at hd
  next hcn =>
    have hr : inp.roundToInt = true := by
      unfold castNeeded at hcn
      simp only [Bool.and_eq_true] at hcn
      exact hcn.1
    refine ⟨hr, chooseIntDtype inp.floatBits mn mx, chooseIntDtype_mem _ _ _, Option.some.inj hd, ?_⟩
    rw [hv, if_pos hcn]
    apply List.map_congr_left
    intro v _
    unfold castTo
    simp only []
    split <;> rfl
  next => cases hd


example : (validate demoPlaceholder demoInput).toOption.map (fun p => p.dtype) = some (some "uint16") := by
  decide +kernel

/-- "held in an integer type wide enough for all values" (exact comparison of
the bounds with the type limits: the stored type is an integer type, or the
source compares Python ints): if the minimum and maximum
that were read bound all values and fit uint64 or int64, every entry of the new
X is the rounded original value - none falls outside the imposed type. -/
theorem wide_enough {placeholder : Nat → Name} {inp : Input} {plan : Plan} {d : String} {mn mx : Rat}
    (h : validate placeholder inp = .ok plan) (hd : plan.dtype = some d)
    (hf : inp.floatBits = none ∨ sourceMode = .exact)
    (hmm : inp.storage.minmax = .ok (some (mn, mx)))
    (hb : ∀ v ∈ inp.storage.values, mn ≤ v ∧ v ≤ mx)
    (hr : (0 ≤ roundHalfEven mn ∧ roundHalfEven mx ≤ 18446744073709551615) ∨
      (-9223372036854775808 ≤ roundHalfEven mn ∧ roundHalfEven mx ≤ 9223372036854775807)) :
    plan.values = inp.storage.values.map (fun v => some (roundHalfEven v : Rat)) := by
  obtain ⟨_, _, _, mv, k, mn', mx', _, hmu, _, _, _, hv, hdt, _⟩ := validate_ok_inv h
  rw [hdt] at hd
  split at hd
  next hcn =>
    have : minmaxUsed inp = inp.storage.minmax := by
      unfold minmaxUsed; simp [hcn]
    rw [this, hmm] at hmu
    cases hmu
    rw [hv, if_pos hcn, chooseIntDtype_exact hf]
    obtain ⟨r, hfind⟩ := ladder_exists _ _ hr
    rw [chooseIntDtype_of_find hfind]
    apply List.map_congr_left
    intro v hvm
    rw [find_fits hfind (hb v hvm).1 (hb v hvm).2]
    rfl
  next => cases hd


example : demoInput.floatBits = none ∧ demoInput.storage.minmax = .ok (some (-1/2, 255 + 1/2)) ∧
    (∀ v ∈ demoInput.storage.values, -1/2 ≤ v ∧ v ≤ 255 + 1/2) ∧
    (0 ≤ roundHalfEven (-1/2) ∧ roundHalfEven (255 + 1/2) ≤ 18446744073709551615) := by
  decide +kernel

/-- "A file needing no change yields no new file": the layer is X itself, all
gene names are Ensembl identifiers without version suffix, and no cast to
integers is needed. -/
theorem no_change_no_file {placeholder : Nat → Name} {inp : Input} {plan : Plan}
    (h : validate placeholder inp = .ok plan) (hx : inp.layerIsX = true)
    (hg : ∀ g ∈ inp.genes, isEnsembl g = true ∧ '.' ∉ g)
    (hc : inp.roundToInt = false ∨ inp.intDtype = true ∨
      isIntegersChunked inp.eps inp.storage.readChunks = true) :
    plan.writeNew = false := by
  obtain ⟨_, _, _, mv, k, mn, mx, hm, _, _, hw, _⟩ := validate_ok_inv h
  have hcn : castNeeded inp = false := by
    unfold castNeeded
    rcases hc with hc | hc | hc <;> simp [hc]
  obtain ⟨o, ho, hcase⟩ := mapGeneIdsInVar_ok hm
  have he : o.mapped = inp.genes := by
    rw [(mapGenes_ok ho).1, renameFrom_all_ensembl _ _ _ (fun g hg' => (hg g hg').1),
      map_stripSuffix_eq_self (fun g hg' => (hg g hg').2)]
  rcases hcase with ⟨_, rfl, _⟩ | ⟨hne, _, _⟩
  · rw [hw, hx, hcn]; rfl
  · exact absurd he hne


example : (validate demoPlaceholder { demoInput with
      roundToInt := false, genes := [['E','N','S','G','0','1'], ['E','N','S','G','0','2']] }).toOption.map
    (fun p => p.writeNew) = some false := by
  decide +kernel

/-- A new file is written exactly when the layer is not X, or some gene name
changes, or the values have to be cast to integers (rounding requested, stored
type not an integer type, and some value not an integer). -/
theorem file_written_when {placeholder : Nat → Name} {inp : Input} {plan : Plan}
    (h : validate placeholder inp = .ok plan) :
    plan.writeNew = true ↔
      (inp.layerIsX = false ∨ plan.genes ≠ inp.genes ∨
        (inp.roundToInt = true ∧ inp.intDtype = false ∧
          isIntegersChunked inp.eps inp.storage.readChunks = false)) := by
  obtain ⟨_, _, _, mv, k, mn, mx, hm, _, _, hw, hgen, _⟩ := validate_ok_inv h
  obtain ⟨o, ho, hcase⟩ := mapGeneIdsInVar_ok hm
  have hcn : castNeeded inp = true ↔ (inp.roundToInt = true ∧ inp.intDtype = false ∧
          isIntegersChunked inp.eps inp.storage.readChunks = false) := by
    unfold castNeeded; simp
  rw [hw, ← hcn, hgen]
  rcases hcase with ⟨_, rfl, _⟩ | ⟨hne, rfl, _⟩
  · simp
  · simp [hne]


example : (validate demoPlaceholder { demoInput with
      roundToInt := false, layerIsX := false,
      genes := [['E','N','S','G','0','1'], ['E','N','S','G','0','2']] }).toOption.map
    (fun p => p.writeNew) = some true := by
  decide +kernel

/-! ### rejections -/

/-- the census `hasDup` finds a repeated name iff there is one -/
theorem hasDup_iff (l : List Name) : hasDup l = true ↔ ¬ l.Nodup :=
  CTM.Validate.hasDup_iff l


example : hasDup [['a'], ['b'], ['a']] = true ∧ hasDup [['a'], ['b'], ['a','b']] = false := by decide

/-- "duplicate cell identifiers, duplicate or empty gene names ... are rejected",
in terms of the census function of the model: a repeated cell identifier stops
the run first, then a repeated or empty gene name. -/
theorem rejects {placeholder : Nat → Name} {inp : Input} :
    (hasDup inp.cellIds = true → validate placeholder inp = .error .dupCellIds) ∧
    (hasDup inp.cellIds = false → (hasDup inp.genes = true ∨ [] ∈ inp.genes) →
      validate placeholder inp = .error .badGeneNames) :=
  ⟨validate_dupCells, validate_badGenes⟩

example : hasDup [['c'], ['d'], ['c']] = true ∧ hasDup demoInput.cellIds = false ∧
    ([] : Name) ∈ [['g'], []] := by decide

/-- "duplicate cell identifiers ... are rejected" -/
theorem rejects_dup_cells {placeholder : Nat → Name} {inp : Input} (h : ¬ inp.cellIds.Nodup) :
    validate placeholder inp = .error .dupCellIds :=
  validate_dupCells ((CTM.Validate.hasDup_iff _).2 h)


example : validate demoPlaceholder { demoInput with cellIds := [['c'], ['d'], ['c']] } = .error .dupCellIds := by
  decide +kernel

/-- "duplicate or empty gene names ... are rejected" -/
theorem rejects_bad_gene_names {placeholder : Nat → Name} {inp : Input} (h0 : inp.cellIds.Nodup)
    (h : ¬ inp.genes.Nodup ∨ [] ∈ inp.genes) :
    validate placeholder inp = .error .badGeneNames :=
  validate_badGenes ((hasDup_false_iff _).2 h0) (h.imp_left (CTM.Validate.hasDup_iff _).2)


example : validate demoPlaceholder { demoInput with genes := [['g'], []] } = .error .badGeneNames ∧
    validate demoPlaceholder { demoInput with genes := [['g'], ['h'], ['g']] } = .error .badGeneNames := by
  decide +kernel

/-- "two genes mapping to one identifier are rejected": cell and gene names
pass the census, the mapper changes `var` and its output has a repeated name;
the run then fails (provided it gets that far: min / max could be read when
they are needed). -/
theorem rejects_two_to_one {placeholder : Nat → Name} {inp : Input} {o : MapOut} {mn mx : Rat}
    (h0 : inp.cellIds.Nodup) (h1 : inp.genes.Nodup) (h2 : [] ∉ inp.genes)
    (hm : mapGenes inp.lookup placeholder inp.start inp.genes = .ok o)
    (hd : ¬ o.mapped.Nodup)
    (hmm : (inp.expectedMax.isSome = true ∨ (inp.roundToInt = true ∧ inp.intDtype = false ∧
          isIntegersChunked inp.eps inp.storage.readChunks = false)) →
        inp.storage.minmax = .ok (some (mn, mx))) :
    validate placeholder inp = .error .dupMapped := by
  have hne : o.mapped ≠ inp.genes := fun e => hd (e ▸ h1)
  have hmv : mapGeneIdsInVar inp.lookup placeholder inp.start inp.genes =
      .ok (some o.mapped, o.nUnmapped) := by
    unfold mapGeneIdsInVar
    rw [hm]
    simp only [hne, if_false]
  by_cases hneed : (inp.expectedMax.isSome || castNeeded inp) = true
  · have : minmaxUsed inp = .ok (some (mn, mx)) := by
      unfold minmaxUsed
      rw [if_pos hneed]
      apply hmm
      simpa [castNeeded] using hneed
    exact validate_dupMapped ((hasDup_false_iff _).2 h0) ((hasDup_false_iff _).2 h1) h2 hmv
      ((CTM.Validate.hasDup_iff _).2 hd) this
  · have : minmaxUsed inp = .ok (some (0, 0)) := by
      unfold minmaxUsed
      rw [if_neg hneed]
    exact validate_dupMapped ((hasDup_false_iff _).2 h0) ((hasDup_false_iff _).2 h1) h2 hmv
      ((CTM.Validate.hasDup_iff _).2 hd) this


/-- a symbol and the identifier it stands for in one file -/
example : validate demoPlaceholder { demoInput with genes := [['E','N','S','G','0','7'], ['A','b','c']] } =
    .error .dupMapped := by
  decide +kernel

/-! ### reading the matrix chunk by chunk -/

/-- The integrality test (`is_x_integers`: does any value differ from its
rounded value by more than `eps`?) read chunk by chunk answers the question for
the whole array: the verdict is `true` iff every value of every chunk is within
`eps` of an integer. -/
theorem is_integers_chunked {eps : Rat} (h0 : 0 ≤ eps) (chunks : List (List Rat)) :
    isIntegersChunked eps chunks = true ↔
      ∀ ch ∈ chunks, ∀ v ∈ ch, absRat ((roundHalfEven v : Rat) - v) ≤ eps :=
  isIntegersChunked_iff h0 chunks

example : isIntegersChunked (1/1000) [[1, 2], [], [3 + 1/2000]] = true ∧
    isIntegersChunked (1/1000) [[1, 2], [5/2]] = false := by decide +kernel

/-- "all three encodings and chunk layouts": the verdict of the integrality test
does not depend on how the values are cut into chunks. -/
theorem is_integers_chunking_irrelevant {eps : Rat} (h0 : 0 ≤ eps) {chunks chunks' : List (List Rat)}
    (h : ∀ v, v ∈ chunks.flatten ↔ v ∈ chunks'.flatten) :
    isIntegersChunked eps chunks = isIntegersChunked eps chunks' := by
  have key : ∀ cs : List (List Rat), isIntegersChunked eps cs = true ↔
      ∀ v ∈ cs.flatten, absRat ((roundHalfEven v : Rat) - v) ≤ eps := by
    intro cs
    rw [isIntegersChunked_iff h0]
    constructor
    · intro hc v hv
      obtain ⟨ch, hch, hvc⟩ := List.mem_flatten.1 hv
      exact hc ch hch v hvc
    · intro hc ch hch v hv
      exact hc v (List.mem_flatten.2 ⟨ch, hch, hv⟩)
  rw [Bool.eq_iff_iff, key, key]
  exact ⟨fun hc v hv => hc v ((h v).2 hv), fun hc v hv => hc v ((h v).1 hv)⟩

example : isIntegersChunked (1/1000) [[1, 5/2], [3]] = isIntegersChunked (1/1000) [[3, 1], [5/2], []] := by
  decide +kernel

/-- "chunked min/max = global" (CSR / CSC, 1-D `data` array): for every chunk
size the minimum and maximum found are elements of the array bounding all of
it; the same when the dataset is contiguous. -/
theorem minmax_chunk {data : List Rat} (hd : data ≠ []) (chunks : Option Nat)
    (hc : ∀ c, chunks = some c → 1 ≤ c) :
    ∃ mn mx, minmaxSparse data chunks = .ok (some (mn, mx)) ∧ mn ∈ data ∧ mx ∈ data ∧
      ∀ v ∈ data, mn ≤ v ∧ v ≤ mx :=
  minmaxSparse_spec hd chunks hc

example : minmaxSparse [3, -1/2, 7, 2, 2, 9, 0] (some 2) = .ok (some (-1/2, 9)) ∧
    minmaxSparse [3, -1/2, 7, 2, 2, 9, 0] none = .ok (some (-1/2, 9)) := by decide +kernel

/-- "chunked min/max = global" (dense, 2-D): for every chunk shape the minimum
and maximum found are entries of the matrix bounding all entries; the same when
the dataset is contiguous. -/
theorem minmax_chunk_dense {m : List (List Rat)} {nCols : Nat} (hm : m ≠ []) (hn : 1 ≤ nCols)
    (hrow : ∀ row ∈ m, row.length = nCols) (chunks : Option (Nat × Nat))
    (hc : ∀ c, chunks = some c → 1 ≤ c.1 ∧ 1 ≤ c.2) :
    ∃ mn mx, minmaxDense m nCols chunks = .ok (some (mn, mx)) ∧
      mn ∈ m.flatten ∧ mx ∈ m.flatten ∧ ∀ v ∈ m.flatten, mn ≤ v ∧ v ≤ mx :=
  minmaxDense_spec hm hn hrow chunks hc

example : minmaxDense [[1, 2, 3], [4, -5, 6], [7, 8, 1/2]] 3 (some (2, 2)) = .ok (some (-5, 8)) ∧
    minmaxDense [[1, 2, 3], [4, -5, 6], [7, 8, 1/2]] 3 none = .ok (some (-5, 8)) := by decide +kernel

/-- "with every value moved by at most one half to an integer held in an integer
type wide enough for all values when rounding is requested" - the complete
statement for `_validate_h5ad`, under exact comparison of the bounds with the
type limits (the stored type is an integer type, or the source compares Python
ints; see `dtype_float_compare_too_narrow` for what happens otherwise): for any
well-formed stored layer whose rounded values all fit uint64 or all fit int64,
whenever an integer type is imposed, every entry of the new X is the rounded
original entry - no entry falls outside the type. -/
theorem cast_holds_all {placeholder : Nat → Name} {inp : Input} {plan : Plan} {d : String}
    (h : validate placeholder inp = .ok plan) (hd : plan.dtype = some d)
    (hf : inp.floatBits = none ∨ sourceMode = .exact)
    (hw : inp.storage.WellFormed)
    (hr : (∀ v ∈ inp.storage.values, 0 ≤ roundHalfEven v ∧ roundHalfEven v ≤ 18446744073709551615) ∨
      (∀ v ∈ inp.storage.values,
        -9223372036854775808 ≤ roundHalfEven v ∧ roundHalfEven v ≤ 9223372036854775807)) :
    plan.values = inp.storage.values.map (fun v => some (roundHalfEven v : Rat)) := by
  by_cases hv : inp.storage.values = []
  · obtain ⟨_, rung, _, _, hpv⟩ := cast_values h hd
    rw [hpv, hv]; rfl
  · obtain ⟨mn, mx, hmm, hmn, hmx, hb⟩ := storage_minmax_spec hw hv
    refine wide_enough h hd hf hmm hb ?_
    rcases hr with hr | hr
    · exact Or.inl ⟨(hr mn hmn).1, (hr mx hmx).2⟩
    · exact Or.inr ⟨(hr mn hmn).1, (hr mx hmx).2⟩

example : demoInput.storage.WellFormed := by
  refine ⟨?_, ?_⟩
  · decide
  · intro c hc; cases hc; decide

/-- "already integral" is a statement about the values, not the chunks: on a
well-formed stored layer the integrality test used by `_validate_h5ad` answers
`true` iff every stored value is within `eps` of an integer. -/
theorem integrality_verdict {eps : Rat} (h0 : 0 ≤ eps) {st : Storage} (hw : st.WellFormed) :
    isIntegersChunked eps st.readChunks = true ↔
      ∀ v ∈ st.values, absRat ((roundHalfEven v : Rat) - v) ≤ eps := by
  rw [isIntegersChunked_iff h0]
  constructor
  · intro hc v hv
    obtain ⟨ch, hch, hvc⟩ := List.mem_flatten.1 ((readChunks_mem hw v).2 hv)
    exact hc ch hch v hvc
  · intro hc ch hch v hv
    exact hc v ((readChunks_mem hw v).1 (List.mem_flatten.2 ⟨ch, hch, hv⟩))

example : isIntegersChunked (1/1000) demoInput.storage.readChunks = false ∧
    isIntegersChunked (1/1000) (Storage.sparse [3, 0, 70000, 2] (some 3)).readChunks = true := by
  decide +kernel

/-- How far the comparison in a floating-point type can go wrong (any comparison
mode, float32 / float64 / integer bounds): the chosen rung contains every
rounded value between the bounds except possibly the single value one above
its upper limit (a power of two that the limit was rounded up to). -/
theorem dtype_float_off_by_one (mode : CompareMode) {fb : Option Nat}
    (hfb : fb = none ∨ fb = some 24 ∨ fb = some 53) {r : Rung} {mn mx v : Rat}
    (h : Generated.intLadder.find?
      (rungAcceptsMode mode fb (roundHalfEven mn) (roundHalfEven mx)) = some r)
    (h1 : mn ≤ v) (h2 : v ≤ mx) :
    castTo r v = (if roundHalfEven v = r.2.2 + 1 then none else some (roundHalfEven v)) ∧
    r.2.1 ≤ roundHalfEven v ∧ roundHalfEven v ≤ r.2.2 + 1 :=
  find_fits_mode mode hfb h h1 h2

example : Generated.intLadder.find? (rungAcceptsMode .native (some 24) (roundHalfEven 0)
    (roundHalfEven 4294967296)) = some ("uint32", 0, 4294967295) := by decide +kernel

/-- The complete statement for `_validate_h5ad` as the source is (any comparison
mode, float32 / float64 / integer data): for a well-formed stored layer whose
rounded values all fit uint64 or all fit int64, whenever an integer type is
imposed it is a rung of the ladder, and every entry of the new X is the rounded
original entry, except the entries whose rounded value is exactly one above the
upper limit of that type, which do not fit. -/
theorem cast_at_most_one_over {placeholder : Nat → Name} {inp : Input} {plan : Plan} {d : String}
    (h : validate placeholder inp = .ok plan) (hd : plan.dtype = some d)
    (hfb : inp.floatBits = none ∨ inp.floatBits = some 24 ∨ inp.floatBits = some 53)
    (hw : inp.storage.WellFormed)
    (hr : (∀ v ∈ inp.storage.values, 0 ≤ roundHalfEven v ∧ roundHalfEven v ≤ 18446744073709551615) ∨
      (∀ v ∈ inp.storage.values,
        -9223372036854775808 ≤ roundHalfEven v ∧ roundHalfEven v ≤ 9223372036854775807)) :
    ∃ rung ∈ Generated.intLadder, rung.1 = d ∧
      plan.values = inp.storage.values.map (fun v =>
        if roundHalfEven v = rung.2.2 + 1 then none else some (roundHalfEven v : Rat)) := by
  obtain ⟨_, _, _, mv, k, mn, mx, _, hmu, _, _, _, hpv, hdt, _⟩ := validate_ok_inv h
  rw [hdt] at hd
  split at hd
  next hcn =>
    have hmm : inp.storage.minmax = .ok (some (mn, mx)) := by
      rw [← hmu]; unfold minmaxUsed; simp [hcn]
    obtain ⟨hb, hrg⟩ := storage_minmax_range hw hmm
    have hrange : (0 ≤ roundHalfEven mn ∧ roundHalfEven mx ≤ 18446744073709551615) ∨
        (-9223372036854775808 ≤ roundHalfEven mn ∧ roundHalfEven mx ≤ 9223372036854775807) := by
      rcases hr with hr | hr
      · exact Or.inl (hrg _ _ (by omega) (by omega) hr)
      · exact Or.inr (hrg _ _ (by omega) (by omega) hr)
    obtain ⟨r, hfind⟩ := ladder_exists_mode sourceMode hfb _ _ hrange
    have hch : chooseIntDtype inp.floatBits mn mx = r := by
      rw [chooseIntDtype_eq_mode]; unfold chooseIntDtypeMode; rw [hfind]
    refine ⟨r, List.mem_of_find?_eq_some hfind, ?_, ?_⟩
    · rw [← hch]; exact Option.some.inj hd
    · rw [hpv, if_pos hcn, hch]
      apply List.map_congr_left
      intro v hvm
      rw [(find_fits_mode sourceMode hfb hfind (hb v hvm).1 (hb v hvm).2).1]
      split <;> rfl
  next => cases hd

/-- float32 data with maximum 2^32 under the comparison in float32: uint32 is
imposed and the maximum does not fit (the one entry that is lost) -/
example : chooseIntDtypeMode .native (some 24) (1/2) 4294967296 = ("uint32", 0, 4294967295) ∧
    [1/2, 4294967296, 7].map (fun v => (castTo ("uint32", 0, 4294967295) v).map (fun i : Int => (i : Rat))) =
      [some 0, none, some 7] := by
  decide +kernel

/-! ### the implicit zeros of a sparse matrix -/

/-- "an integer type wide enough for all values" - including the values the
min / max of a CSR / CSC matrix never sees: every rung of the ladder, and the
default type, contains 0, so the implicit zeros fit whatever type is chosen
(any comparison mode, any bounds). -/
theorem sparse_zeros_fit :
    (∀ r ∈ Generated.intLadder, r.2.1 ≤ 0 ∧ 0 ≤ r.2.2) ∧
    (Generated.intLadderDefault.2.1 ≤ 0 ∧ 0 ≤ Generated.intLadderDefault.2.2) ∧
    ∀ (mode : CompareMode) (fb : Option Nat) (mn mx : Rat),
      castTo (chooseIntDtypeMode mode fb mn mx) 0 = some 0 ∧
      castTo (chooseIntDtype fb mn mx) 0 = some 0 := by
  obtain ⟨h1, h2⟩ := ladder_contains_zero
  have h1' : ∀ r ∈ Generated.intLadder, r.2.1 ≤ 0 ∧ 0 ≤ r.2.2 := by
    intro r hr
    have := List.all_eq_true.1 h1 r hr
    simpa using this
  have key : ∀ (mode : CompareMode) (fb : Option Nat) (mn mx : Rat),
      castTo (chooseIntDtypeMode mode fb mn mx) 0 = some 0 := by
    intro mode fb mn mx
    apply castTo_zero
    rcases chooseIntDtypeMode_mem mode fb mn mx with h | h
    · exact h1' _ h
    · rw [h]; exact h2
  refine ⟨h1', h2, fun mode fb mn mx => ⟨key mode fb mn mx, ?_⟩⟩
  rw [chooseIntDtype_eq_mode]
  exact key _ _ _ _

example : minmaxSparse [3, 7, 5] (some 2) = .ok (some (3, 7)) ∧
    castTo (chooseIntDtypeMode .exact none 3 7) 0 = some 0 := by decide +kernel

/-! ### every rejection -/

/-- The one refusal of the gene mapper (not mentioned in the property text):
`map_gene_identifiers` fails - "Could not map any of your genes" - exactly when
there is at least one gene and every gene is unknown (neither an Ensembl
identifier nor a known symbol); it has no other way to fail. -/
theorem mapGenes_all_unknown_rejected (lookup : List (Name × Name)) (placeholder : Nat → Name)
    (start : Nat) (genes : List Name) (e : VErr) :
    mapGenes lookup placeholder start genes = .error e ↔
      e = .allUnmappable ∧ genes ≠ [] ∧
        ∀ g ∈ genes, isEnsembl g = false ∧ lookup.lookup g = none := by
  rw [mapGenes_error_iff]
  simp only [isUnknown, Bool.and_eq_true, Bool.not_eq_true', Option.isNone_iff_eq_none]

example : mapGenes demoLookup demoPlaceholder 0 [['x'], ['y','z']] = .error .allUnmappable ∧
    (mapGenes demoLookup demoPlaceholder 0 [['x'], ['A','b','c']]).toOption.map (·.mapped) =
      some [['u','_'], ['E','N','S','G','0','7']] := by decide +kernel

/-- In all other cases the mapper succeeds. -/
theorem mapGenes_ok_iff (lookup : List (Name × Name)) (placeholder : Nat → Name)
    (start : Nat) (genes : List Name) :
    (∃ o, mapGenes lookup placeholder start genes = .ok o) ↔
      (genes = [] ∨ ∃ g ∈ genes, isEnsembl g = true ∨ (lookup.lookup g).isSome = true) := by
  constructor
  · rintro ⟨o, ho⟩
    by_cases hne : genes = []
    · exact Or.inl hne
    · right
      by_contra hno
      have hall : ∀ g ∈ genes, isEnsembl g = false ∧ lookup.lookup g = none := by
        intro g hg
        constructor
        · cases h : isEnsembl g
          · rfl
          · exact absurd ⟨g, hg, Or.inl h⟩ hno
        · cases h : lookup.lookup g
          · rfl
          · exact absurd ⟨g, hg, Or.inr (by rw [h]; rfl)⟩ hno
      have := (mapGenes_all_unknown_rejected lookup placeholder start genes .allUnmappable).2
        ⟨rfl, hne, hall⟩
      rw [ho] at this; cases this
  · intro h
    cases hm : mapGenes lookup placeholder start genes with
    | ok o => exact ⟨o, rfl⟩
    | error e =>
      exfalso
      obtain ⟨_, hne, hall⟩ := (mapGenes_all_unknown_rejected _ _ _ _ _).1 hm
      rcases h with h | ⟨g, hg, h⟩
      · exact hne h
      · obtain ⟨h1, h2⟩ := hall g hg
        rcases h with h | h
        · rw [h1] at h; cases h
        · rw [h2] at h; cases h

example : ∃ g ∈ demoInput.genes, isEnsembl g = true ∨ (demoLookup.lookup g).isSome = true :=
  ⟨_, List.mem_cons_self, Or.inl (by decide +kernel)⟩

/-- "duplicate cell identifiers, duplicate or empty gene names, and two genes
mapping to one identifier are rejected" - and nothing else, except genes that
are all unknown and a matrix without entries: the complete list of the ways
`_validate_h5ad` fails, in the order of the source, each with its exact
condition (`minmaxUsed` is the min / max read when an expected maximum is given
or a cast to integers is needed, `(0, 0)` otherwise). -/
theorem validate_error_cases (placeholder : Nat → Name) (inp : Input) (e : VErr) :
    validate placeholder inp = .error e ↔
      (e = .dupCellIds ∧ hasDup inp.cellIds = true) ∨
      (e = .badGeneNames ∧ hasDup inp.cellIds = false ∧
        (hasDup inp.genes = true ∨ [] ∈ inp.genes)) ∨
      (e = .allUnmappable ∧ hasDup inp.cellIds = false ∧ hasDup inp.genes = false ∧
        [] ∉ inp.genes ∧ inp.genes ≠ [] ∧
        ∀ g ∈ inp.genes, isEnsembl g = false ∧ inp.lookup.lookup g = none) ∨
      (e = .emptyMatrix ∧ hasDup inp.cellIds = false ∧ hasDup inp.genes = false ∧
        [] ∉ inp.genes ∧
        (∃ mv k, mapGeneIdsInVar inp.lookup placeholder inp.start inp.genes = .ok (mv, k)) ∧
        (minmaxUsed inp = .error .emptyMatrix ∨ minmaxUsed inp = .ok none)) ∨
      (e = .dupMapped ∧ hasDup inp.cellIds = false ∧ hasDup inp.genes = false ∧
        [] ∉ inp.genes ∧ ∃ m k mn mx,
          mapGeneIdsInVar inp.lookup placeholder inp.start inp.genes = .ok (some m, k) ∧
          minmaxUsed inp = .ok (some (mn, mx)) ∧ hasDup m = true) := by
  rw [validate_error_iff]
  simp only [isUnknown, Bool.and_eq_true, Bool.not_eq_true', Option.isNone_iff_eq_none]

example : validate demoPlaceholder { demoInput with genes := [['x'], ['y']] } = .error .allUnmappable ∧
    validate demoPlaceholder
      { demoInput with storage := .dense [] 4 (some (1, 3)), expectedMax := some 10 } = .error .emptyMatrix ∧
    (validate demoPlaceholder
      { demoInput with storage := .sparse [] none, expectedMax := some 10 }).toOption.map (·.dtype) =
      some none := by
  decide +kernel

/-! ### the real spelling of placeholder names -/

/-- "placeholders unique within the file", for the names as the source spells
them, `f"unmapped_{k}_{stamp}"`: different counters give different names, also
after the version-suffix cut `n.split('.')[0]` - for ANY time stamps (they may
differ from call to call, contain dots, digits or underscores: the decimal
counter is delimited by the underscore that follows it, and the cut cannot
reach it).  The driver's `placeholderT` is the case `stamp = fun _ => "T"`
(`realPlaceholder_T`). -/
theorem placeholder_spelling_injective (stamp : Nat → String) :
    Function.Injective
      (fun k => stripSuffix (("unmapped_" ++ toString k ++ "_" ++ stamp k).toList)) :=
  realPlaceholder_injective stamp

example : stripSuffix (("unmapped_" ++ toString 12 ++ "_" ++ "1700000000.25").toList) =
      "unmapped_12_1700000000".toList ∧
    stripSuffix (("unmapped_" ++ toString 1 ++ "_" ++ "2_1700000000.25").toList) =
      "unmapped_1_2_1700000000".toList := by decide +kernel

/-- "unknown ones by placeholders unique within the file", without any
assumption on the placeholder names: with the real spelling, two different
unknown genes of one file get different names. -/
theorem placeholders_distinct_real {lookup : List (Name × Name)} (stamp : Nat → String) {start : Nat}
    {genes : List Name} {o : MapOut}
    (h : mapGenes lookup (fun k => ("unmapped_" ++ toString k ++ "_" ++ stamp k).toList) start genes
      = .ok o)
    {i j : Nat} (hij : i < j) (hj : j < genes.length)
    (hui : isEnsembl genes[i] = false ∧ lookup.lookup genes[i] = none)
    (huj : isEnsembl genes[j] = false ∧ lookup.lookup genes[j] = none) :
    o.mapped[i]? ≠ o.mapped[j]? :=
  placeholders_distinct h (placeholder_spelling_injective stamp) hij hj hui huj

example : (mapGenes demoLookup (fun k => ("unmapped_" ++ toString k ++ "_" ++ "T").toList) 9
    [['x'], ['A','b','c'], ['y']]).toOption.map (·.mapped) =
    some ["unmapped_9_T".toList, ['E','N','S','G','0','7'], "unmapped_10_T".toList] := by
  decide +kernel

end CTM.C16
