import CTM.Model.LevelLoop
namespace CTM.C06
theorem placeholder_true : True := trivial
end CTM.C06
