/-
  C06 — a cell's mapping depends only on its own expression vector.

  With bootstrap factor 1 every iteration uses all markers: the only
  duplicate-free subset of size n of n markers is everything, so the RNG drops
  out and the vote for a cell under a parent is a function of (parent, what
  the tree says about the parent's children, the cell's expression vector).
  That is exactly the type of the model's oracle (`Oracle κ`, κ = the vector);
  the theorems below hold for EVERY such oracle (the per-row nature of CPM
  normalisation and of the correlation arg-max, i.e. that the real vote IS such
  a function, is group C_election's part and is checked on the implementation
  by the paired runs of `harness/props/c06.py`).
-/
import CTM.Lemmas.LevelLoop
import CTM.Lemmas.LevelLoopElection

namespace CTM.C06
open CTM CTM.LevelLoop

/-- "cells selected per parent by stored row index and written back by the
same index": row `i` of the batch result of `run_type_assignment` is what the
loop returns for that cell alone. -/
theorem rowwise {κ} (t : RawTree) (vote : Oracle κ) (cells : List κ)
    (hwf : wfb t = true) (hv : VoteOK t vote)
    (rs : List (List (Level × Entry))) (h : runLevelLoop t vote cells = .ok rs)
    (i : Nat) (c : κ) (hc : cells[i]? = some c) :
    ∃ r, rs[i]? = some r ∧ runLevelLoop t vote [c] = .ok [r] := by
  rw [runLevelLoop_eq_mapM_walk t vote cells hwf hv] at h
  obtain ⟨r, hr, hw⟩ := mapM_getElem _ cells rs h i c hc
  refine ⟨r, hr, ?_⟩
  rw [runLevelLoop_eq_mapM_walk t vote [c] hwf hv]
  simp only [List.mapM_cons, List.mapM_nil, hw]
  rfl

example : ∀ rs, runLevelLoop exTree exVote [4, 1, 3] = .ok rs →
    ∃ r, rs[1]? = some r ∧ runLevelLoop exTree exVote [1] = .ok [r] :=
  fun rs h => rowwise _ _ _ exTree_wf (exVote_ok _) rs h 1 1 rfl

/-- (test, not a theorem) the three cells of the example really take different paths -/
example : (runLevelLoop exTree exVote [4, 1, 3]).toOption.map (·.map assignments) =
    some [[(0, 10), (1, 21), (2, 31)], [(0, 10), (1, 20), (2, 30)], [(0, 10), (1, 20), (2, 30)]] := by
  decide

/-- "the result for a cell ... is unchanged by reordering the cells of the
query file, by removing, adding or duplicating other cells, and by changing
chunk size or worker count": take two runs on the same reference (stored tree
`t0`, same tree `t` of the run) with ANY two queries, chunk sizes, worker
counts and gathering orders; wherever the same cell (same id, same expression
vector) occurs in both, it gets the same record.  (A permutation, a sub- or
super-set, a query with duplicated rows under fresh ids are all instances.) -/
theorem company_independent {κ} (t0 t : RawTree) (vote : Oracle κ)
    (cfg cfg' : Config) (ids ids' : List CellId) (cells cells' : List κ) (order order' : List Nat)
    (hrun : runTree t0 cfg = .ok t) (hrun' : runTree t0 cfg' = .ok t)
    (hwf : wfb t = true) (hv : VoteOK t vote)
    (hlen : ids.length = cells.length) (hlen' : ids'.length = cells'.length)
    (hnd : ids.Nodup) (hnd' : ids'.Nodup)
    (hproc : 1 ≤ cfg.nProc) (hproc' : 1 ≤ cfg'.nProc)
    (hcs : 1 ≤ cfg.chunkSize) (hcs' : 1 ≤ cfg'.chunkSize)
    (horder : order.Perm (List.range
      (chunks cells.length (effChunk cells.length cfg.nProc cfg.chunkSize)).length))
    (horder' : order'.Perm (List.range
      (chunks cells'.length (effChunk cells'.length cfg'.nProc cfg'.chunkSize)).length))
    (out out' : List Record)
    (hout : mapPipeline t0 cfg vote ids cells order = .ok out)
    (hout' : mapPipeline t0 cfg' vote ids' cells' order' = .ok out')
    (i j : Nat) (id : CellId) (c : κ)
    (hid : ids[i]? = some id) (hc : cells[i]? = some c)
    (hid' : ids'[j]? = some id) (hc' : cells'[j]? = some c) :
    ∃ o, out[i]? = some o ∧ out'[j]? = some o := by
  obtain ⟨o, ho, hr⟩ := mapPipeline_getElem t0 t cfg vote ids cells order hrun hwf hv hlen hnd
    hproc hcs horder out hout i id c hid hc
  obtain ⟨o', ho', hr'⟩ := mapPipeline_getElem t0 t cfg' vote ids' cells' order' hrun' hwf hv hlen'
    hnd' hproc' hcs' horder' out' hout' j id c hid' hc'
  rw [hr] at hr'
  cases hr'
  exact ⟨o, ho, ho'⟩

example : ∀ out out',
    mapPipeline exTree { chunkSize := 2, nProc := 2 } exVote [7, 3, 9] [0, 1, 2] [1, 0] = .ok out →
    mapPipeline exTree { chunkSize := 1, nProc := 1 } exVote [9, 5] [2, 0] [0, 1] = .ok out' →
    ∃ o, out[2]? = some o ∧ out'[0]? = some o :=
  fun out out' h h' => company_independent exTree exTree exVote { chunkSize := 2, nProc := 2 }
    { chunkSize := 1, nProc := 1 } [7, 3, 9] [9, 5] [0, 1, 2] [2, 0] [1, 0] [0, 1] rfl rfl exTree_wf
    (exVote_ok _) rfl rfl (by decide) (by decide) (by decide) (by decide) (by decide) (by decide)
    (by decide) (by decide) out out' h h' 2 0 9 2 rfl rfl rfl rfl

/-- "... and by changing chunk size or worker count": the same query mapped
with any two chunk sizes >= 1, worker counts >= 1 and gathering orders gives
the same output list. -/
theorem chunking {κ} (t0 t : RawTree) (vote : Oracle κ)
    (cfg cfg' : Config) (ids : List CellId) (cells : List κ) (order order' : List Nat)
    (hrun : runTree t0 cfg = .ok t) (hrun' : runTree t0 cfg' = .ok t)
    (hwf : wfb t = true) (hv : VoteOK t vote)
    (hlen : ids.length = cells.length) (hnd : ids.Nodup)
    (hproc : 1 ≤ cfg.nProc) (hproc' : 1 ≤ cfg'.nProc)
    (hcs : 1 ≤ cfg.chunkSize) (hcs' : 1 ≤ cfg'.chunkSize)
    (horder : order.Perm (List.range
      (chunks cells.length (effChunk cells.length cfg.nProc cfg.chunkSize)).length))
    (horder' : order'.Perm (List.range
      (chunks cells.length (effChunk cells.length cfg'.nProc cfg'.chunkSize)).length)) :
    mapPipeline t0 cfg vote ids cells order = mapPipeline t0 cfg' vote ids cells order' := by
  rw [mapPipeline_spec t0 t cfg vote ids cells order hrun hwf hv hlen hnd hproc hcs horder,
    mapPipeline_spec t0 t cfg' vote ids cells order' hrun' hwf hv hlen hnd hproc' hcs' horder']

example : mapPipeline exTree { chunkSize := 2, nProc := 2 } exVote [7, 3, 9] [0, 1, 2] [1, 0] =
    mapPipeline exTree { chunkSize := 5, nProc := 1 } exVote [7, 3, 9] [0, 1, 2] [0] :=
  chunking exTree exTree exVote _ _ _ _ _ _ rfl rfl exTree_wf (exVote_ok _) rfl (by decide)
    (by decide) (by decide) (by decide) (by decide) (by decide) (by decide)

/-- "Cells with identical expression vectors therefore receive identical
results": two rows of a query with the same vector get the same per-level
dicts (everything but the cell id). -/
theorem identical_cells {κ} (t0 t : RawTree) (vote : Oracle κ) (cfg : Config)
    (ids : List CellId) (cells : List κ) (order : List Nat)
    (hrun : runTree t0 cfg = .ok t) (hwf : wfb t = true) (hv : VoteOK t vote)
    (hlen : ids.length = cells.length) (hnd : ids.Nodup)
    (hproc : 1 ≤ cfg.nProc) (hcs : 1 ≤ cfg.chunkSize)
    (horder : order.Perm (List.range
      (chunks cells.length (effChunk cells.length cfg.nProc cfg.chunkSize)).length))
    (out : List Record) (hout : mapPipeline t0 cfg vote ids cells order = .ok out)
    (i j : Nat) (idi idj : CellId) (c : κ)
    (hidi : ids[i]? = some idi) (hidj : ids[j]? = some idj)
    (hci : cells[i]? = some c) (hcj : cells[j]? = some c) :
    ∃ oi oj, out[i]? = some oi ∧ out[j]? = some oj ∧ oi.levels = oj.levels := by
  obtain ⟨oi, hoi, hri⟩ := mapPipeline_getElem t0 t cfg vote ids cells order hrun hwf hv hlen hnd
    hproc hcs horder out hout i idi c hidi hci
  obtain ⟨oj, hoj, hrj⟩ := mapPipeline_getElem t0 t cfg vote ids cells order hrun hwf hv hlen hnd
    hproc hcs horder out hout j idj c hidj hcj
  refine ⟨oi, oj, hoi, hoj, ?_⟩
  have hrec : markDirect t.hierarchy (mkRecord t vote idi c) =
      { markDirect t.hierarchy (mkRecord t vote idj c) with cellId := idi } := rfl
  unfold cellResult at hri hrj
  rw [hrec, backfillPairs_setId, hrj] at hri
  simp only [Except.map] at hri
  cases hri
  rfl

example : ∀ out,
    mapPipeline exTree { chunkSize := 2, nProc := 2 } exVote [7, 3, 9] [5, 1, 5] [1, 0] = .ok out →
    ∃ oi oj, out[0]? = some oi ∧ out[2]? = some oj ∧ oi.levels = oj.levels :=
  fun out h => identical_cells exTree exTree exVote { chunkSize := 2, nProc := 2 } [7, 3, 9]
    [5, 1, 5] [1, 0] rfl exTree_wf (exVote_ok _) rfl
    (by decide) (by decide) (by decide) (by decide) out h 0 2 7 9 5 rfl rfl rfl rfl

/-! ### "when every bootstrap iteration uses all marker genes (bootstrap factor 1)"

Group C_election's model of `tally_votes` (`Election.tallyVotes`) takes the
drawn subsets as a parameter; a drawn subset is accepted by `Numeric.subsetOk`
(sorted, duplicate-free because of `replace=False`, inside `[0, n)`, of the
bootstrap size).  The theorems below discharge the hypothesis the C06 theorems
put on the oracle (a function of parent, children and the cell's vector, no
RNG): at factor 1 the RNG cannot influence the tally. -/

/-- with factor 1 every `rng.choice(marker_idx, n_bootstrap, replace=False)`
draws `n` of the `n` markers (the float product `1.0 * n` is `n` exactly) -/
theorem factor_one_draw_size (n : Nat) (hn : 0 < n) : Numeric.drawSize (n : Rat) n = .ok n :=
  drawSize_factor_one n hn

example : Numeric.drawSize ((7 : Nat) : Rat) 7 = .ok 7 := factor_one_draw_size 7 (by decide)

/-- "the subset is forced": the only sorted duplicate-free subset of size `n`
of the `n` marker indices is `0, 1, …, n-1` — all of them -/
theorem full_subset_unique (n : Nat) (s : List Nat) (h : Numeric.subsetOk n n s = true) :
    s = List.range n :=
  LevelLoop.full_subset_unique n s h

example : Numeric.subsetOk 4 4 [0, 1, 2, 3] = true := by decide

/-- hence the tally of a cell (`tally_votes`: votes and correlation sums per
reference leaf) is the same for ANY two sequences of legitimately drawn
subsets with the same number of iterations: at factor 1 the vote under a
parent is a function of the reference profiles of that parent's leaves and the
cell's own vector only — the RNG drops out. -/
theorem factor_one_rng_free (refs : List (List Rat)) (x : List Rat) (corrOf : Nat → Nat → Rat)
    (n : Nat) (subsets subsets' : List (List Nat))
    (h : ∀ s ∈ subsets, Numeric.subsetOk n n s = true)
    (h' : ∀ s ∈ subsets', Numeric.subsetOk n n s = true)
    (hlen : subsets.length = subsets'.length) :
    Election.tallyVotes refs x subsets corrOf = Election.tallyVotes refs x subsets' corrOf := by
  have e1 : subsets = List.replicate subsets.length (List.range n) :=
    List.eq_replicate_iff.mpr ⟨rfl, fun s hs => LevelLoop.full_subset_unique n s (h s hs)⟩
  have e2 : subsets' = List.replicate subsets'.length (List.range n) :=
    List.eq_replicate_iff.mpr ⟨rfl, fun s hs => LevelLoop.full_subset_unique n s (h' s hs)⟩
  rw [e1, e2, hlen]

example : Election.tallyVotes [[1, 2, 3], [3, 1, 2]] [1, 5, 2] [[0, 1, 2], [0, 1, 2]] (fun _ _ => 1) =
    Election.tallyVotes [[1, 2, 3], [3, 1, 2]] [1, 5, 2] (List.replicate 2 (List.range 3)) (fun _ _ => 1) :=
  factor_one_rng_free _ _ _ 3 _ _ (by decide) (by decide) rfl

end CTM.C06
