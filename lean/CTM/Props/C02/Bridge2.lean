/-
  C02 × C01 × C10 — the composed model (`Props/C02/Compose.lean`) with the tree
  validator's acceptance as the only hypothesis on the taxonomy.

  `pipeline_recompute` takes `wfb t0` (level loop's well-formedness of the
  stored tree) and `NoRaiseAll P t` for the tree `t` of the run.  Both follow
  from `t0.validate = .ok ()` (+ the modelling convention `DictOK t0`): `wfb t0`
  by `Bridge.wfb_of_validate`; the run tree (any `drop_level` / `flatten`) is
  accepted again (`Bridge.WF_runTree`), so `NoRaiseAll` reduces to the three
  conditions on the parameters (`C02.no_raise_of_validate`, whose `hierarchy.Nodup`
  hypothesis is now a consequence of acceptance).
-/
import CTM.Props.C02.Compose

namespace CTM.C02
open CTM CTM.LevelLoop CTM.OutBridge CTM.Election CTM.Numeric CTM.Compose CTM.Bridge

/-- `no_raise_of_validate` without `hierarchy.Nodup` (a consequence of acceptance
since `fix:` 799c7a6): on a taxonomy the validator accepts, "considering only
leaves below the node" is never an empty set, so no Python `raise` on the
questions asked is a statement about the parameters only. -/
theorem no_raise_of_accept (P : ElectionParams) {t : RawTree} (hv : t.validate = .ok ())
    (hiters : ∀ p x, P.subsets p x ≠ [])
    (hrange : ∀ p x, ∀ s ∈ P.subsets p x, ∀ i ∈ s,
      i < (P.qcols p).length ∧ i < (P.rcols p).length)
    (hA : 1 ≤ P.nAssign) : NoRaiseAll P t :=
  no_raise_of_validate P hv (RawTree.hierarchy_nodup_of_validate hv) hiters hrange hA

example : NoRaiseAll exP exTree :=
  no_raise_of_accept exP (by decide) (fun _ _ => by simp [exP])
    (by
      intro p x s hs i hi
      simp only [exP, List.mem_cons, List.not_mem_nil, or_false] at hs
      rcases hs with rfl | rfl <;> simp at hi <;> simp [exP] <;> omega)
    (by simp [exP])

/-- "Recomputing these quantities directly from the input files and the subsets
that were drawn reproduces the output" — for the WHOLE pipeline, with the
validator's acceptance of the STORED taxonomy as the only tree hypothesis: any
`drop_level` / `flatten` whose run tree `t` exists, any chunk size, worker count
and gather order, any drawn subsets (non-empty list of iterations, indices into
the node's gene list) and tie orders. -/
theorem pipeline_recompute_of_validate (t0 t : RawTree) (cfg : Config) (P : ElectionParams)
    (ids : List CellId) (cells : List (List Rat)) (order : List Nat)
    (hval : t0.validate = .ok ()) (hd : RawTree.DictOK t0) (hrun : runTree t0 cfg = .ok t)
    (htie : TieOK P)
    (hiters : ∀ p x, P.subsets p x ≠ [])
    (hrange : ∀ p x, ∀ s ∈ P.subsets p x, ∀ i ∈ s,
      i < (P.qcols p).length ∧ i < (P.rcols p).length)
    (hA : 1 ≤ P.nAssign)
    (hlen : ids.length = cells.length) (hnd : ids.Nodup)
    (hproc : 1 ≤ cfg.nProc) (hcs : 1 ≤ cfg.chunkSize)
    (horder : order.Perm (List.range
      (chunks cells.length (effChunk cells.length cfg.nProc cfg.chunkSize)).length))
    (out : List Record)
    (hout : mapPipeline t0 cfg (electionVote P) ids cells order = .ok out) :
    ∀ o ∈ out, ∃ (i : Nat) (id : CellId) (c : List Rat) (raw : List (Level × Entry)),
      ids[i]? = some id ∧ cells[i]? = some c ∧ o.cellId = id ∧
      walkFrom t (electionVote P) c t.hierarchy none = .ok raw ∧
      raw.map (·.1) = t.hierarchy ∧
      Linked (StepOK P t c) none raw ∧
      ∀ (k : Nat) (hk : k < raw.length), ∃ e, o.levels.lookup raw[k].1 = some e ∧
        e.assignment = raw[k].2.assignment ∧ e.prob = raw[k].2.prob ∧
        (raw[k].2.ru.isSome = true → e.ru = raw[k].2.ru) ∧
        (∀ q, raw[k].2.corr = some q → e.corr = some q) ∧
        e.agg.getD 0 = ((raw.map (fun le => le.2.prob)).take (k + 1)).prod ∧
        e.direct.getD false = true :=
  pipeline_recompute t0 t cfg P ids cells order (wfb_of_validate hval hd) hrun htie
    (no_raise_of_accept P (WF_runTree (RawTree.WF.of_validate hval hd) hrun).valid hiters hrange hA)
    hlen hnd hproc hcs horder out hout

/-- non-vacuity: the example taxonomy (accepted by the validator), the
parameters `exP`, two cells, two workers, chunks gathered in reverse order -/
example := pipeline_recompute_of_validate exTree exTree { chunkSize := 1, nProc := 2 } exP [7, 3]
  [[2, 4, 1], [2, 9, 2]] [1, 0] (by decide) (RawTree.dictOK_of_b (by decide)) rfl exP_tie
  (fun _ _ => by simp [exP])
  (by
    intro p x s hs i hi
    simp only [exP, List.mem_cons, List.not_mem_nil, or_false] at hs
    rcases hs with rfl | rfl <;> simp at hi <;> simp [exP] <;> omega)
  (by simp [exP]) rfl (by decide) (by decide) (by decide) (by decide) _
  (mapPipeline_plain_ok exTree { chunkSize := 1, nProc := 2 } (electionVote exP) [7, 3]
    [[2, 4, 1], [2, 9, 2]] [1, 0] rfl rfl exTree_wf (electionVote_ok exTree exP exP_tie).1 rfl
    (by decide) (by decide) (by decide) (by decide))

end CTM.C02
