/-
  C02, files in — records out.  The composed model (`mapPipeline` with the
  interpreted oracle) instantiated at FILE level: the node's gene columns come
  from group E's marker cache (`Markers.createCache`, theorem `C08.spec`), the
  reference rows from group F's reading of the statistics file
  (`StageFiles.leafMeanRow`, `meanByName`).  See design_notes/end_to_end.md.
-/
import CTM.Lemmas.EndToEnd
import CTM.Props.C02.Compose

namespace CTM.C02
open CTM CTM.LevelLoop CTM.OutBridge CTM.Election CTM.Numeric CTM.Compose
open CTM.Markers CTM.StageFiles CTM.EndToEnd

/-- `NoRaiseAll` discharged at file level: for a validated taxonomy stored in the
statistics file, neither `tally_votes` nor `choose_node` raises on any question
of the level loop, provided only that at least one iteration is drawn, the drawn
subsets index into the node's gene list (`SubsetsOK`, the checked predicate
`subset_ok`) and `n_assignments ≥ 1`.  That every consulted parent HAS a
non-empty gene list of equal length on both sides whenever the marker stage
succeeds is `node_genes_of_stage`. -/
theorem no_raise_end_to_end (f : StatsFile) (lk : Lookup) (Q : List Gene) (rp : RunParams)
    (hv : f.tree.validate = .ok ()) (hN : f.tree.hierarchy.Nodup)
    (hsub : SubsetsOK f lk Q rp) (hA : 1 ≤ rp.nAssign) :
    NoRaiseAll (fileParams f lk Q rp) f.tree :=
  noRaiseAll_fileParams f lk Q rp hv hN hsub hA

/-- "the n marker genes usable at that node", by NAME: when the marker stage of
the run succeeds (`Markers.stage = .ok`), every consulted parent has a gene list
`names` — non-empty, without repetition, as a set `specGenes` of the ORIGINAL
marker table (C08) — such that query column `j` and reference column `j` of the
file-level parameters are both the gene `names[j]`, the reference columns in
increasing `col_names` order. -/
theorem node_genes_of_stage (f : StatsFile) (lk : Lookup) (Q : List Gene) (rp : RunParams)
    (hT : TreeWF f.tree) (out : StageOut)
    (hstage : Markers.stage f.tree lk f.colNames Q rp.minMarkers none false = .ok out)
    (p : PKey) (hp : p ∈ f.tree.allParents) (hc : Consulted f.tree p) :
    ∃ names, NodeGenes f lk Q rp p names := by
  obtain ⟨c, hcache⟩ := cache_of_stage f lk Q rp.minMarkers out hstage
  exact nodeGenes_of_cache f lk Q rp hT c hcache p hp hc

/-- **"Recomputing these quantities directly from the input files and the
subsets that were drawn reproduces the output"** — with the FILES as inputs.

Inputs: the statistics file `f` (its stored taxonomy validated, level names
distinct, dict keys distinct, a node at the top; `col_names` distinct; every
leaf has a row — `FileOK`), the marker table `lk` accepted by the marker stage
(`Markers.stage … = .ok`), the query (gene names `Q`, distinct; `cells` = its
rows), a plain configuration (any chunk size, worker count, gather order), any
drawn subsets indexing into the node gene lists, any valid tie orders.  Then for
every record `o` of `mapPipeline f.tree cfg (electionVote (fileParams f lk Q rp))`:

 * (`pipeline_recompute`) `o` belongs to the cell `ids[i]` / `cells[i]`; along
   the cell's walk every directly assigned level is the single-child constants
   or the node-level recompute `NodeRecompute` at the parent reached so far, and
   the record holds exactly those fields;
 * the election at a consulted parent `p` runs over exactly the genes
   `names` of `node_genes_of_stage` — `specGenes(p)`, in reference order;
 * its reference rows are leaves of the stored taxonomy, and entry `j` of the row
   of leaf `ℓ` is the mean the statistics file holds for (leaf NAME `ℓ`, gene
   NAME `names[j]`): `meanByName f ℓ names[j]` (row `cluster_to_row[ℓ]`, column
   `col_names.index(names[j])`, `sum / max(1, n_cells)`);
 * entry `j` of the cell's row is the cell's value in the query column NAMED
   `names[j]`. -/
theorem end_to_end_recompute (f : StatsFile) (lk : Lookup) (Q : List Gene) (rp : RunParams)
    (cfg : Config) (ids : List CellId) (cells : List (List Rat)) (order : List Nat)
    (hv : f.tree.validate = .ok ()) (hN : f.tree.hierarchy.Nodup) (d : RawTree.DictOK f.tree)
    (hnode : Bridge.HasNode f.tree)
    (hfile : FileOK f) (hcn : f.colNames.Nodup) (hqn : Q.Nodup)
    (hcells : ∀ x ∈ cells, x.length = Q.length)
    (out0 : StageOut)
    (hstage : Markers.stage f.tree lk f.colNames Q rp.minMarkers none false = .ok out0)
    (hdrop : cfg.dropLevel = none) (hflat : cfg.flatten = false)
    (htie : ∀ p x V, ValidOrder V (rp.tie p x V))
    (hsub : SubsetsOK f lk Q rp) (hA : 1 ≤ rp.nAssign)
    (hlen : ids.length = cells.length) (hnd : ids.Nodup)
    (hproc : 1 ≤ cfg.nProc) (hcs : 1 ≤ cfg.chunkSize)
    (horder : order.Perm (List.range
      (chunks cells.length (effChunk cells.length cfg.nProc cfg.chunkSize)).length))
    (out : List Record)
    (hout : mapPipeline f.tree cfg (electionVote (fileParams f lk Q rp)) ids cells order
      = .ok out) :
    (∀ o ∈ out, ∃ (i : Nat) (id : CellId) (c : List Rat) (raw : List (Level × Entry)),
      ids[i]? = some id ∧ cells[i]? = some c ∧ o.cellId = id ∧
      walkFrom f.tree (electionVote (fileParams f lk Q rp)) c f.tree.hierarchy none = .ok raw ∧
      raw.map (·.1) = f.tree.hierarchy ∧
      Linked (StepOK (fileParams f lk Q rp) f.tree c) none raw ∧
      ∀ (k : Nat) (hk : k < raw.length), ∃ e, o.levels.lookup raw[k].1 = some e ∧
        e.assignment = raw[k].2.assignment ∧ e.prob = raw[k].2.prob ∧
        (raw[k].2.ru.isSome = true → e.ru = raw[k].2.ru) ∧
        (∀ q, raw[k].2.corr = some q → e.corr = some q) ∧
        e.agg.getD 0 = ((raw.map (fun le => le.2.prob)).take (k + 1)).prod ∧
        e.direct.getD false = true) ∧
    (∀ (p : Parent) (l : Level) (kids : List Node), Asked f.tree p l kids → 2 ≤ kids.length →
      ∃ names, NodeGenes f lk Q rp p names ∧
        (∀ leaf ∈ (nodeRows (kidsOf f.tree l kids)).1, leaf ∈ leavesOf f.tree ∧
          ∀ (j : Nat) (g : Gene), names[j]? = some g →
            (refRow (fileParams f lk Q rp) p leaf)[j]? = meanByName f leaf g ∧
            (meanByName f leaf g).isSome = true) ∧
        (∀ x ∈ cells, ∀ (j : Nat) (g : Gene), names[j]? = some g →
          ∃ q, nameToIdx Q g = some q ∧
            (nodeQuery (fileParams f lk Q rp) p x)[j]? = x[q]? ∧ q < x.length)) := by
  have hwf := Bridge.wfb_of_validate hv d
  have hT := Bridge.treeWF_of_WF (RawTree.WF.of_validate hv d)
  have hrun : runTree f.tree cfg = .ok f.tree := by simp [runTree, hdrop, hflat]
  have hnr := noRaiseAll_fileParams f lk Q rp hv hN hsub hA
  refine ⟨pipeline_recompute f.tree f.tree cfg (fileParams f lk Q rp) ids cells order hwf hrun
    (fun p x V => htie p x V) hnr hlen hnd hproc hcs horder out hout, ?_⟩
  intro p l kids hask h2
  obtain ⟨hp, hc⟩ := asked_consulted hask h2
  obtain ⟨names, hng⟩ := node_genes_of_stage f lk Q rp hT out0 hstage p hp hc
  refine ⟨names, hng, ?_, ?_⟩
  · intro leaf hl
    have hleaf := rows_are_leaves hv hN hask leaf hl
    exact ⟨hleaf, fun j g hj => refRow_by_name f lk Q rp hfile hcn p names hng leaf hleaf j g hj⟩
  · intro x hx j g hj
    exact nodeQuery_by_name f lk Q rp hqn p names hng x (hcells x hx) j g hj

/-! ## non-vacuity: group F's example statistics file `Ex.f0` (taxonomy
10 → {30, 31}, 11 → {33}; `col_names` 7, 5, 9), a marker table, a query whose
gene columns are 9, 7, 5 -/

namespace ExE2E

def lk : Lookup := [(none, [7, 5, 9]), (some (0, 10), [5, 9])]

def rp : RunParams :=
  { subsets := fun p _ => if p = none then [[0, 1, 2], [0, 2]] else [[0, 1]],
    corrOf := fun _ _ _ _ => 1 / 2, tie := fun _ _ V => stableTie V,
    nAssign := 2, minMarkers := 1 }

def Q : List Gene := [9, 7, 5]

theorem subsetsOK : SubsetsOK Ex.f0 lk Q rp := by
  have key : ∀ p ∈ Ex.f0.tree.allParents,
      (match childrenOf Ex.f0.tree p with
       | .ok ch => decide (ch.length > 1)
       | .error _ => false) = true →
      (!(rp.subsets p []).isEmpty &&
        (rp.subsets p []).all (fun s => s.all (fun i =>
          decide (i < (groupRows (cacheOf Ex.f0 lk Q rp.minMarkers) p).length)))) = true := by
    decide +kernel
  intro p hp ⟨ch, hch, hlen⟩ x
  have := key p hp (by rw [hch]; simpa using hlen)
  simp only [Bool.and_eq_true, Bool.not_eq_true', List.all_eq_true, decide_eq_true_eq] at this
  refine ⟨?_, ?_⟩
  · intro e
    have h0 : rp.subsets p x = rp.subsets p [] := rfl
    rw [h0] at e
    rw [e] at this
    simp at this
  · intro s hs i hi
    exact this.2 s hs i hi

end ExE2E

/-- every hypothesis of `end_to_end_recompute` holds for the example: validated
taxonomy, `FileOK`, the marker stage succeeds, two cells on two workers gathered
in reverse order -/
example : ∃ out0, Markers.stage Ex.f0.tree ExE2E.lk Ex.f0.colNames ExE2E.Q 1 none false
    = .ok out0 := by
  cases h : Markers.stage Ex.f0.tree ExE2E.lk Ex.f0.colNames ExE2E.Q 1 none false with
  | ok o => exact ⟨o, rfl⟩
  | error e =>
    have : (Markers.stage Ex.f0.tree ExE2E.lk Ex.f0.colNames ExE2E.Q 1 none false).toOption.isSome
        = true := by decide +kernel
    rw [h] at this
    cases this

example (out0 : StageOut)
    (hstage : Markers.stage Ex.f0.tree ExE2E.lk Ex.f0.colNames ExE2E.Q 1 none false = .ok out0) :=
  end_to_end_recompute Ex.f0 ExE2E.lk ExE2E.Q ExE2E.rp { chunkSize := 1, nProc := 2 } [7, 3]
    [[3, 1, 2], [1, 3, 4]] [1, 0] (by rfl) (by decide) (RawTree.dictOK_of_b (by decide))
    (by intro l0 h; cases h; decide) (fileOK_of_check _ (by decide +kernel)) (by decide)
    (by decide) (by decide) out0 hstage rfl rfl (fun _ _ V => stableTie_valid V)
    ExE2E.subsetsOK (by decide) rfl (by decide) (by decide) (by decide) (by decide) _
    (mapPipeline_plain_ok Ex.f0.tree { chunkSize := 1, nProc := 2 }
      (electionVote (fileParams Ex.f0 ExE2E.lk ExE2E.Q ExE2E.rp)) [7, 3] [[3, 1, 2], [1, 3, 4]]
      [1, 0] rfl rfl (Bridge.wfb_of_validate (by rfl)
        (RawTree.dictOK_of_b (by decide)))
      (electionVote_ok _ _ (fun _ _ V => stableTie_valid V)).1 rfl (by decide) (by decide)
      (by decide) (by decide))

/-- ... and the composed model, fed with the files, computes: the two query rows
are the centroids of leaves 30 and 31 written in the query's gene order (9, 7, 5
instead of 7, 5, 9); they are assigned 10/30 and 10/31 with probability 1 -/
example : ((mapPipeline Ex.f0.tree { chunkSize := 1, nProc := 2 }
      (electionVote (fileParams Ex.f0 ExE2E.lk ExE2E.Q ExE2E.rp)) [7, 3]
      [[3, 1, 2], [1, 3, 4]] [1, 0]).toOption.getD []).flatMap
    (fun r => r.levels.map (fun le =>
      ((r.cellId : Nat), (le.1 : Nat), (le.2.assignment : Nat), le.2.prob))) =
    [(7, 0, 10, 1), (7, 1, 30, 1), (3, 0, 10, 1), (3, 1, 31, 1)] := by decide +kernel

end CTM.C02
