/-
  C02 × C01 — the election model composed with the level loop.

  Group D's `mapPipeline` (chunking, workers, gather, `re_order_blob`,
  `backfill_assignments`) keeps the vote as an oracle; `Lemmas/Compose.lean`
  defines the INTERPRETED oracle `electionVote` (assemble the reference rows of
  the parent with `assembleRows`, restrict query and reference to the node's
  genes, tally over the drawn subsets, aggregate, `chooseCell` with the given tie
  order, write back).  Here: C02's last sentence for the composed model.
-/
import CTM.Lemmas.Compose
import CTM.Lemmas.ComposeWF

namespace CTM.C02
open CTM CTM.LevelLoop CTM.OutBridge CTM.Election CTM.Numeric CTM.Compose

/-- the interpreted oracle answers with a child of the parent and a well-formed
payload on ANY tree ("types ⊆ kids": the reference types `assemble_query_data`
records are children of the parent asked about) — the hypotheses `VoteOK`,
`PayloadOK` of every pipeline theorem of C01 / C06 / C15 / C17 hold for it -/
theorem interpreted_oracle (t : RawTree) (P : ElectionParams) (htie : TieOK P) :
    VoteOK t (electionVote P) ∧ PayloadOK (P.nAssign - 1) t (electionVote P) ∧
    ∀ kl : List (Node × List Node), ∀ a ∈ (nodeRows kl).2, a ∈ kl.map (·.1) :=
  ⟨(electionVote_ok t P htie).1, (electionVote_ok t P htie).2, nodeRows_types_sub⟩

/-- "Recomputing these quantities directly from the input files and the
subsets that were drawn reproduces the output" — for the WHOLE pipeline.
Stored tree `t0` well-formed, `t` the tree of the run (any `drop_level` /
`flatten`), any chunk size, worker count and gather order, any drawn subsets
and tie orders (`P`), no Python `raise` on the questions asked (`NoRaiseAll`).
Every record `o` of the output belongs to one cell (the `i`-th id with the
`i`-th expression vector `c`) and has a raw walk `raw` down the run's tree such
that
 * each step of the walk (`StepOK`), under the parent reached so far — the root
   or (previous level, previous assignment) — with the tree's children `kids`
   of that parent, is either the single-child constants or, for ≥ 2 children,
   exactly the node-level statement `NodeRecompute` (= `C02.recompute` and the
   model equations every node-level theorem of C02/C03 takes as hypotheses)
   instantiated at that cell and that parent: the assignment owns the largest
   number of arg-max iterations, the probability is that number over the
   iteration count, correlation and runners-up are `choose_node`'s;
 * at every directly assigned level `raw[k].1` the record holds exactly that
   assignment, probability and runner-up lists, the same correlation wherever
   the walk had one, `aggregate_probability` = the product of the probabilities
   down to that level, `directly_assigned = True`. -/
theorem pipeline_recompute (t0 t : RawTree) (cfg : Config) (P : ElectionParams)
    (ids : List CellId) (cells : List (List Rat)) (order : List Nat)
    (hwf0 : wfb t0 = true) (hrun : runTree t0 cfg = .ok t)
    (htie : TieOK P) (hnr : NoRaiseAll P t)
    (hlen : ids.length = cells.length) (hnd : ids.Nodup)
    (hproc : 1 ≤ cfg.nProc) (hcs : 1 ≤ cfg.chunkSize)
    (horder : order.Perm (List.range
      (chunks cells.length (effChunk cells.length cfg.nProc cfg.chunkSize)).length))
    (out : List Record)
    (hout : mapPipeline t0 cfg (electionVote P) ids cells order = .ok out) :
    ∀ o ∈ out, ∃ (i : Nat) (id : CellId) (c : List Rat) (raw : List (Level × Entry)),
      ids[i]? = some id ∧ cells[i]? = some c ∧ o.cellId = id ∧
      walkFrom t (electionVote P) c t.hierarchy none = .ok raw ∧
      raw.map (·.1) = t.hierarchy ∧
      Linked (StepOK P t c) none raw ∧
      ∀ (k : Nat) (hk : k < raw.length), ∃ e, o.levels.lookup raw[k].1 = some e ∧
        e.assignment = raw[k].2.assignment ∧ e.prob = raw[k].2.prob ∧
        (raw[k].2.ru.isSome = true → e.ru = raw[k].2.ru) ∧
        (∀ q, raw[k].2.corr = some q → e.corr = some q) ∧
        e.agg.getD 0 = ((raw.map (fun le => le.2.prob)).take (k + 1)).prod ∧
        e.direct.getD false = true := by
  have rt := runTreeOK_of_runTree hwf0 hrun
  obtain ⟨hv, hpay⟩ := electionVote_ok t P htie
  have hrec := pipeline_records_idx t0 t cfg (electionVote P) ids cells order hrun rt.wf hv hlen
    hnd hproc hcs horder out hout
  intro o ho
  obtain ⟨i, id, c, hi1, hi2, hc, hid⟩ := hrec o ho
  obtain ⟨raw, h1, h2, h3, h4, _⟩ := cellResult_election rt hv hpay id c o hc
  have h5 := (cellResult_levels rt hv id c o hc).2.1
  obtain ⟨_, hlinked⟩ := walk_stepOK P htie rt.wf hnr c raw h1
  refine ⟨i, id, c, raw, hi1, hi2, hid, h1, h2, hlinked, ?_⟩
  intro k hk
  exact record_level_of_raw (wfb_nodup_hierarchy rt.wf) o _ raw h2 h3 h4 h5 k hk

/-- on a taxonomy the validator accepts (run tree `t`), the hypothesis
`NoRaiseAll` of the pipeline theorems is a statement about the parameters only:
an iteration is drawn, the subsets index into the node's gene list,
`n_assignments ≥ 1` — that every question has a reference row (a leaf below some
child) follows from the tree ("considering only leaves below the node" is never
an empty set). -/
theorem no_raise_of_validate (P : ElectionParams) {t : RawTree}
    (hv : t.validate = .ok ()) (hN : t.hierarchy.Nodup)
    (hiters : ∀ p x, P.subsets p x ≠ [])
    (hrange : ∀ p x, ∀ s ∈ P.subsets p x, ∀ i ∈ s,
      i < (P.qcols p).length ∧ i < (P.rcols p).length)
    (hA : 1 ≤ P.nAssign) : NoRaiseAll P t :=
  noRaiseAll_of_validate P hv hN hiters hrange hA

example : exTree.validate = .ok () ∧ exTree.hierarchy.Nodup := by decide

/-- non-vacuity: all hypotheses hold for the example taxonomy with the
parameters `exP` (three genes, query columns permuted w.r.t. the reference, two
iterations), two cells, two workers, chunks gathered in reverse order -/
example := pipeline_recompute exTree exTree { chunkSize := 1, nProc := 2 } exP [7, 3]
  [[2, 4, 1], [2, 9, 2]] [1, 0] exTree_wf rfl exP_tie exP_noRaise rfl (by decide) (by decide)
  (by decide) (by decide) _
  (mapPipeline_plain_ok exTree { chunkSize := 1, nProc := 2 } (electionVote exP) [7, 3]
    [[2, 4, 1], [2, 9, 2]] [1, 0] rfl rfl exTree_wf (electionVote_ok exTree exP exP_tie).1 rfl
    (by decide) (by decide) (by decide) (by decide))

/-- ... and the composed model computes something non-trivial: cell 7 (the
centroid of leaf 30, written in the query's gene order) goes home with
probability 1; cell 3 splits its two votes between the children of node 10, the
tie order decides, the other child is the runner-up with probability 1/2 -/
example : ((mapPipeline exTree { chunkSize := 1, nProc := 2 } (electionVote exP) [7, 3]
      [[2, 4, 1], [2, 9, 2]] [1, 0]).toOption.getD []).flatMap
    (fun r => r.levels.map (fun le =>
      ((r.cellId : Nat), (le.1 : Nat), (le.2.assignment : Nat), le.2.prob,
        ((le.2.ru.map (·.1)).getD [] : List Nat)))) =
    [(7, 0, 10, 1, []), (7, 1, 20, 1, []), (7, 2, 30, 1, []),
     (3, 0, 10, 1, []), (3, 1, 20, 1 / 2, [21]), (3, 2, 30, 1, [])] := by decide +kernel

end CTM.C02
