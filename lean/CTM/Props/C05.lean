import CTM.Model.Sparse
namespace CTM.C05
theorem placeholder_true : True := trivial
end CTM.C05
