/-
  C05 — row access is exact for every on-disk encoding and chunking.

  Theorems about the executable model `CTM/Model/Sparse.lean`,
  `CTM/Model/Chunking.lean` (tied to `anndata_iterator/anndata_iterator.py`,
  `utils/sparse_utils.py`, `utils/csc_to_csr.py`, `utils/utils.py` by the
  correspondence suite `harness/props/c05.py`).  No size bound anywhere: all
  matrices, all chunk sizes `≥ 1`, all memory budgets, all row lists.

  Vocabulary: `Mat α = (indptr, indices, data)`; `WFptr ip n nnz` — `ip` has
  `n + 1` entries, is non-decreasing, starts at 0, ends at `nnz` (the column
  indices inside a row need *not* be sorted); `toDense zero M nRows nCols` — the
  stored matrix: row `i` is the scatter of the entries at positions
  `indptr[i] ..< indptr[i+1]`; `slice D r0 r1` — Python `D[r0:r1]`.
-/
import CTM.Lemmas.SparseFlat
import CTM.Lemmas.SparseIter

namespace CTM.C05
open CTM.Chunking CTM.Sparse

/-- running example: `[[1,0,2],[0,3,0],[4,0,5]]` as CSR (and, read
column-wise, the CSC form of its transpose) -/
def M0 : Mat Nat := ⟨[0, 2, 3, 5], [0, 2, 1, 0, 2], [1, 2, 3, 4, 5]⟩

/-! ## "every row exactly once, in file order, whatever the chunk size" -/

/-- the row ranges `(r0, r1)` produced by `CSRRowIterator.__next__` /
`DenseArrayRowIterator.__next__` (`r1 = min(n_rows, r0 + chunk)`, `r0 = r1`
until `r0 >= n_rows`) cover `0, 1, …, n-1` exactly once, in order, for every
row count and every chunk size `≥ 1` (also beyond the row count). -/
theorem chunks_cover (n cs : Nat) (hcs : 1 ≤ cs) :
    (chunks n cs).flatMap rangeOf = List.range n := by
  unfold chunks
  rw [chunksAux_cover n cs hcs n 0 (by omega) (by omega), List.range_eq_range']
  rfl

example : chunks 7 3 = [(0, 3), (3, 6), (6, 7)] := by decide
example : chunks 3 5 = [(0, 3)] := by decide

/-- every chunk is a non-empty range inside `[0, n)`, at most `cs` rows wide,
and exactly `cs` rows wide unless it is the last one; the iterator stops after
`⌈n / cs⌉` steps. -/
theorem chunks_shape (n cs : Nat) (hcs : 1 ≤ cs) :
    (∀ p ∈ chunks n cs, p.1 < p.2 ∧ p.2 ≤ n ∧ p.2 - p.1 ≤ cs ∧ (p.2 < n → p.2 - p.1 = cs)) ∧
    (chunks n cs).length = ceilDiv n cs := by
  constructor
  · intro p hp
    have := chunksAux_bounds n cs hcs n 0 p hp
    exact ⟨this.2.1, this.2.2.1, this.2.2.2.1, this.2.2.2.2⟩
  · have := chunksAux_length n cs hcs n 0 (by omega) (by omega)
    simpa [chunks] using this

/-- the chunk size `run_type_assignment_on_h5ad` really uses,
`min(max(1, ceil(n_rows / n_processors)), chunk_size)`, is a legal chunk size
(`≥ 1`) whenever the requested one is, never exceeds the request, and never
exceeds an even split of the rows over the workers (so that all workers get
work). -/
theorem eff_chunk (nRows nProc cs : Nat) (hcs : 1 ≤ cs) :
    1 ≤ effChunk nRows nProc cs ∧ effChunk nRows nProc cs ≤ cs ∧
    effChunk nRows nProc cs ≤ max 1 (ceilDiv nRows nProc) := by
  unfold effChunk
  omega

example : effChunk 10 3 100 = 4 := by decide

/-! ## "with exactly the stored values": CSR -/

/-- **`get_chunk`** — for every well-formed CSR matrix (pointer array
monotone from 0 to nnz, column indices in range, *not* necessarily sorted) and
every `r0 ≤ r1 ≤ nRows`, `CSRRowIterator.get_chunk(r0, r1)` (pointer slice →
`data`/`indices` slice → `_csr_to_dense`) returns rows `r0 ..< r1` of the
stored matrix, tagged with `(r0, r1)`. -/
theorem get_chunk {α} (zero : α) (M : Mat α) (nRows nCols : Nat)
    (w : WFptr M.indptr nRows M.indices.length) (hr : ∀ x ∈ M.indices, x < nCols)
    (r0 r1 : Nat) (h01 : r0 ≤ r1) (h1 : r1 ≤ nRows) :
    csrGetChunk zero M nCols r0 r1
      = .ok (slice (toDense zero M nRows nCols) r0 r1, r0, r1) := by
  unfold csrGetChunk
  rw [loadCsr_ok zero M nRows nCols w hr r0 r1 h01 h1]
  rfl

example : WFptr M0.indptr 3 5 := ⟨rfl, by decide, rfl, rfl⟩
example : csrGetChunk 0 M0 3 1 3 = .ok ([[0, 3, 0], [4, 0, 5]], 1, 3) := rfl

/-- **`iter_exact` (CSR)** — iterating a CSR layer with any chunk size `≥ 1`
yields exactly the chunks `chunks nRows cs`, each holding the corresponding
rows of the stored matrix. -/
theorem iter_exact_csr {α} (zero : α) (M : Mat α) (nRows nCols cs : Nat) (hcs : 1 ≤ cs)
    (w : WFptr M.indptr nRows M.indices.length) (hr : ∀ x ∈ M.indices, x < nCols) :
    csrIter zero M nRows nCols cs
      = .ok ((chunks nRows cs).map fun p =>
          (slice (toDense zero M nRows nCols) p.1 p.2, p.1, p.2)) :=
  csrIter_ok zero M nRows nCols cs hcs w hr

example : csrIter 0 M0 3 3 2 = .ok [([[1, 0, 2], [0, 3, 0]], 0, 2), ([[4, 0, 5]], 2, 3)] := rfl

/-- **`iter_exact` (dense)** — the dense iterator yields the same chunk ranges
with the corresponding rows (by definition of `h5[r0:r1, :]`), and in both cases
the blocks, concatenated in the order yielded, are the whole matrix: every row
exactly once, in file order. -/
theorem iter_exact_dense {α} (D : Dense α) (cs : Nat) (hcs : 1 ≤ cs) :
    denseIter D cs = (chunks D.length cs).map (fun p => (slice D p.1 p.2, p.1, p.2)) ∧
    ((denseIter D cs).map (·.1)).flatten = D := by
  refine ⟨rfl, ?_⟩
  unfold denseIter denseGetChunk
  rw [List.map_map]
  exact chunks_blocks_flatten D cs hcs

/-- the blocks of a CSR iteration, concatenated, are the stored matrix -/
theorem iter_reassembles {α} (zero : α) (M : Mat α) (nRows nCols cs : Nat) (hcs : 1 ≤ cs)
    (w : WFptr M.indptr nRows M.indices.length) (hr : ∀ x ∈ M.indices, x < nCols) :
    ∃ blocks, csrIter zero M nRows nCols cs = .ok blocks ∧
      (blocks.map (·.1)).flatten = toDense zero M nRows nCols := by
  refine ⟨_, csrIter_ok zero M nRows nCols cs hcs w hr, ?_⟩
  rw [List.map_map]
  have := chunks_blocks_flatten (toDense zero M nRows nCols) cs hcs
  rw [toDense_length] at this
  exact this

/-! ## CSC: first rewritten as CSR in scratch space, for any memory budget -/

/-- **`iter_exact` (CSC)** — a CSC layer (`nCols` column slices over row
indices `< nRows`; row indices within a column need not be sorted) is first
transposed on disk with a budget `B`; for every budget whose chunk sizes are
`≥ 1` (the enforced minimum is 100, `C13.budget_floor`), any element budget and
every row chunk size `≥ 1` the iterator then yields the chunks
`chunks nRows cs` with the corresponding rows of the matrix the CSC arrays
denote (the transpose of their column-wise reading). -/
theorem iter_exact_csc {α} (zero : α) (M : Mat α) (nRows nCols cs : Nat) (B : Budget)
    (hcs : 1 ≤ cs) (hlo : 1 ≤ B.lo) (hc : 1 ≤ B.loCount)
    (w : WFptr M.indptr nCols M.indices.length) (hlen : M.data.length = M.indices.length)
    (hr : ∀ x ∈ M.indices, x < nRows) :
    cscIter zero M nRows nCols cs B
      = .ok ((chunks nRows cs).map fun p =>
          (slice (transposeDense zero (toDense zero M nCols nRows) nRows) p.1 p.2, p.1, p.2)) :=
  cscIter_ok zero M nRows nCols cs B hcs hlo hc w hlen hr

example : cscIter 0 M0 3 3 2 ⟨1, 1, 1⟩
    = .ok [([[1, 0, 4], [0, 3, 0]], 0, 2), ([[2, 0, 5]], 2, 3)] := rfl

/-- *"all memory budgets down to the enforced minimum"*: for the budget the
code derives from **any** `max_gb` (also 0 or negative), any dtypes and any
constants `K` of the source with minimum sizes `≥ 1` (`C13.source_constants`) — and with the code's flat
`next_idx` / buffer addressing of the fill pass (`C13.transpose_flat`), the CSC
iterator yields the rows of the stored matrix. -/
theorem iter_exact_csc_any_max_gb {α} (zero : α) (M : Mat α) (nRows nCols cs : Nat)
    (K : BudgetConsts) (hK1 : 1 ≤ K.minLoad) (hK2 : 1 ≤ K.minCount)
    (countGb loadGb elGb : Rat) (dataBytes indptrBytes indicesBytes : Nat) (hcs : 1 ≤ cs)
    (w : WFptr M.indptr nCols M.indices.length) (hlen : M.data.length = M.indices.length)
    (hr : ∀ x ∈ M.indices, x < nRows) :
    (transposeOnDiskFlat zero M nRows none
        (Budget.ofConsts K countGb loadGb elGb dataBytes indptrBytes indicesBytes)
      >>= fun csr => csrIter zero csr nRows nCols cs)
      = .ok ((chunks nRows cs).map fun p =>
          (slice (transposeDense zero (toDense zero M nCols nRows) nRows) p.1 p.2, p.1, p.2)) := by
  have hlo : 1 ≤ (Budget.ofConsts K countGb loadGb elGb dataBytes indptrBytes indicesBytes).lo := by
    unfold Budget.ofConsts; exact Nat.le_trans hK1 (Nat.le_max_left _ _)
  have hc : 1 ≤ (Budget.ofConsts K countGb loadGb elGb dataBytes indptrBytes indicesBytes).loCount := by
    unfold Budget.ofConsts; exact Nat.le_trans hK2 (Nat.le_max_left _ _)
  rw [transposeOnDiskFlat_eq zero M nRows none _ hlo hc hlen hr]
  exact cscIter_ok zero M nRows nCols cs _ hcs hlo hc w hlen hr

example : 100 ≤ (Budget.ofConsts ⟨100, 100, 100, 8⟩ 0 0 0 8 4 4).lo := Nat.le_max_left _ _

/-- a column index outside the matrix is an `IndexError` of `_csr_to_dense`,
never silently dropped: the model keeps the raise site. -/
theorem get_chunk_rejects_bad_column {α} (zero : α) (M : Mat α) (nRows nCols : Nat)
    (x : Nat) (hx : x ∈ usedCols M) (hbig : nCols ≤ x) :
    csrToDense zero M nRows nCols = .error .indexOutOfRange :=
  csrToDense_rejects zero M nRows nCols x hx hbig

example : csrToDense 0 (⟨[0, 1], [5], [7]⟩ : Mat Nat) 1 3 = .error .indexOutOfRange := rfl

/-- **`encoding_indep`** — *"whatever the encoding"*: if a CSR encoding `R`, a
CSC encoding `C` and a dense array `D` store the same `nRows × nCols` matrix,
the three iterators yield the same sequence of `(block, r0, r1)` for every
chunk size and budget; everything computed from the iterator's output (mapping,
reference statistics) is therefore the same function of the matrix. -/
theorem encoding_indep {α} (zero : α) (R C : Mat α) (D : Dense α) (nRows nCols cs : Nat)
    (B : Budget) (hcs : 1 ≤ cs) (hlo : 1 ≤ B.lo) (hc : 1 ≤ B.loCount)
    (wR : WFptr R.indptr nRows R.indices.length) (hrR : ∀ x ∈ R.indices, x < nCols)
    (wC : WFptr C.indptr nCols C.indices.length) (hlenC : C.data.length = C.indices.length)
    (hrC : ∀ x ∈ C.indices, x < nRows)
    (hR : toDense zero R nRows nCols = D)
    (hC : transposeDense zero (toDense zero C nCols nRows) nRows = D) :
    csrIter zero R nRows nCols cs = .ok (denseIter D cs) ∧
    cscIter zero C nRows nCols cs B = .ok (denseIter D cs) := by
  have hD : D.length = nRows := by rw [← hR, toDense_length]
  constructor
  · rw [csrIter_ok zero R nRows nCols cs hcs wR hrR, hR]
    unfold denseIter denseGetChunk
    rw [hD]
  · rw [cscIter_ok zero C nRows nCols cs B hcs hlo hc wC hlenC hrC, hC]
    unfold denseIter denseGetChunk
    rw [hD]

/-! ## "requesting an arbitrary list of rows returns those rows in the requested order" -/

/-- **`merge_index_list`** — for every non-empty list of integers (any order,
repeats allowed) the result is a list of non-empty half-open ranges,
increasing and separated by gaps, whose union is exactly the set of the input
(`npUnique xs`: sorted, without repeats, same elements). -/
theorem merge_index_list (xs : List Nat) (hne : xs ≠ []) :
    ∃ rs, mergeIndexList xs = .ok rs ∧
      rs.flatMap rangeOf = npUnique xs ∧
      (npUnique xs).Pairwise (· < ·) ∧ (∀ z, z ∈ npUnique xs ↔ z ∈ xs) ∧
      rs.Pairwise (fun p q => p.2 < q.1) ∧ (∀ p ∈ rs, p.1 < p.2) :=
  mergeIndexList_ok xs hne

example : mergeIndexList [7, 2, 3, 9, 8, 2] = .ok [(2, 4), (7, 10)] := rfl

/-- **`get_batch` (dense)** — `DenseArrayRowIterator.get_batch`: argsort the
request, read the rows in increasing order, un-sort with
`output[meta_sort[ii]] = raw[ii]`.  For every non-empty row list without
repeats, all in range, *in any order*, row `i` of the result is row `rows[i]`
of the matrix. -/
theorem get_batch_dense {α} (zero : α) (D : Dense α) (nCols : Nat) (rows : List Nat)
    (hne : rows ≠ []) (hn : rows.Nodup) (hr : ∀ r ∈ rows, r < D.length) :
    denseGetBatch zero D nCols rows = .ok (rows.map (D.getD · [])) :=
  denseGetBatch_ok zero D nCols rows hne hn hr

example : denseGetBatch 0 [[1, 0, 2], [0, 3, 0], [4, 0, 5]] 3 [2, 0]
    = .ok [[4, 0, 5], [1, 0, 2]] := rfl

/-- **`get_batch` (CSR)** — *"sorted, merged row ranges loaded then un-sorted"*:
`_load_disjoint_csr` argsorts the request, merges it into contiguous ranges
(`merge_index_list`), loads each range with `_load_sparse`, concatenates the
pieces (`merge_csr`) and un-sorts; `get_batch` then turns the result into a
dense block.  For every well-formed CSR matrix and every non-empty row list
without repeats, all in range, *in any order*, row `i` of the result is row
`rows[i]` of the stored matrix. -/
theorem get_batch_csr {α} (zero : α) (M : Mat α) (nRows nCols : Nat)
    (w : WFptr M.indptr nRows M.indices.length) (hlen : M.data.length = M.indices.length)
    (hc : ∀ x ∈ M.indices, x < nCols)
    (rows : List Nat) (hne : rows ≠ []) (hn : rows.Nodup) (hr : ∀ r ∈ rows, r < nRows) :
    csrGetBatch zero M nCols rows
      = .ok (rows.map fun r => (toDense zero M nRows nCols).getD r []) :=
  csrGetBatch_ok zero M nRows nCols w hlen hc rows hne hn hr

example : csrGetBatch 0 M0 3 [2, 0] = .ok [[4, 0, 5], [1, 0, 2]] := rfl

/-- the sparse form of the same request (`get_batch(sparse=True)`,
`amalgamate_h5ad`): the arrays returned by `_load_disjoint_csr` are exactly the
requested rows' stored slices one after the other, with the pointer array of
their running lengths. -/
theorem load_disjoint {α} (M : Mat α) (nRows : Nat)
    (w : WFptr M.indptr nRows M.indices.length) (hlen : M.data.length = M.indices.length)
    (rows : List Nat) (hne : rows ≠ []) (hn : rows.Nodup) (hr : ∀ r ∈ rows, r < nRows) :
    loadDisjoint M rows = .ok (ofSegs (rows.map (segOf M))) :=
  loadDisjoint_ok M nRows w hlen rows hne hn hr

example : loadDisjoint M0 [2, 0] = .ok ⟨[0, 2, 4], [0, 2, 0, 2], [4, 5, 1, 2]⟩ := rfl

/-- repeated rows are outside the property's guard and are *rejected* by the
dense iterator, never answered wrongly (h5py: "Indexing elements must be in
increasing order"). -/
theorem get_batch_dense_rejects_repeats {α} (zero : α) (D : Dense α) (nCols : Nat)
    (rows : List Nat) (hne : rows ≠ []) (hrep : ¬ rows.Nodup) :
    denseGetBatch zero D nCols rows = .error .badRows := by
  unfold denseGetBatch
  have h1 : rows.isEmpty = false := by
    cases rows with
    | nil => exact absurd rfl hne
    | cons _ _ => rfl
  have h2 : strictInc ((argsort rows).map (rows.getD · 0)) = false := by
    cases h : strictInc ((argsort rows).map (rows.getD · 0)) with
    | false => rfl
    | true =>
      exfalso
      apply hrep
      have hp := pairwise_of_strictInc _ h
      have hnd : ((argsort rows).map (rows.getD · 0)).Nodup := by
        apply List.Pairwise.imp _ hp
        intro a b hab; omega
      exact (sortedRows_perm rows).nodup_iff.mp hnd
  simp only [h1, h2, Bool.false_eq_true, if_false, Bool.not_false, if_true]

example : denseGetBatch 0 [[1], [2]] 1 [1, 1] = .error .badRows := rfl

/-! ## one iterator object: iteration and random access interleaved -/

/-- **`random_access_stateless`** — the iterator object as a state machine
(state = the cursor `self.r0`; operations `next()`, `get_chunk(r0, r1)`,
`it[i]`, `it[[a, …, b]]`, `get_batch(rows)`).  For a reader that answers legal
requests with the stored rows of `D` (`ReaderExact`; the CSR, dense and CSC
readers are, by `readers_exact`), every chunk size `≥ 1` and **every operation
sequence**, started at cursor 0:
* the blocks delivered by the `next()` calls of the sequence, concatenated,
  are rows `0 ..< k` of `D` where `k ≤ n` is the final cursor — whatever random
  access was interleaved, nothing is skipped or delivered twice;
* wherever it occurs in the sequence (after any prefix `pre`), a random-access
  operation with legal arguments returns the stored rows and leaves the cursor
  where it was. -/
theorem random_access_stateless {α} (rd : Reader α) (D : Dense α) (ex : ReaderExact rd D)
    (cs : Nat) (hcs : 1 ≤ cs) (ops : List IterOp) :
    ((iterRun rd cs 0 ops).1 ≤ D.length ∧
      nextRows ops (iterRun rd cs 0 ops).2 = slice D 0 (iterRun rd cs 0 ops).1) ∧
    (∀ pre : List IterOp,
      (∀ r0 r1, r0 ≤ r1 → r1 ≤ D.length →
        iterStep rd cs (iterRun rd cs 0 pre).1 (.getChunk r0 r1)
          = ((iterRun rd cs 0 pre).1, .block (slice D r0 r1) r0 r1)) ∧
      (∀ i, i < D.length →
        iterStep rd cs (iterRun rd cs 0 pre).1 (.getItem i)
          = ((iterRun rd cs 0 pre).1, .block (slice D i (i + 1)) i (i + 1))) ∧
      (∀ xs a b, xs.head? = some a → xs.getLast? = some b → a ≤ b + 1 → b < D.length →
        iterStep rd cs (iterRun rd cs 0 pre).1 (.getItemList xs)
          = ((iterRun rd cs 0 pre).1, .block (slice D a (b + 1)) a (b + 1))) ∧
      (∀ rows, rows ≠ [] → rows.Nodup → (∀ r ∈ rows, r < D.length) →
        iterStep rd cs (iterRun rd cs 0 pre).1 (.getBatch rows)
          = ((iterRun rd cs 0 pre).1, .batch (rows.map (D.getD · []))))) := by
  have h := iterRun_prefix rd D ex cs hcs ops 0 (Nat.zero_le _)
  exact ⟨⟨h.2.1, h.2.2⟩, fun pre => iterStep_random_access rd D ex cs _⟩

/-- a run splits at any point into the run of the prefix and the run of the
rest from the cursor the prefix left (so "after any prefix `pre`" above is
every position of every run). -/
theorem run_splits {α} (rd : Reader α) (cs : Nat) (pre post : List IterOp) :
    iterRun rd cs 0 (pre ++ post)
      = ((iterRun rd cs (iterRun rd cs 0 pre).1 post).1,
         (iterRun rd cs 0 pre).2 ++ (iterRun rd cs (iterRun rd cs 0 pre).1 post).2) :=
  iterRun_append rd cs pre post 0

/-- the CSR, dense and (for every budget) CSC readers answer legal requests
with the stored rows. -/
theorem readers_exact {α} (zero : α) (M : Mat α) (nMajor nMinor : Nat) (D : Dense α) (B : Budget)
    (w : WFptr M.indptr nMajor M.indices.length) (hlen : M.data.length = M.indices.length)
    (hr : ∀ x ∈ M.indices, x < nMinor) (hlo : 1 ≤ B.lo) (hc : 1 ≤ B.loCount) :
    ReaderExact (csrReader zero M nMajor nMinor) (toDense zero M nMajor nMinor) ∧
    ReaderExact (denseReader zero D nMinor) D ∧
    ∃ rd, cscReader zero M nMinor nMajor B = .ok rd ∧
      ReaderExact rd (transposeDense zero (toDense zero M nMajor nMinor) nMinor) :=
  ⟨csrReader_exact zero M nMajor nMinor w hlen hr, denseReader_exact zero D nMinor,
   cscReader_exact zero M nMinor nMajor B hlo hc w hlen hr⟩

/- peek at the first rows, then loop: nothing skipped, nothing twice -/
example : iterRun (csrReader 0 M0 3 3) 2 0 [.getChunk 0 1, .next, .getItem 2, .next, .next]
    = (3, [.block [[1, 0, 2]] 0 1, .block [[1, 0, 2], [0, 3, 0]] 0 2, .block [[4, 0, 5]] 2 3,
           .block [[4, 0, 5]] 2 3, .stop]) := by decide
example : nextRows [.getChunk 0 1, .next, .getItem 2, .next, .next]
    (iterRun (csrReader 0 M0 3 3) 2 0 [.getChunk 0 1, .next, .getItem 2, .next, .next]).2
    = [[1, 0, 2], [0, 3, 0], [4, 0, 5]] := by decide

end CTM.C05
