import CTM.Model.RefMarkers
namespace CTM.C11
theorem placeholder_true : True := trivial
end CTM.C11
