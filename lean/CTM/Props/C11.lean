/-
  C11 — reference markers are sound and complete for the stated criteria.

  Theorems about the executable model `CTM/Model/Holm.lean`,
  `CTM/Model/RefMarkers.lean` (mirrors of stats_utils.correct_ttest /
  approx_correct_ttest, scores.score_differential_genes and the functions below
  it, the p-value-mask route, and the merge of per-chunk sparse tables).  All
  statements are for every input (no size bound).  Raw Welch p-values are
  inputs of the model: the Student-t / normal CDF, and therefore the soundness
  of the `boring_t` shortcut, are NOT proved here (compared numerically by the
  harness on every run).

  Reading guide: `xs[i]? = some true` = "entry i of the boolean mask exists and
  is True"; `pOrder` / `o` = the permutation `np.argsort` returned (any tie
  order); `g` = per-gene (q1, qdiff, |log2 fold|); `Strict` / `AboveFloors` =
  the strict criteria / the floors; `c.geneIdx` = `valid_gene_idx`.
-/
import CTM.Lemmas.Holm
import CTM.Lemmas.RefMarkers

namespace CTM.C11
open CTM.Holm CTM.RefMarkers

instance (o : List Nat) (p : List Rat) : Decidable (IsArgsort o p) := by
  unfold IsArgsort; infer_instance

/-! ### sample data for the non-vacuity examples -/

private def th0 : Thresholds :=
  { pTh := 1/100, q1Th := 1/2, qdiffTh := 7/10, foldTh := 1, q1Min := 1/10, qdiffMin := 1/10,
    foldMin := 4/5 }
private def p0 : List Rat := [1/1000, 1/1000, 1/2, 1/1000]
private def g0 : List GeneScore := [⟨9/10, 9/10, 2⟩, ⟨3/10, 1/2, 9/10⟩, ⟨9/10, 9/10, 2⟩, ⟨9/10, 9/10, 2⟩]
private def c0 : Config := { th := th0, nValid := 1, nValidMin := 1, geneIdx := some [0, 1, 2] }
private def m1 : List Rat := [0, 0, 0, 3]
private def m2 : List Rat := [2, 1, 2, 0]

/-! ### Holm -/

/-- "its Holm-corrected Welch p-value": the Holm step-down of `correct_ttest` (sort, multiply by
`m - rank`, running maximum, un-sort, cap at 1) does not depend on the order `np.argsort` gives
to equal p-values (numpy's default sort is not stable). -/
theorem holm_perm (p : List Rat) (padding : Nat) (o₁ o₂ : List Nat)
    (h₁ : IsArgsort o₁ p) (h₂ : IsArgsort o₂ p) (h0 : ∀ x ∈ p, 0 ≤ x) :
    correctTtestWith o₁ p padding = correctTtestWith o₂ p padding :=
  correctTtestWith_perm p padding o₁ o₂ h₁ h₂ h0

/-- non-vacuity: two different tie orders of a vector with a tie (test on a sample) -/
example : IsArgsort [1, 0, 3, 2] p0 ∧ IsArgsort [3, 0, 1, 2] p0 ∧ (∀ x ∈ p0, 0 ≤ x) ∧
    correctTtestWith [1, 0, 3, 2] p0 0 = [1/250, 1/250, 1/2, 1/250] := by decide +kernel

/-- "correcting only p-values below the threshold" (`approx_correct_ttest`): the mask
`corrected p < p_th` computed from the restricted correction (only the raw p-values `< p_th`
are corrected, the count of the others is passed as padding) equals the mask computed from the
full Holm correction.  Hence `∀ i, holmApprox p th i < th ↔ holm p i < th`. -/
theorem holm_approx_iff (p : List Rat) (th : Rat) (o o' : List Nat) (h : IsArgsort o p)
    (h' : IsArgsort o' (gather (interestingIdx p th) p))
    (h0 : ∀ x ∈ p, 0 ≤ x) (h1 : ∀ x ∈ p, x ≤ 1) :
    (approxCorrectTtestWith o' p th).map (fun x => decide (x < th))
      = (correctTtestWith o p 0).map (fun x => decide (x < th)) :=
  approx_mask_eq h h' h0 h1

/-- the same, gene by gene: `holmApprox p th i < th ↔ holm p i < th`. -/
theorem holm_approx_iff_pointwise (p : List Rat) (th : Rat) (o o' : List Nat) (h : IsArgsort o p)
    (h' : IsArgsort o' (gather (interestingIdx p th) p))
    (h0 : ∀ x ∈ p, 0 ≤ x) (h1 : ∀ x ∈ p, x ≤ 1) (i : Nat) (hi : i < p.length) :
    ∃ a b, (approxCorrectTtestWith o' p th)[i]? = some a ∧ (correctTtestWith o p 0)[i]? = some b ∧
      (a < th ↔ b < th) :=
  approx_iff_pointwise h h' h0 h1 i hi

/-- Holm-corrected p-values lie between the raw p-value and 1: a gene whose corrected p is below
the threshold also has its raw Welch p below it. -/
theorem holm_bounds (p : List Rat) (o : List Nat) (h : IsArgsort o p) (h0 : ∀ x ∈ p, 0 ≤ x)
    (h1 : ∀ x ∈ p, x ≤ 1) (i : Nat) (hi : i < p.length) :
    ∃ y, (correctTtestWith o p 0)[i]? = some y ∧ p.getD i 0 ≤ y ∧ y ≤ 1 :=
  CTM.Holm.holm_bounds h h0 h1 i hi

/-- … and below the threshold the two corrections return the same number. -/
theorem holm_approx_eq_below (p : List Rat) (th : Rat) (o o' : List Nat) (h : IsArgsort o p)
    (h' : IsArgsort o' (gather (interestingIdx p th) p)) (h0 : ∀ x ∈ p, 0 ≤ x)
    (i : Nat) (hi : i < p.length) (hlt : p.getD i 0 < th) :
    (approxCorrectTtestWith o' p th)[i]? = (correctTtestWith o p 0)[i]? :=
  approx_slot_lt h h' h0 i hi hlt

example : IsArgsort [1, 0, 3, 2] p0 ∧ IsArgsort [2, 0, 1] (gather (interestingIdx p0 (1/100)) p0) ∧
    (∀ x ∈ p0, 0 ≤ x) ∧ (∀ x ∈ p0, x ≤ 1) ∧
    approxCorrectTtestWith [2, 0, 1] p0 (1/100) = [1/250, 1/250, 1/2, 1/250] := by decide +kernel

/-- the p-value mask of `score_differential_genes`, restated with the full Holm correction of
the model (`correctTtest`, canonical tie order) -/
theorem pValid_iff_holm (o' : List Nat) (praw : List Rat) (pTh : Rat)
    (h' : IsArgsort o' (gather (interestingIdx praw pTh) praw))
    (h0 : ∀ x ∈ praw, 0 ≤ x) (h1 : ∀ x ∈ praw, x ≤ 1) (i : Nat) :
    (pValidMask o' praw pTh)[i]? = some true ↔ ∃ y, (correctTtest praw)[i]? = some y ∧ y < pTh := by
  unfold pValidMask
  rw [holm_approx_iff praw pTh (argsort praw) o' (argsort_isArgsort praw) h' h0 h1]
  unfold correctTtest
  simp only [List.getElem?_map, Option.map_eq_some_iff, decide_eq_true_eq]

/-! ### validity: main route (`score_differential_genes`) -/

/-- "A gene is recorded as a marker for a pair of leaf clusters only if both clusters have at
least two cells [`nCellsMin`], its Holm-corrected Welch p-value is below the threshold, it lies
on or above every minimum penetrance and fold-change floor and, when a gene list is given,
belongs to it" — for the approximate and the exact penetrance test, including the single
relaxation pass.  Hypotheses: each strict threshold above its floor (`ThresholdsOK`), raw
p-values in [0,1], and `FloorsExclude` (a gene outside the list is given the scores -1, 0, -1;
some floor must lie above them — true for all non-negative floors except `qdiffMin = 0` with
negative `q1Min`, `foldMin`). -/
theorem sound (pOrder : List Nat) (c : Config) (n1 n2 : Nat) (praw : List Rat)
    (g : List GeneScore) (mean1 mean2 : List Rat) (out : Out)
    (h : scoreCoreWith pOrder c n1 n2 praw g mean1 mean2 = .ok out)
    (ho : IsArgsort pOrder (gather (interestingIdx praw c.th.pTh) praw))
    (h0 : ∀ x ∈ praw, 0 ≤ x) (h1 : ∀ x ∈ praw, x ≤ 1)
    (ht : ThresholdsOK c.th) (hx : FloorsExclude c.th)
    (i : Nat) (hi : out.valid[i]? = some true) :
    c.nCellsMin ≤ n1 ∧ c.nCellsMin ≤ n2 ∧
    (∃ y, (correctTtest praw)[i]? = some y ∧ y < c.th.pTh) ∧
    (∃ s, g[i]? = some s ∧ AboveFloors c.th s) ∧
    (∀ idx, c.geneIdx = some idx → i ∈ idx) := by
  obtain ⟨a, b, hp, hl, s, hs, hf, _⟩ := scoreCore_sound h ht hx hi
  exact ⟨a, b, (pValid_iff_holm pOrder praw _ ho h0 h1 i).mp hp, ⟨s, hs, hf⟩, hl⟩

/-- "every gene that passes the strict thresholds is recorded": both clusters large enough,
Holm-corrected p below the threshold, strictly above every strict threshold, in the gene list
⇒ valid (approximate or exact test, with or without the relaxation pass). -/
theorem complete (pOrder : List Nat) (c : Config) (n1 n2 : Nat) (praw : List Rat)
    (g : List GeneScore) (mean1 mean2 : List Rat) (out : Out)
    (h : scoreCoreWith pOrder c n1 n2 praw g mean1 mean2 = .ok out)
    (ho : IsArgsort pOrder (gather (interestingIdx praw c.th.pTh) praw))
    (h0 : ∀ x ∈ praw, 0 ≤ x) (h1 : ∀ x ∈ praw, x ≤ 1)
    (i : Nat) (s : GeneScore) (y : Rat)
    (hn1 : c.nCellsMin ≤ n1) (hn2 : c.nCellsMin ≤ n2)
    (hy : (correctTtest praw)[i]? = some y) (hyp : y < c.th.pTh)
    (hs : g[i]? = some s) (hst : Strict c.th s)
    (hl : ∀ idx, c.geneIdx = some idx → i ∈ idx) :
    out.valid[i]? = some true :=
  scoreCore_complete h hn1 hn2 hs hst hl
    ((pValid_iff_holm pOrder praw _ ho h0 h1 i).mpr ⟨y, hy, hyp⟩)

/-- "with exact penetrance requested nothing else is [recorded]": in exact mode validity is
*equivalent* to the conjunction of the strict criteria. -/
theorem exact_only (pOrder : List Nat) (c : Config) (n1 n2 : Nat) (praw : List Rat)
    (g : List GeneScore) (mean1 mean2 : List Rat) (out : Out)
    (h : scoreCoreWith pOrder c n1 n2 praw g mean1 mean2 = .ok out)
    (ho : IsArgsort pOrder (gather (interestingIdx praw c.th.pTh) praw))
    (h0 : ∀ x ∈ praw, 0 ≤ x) (h1 : ∀ x ∈ praw, x ≤ 1)
    (ht : ThresholdsOK c.th) (hx : FloorsExclude c.th) (hexact : c.exact = true) (i : Nat) :
    out.valid[i]? = some true ↔
      (c.nCellsMin ≤ n1 ∧ c.nCellsMin ≤ n2 ∧
       (∃ y, (correctTtest praw)[i]? = some y ∧ y < c.th.pTh) ∧
       (∃ s, g[i]? = some s ∧ Strict c.th s) ∧
       (∀ idx, c.geneIdx = some idx → i ∈ idx)) := by
  constructor
  · intro hi
    obtain ⟨a, b, hp, hl, s, hs, _, hst⟩ := scoreCore_sound h ht hx hi
    exact ⟨a, b, (pValid_iff_holm pOrder praw _ ho h0 h1 i).mp hp, ⟨s, hs, hst hexact⟩, hl⟩
  · rintro ⟨a, b, ⟨y, hy, hyp⟩, ⟨s, hs, hst⟩, hl⟩
    exact complete pOrder c n1 n2 praw g mean1 mean2 out h ho h0 h1 i s y a b hy hyp hs hst hl

/-- non-vacuity (test on a sample): approximate mode, 4 genes, a gene list excluding gene 3;
gene 0 passes everything, gene 1 fails the strict thresholds, gene 2 fails the p-value test,
gene 3 is outside the list -/
example : IsArgsort [1, 0, 2] (gather (interestingIdx p0 th0.pTh) p0) ∧
    ThresholdsOK th0 ∧ FloorsExclude th0 ∧
    (scoreCoreWith [1, 0, 2] c0 5 7 p0 g0 m1 m2).toOption.map (·.valid)
      = some [true, false, false, false] := by
  refine ⟨by decide +kernel, ?_, ?_, by decide +kernel⟩
  · unfold ThresholdsOK th0; norm_num
  · unfold FloorsExclude th0; norm_num

/-! ### direction -/

/-- "Its direction is the sign of the difference of mean log2(CPM+1)": a valid gene is listed
as up-regulated iff `mean2 > mean1`, as down-regulated otherwise. -/
theorem direction (pOrder : List Nat) (c : Config) (n1 n2 : Nat) (praw : List Rat)
    (g : List GeneScore) (mean1 mean2 : List Rat) (out : Out)
    (h : scoreCoreWith pOrder c n1 n2 praw g mean1 mean2 = .ok out)
    (i : Nat) (a b : Rat) (ha : mean1[i]? = some a) (hb : mean2[i]? = some b)
    (hi : out.valid[i]? = some true) :
    (i ∈ (upDown out).1 ↔ a < b) ∧ (i ∈ (upDown out).2 ↔ ¬ a < b) := by
  have hn : c.nCellsMin ≤ n1 ∧ c.nCellsMin ≤ n2 := by
    unfold scoreCoreWith at h
    simp only at h
    split at h
    · cases h; exact absurd hi replicate_false_ne_true
    · rename_i hn; omega
  have hup := scoreCore_up h hn.1 hn.2
  have hu : out.up[i]? = some (decide (b > a)) := by rw [hup]; exact upMask_getElem? ha hb
  obtain ⟨e1, e2⟩ := upDown_cover out i hi _ hu
  simp only [decide_eq_true_eq, decide_eq_false_iff_not, gt_iff_lt] at e1 e2
  exact ⟨e1, e2⟩

/-- "no gene both up and down for a pair"; and only valid genes are listed. -/
theorem no_both (out : Out) (i : Nat) :
    ¬ (i ∈ (upDown out).1 ∧ i ∈ (upDown out).2) ∧
    ((i ∈ (upDown out).1 ∨ i ∈ (upDown out).2) → out.valid[i]? = some true) :=
  ⟨upDown_disjoint out i, upDown_valid out i⟩

example : ((scoreCoreWith [1, 0, 2] c0 5 7 p0 g0 m1 m2).toOption.map upDown) = some ([0], []) := by
  decide +kernel

/-- "renaming clusters so that a pair swaps order swaps only the direction": the scores are
symmetric in the two clusters, validity is unchanged, and the `up` flag becomes
`mean1 > mean2` — so every valid gene with different means changes list, nothing else changes. -/
theorem swap (c : Config) (s : PairStats) :
    geneScores s.swap = geneScores s ∧
    (scoreDifferentialGenes c s.swap).map (·.valid) = (scoreDifferentialGenes c s).map (·.valid) ∧
    (∀ out', scoreDifferentialGenes c s.swap = .ok out' →
       c.nCellsMin ≤ s.n1 → c.nCellsMin ≤ s.n2 → out'.up = upMask s.mean2 s.mean1) := by
  refine ⟨geneScores_swap s, ?_, ?_⟩
  · unfold scoreDifferentialGenes scoreCore
    rw [geneScores_swap]
    exact scoreCore_swap_valid _ c s.n1 s.n2 s.praw (geneScores s) s.mean1 s.mean2
  · intro out' h hn1 hn2
    unfold scoreDifferentialGenes scoreCore at h
    exact scoreCore_up h hn2 hn1

/-- a gene cannot be up in both orders, nor down in both orders unless the means are equal -/
theorem swap_flips (m1 m2 : List Rat) (i : Nat) (a b : Rat) (ha : m1[i]? = some a)
    (hb : m2[i]? = some b) (hne : a ≠ b) :
    ∃ u, (upMask m1 m2)[i]? = some u ∧ (upMask m2 m1)[i]? = some (!u) := by
  refine ⟨decide (b > a), upMask_getElem? ha hb, ?_⟩
  rw [upMask_getElem? hb ha]
  congr 1
  rcases lt_or_gt_of_ne hne with h | h
  · simp [h, not_lt.mpr (le_of_lt h)]
  · simp [h, not_lt.mpr (le_of_lt h)]

example : (PairStats.swap ⟨5, 7, m1, m2, [1, 0], [0, 1], p0⟩).n1 = 7 := rfl

/-- the Welch statistic of `_calculate_tt_nu` is symmetric in the two clusters: same degrees of
freedom, same t² (the sign of t flips) — the reason the raw two-sided p-value, an input of the
model, is the same for both orders of a pair (`PairStats.swap` keeps `praw`). -/
theorem welch_symmetric (m1 v1 : Rat) (n1 : Nat) (m2 v2 : Rat) (n2 : Nat) :
    welchNu v1 n1 v2 n2 = welchNu v2 n2 v1 n1 ∧
    welchTSq m1 v1 n1 m2 v2 n2 = welchTSq m2 v2 n2 m1 v1 n1 :=
  welch_swap m1 v1 n1 m2 v2 n2

example : welchNu 1 4 2 8 = some (42/5) ∧ welchTSq 3 1 4 1 2 8 = 8 := by decide +kernel

/-! ### the p-value-mask route -/

/-- "The same soundness … hold[s] for the p-value-mask route": a gene recorded from the mask
(`_get_validity_mask ∘ _p_values_worker`) belongs to a pair whose clusters both have at least
two cells, has Holm-corrected p below the threshold, is on or above every floor and is in the
gene list.  `r16` is the float64→float16 rounding of the stored distance (any function:
soundness does not depend on it). -/
theorem mask_route_sound (pOrder : List Nat) (r16 : Rat → Rat) (t : Thresholds) (nValid : Nat)
    (geneIdx : Option (List Nat)) (n1 n2 : Nat) (praw : List Rat) (g : List GeneScore)
    (mean1 mean2 : List Rat) (out : Out)
    (h : maskRouteWith pOrder r16 t nValid geneIdx n1 n2 praw g mean1 mean2 = .ok out)
    (ho : IsArgsort pOrder (gather (interestingIdx praw t.pTh) praw))
    (h0 : ∀ x ∈ praw, 0 ≤ x) (h1 : ∀ x ∈ praw, x ≤ 1)
    (i : Nat) (hi : out.valid[i]? = some true) :
    2 ≤ n1 ∧ 2 ≤ n2 ∧
    (∃ y, (correctTtest praw)[i]? = some y ∧ y < t.pTh) ∧
    (∃ s, g[i]? = some s ∧ AboveFloors t s) ∧
    (∀ idx, geneIdx = some idx → i ∈ idx) := by
  obtain ⟨a, b, hp, hl, hs⟩ := maskRoute_sound h hi
  exact ⟨a, b, (pValid_iff_holm pOrder praw _ ho h0 h1 i).mp hp, hs, hl⟩

/-- "… and completeness hold for the p-value-mask route": a gene that passes every strict
criterion is stored with distance 0 → -1 (float16 represents -1 exactly: `r16 (-1) = -1`) and
is recorded whatever `n_valid` and the other genes. -/
theorem mask_route_complete (pOrder : List Nat) (r16 : Rat → Rat) (t : Thresholds) (nValid : Nat)
    (geneIdx : Option (List Nat)) (n1 n2 : Nat) (praw : List Rat) (g : List GeneScore)
    (mean1 mean2 : List Rat) (out : Out) (h16 : r16 (-1) = -1)
    (h : maskRouteWith pOrder r16 t nValid geneIdx n1 n2 praw g mean1 mean2 = .ok out)
    (ho : IsArgsort pOrder (gather (interestingIdx praw t.pTh) praw))
    (h0 : ∀ x ∈ praw, 0 ≤ x) (h1 : ∀ x ∈ praw, x ≤ 1)
    (i : Nat) (s : GeneScore) (y : Rat) (hn1 : 2 ≤ n1) (hn2 : 2 ≤ n2)
    (hy : (correctTtest praw)[i]? = some y) (hyp : y < t.pTh)
    (hs : g[i]? = some s) (hst : Strict t s)
    (hl : ∀ idx, geneIdx = some idx → i ∈ idx) :
    out.valid[i]? = some true ∧ out.up = upMask mean1 mean2 :=
  ⟨maskRoute_complete h16 h hn1 hn2 hs hst hl
      ((pValid_iff_holm pOrder praw _ ho h0 h1 i).mpr ⟨y, hy, hyp⟩),
   maskRoute_up h⟩

example : (maskRouteWith [1, 0, 2] id th0 1 (some [0, 1, 2]) 5 7 p0 g0 m1 m2).toOption.map (·.valid)
    = some [true, false, false, false] ∧
    (maskRouteWith [1, 0, 2] id th0 0 (some [0, 1, 2]) 1 7 p0 g0 m1 m2).toOption.map (·.valid)
    = some [false, false, false, false] := by decide +kernel

/-! ### worker count / budget -/

/-- "neither route's output depends on worker count or memory budget": in both routes the worker
count and the budget only choose `n_per`, the number of consecutive pairs per worker file; each
row is a function of its pair alone; the merge of the per-chunk sparse tables
(`_lookup_to_sparse` per chunk, `_merge_sparse_by_pair_files`) equals the table built in one
piece, for every chunk size. -/
theorem split_indep {α} (row : α → List Nat) (pairs : List α) (nPer nPer' : Nat) :
    mergeSparse ((chunksOf nPer pairs).map (fun ch => lookupToSparse (ch.map row)))
      = lookupToSparse (pairs.map row) ∧
    mergeSparse ((chunksOf nPer pairs).map (fun ch => lookupToSparse (ch.map row)))
      = mergeSparse ((chunksOf nPer' pairs).map (fun ch => lookupToSparse (ch.map row))) := by
  have key : ∀ n, mergeSparse ((chunksOf n pairs).map (fun ch => lookupToSparse (ch.map row)))
      = lookupToSparse (pairs.map row) := by
    intro n
    have : (chunksOf n pairs).map (fun ch => lookupToSparse (ch.map row))
        = ((chunksOf n pairs).map (List.map row)).map lookupToSparse := by
      rw [List.map_map]; rfl
    rw [this, chunksOf_map, merge_chunks]
  exact ⟨key nPer, (key nPer).trans (key nPer').symm⟩

example : (chunksOf 2 [[1, 2], [], [3], [4, 5, 6], [7]]).length = 3 ∧
    mergeSparse ((chunksOf 2 [[1, 2], [], [3], [4, 5, 6], [7]]).map lookupToSparse)
      = ([0, 2, 2, 3, 6, 7], [1, 2, 3, 4, 5, 6, 7]) := by decide +kernel

/-- "for a pair of leaf clusters": the tables have one row per pair of `itertools.combinations`
of the sorted leaves — for distinct sorted leaves every unordered pair occurs exactly once, as
`(a, b)` with `a < b`, and there are `n (n-1) / 2` rows. -/
theorem pairs_exact (leaves : List Nat) (hs : leaves.Pairwise (· < ·)) :
    (combos2 leaves).Nodup ∧ (∀ a b, (a, b) ∈ combos2 leaves ↔ a ∈ leaves ∧ b ∈ leaves ∧ a < b) ∧
    (combos2 leaves).length = leaves.length * (leaves.length - 1) / 2 :=
  ⟨(combos2_sorted hs).1, (combos2_sorted hs).2, length_combos2 leaves⟩

example : combos2 [0, 1, 2, 3] = [(0, 1), (0, 2), (0, 3), (1, 2), (1, 3), (2, 3)] := by decide

/-! ### no spurious failure (what the fixed D6 / n_valid defects were about) -/

/-- "for all reference statistics …, all threshold settings with each strict threshold above its
floor, all gene lists": `score_differential_genes` returns (never raises) whenever there is at
least one gene and the arrays have one entry per gene — whatever `n_valid`, cluster sizes, gene
list, exact or approximate test. -/
theorem no_error (pOrder : List Nat) (c : Config) (n1 n2 : Nat) (praw : List Rat)
    (g : List GeneScore) (mean1 mean2 : List Rat) (ht : ThresholdsOK c.th) (hg : g ≠ [])
    (hp : praw.length = g.length) :
    ∃ out, scoreCoreWith pOrder c n1 n2 praw g mean1 mean2 = .ok out :=
  scoreCore_total pOrder c n1 n2 mean1 mean2 ht hg hp

/-- the same for one pair of the p-value-mask route: no `IndexError` for `n_valid > n_genes`
(fix 6815ee0), no error for clusters of one cell -/
theorem mask_no_error (pOrder : List Nat) (r16 : Rat → Rat) (t : Thresholds) (nValid : Nat)
    (geneIdx : Option (List Nat)) (n1 n2 : Nat) (praw : List Rat) (g : List GeneScore)
    (mean1 mean2 : List Rat) (ht : ThresholdsOK t) (hg : g ≠ []) :
    ∃ out, maskRouteWith pOrder r16 t nValid geneIdx n1 n2 praw g mean1 mean2 = .ok out :=
  maskRoute_total pOrder r16 nValid geneIdx n1 n2 praw mean1 mean2 ht hg

/-- "all worker counts": every chunk handed to a mask-route worker — a run of `k ≥ 0`
consecutive pair indices starting anywhere, in particular a single pair (the last chunk when
`n_pairs ≡ 1 mod n_per`, or a 2-leaf taxonomy) — passes the workers' consecutive-pairs test
(fix 9252ab1; before it `k = 1` raised). -/
theorem chunk_consecutive_ok (a k : Nat) : consecutiveCheck (List.range' a k) = .ok () :=
  consecutive_ok a k

/-- the chunk size of `create_sparse_by_pair_marker_file` is a positive multiple of 8 for every
number of pairs and workers (so every `col0` is a multiple of 8, as the workers insist) -/
theorem nPer_multiple_of_8 (nPairs nProc : Nat) :
    nPerMain nPairs nProc % 8 = 0 ∧ 8 ≤ nPerMain nPairs nProc :=
  nPerMain_mod8 nPairs nProc

example : ThresholdsOK th0 ∧ g0 ≠ [] ∧ p0.length = g0.length ∧
    consecutiveCheck [104] = .ok () ∧ nPerMain 105 4 = 8 ∧ nPerMain 105 1 = 48 := by
  refine ⟨?_, by decide, by decide, by decide +kernel, by decide, by decide⟩
  unfold ThresholdsOK th0; norm_num

end CTM.C11
