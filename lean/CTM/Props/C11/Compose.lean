/-
  C11, composed clauses — so far "checked on the written files" only:

  (a) "the pair-major and gene-major tables are exact transposes"
  (b) "neither route's output depends on worker count or memory budget"

  proved here by composing the reference-marker model with group B's sparse
  model (`C13.transpose_correct`, `C13.v2_eq`: the on-disk transposition, serial
  or parallel, any budget, with or without a value array, is the transpose) and
  group H1's process model (`C04.sorted_keys_exact`: per-chunk files keyed by
  their first index and merged in sorted key order give the dispatch-order
  sequence for every completion order).  Definitions and adapter lemmas:
  `CTM/Lemmas/RefMarkersCompose.lean`.

  Reading guide: a pair-major table is `lookupToSparse rows` (`rows[i]` = the
  gene indices recorded for pair `i`, as `np.where` lists them); `toMat` views it
  as B's `Mat Unit` (`data_tag = None`); `byGeneTable nProc nGenes B` is
  `add_sparse_by_gene_markers_to_file` for one direction; `geneRow out g` is row
  `g` of the gene-major table; `pairsOfGene rows g` = the pairs whose row
  contains `g`, ascending.  `tableJobs` / `maskJobs` = the worker files in
  dispatch order, keyed by `col0` / `min_row`; `done` = the same files in the
  order the workers completed.
-/
import CTM.Props.C11
import CTM.Lemmas.RefMarkersCompose

namespace CTM.C11
open CTM.Holm CTM.RefMarkers CTM.Sparse CTM.Chunking CTM.Procs

/-! ### (a) the gene-major table is the exact transpose -/

/-- "the pair-major and gene-major tables are exact transposes": for a pair-major
table whose rows are strictly increasing gene lists below `nGenes` (what
`np.where` produces), for **every worker count** `nProc ≥ 1` (serial code path for
1, `transpose_sparse_matrix_on_disk_v2` otherwise) and **every budget** with
chunk sizes `≥ 1`, the gene-major table is written without error and
* its pointer array has `nGenes + 1` entries, starts at 0, is non-decreasing and
  ends at the number of recorded (pair, gene) incidences (`WFptr`), which is also
  the length of its index array;
* row `g` lists exactly the pairs `i` with `g ∈ rows[i]` — the same incidences —
* in strictly increasing order (sorted and unique). -/
theorem by_gene_is_transpose (rows : List (List Nat)) (nGenes nProc : Nat) (B : Budget)
    (hg : 1 ≤ nGenes) (hp : 1 ≤ nProc) (hlo : 1 ≤ B.lo) (hc : 1 ≤ B.loCount)
    (hr : ∀ r ∈ rows, ∀ g ∈ r, g < nGenes) (hn : ∀ r ∈ rows, r.Pairwise (· < ·)) :
    ∃ out, byGeneTable nProc nGenes B (lookupToSparse rows) = .ok out ∧
      WFptr out.indptr nGenes rows.flatten.length ∧
      out.indices.length = rows.flatten.length ∧
      (∀ g, g < nGenes →
        (∀ i, i ∈ geneRow out g ↔ ∃ h : i < rows.length, g ∈ rows[i]) ∧
        (geneRow out g).Pairwise (· < ·)) := by
  obtain ⟨out, e, w, l, hrow⟩ := byGene_table rows nGenes nProc B hg hp hlo hc hr hn
  refine ⟨out, e, w, l, ?_⟩
  intro g hg'
  rw [hrow g hg']
  exact ⟨fun i => mem_pairsOfGene, pairsOfGene_sorted rows g⟩

/-- non-vacuity (test on a sample): 3 pairs × 3 genes, serial and with 2 workers -/
example : byGeneTable 1 3 ⟨1, 1, 1⟩ (lookupToSparse [[0, 2], [1], [0, 2]])
      = .ok ⟨[0, 2, 3, 5], [0, 2, 1, 0, 2], [(), (), (), (), ()]⟩ ∧
    byGeneTable 2 3 ⟨2, 3, 1⟩ (lookupToSparse [[0, 2], [1], [0, 2]])
      = .ok ⟨[0, 2, 3, 5], [0, 2, 1, 0, 2], [(), (), (), (), ()]⟩ ∧
    pairsOfGene [[0, 2], [1], [0, 2]] 2 = [0, 2] := by decide

/-- (3) the budget: whatever `max_gb` (the three floats `0.8*max_gb`, a third of
it, the rest) and whatever the dtypes of the arrays, the chunk sizes the
transposition derives are `≥ 100`, so the theorem above applies: the gene-major
table does not depend on `max_gb`, nor on the worker count. -/
theorem by_gene_any_max_gb (rows : List (List Nat)) (nGenes : Nat)
    (hg : 1 ≤ nGenes)
    (hr : ∀ r ∈ rows, ∀ g ∈ r, g < nGenes) (hn : ∀ r ∈ rows, r.Pairwise (· < ·))
    (nProc nProc' : Nat) (hp : 1 ≤ nProc) (hp' : 1 ≤ nProc')
    (countGb loadGb elGb countGb' loadGb' elGb' : Rat) (db ib xb db' ib' xb' : Nat) :
    byGeneTable nProc nGenes (Budget.of countGb loadGb elGb db ib xb) (lookupToSparse rows)
      = byGeneTable nProc' nGenes (Budget.of countGb' loadGb' elGb' db' ib' xb')
          (lookupToSparse rows) ∧
    ∃ out, byGeneTable nProc nGenes (Budget.of countGb loadGb elGb db ib xb) (lookupToSparse rows)
      = .ok out ∧ ∀ g, g < nGenes → geneRow out g = pairsOfGene rows g := by
  obtain ⟨f1, f2, _⟩ := CTM.C13.budget_floor countGb loadGb elGb db ib xb
  obtain ⟨f1', f2', _⟩ := CTM.C13.budget_floor countGb' loadGb' elGb' db' ib' xb'
  have hM : ∀ x ∈ (toMat (lookupToSparse rows)).indices, x < nGenes := by
    intro x hx
    simp only [toMat, lookupToSparse] at hx
    obtain ⟨r, hr1, hr2⟩ := List.mem_flatten.mp hx
    exact hr r hr1 x hr2
  have hlen : (toMat (lookupToSparse rows)).data.length
      = (toMat (lookupToSparse rows)).indices.length := by simp [toMat]
  -- every variant equals the serial transposition with the first budget
  have key : ∀ (n : Nat) (Bx : Budget), 1 ≤ n → 1 ≤ Bx.lo → 1 ≤ Bx.loCount →
      byGeneTable n nGenes Bx (lookupToSparse rows)
        = transposeOnDisk (toMat (lookupToSparse rows)) nGenes none
            (Budget.of countGb loadGb elGb db ib xb) := by
    intro n Bx hn1 h1 h2
    unfold byGeneTable
    split
    · rw [← CTM.C13.v2_eq _ nGenes 1 Bx (Budget.of countGb loadGb elGb db ib xb) hg (Nat.le_refl 1)
        h1 h2 (by omega) (by omega) hlen hM]
      exact (CTM.C13.v2_eq _ nGenes 1 Bx Bx hg (Nat.le_refl 1) h1 h2 h1 h2 hlen hM).symm
    · exact CTM.C13.v2_eq _ nGenes n Bx _ hg hn1 h1 h2 (by omega) (by omega) hlen hM
  constructor
  · rw [key nProc _ hp (by omega) (by omega), key nProc' _ hp' (by omega) (by omega)]
  · obtain ⟨out, e, _, _, hrow⟩ := byGene_table rows nGenes nProc
      (Budget.of countGb loadGb elGb db ib xb) hg hp (by omega) (by omega) hr hn
    exact ⟨out, e, hrow⟩

example : (Budget.of 0 0 0 1 8 8).lo = 100 := by decide +kernel

/-- … for the up **and** the down table of a whole taxonomy: `outs[i]` is the
validity / direction of pair `i` (`score_differential_genes` or the mask route);
both gene-major tables are written, their rows list exactly the pairs for which
the gene is recorded up (down), and **"no gene both up and down for a pair"
transfers to the gene-major tables**. -/
theorem by_gene_no_both (outs : List Out) (nGenes nProc : Nat) (B : Budget)
    (hg : 1 ≤ nGenes) (hp : 1 ≤ nProc) (hlo : 1 ≤ B.lo) (hc : 1 ≤ B.loCount)
    (hlen : ∀ o ∈ outs, o.valid.length ≤ nGenes) :
    ∃ gU gD,
      byGeneTable nProc nGenes B (lookupToSparse (outs.map (fun o => (upDown o).1))) = .ok gU ∧
      byGeneTable nProc nGenes B (lookupToSparse (outs.map (fun o => (upDown o).2))) = .ok gD ∧
      ∀ g, g < nGenes → ∀ i,
        (i ∈ geneRow gU g ↔ ∃ h : i < outs.length, g ∈ (upDown outs[i]).1) ∧
        (i ∈ geneRow gD g ↔ ∃ h : i < outs.length, g ∈ (upDown outs[i]).2) ∧
        ¬ (i ∈ geneRow gU g ∧ i ∈ geneRow gD g) := by
  have hrows : ∀ (f : Out → List Bool), (∀ o, (f o).length ≤ o.valid.length) →
      (∀ r ∈ outs.map (fun o => whereTrue (f o)), ∀ g ∈ r, g < nGenes) ∧
      (∀ r ∈ outs.map (fun o => whereTrue (f o)), r.Pairwise (· < ·)) := by
    intro f hf
    constructor
    · intro r hr g hgr
      obtain ⟨o, ho, rfl⟩ := List.mem_map.mp hr
      have := whereTrue_lt _ g hgr
      have := hf o
      have := hlen o ho
      omega
    · intro r hr
      obtain ⟨o, _, rfl⟩ := List.mem_map.mp hr
      exact whereTrue_sorted _
  have hU := hrows (fun o => andL o.valid o.up) (by intro o; rw [length_andL]; omega)
  have hD := hrows (fun o => andL o.valid (o.up.map not)) (by intro o; rw [length_andL]; omega)
  obtain ⟨gU, eU, _, _, rU⟩ := by_gene_is_transpose _ nGenes nProc B hg hp hlo hc hU.1 hU.2
  obtain ⟨gD, eD, _, _, rD⟩ := by_gene_is_transpose _ nGenes nProc B hg hp hlo hc hD.1 hD.2
  refine ⟨gU, gD, eU, eD, ?_⟩
  intro g hg' i
  have a := (rU g hg').1 i
  have b := (rD g hg').1 i
  simp only [List.length_map, List.getElem_map] at a b
  refine ⟨a, b, ?_⟩
  rintro ⟨h1, h2⟩
  obtain ⟨hi, m1⟩ := a.mp h1
  obtain ⟨_, m2⟩ := b.mp h2
  exact (no_both outs[i] g).1 ⟨m1, m2⟩

/-- **"its direction is the sign of the difference of means" transfers to the
gene-major tables**: if pair `i` was scored by `score_differential_genes` and
gene `g` is valid for it, pair `i` is listed in row `g` of the *up* gene-major
table iff `mean2 > mean1`, and in row `g` of the *down* table otherwise. -/
theorem by_gene_direction (outs : List Out) (nGenes nProc : Nat) (B : Budget)
    (hg : 1 ≤ nGenes) (hp : 1 ≤ nProc) (hlo : 1 ≤ B.lo) (hc : 1 ≤ B.loCount)
    (hlen : ∀ o ∈ outs, o.valid.length ≤ nGenes) (gU gD : Mat Unit)
    (eU : byGeneTable nProc nGenes B (lookupToSparse (outs.map (fun o => (upDown o).1))) = .ok gU)
    (eD : byGeneTable nProc nGenes B (lookupToSparse (outs.map (fun o => (upDown o).2))) = .ok gD)
    (i : Nat) (hi : i < outs.length)
    (pOrder : List Nat) (c : Config) (n1 n2 : Nat) (praw : List Rat) (gs : List GeneScore)
    (mean1 mean2 : List Rat)
    (hscore : scoreCoreWith pOrder c n1 n2 praw gs mean1 mean2 = .ok outs[i])
    (g : Nat) (hgn : g < nGenes) (a b : Rat) (ha : mean1[g]? = some a) (hb : mean2[g]? = some b)
    (hv : outs[i].valid[g]? = some true) :
    (i ∈ geneRow gU g ↔ a < b) ∧ (i ∈ geneRow gD g ↔ ¬ a < b) := by
  obtain ⟨gU', gD', eU', eD', h⟩ := by_gene_no_both outs nGenes nProc B hg hp hlo hc hlen
  rw [eU] at eU'; rw [eD] at eD'
  cases eU'; cases eD'
  obtain ⟨hu, hd, _⟩ := h g hgn i
  obtain ⟨d1, d2⟩ := direction pOrder c n1 n2 praw gs mean1 mean2 outs[i] hscore g a b ha hb hv
  constructor
  · rw [hu, ← d1]
    exact ⟨fun ⟨_, m⟩ => m, fun m => ⟨hi, m⟩⟩
  · rw [hd, ← d2]
    exact ⟨fun ⟨_, m⟩ => m, fun m => ⟨hi, m⟩⟩

/-! ### (b) worker count, chunk size, completion order -/

/-- "neither route's output depends on worker count or memory budget", pair-major
tables of **both routes** (they share `_write_to_tmp_file`, the dict
`tmp_path_dict[col0]` and `_merge_sparse_by_pair_files`): the workers' files are
keyed by the first pair index of their chunk, the dict is filled in completion
order, the merge visits `sorted(keys)` (integers).  For every chunk size
`n_per ≥ 1` — whatever `n_processors`, `max_gb`, the number of genes made of it —
and **every completion order** `done` of the worker files, the merged table is the
table of all pairs built in one piece; so any two settings and any two completion
orders give the same table. -/
theorem route_worker_indep {α} (row : α → List Nat) (pairs : List α) (nPer nPer' : Nat)
    (h : 1 ≤ nPer) (h' : 1 ≤ nPer')
    (done done' : List (Nat × (List Nat × List Nat)))
    (hd : done.Perm (tableJobs row nPer pairs)) (hd' : done'.Perm (tableJobs row nPer' pairs)) :
    mergeTables done = some (lookupToSparse (pairs.map row)) ∧
    mergeTables done = mergeTables done' := by
  have e := mergeTables_exact row nPer h pairs done hd
  have e' := mergeTables_exact row nPer' h' pairs done' hd'
  exact ⟨e, e.trans e'.symm⟩

/-- … in particular for the chunk size of `create_sparse_by_pair_marker_file`,
for any two worker counts. -/
theorem route_worker_indep_main {α} (row : α → List Nat) (pairs : List α) (nProc nProc' : Nat)
    (done done' : List (Nat × (List Nat × List Nat)))
    (hd : done.Perm (tableJobs row (nPerMain pairs.length nProc) pairs))
    (hd' : done'.Perm (tableJobs row (nPerMain pairs.length nProc') pairs)) :
    mergeTables done = mergeTables done' :=
  (route_worker_indep row pairs _ _
    (by have := (nPer_multiple_of_8 pairs.length nProc).2; omega)
    (by have := (nPer_multiple_of_8 pairs.length nProc').2; omega) done done' hd hd').2

/-- non-vacuity (test on a sample): 5 pairs, chunks of 2, files completed in the
order 4, 0, 2 -/
example : tableJobs id 2 [[1, 2], [], [3], [4, 5, 6], [7]]
      = [(0, ([0, 2, 2], [1, 2])), (2, ([0, 1, 4], [3, 4, 5, 6])), (4, ([0, 1], [7]))] ∧
    mergeTables [(4, ([0, 1], [7])), (0, ([0, 2, 2], [1, 2])), (2, ([0, 1, 4], [3, 4, 5, 6]))]
      = some ([0, 2, 2, 3, 6, 7], [1, 2, 3, 4, 5, 6, 7]) := by decide +kernel

/-- the whole main / mask route for one direction, end to end: chunk size,
completion order of the marker workers, worker count and budget of the
transposition — none of them changes the gene-major table, which is the exact
transpose of the table of all pairs. -/
theorem route_end_to_end {α} (row : α → List Nat) (pairs : List α) (nGenes : Nat)
    (hg : 1 ≤ nGenes)
    (hr : ∀ p ∈ pairs, ∀ g ∈ row p, g < nGenes) (hn : ∀ p ∈ pairs, (row p).Pairwise (· < ·))
    (nPer nProc : Nat) (B : Budget) (h : 1 ≤ nPer) (hp : 1 ≤ nProc) (hlo : 1 ≤ B.lo)
    (hc : 1 ≤ B.loCount)
    (done : List (Nat × (List Nat × List Nat))) (hd : done.Perm (tableJobs row nPer pairs)) :
    ∃ out, (mergeTables done).map (byGeneTable nProc nGenes B) = some (.ok out) ∧
      ∀ g, g < nGenes → geneRow out g = pairsOfGene (pairs.map row) g := by
  rw [mergeTables_exact row nPer h pairs done hd]
  obtain ⟨out, e, _, _, hrow⟩ := byGene_table (pairs.map row) nGenes nProc B hg hp hlo hc
    (by intro r hr' g hgr; obtain ⟨p, hp', rfl⟩ := List.mem_map.mp hr'; exact hr p hp' g hgr)
    (by intro r hr'; obtain ⟨p, hp', rfl⟩ := List.mem_map.mp hr'; exact hn p hp')
  exact ⟨out, by rw [Option.map_some, e], hrow⟩

/-- the **p-value mask file** likewise: every `_p_values_worker` writes the CSR
arrays of its block of rows, `_merge_masks` files them under
`idx_to_path[min_row]` and visits `sorted(keys)` — the **numeric** first row.
For every chunk size `n_per ≥ 1` and every completion order the merged file is
the canonical CSR matrix of all rows (pointer array = prefix sums of the row
lengths, indices and distances concatenated in pair order). -/
theorem mask_file_worker_indep {β} (rows : List (List (Nat × β))) (nPer nPer' : Nat)
    (h : 1 ≤ nPer) (h' : 1 ≤ nPer') (done done' : List (Nat × Mat β))
    (hd : done.Perm (maskJobs nPer rows)) (hd' : done'.Perm (maskJobs nPer' rows)) :
    mergeMasks done = some (ofSegs (rows.map maskSeg)) ∧ mergeMasks done = mergeMasks done' := by
  have e := mergeMasks_exact nPer h rows done hd
  have e' := mergeMasks_exact nPer' h' rows done' hd'
  exact ⟨e, e.trans e'.symm⟩

example : maskJobs 2 [[(1, 5), (2, 6)], [], [(0, 7)]]
      = [(0, ⟨[0, 2, 2], [1, 2], [5, 6]⟩), (2, ⟨[0, 1], [0], [7]⟩)] ∧
    mergeMasks [(2, (⟨[0, 1], [0], [7]⟩ : Mat Nat)), (0, ⟨[0, 2, 2], [1, 2], [5, 6]⟩)]
      = some ⟨[0, 2, 2, 3], [1, 2, 0], [5, 6, 7]⟩ := by decide +kernel

/-- the order of the keys matters and it must be the numeric one: the merge in
key order `keyOrder` is the join of the files in that order, so it equals the
mask of all rows only if `keyOrder` lists the keys ascending.  Sorting the keys
*as strings* (what sorting the scratch file names `columns_8_16_…`,
`columns_16_24_…`, `columns_104_112_…` does) puts 104 before 16 before 8: -/
example : lexSortKeys [8, 16, 104] = [104, 16, 8] ∧ sortKeys [8, 16, 104] = [8, 16, 104] := by
  decide

/-- … and the file merged in that order is a different (wrong) file: the three
one-row worker files with first rows 8, 16, 104 (test on a sample). -/
example :
    let done : List (Nat × Mat Nat) :=
      [(8, ⟨[0, 1], [3], [30]⟩), (16, ⟨[0, 2], [1, 4], [10, 40]⟩), (104, ⟨[0, 1], [2], [20]⟩)]
    mergeMasks done = some ⟨[0, 1, 3, 4], [3, 1, 4, 2], [30, 10, 40, 20]⟩ ∧
    mergeMasksBy lexSortKeys done = some ⟨[0, 1, 3, 4], [2, 1, 4, 3], [20, 10, 40, 30]⟩ ∧
    mergeMasksBy lexSortKeys done ≠ mergeMasks done ∧
    mergeTablesBy lexSortKeys [(8, ([0, 1], [3])), (16, ([0, 2], [1, 4])), (104, ([0, 1], [2]))]
      ≠ mergeTables [(8, ([0, 1], [3])), (16, ([0, 2], [1, 4])), (104, ([0, 1], [2]))] := by
  decide

/-- stated as a theorem: a key order satisfies the conclusion of
`mask_file_worker_indep` for *every* set of worker files only if it is the
ascending order — the string order of the keys 8, 16, 104 does not. -/
theorem lexicographic_key_order_breaks_merge :
    ∃ (rows : List (List (Nat × Nat))) (done : List (Nat × Mat Nat)),
      (done.map (·.1)).Pairwise (· < ·) ∧
      mergeMasks done = some (ofSegs (rows.map maskSeg)) ∧
      mergeMasksBy lexSortKeys done ≠ some (ofSegs (rows.map maskSeg)) :=
  ⟨[[(3, 30)], [(1, 10), (4, 40)], [(2, 20)]],
   [(8, ⟨[0, 1], [3], [30]⟩), (16, ⟨[0, 2], [1, 4], [10, 40]⟩), (104, ⟨[0, 1], [2], [20]⟩)],
   by decide, by decide, by decide⟩

end CTM.C11
