/-
  Property C07 — "Mapping is invariant to count scale, declared normalisation,
  gene order" — stated about the model `CTM/Model/Normalize.lean` (with
  `nameToIdx` of `CTM/Model/Markers.lean`) for ALL matrices, scale factors,
  column permutations, extra genes, HDF5 chunk shapes.

  What reaches the mapper of a cell is `prepareChunk` (normalise on the full
  gene set if raw, then down-select to the markers by name) followed by a
  per-node `selectData` by name; every theorem below says that this is
  unchanged — exactly, on `Rat`, with `log2(1 + ·)` an arbitrary function `f` —
  under the relation the property names.  The float side of the relations
  that perturb floats (scale, declared) is compared on real runs only
  (harness/props/c07.py).

  Vocabulary (CTM/Lemmas/Normalize.lean):
    `ColumnsRelabelled m m'`  row by row, the (gene, value) pairs of `m'` are a
                    permutation of those of `m` plus extra pairs
    `IsMinOf v l`   `v ∈ l` and `v ≤` every element of `l`
-/
import CTM.Lemmas.Normalize

namespace CTM.C07
open CTM CTM.Normalize CTM.Markers

/-! ## count scale -/

/-- "multiplying a raw cell by any positive constant does not change its
mapping": counts per million of `k • x` are those of `x`, exactly (non-negative
counts, as the negative check guarantees; an all-zero cell included). -/
theorem cpm_scale (k : Rat) (hk : 0 < k) (x : List Rat) (hnn : ∀ v ∈ x, 0 ≤ v) :
    cpmRow (x.map (fun v => k * v)) = cpmRow x :=
  cpmRow_scale k hk x hnn

/-- ... for a whole matrix with its own positive factor per cell: the
normalised matrix (`to_log2CPM_in_place`, any `log2(1+·)`) is the same. -/
theorem log2cpm_scale (f : Rat → Rat) (m : CBG) (ks : List Rat) (hlen : ks.length = m.data.length)
    (hk : ∀ k ∈ ks, 0 < k) (hnn : ∀ row ∈ m.data, ∀ v ∈ row, 0 ≤ v) :
    CBG.toLog2CPM f { m with data := (m.data.zip ks).map (fun p => p.1.map (fun v => p.2 * v)) } =
      CBG.toLog2CPM f m := by
  have key : ∀ (data : List (List Rat)) (ks : List Rat), ks.length = data.length →
      (∀ k ∈ ks, 0 < k) → (∀ row ∈ data, ∀ v ∈ row, 0 ≤ v) →
      convertToCpm ((data.zip ks).map (fun p => p.1.map (fun v => p.2 * v))) = convertToCpm data := by
    intro data
    induction data with
    | nil => intro ks _ _ _; simp [convertToCpm]
    | cons row rows ih =>
      intro ks hl hk hnn
      cases ks with
      | nil => simp at hl
      | cons k ks =>
        simp only [List.zip_cons_cons, List.map_cons, convertToCpm] at ih ⊢
        rw [cpmRow_scale k (hk k (by simp)) row (hnn row (by simp)),
          ih ks (by simpa using hl) (fun k' hk' => hk k' (by simp [hk']))
            (fun r hr => hnn r (by simp [hr]))]
  unfold CBG.toLog2CPM
  simp only [key m.data ks hlen hk hnn]

/-- "multiplying a raw cell by any positive constant does not change its
mapping" — at the matrix the mapper receives: the prepared chunk of the scaled
raw matrix (own positive factor per cell) is the prepared chunk of the matrix. -/
theorem prepare_chunk_scale (f : Rat → Rat) (data : List (List Rat)) (width : Nat) (genes allM : List Gene)
    (ks : List Rat) (hlen : ks.length = data.length) (hk : ∀ k ∈ ks, 0 < k)
    (hnn : ∀ row ∈ data, ∀ v ∈ row, 0 ≤ v) :
    prepareChunk f ((data.zip ks).map (fun p => p.1.map (fun v => p.2 * v))) width genes .raw allM =
      prepareChunk f data width genes .raw allM := by
  unfold prepareChunk CBG.make
  by_cases hw : (genes.length != width) = true
  · simp [hw]
  · by_cases hd : RawTree.hasDup genes = true
    · simp [hw, hd]
    · have hne : (Norm.raw != Norm.log2CPM) = true := by decide
      simp only [hw, hd, Bool.false_eq_true, if_false, hne, if_true]
      have := log2cpm_scale f { data := data, genes := genes, norm := .raw } ks hlen hk hnn
      simp only at this
      rw [this]


/-! ## gene order, extra genes: columns are addressed by name -/

/-- "Permuting the gene columns of the query file together with their names ...
leaves the result bitwise unchanged" — raw input: the chunk handed to the
mapper (normalised on the full gene set, down-selected to the markers) is the
same matrix. -/
theorem gene_perm_raw (f : Rat → Rat) (data data' : List (List Rat)) (width : Nat)
    (genes genes' allM : List Gene) (hw : genes.length = width) (hw' : genes'.length = width)
    (hn : genes.Nodup) (hn' : genes'.Nodup)
    (hrowlen : ∀ row ∈ data, row.length = width) (hrowlen' : ∀ row ∈ data', row.length = width)
    (hlen : data.length = data'.length)
    (hperm : ∀ p ∈ data.zip data', (genes'.zip p.2).Perm (genes.zip p.1))
    (hsub : ∀ g ∈ genes, g ∈ genes') (hsel : ∀ g ∈ allM, g ∈ genes) :
    prepareChunk f data' width genes' .raw allM = prepareChunk f data width genes .raw allM :=
  prepareChunk_raw_permuted f data data' width genes genes' allM hw hw' hn hn' hrowlen hrowlen' hlen
    hperm hsub hsel

/-- "... or (for normalised input) adding or removing genes that are not
markers or not in the reference, leaves the result bitwise unchanged" —
normalised input: permuting the columns with their names AND inserting columns
of genes that are not among the selected ones gives the same chunk. -/
theorem gene_perm_extra_normalised (f : Rat → Rat) (data data' : List (List Rat)) (width width' : Nat)
    (genes genes' allM : List Gene) (hw : genes.length = width) (hw' : genes'.length = width')
    (hn : genes.Nodup) (hn' : genes'.Nodup)
    (hrowlen : ∀ row ∈ data, genes.length ≤ row.length)
    (hrel : ColumnsRelabelled { data := data, genes := genes, norm := .log2CPM }
                              { data := data', genes := genes', norm := .log2CPM })
    (hsub : ∀ g ∈ genes, g ∈ genes') (hsel : ∀ g ∈ allM, g ∈ genes) :
    prepareChunk f data' width' genes' .log2CPM allM = prepareChunk f data width genes .log2CPM allM :=
  prepareChunk_log2CPM_relabelled f data data' width width' genes genes' allM hw hw' hn hn' hrowlen hrel
    hsub hsel

/-- the per-node selection (`downsample_genes(query_markers)`) of any matrix is
addressed by name as well: relabelled columns and extra columns are not seen. -/
theorem node_selection_by_name (m m' : CBG) (hn : m.genes.Nodup) (hn' : m'.genes.Nodup)
    (hrowlen : ∀ row ∈ m.data, m.genes.length ≤ row.length)
    (hrel : ColumnsRelabelled m m') (hsub : ∀ g ∈ m.genes, g ∈ m'.genes)
    (sel : List Gene) (hsel : ∀ g ∈ sel, g ∈ m.genes) :
    m'.selectData sel = m.selectData sel :=
  selectData_relabelled m m' hn hn' hrowlen hrel hsub sel hsel

/-- what a node sees (`downsample_genes(query_markers)` of the prepared chunk)
inherits both invariances -/
theorem node_data_gene_perm_raw (f : Rat → Rat) (data data' : List (List Rat)) (width : Nat)
    (genes genes' allM nodeM : List Gene) (hw : genes.length = width) (hw' : genes'.length = width)
    (hn : genes.Nodup) (hn' : genes'.Nodup)
    (hrowlen : ∀ row ∈ data, row.length = width) (hrowlen' : ∀ row ∈ data', row.length = width)
    (hlen : data.length = data'.length)
    (hperm : ∀ p ∈ data.zip data', (genes'.zip p.2).Perm (genes.zip p.1))
    (hsub : ∀ g ∈ genes, g ∈ genes') (hsel : ∀ g ∈ allM, g ∈ genes) :
    nodeData f data' width genes' .raw allM nodeM = nodeData f data width genes .raw allM nodeM := by
  unfold nodeData
  rw [gene_perm_raw f data data' width genes genes' allM hw hw' hn hn' hrowlen hrowlen' hlen hperm hsub hsel]

theorem node_data_gene_perm_extra_normalised (f : Rat → Rat) (data data' : List (List Rat))
    (width width' : Nat) (genes genes' allM nodeM : List Gene) (hw : genes.length = width)
    (hw' : genes'.length = width') (hn : genes.Nodup) (hn' : genes'.Nodup)
    (hrowlen : ∀ row ∈ data, genes.length ≤ row.length)
    (hrel : ColumnsRelabelled { data := data, genes := genes, norm := .log2CPM }
                              { data := data', genes := genes', norm := .log2CPM })
    (hsub : ∀ g ∈ genes, g ∈ genes') (hsel : ∀ g ∈ allM, g ∈ genes) :
    nodeData f data' width' genes' .log2CPM allM nodeM =
      nodeData f data width genes .log2CPM allM nodeM := by
  unfold nodeData
  rw [gene_perm_extra_normalised f data data' width width' genes genes' allM hw hw' hn hn' hrowlen hrel
    hsub hsel]


/-! ## declared normalisation; normalise before down-selecting -/

/-- "Declaring raw counts and letting the mapper normalise them gives the same
result as supplying the log2(CPM+1) values and declaring them normalised": the
prepared chunk of (raw, X) is the prepared chunk of (log2CPM, normalise X). -/
theorem declared (f : Rat → Rat) (data : List (List Rat)) (width : Nat) (genes allM : List Gene) :
    (prepareChunk f data width genes .raw allM).map (fun c => (c.data, c.genes, c.norm)) =
      (prepareChunk f ((convertToCpm data).map (fun r => r.map f)) width genes .log2CPM allM).map
        (fun c => (c.data, c.genes, c.norm)) := by
  unfold prepareChunk CBG.make
  have hne : (Norm.raw != Norm.log2CPM) = true := by decide
  have h1 : (Norm.raw != Norm.raw) = false := by decide
  have h2 : (Norm.log2CPM != Norm.log2CPM) = false := by decide
  by_cases hw : (genes.length != width) = true
  · simp [hw, Except.map]
  · by_cases hd : RawTree.hasDup genes = true
    · simp [hw, hd, Except.map]
    · simp only [hw, hd, Bool.false_eq_true, if_false, hne, if_true, CBG.toLog2CPM, h1, h2,
        CBG.downsampleGenes, CBG.selectData]

/-- "refuse to normalise a matrix already down-selected by gene": after any
down-selection `to_log2CPM_in_place` raises, so CPM can never be computed on a
marker subset. -/
theorem no_renorm_after_downsample (f : Rat → Rat) (m m' : CBG) (sel : List Gene)
    (h : m.downsampleGenes sel = .ok m') (hraw : m'.norm = .raw) :
    m'.toLog2CPM f = .error .genesDownsampled := by
  unfold CBG.downsampleGenes at h
  cases hs : m.selectData sel with
  | error e => simp [hs] at h
  | ok d =>
    simp only [hs, Except.ok.injEq] at h
    subst h
    simp only at hraw
    have h1 : (Norm.raw != Norm.raw) = false := by decide
    simp [CBG.toLog2CPM, hraw, h1]

/-- "normalise on the full gene set before down-selecting to markers": each
value of a raw chunk handed to the mapper is `f (10⁶ · x_g / Σ_all genes x)` —
the denominator is the sum over ALL query genes, not over the markers. -/
theorem normalised_on_full_gene_set (f : Rat → Rat) (data : List (List Rat)) (width : Nat)
    (genes allM : List Gene) (c : CBG) (h : prepareChunk f data width genes .raw allM = .ok c) :
    ∃ idx, colsOf genes allM = .ok idx ∧
      c.data = data.map (fun row => takeCols ((cpmRow row).map f) idx) ∧
      c.genes = allM ∧ c.norm = .log2CPM ∧ c.genesDownsampled = true := by
  unfold prepareChunk at h
  cases hm : CBG.make data width genes .raw with
  | error e => simp [hm] at h
  | ok m =>
    have hmk : m = { data := data, genes := genes, norm := .raw } := by
      unfold CBG.make at hm
      split at hm
      · cases hm
      · split at hm
        · cases hm
        · cases hm; rfl
    subst hmk
    have hne : (Norm.raw != Norm.log2CPM) = true := by decide
    have h1 : (Norm.raw != Norm.raw) = false := by decide
    simp only [hm, hne, if_true, CBG.toLog2CPM, h1, Bool.false_eq_true, if_false,
      CBG.downsampleGenes, CBG.selectData] at h
    by_cases hd : RawTree.hasDup allM = true
    · simp [hd] at h
    · simp only [hd, Bool.false_eq_true, if_false] at h
      cases hc : colsOf genes allM with
      | error e => simp [hc] at h
      | ok idx =>
        simp only [hc, Except.ok.injEq] at h
        subst h
        exact ⟨idx, rfl, by simp [convertToCpm, List.map_map, Function.comp], rfl, rfl, rfl⟩

/-! ## negative raw values are rejected -/

/-- "minimum of X checked before taking logarithms" — sparse encodings: for
EVERY chunk size of the `data` dataset (and for an unchunked one) the minimum
found chunk by chunk is the least stored value. -/
theorem chunked_min_sparse (stored : List Rat) (hne : stored ≠ []) (chunk : Option Nat)
    (hc : ∀ c, chunk = some c → 1 ≤ c) :
    ∃ v, minSparse stored chunk = .ok v ∧ IsMinOf v stored :=
  minSparse_spec stored hne chunk hc

/-- ... dense encoding: for EVERY HDF5 chunk shape (tiles of rows × columns,
doubled while small) the minimum found tile by tile is the least element of
the matrix. -/
theorem chunked_min_dense (X : List (List Rat)) (width : Nat) (hrows : ∀ r ∈ X, r.length ≤ width)
    (hne : X.flatten ≠ []) (chunk : Option (Nat × Nat))
    (hc : ∀ h w, chunk = some (h, w) → 1 ≤ h ∧ 1 ≤ w) :
    ∃ v, minDense X width chunk = .ok v ∧ IsMinOf v X.flatten :=
  minDense_spec X width hrows hne chunk hc

/-- "Raw input containing a negative value is rejected rather than mapped":
whenever the minimum found is the true minimum (previous two theorems) and some
value is negative, the run raises; and it does not raise when all values are
non-negative.  (Signed or float dtype; an unsigned integer dtype cannot hold a
negative value and is accepted without looking.) -/
theorem negative_rejected (vals : List Rat) (v : Rat) (hmin : IsMinOf v vals) :
    ((∃ x ∈ vals, x < 0) → negativeCheck .raw false (.ok v) = .error .negativeRaw) ∧
    ((∀ x ∈ vals, 0 ≤ x) → negativeCheck .raw false (.ok v) = .ok ()) := by
  constructor
  · rintro ⟨x, hx, hneg⟩
    have : v < 0 := lt_of_le_of_lt (hmin.2 x hx) hneg
    simp [negativeCheck, isGeZero, this]
  · intro h
    have : ¬ v < 0 := not_lt.2 (h v hmin.1)
    simp [negativeCheck, isGeZero, this]

/-- end to end for the sparse encodings: a stored negative value, any chunking ⇒
`negativeRaw`; none ⇒ accepted -/
theorem negative_rejected_sparse (stored : List Rat) (hne : stored ≠ []) (chunk : Option Nat)
    (hc : ∀ c, chunk = some c → 1 ≤ c) :
    ((∃ x ∈ stored, x < 0) → negativeCheck .raw false (minSparse stored chunk) = .error .negativeRaw) ∧
    ((∀ x ∈ stored, 0 ≤ x) → negativeCheck .raw false (minSparse stored chunk) = .ok ()) := by
  obtain ⟨v, hv, hmin⟩ := minSparse_spec stored hne chunk hc
  rw [hv]
  exact negative_rejected stored v hmin

/-- end to end for the dense encoding -/
theorem negative_rejected_dense (X : List (List Rat)) (width : Nat) (hrows : ∀ r ∈ X, r.length ≤ width)
    (hne : X.flatten ≠ []) (chunk : Option (Nat × Nat))
    (hc : ∀ h w, chunk = some (h, w) → 1 ≤ h ∧ 1 ≤ w) :
    ((∃ x ∈ X.flatten, x < 0) →
        negativeCheck .raw false (minDense X width chunk) = .error .negativeRaw) ∧
    ((∀ x ∈ X.flatten, 0 ≤ x) → negativeCheck .raw false (minDense X width chunk) = .ok ()) := by
  obtain ⟨v, hv, hmin⟩ := minDense_spec X width hrows hne chunk hc
  rw [hv]
  exact negative_rejected X.flatten v hmin

/-! ## non-vacuity -/

example : cpmRow ([1, 3].map (fun v => (5 : Rat) * v)) = cpmRow [1, 3] :=
  cpm_scale 5 (by decide) [1, 3] (by decide)
example : cpmRow [1, 3] = [250000, 750000] := by norm_num [cpmRow, rowSum]
/-- a column swap with names, raw input: hypotheses of `gene_perm_raw` are met -/
example : prepareChunk id [[4, 3, 1]] 3 [9, 7, 8] .raw [9, 7] =
    prepareChunk id [[3, 1, 4]] 3 [7, 8, 9] .raw [9, 7] :=
  gene_perm_raw id [[3, 1, 4]] [[4, 3, 1]] 3 [7, 8, 9] [9, 7, 8] [9, 7] rfl rfl (by decide) (by decide)
    (by decide) (by decide) rfl (by intro p hp; simp at hp; subst hp; decide) (by decide) (by decide)
example : ([9, 7, 8].zip [(4 : Rat), 3, 1]).Perm ([7, 8, 9].zip [3, 1, 4]) := by decide
/-- an extra gene 5 inserted, normalised input -/
example : ColumnsRelabelled { data := [[3, 1]], genes := [7, 8], norm := .log2CPM }
    { data := [[1, 6, 3]], genes := [8, 5, 7], norm := .log2CPM } :=
  ⟨rfl, by intro p hp; simp at hp; subst hp; exact ⟨[(5, 6)], by decide⟩⟩
example : (minSparse [2, -1, 5, 0] (some 1)) = .ok (-1) := by decide
example : negativeCheck .raw false (minSparse [2, -1, 5, 0] (some 3)) = .error .negativeRaw := by decide
example : negativeCheck .raw false (minDense [[2, 0], [5, -3]] 2 (some (1, 1))) = .error .negativeRaw := by
  decide
example : (CBG.downsampleGenes { data := [[3, 1]], genes := [7, 8], norm := .raw } [8]).toBool = true := by
  decide

end CTM.C07
