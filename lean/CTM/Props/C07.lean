import CTM.Model.Normalize
namespace CTM.C07
theorem placeholder_true : True := trivial
end CTM.C07
