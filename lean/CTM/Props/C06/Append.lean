/-
  C06 — the output of a query is the row-wise concatenation of the outputs of
  its parts.

  "the result for a cell ... is unchanged by ... removing, adding or
  duplicating other cells": stated for whole output LISTS rather than one
  position (`C06.company_independent` is the pointwise form).  Mapping the
  concatenation of two queries — with any chunk sizes, worker counts and
  gathering orders for the three runs — is mapping each part and concatenating,
  including which error comes out first when a part fails; and the output has
  exactly one record per query row.
-/
import CTM.Props.C06

namespace CTM.C06
open CTM CTM.LevelLoop

/-- a successful `mapM` in `Except` keeps the length -/
theorem mapM_length {α β ε} (f : α → Except ε β) : ∀ (rs : List α) (out : List β),
    rs.mapM f = .ok out → out.length = rs.length
  | [], out, h => by
    simp only [List.mapM_nil, pure, Except.pure] at h
    cases h; rfl
  | a :: rs, out, h => by
    simp only [List.mapM_cons, bind, Except.bind, pure, Except.pure] at h
    cases ha : f a with
    | error e => rw [ha] at h; cases h
    | ok b =>
      rw [ha] at h
      cases hr : rs.mapM f with
      | error e => rw [hr] at h; cases h
      | ok bs =>
        rw [hr] at h
        cases h
        simp [mapM_length f rs bs hr]

/-- one record per row, in row order: the output is as long as the query -/
theorem output_length {κ} (t0 t : RawTree) (vote : Oracle κ) (cfg : Config)
    (ids : List CellId) (cells : List κ) (order : List Nat)
    (hrun : runTree t0 cfg = .ok t) (hwf : wfb t = true) (hv : VoteOK t vote)
    (hlen : ids.length = cells.length) (hnd : ids.Nodup)
    (hproc : 1 ≤ cfg.nProc) (hcs : 1 ≤ cfg.chunkSize)
    (horder : order.Perm (List.range
      (chunks cells.length (effChunk cells.length cfg.nProc cfg.chunkSize)).length))
    (out : List Record) (hout : mapPipeline t0 cfg vote ids cells order = .ok out) :
    out.length = cells.length := by
  rw [mapPipeline_spec t0 t cfg vote ids cells order hrun hwf hv hlen hnd hproc hcs horder] at hout
  unfold backfill at hout
  have h := mapM_length _ _ out hout
  simpa [hlen] using h

example : ∀ out,
    mapPipeline exTree { chunkSize := 2, nProc := 2 } exVote [7, 3, 9] [0, 1, 2] [1, 0] = .ok out →
    out.length = 3 :=
  fun out h => output_length exTree exTree exVote { chunkSize := 2, nProc := 2 } [7, 3, 9]
    [0, 1, 2] [1, 0] rfl exTree_wf (exVote_ok _) rfl (by decide) (by decide) (by decide)
    (by decide) out h

/-- "adding ... other cells": the query `A ++ B` maps to (the mapping of `A`)
`++` (the mapping of `B`), whatever the three runs' chunk sizes, worker counts
and gathering orders; if a part fails, the whole fails with the first part's
error first. -/
theorem append_queries {κ} (t0 t : RawTree) (vote : Oracle κ) (cfg cfgA cfgB : Config)
    (idsA idsB : List CellId) (cellsA cellsB : List κ) (order orderA orderB : List Nat)
    (hrun : runTree t0 cfg = .ok t) (hrunA : runTree t0 cfgA = .ok t)
    (hrunB : runTree t0 cfgB = .ok t)
    (hwf : wfb t = true) (hv : VoteOK t vote)
    (hlenA : idsA.length = cellsA.length) (hlenB : idsB.length = cellsB.length)
    (hnd : (idsA ++ idsB).Nodup)
    (hproc : 1 ≤ cfg.nProc) (hprocA : 1 ≤ cfgA.nProc) (hprocB : 1 ≤ cfgB.nProc)
    (hcs : 1 ≤ cfg.chunkSize) (hcsA : 1 ≤ cfgA.chunkSize) (hcsB : 1 ≤ cfgB.chunkSize)
    (horder : order.Perm (List.range
      (chunks (cellsA ++ cellsB).length
        (effChunk (cellsA ++ cellsB).length cfg.nProc cfg.chunkSize)).length))
    (horderA : orderA.Perm (List.range
      (chunks cellsA.length (effChunk cellsA.length cfgA.nProc cfgA.chunkSize)).length))
    (horderB : orderB.Perm (List.range
      (chunks cellsB.length (effChunk cellsB.length cfgB.nProc cfgB.chunkSize)).length)) :
    mapPipeline t0 cfg vote (idsA ++ idsB) (cellsA ++ cellsB) order =
      (do let a ← mapPipeline t0 cfgA vote idsA cellsA orderA
          let b ← mapPipeline t0 cfgB vote idsB cellsB orderB
          pure (a ++ b)) := by
  have hndA : idsA.Nodup := (List.nodup_append.mp hnd).1
  have hndB : idsB.Nodup := (List.nodup_append.mp hnd).2.1
  have hlen : (idsA ++ idsB).length = (cellsA ++ cellsB).length := by
    simp [hlenA, hlenB]
  rw [mapPipeline_spec t0 t cfg vote _ _ order hrun hwf hv hlen hnd hproc hcs horder,
    mapPipeline_spec t0 t cfgA vote _ _ orderA hrunA hwf hv hlenA hndA hprocA hcsA horderA,
    mapPipeline_spec t0 t cfgB vote _ _ orderB hrunB hwf hv hlenB hndB hprocB hcsB horderB]
  unfold backfill
  rw [List.zipWith_append hlenA, List.map_append, List.mapM_append]

example :
    mapPipeline exTree { chunkSize := 2, nProc := 2 } exVote [7, 3, 9] [0, 1, 2] [1, 0] =
      (do let a ← mapPipeline exTree { chunkSize := 1, nProc := 1 } exVote [7] [0] [0]
          let b ← mapPipeline exTree { chunkSize := 5, nProc := 3 } exVote [3, 9] [1, 2] [1, 0]
          pure (a ++ b)) :=
  append_queries exTree exTree exVote _ _ _ [7] [3, 9] [0] [1, 2] _ _ _ rfl rfl rfl exTree_wf
    (exVote_ok _) rfl rfl (by decide) (by decide) (by decide) (by decide) (by decide) (by decide)
    (by decide) (by decide) (by decide) (by decide)

/-- "removing ... other cells": dropping the last `B` rows of a query that
mapped successfully leaves the records of the first rows as they were. -/
theorem remove_suffix {κ} (t0 t : RawTree) (vote : Oracle κ) (cfg cfgA : Config)
    (idsA idsB : List CellId) (cellsA cellsB : List κ) (order orderA : List Nat)
    (hrun : runTree t0 cfg = .ok t) (hrunA : runTree t0 cfgA = .ok t)
    (hwf : wfb t = true) (hv : VoteOK t vote)
    (hlenA : idsA.length = cellsA.length) (hlenB : idsB.length = cellsB.length)
    (hnd : (idsA ++ idsB).Nodup)
    (hproc : 1 ≤ cfg.nProc) (hprocA : 1 ≤ cfgA.nProc)
    (hcs : 1 ≤ cfg.chunkSize) (hcsA : 1 ≤ cfgA.chunkSize)
    (horder : order.Perm (List.range
      (chunks (cellsA ++ cellsB).length
        (effChunk (cellsA ++ cellsB).length cfg.nProc cfg.chunkSize)).length))
    (horderA : orderA.Perm (List.range
      (chunks cellsA.length (effChunk cellsA.length cfgA.nProc cfgA.chunkSize)).length))
    (out : List Record)
    (hout : mapPipeline t0 cfg vote (idsA ++ idsB) (cellsA ++ cellsB) order = .ok out) :
    mapPipeline t0 cfgA vote idsA cellsA orderA = .ok (out.take cellsA.length) := by
  -- run B with the configuration of A (any legitimate one will do)
  have hB := append_queries t0 t vote cfg cfgA cfgA idsA idsB cellsA cellsB order orderA
    (List.range (chunks cellsB.length (effChunk cellsB.length cfgA.nProc cfgA.chunkSize)).length)
    hrun hrunA hrunA hwf hv hlenA hlenB hnd hproc hprocA hprocA hcs hcsA hcsA horder horderA
    (List.Perm.refl _)
  rw [hout] at hB
  cases hA : mapPipeline t0 cfgA vote idsA cellsA orderA with
  | error e => rw [hA] at hB; cases hB
  | ok a =>
    rw [hA] at hB
    cases hB2 : mapPipeline t0 cfgA vote idsB cellsB
        (List.range (chunks cellsB.length (effChunk cellsB.length cfgA.nProc cfgA.chunkSize)).length) with
    | error e => rw [hB2] at hB; cases hB
    | ok b =>
      rw [hB2] at hB
      have hab : out = a ++ b := by
        simpa [bind, Except.bind, pure, Except.pure] using hB
      have hla : a.length = cellsA.length :=
        output_length t0 t vote cfgA idsA cellsA orderA hrunA hwf hv hlenA
          (List.nodup_append.mp hnd).1 hprocA hcsA horderA a hA
      rw [hab, ← hla, List.take_left']
      rfl

example : ∀ out,
    mapPipeline exTree { chunkSize := 2, nProc := 2 } exVote [7, 3, 9] [0, 1, 2] [1, 0] = .ok out →
    mapPipeline exTree { chunkSize := 1, nProc := 1 } exVote [7, 3] [0, 1] [1, 0] = .ok (out.take 2) :=
  fun out h => remove_suffix exTree exTree exVote { chunkSize := 2, nProc := 2 }
    { chunkSize := 1, nProc := 1 } [7, 3] [9] [0, 1] [2] [1, 0] [1, 0] rfl rfl exTree_wf
    (exVote_ok _) rfl rfl (by decide) (by decide) (by decide) (by decide) (by decide) (by decide)
    (by decide) out h

end CTM.C06
