/-
  C06 — bridge to the tree validator.

  The theorems of `CTM/Props/C06.lean` restated with the acceptance of the
  STORED taxonomy by the model of `validate_taxonomy_tree` as the hypothesis
  (`t0.validate = .ok ()`, plus the modelling convention `DictOK t0` for Python
  dict keys: see `CTM/Lemmas/BridgeWF.lean`); the tree the run votes on
  (`runTree t0 cfg`: after `drop_level` / `flatten`) inherits the level loop's
  well-formedness by `Bridge.wfb_runTree`, so no hypothesis on it remains except
  the oracle's (`VoteOK t vote`).
-/
import CTM.Props.C06
import CTM.Lemmas.BridgeWF

namespace CTM.C06
open CTM CTM.LevelLoop CTM.RawTree CTM.Bridge

/-- "cells selected per parent by stored row index and written back by the same
index": on every validator-accepted taxonomy, row `i` of the batch result of
`run_type_assignment` is what the loop returns for that cell alone. -/
theorem rowwise_of_validate {κ} (t : RawTree) (vote : Oracle κ) (cells : List κ)
    (hval : t.validate = .ok ()) (hd : DictOK t)
    (hv : VoteOK t vote)
    (rs : List (List (Level × Entry))) (h : runLevelLoop t vote cells = .ok rs)
    (i : Nat) (c : κ) (hc : cells[i]? = some c) :
    ∃ r, rs[i]? = some r ∧ runLevelLoop t vote [c] = .ok [r] :=
  rowwise t vote cells (wfb_of_validate hval hd) hv rs h i c hc

example : ∀ rs, runLevelLoop exTree exVote [4, 1, 3] = .ok rs →
    ∃ r, rs[1]? = some r ∧ runLevelLoop exTree exVote [1] = .ok [r] :=
  fun rs h => rowwise_of_validate _ _ _ exTree_accepted.1 exTree_accepted.2 (exVote_ok _) rs h 1 1 rfl

/-- "the result for a cell ... is unchanged by reordering the cells of the query
file, by removing, adding or duplicating other cells, and by changing chunk size
or worker count" — for every validator-accepted stored taxonomy and any two
configurations that lead to the same run tree. -/
theorem company_independent_of_validate {κ} (t0 t : RawTree) (vote : Oracle κ)
    (cfg cfg' : Config) (ids ids' : List CellId) (cells cells' : List κ) (order order' : List Nat)
    (hval : t0.validate = .ok ()) (hd : DictOK t0)
    (hrun : runTree t0 cfg = .ok t) (hrun' : runTree t0 cfg' = .ok t)
    (hv : VoteOK t vote)
    (hlen : ids.length = cells.length) (hlen' : ids'.length = cells'.length)
    (hnd : ids.Nodup) (hnd' : ids'.Nodup)
    (hproc : 1 ≤ cfg.nProc) (hproc' : 1 ≤ cfg'.nProc)
    (hcs : 1 ≤ cfg.chunkSize) (hcs' : 1 ≤ cfg'.chunkSize)
    (horder : order.Perm (List.range
      (chunks cells.length (effChunk cells.length cfg.nProc cfg.chunkSize)).length))
    (horder' : order'.Perm (List.range
      (chunks cells'.length (effChunk cells'.length cfg'.nProc cfg'.chunkSize)).length))
    (out out' : List Record)
    (hout : mapPipeline t0 cfg vote ids cells order = .ok out)
    (hout' : mapPipeline t0 cfg' vote ids' cells' order' = .ok out')
    (i j : Nat) (id : CellId) (c : κ)
    (hid : ids[i]? = some id) (hc : cells[i]? = some c)
    (hid' : ids'[j]? = some id) (hc' : cells'[j]? = some c) :
    ∃ o, out[i]? = some o ∧ out'[j]? = some o :=
  company_independent t0 t vote cfg cfg' ids ids' cells cells' order order' hrun hrun'
    (wfb_runTree (wfb_of_validate hval hd) hrun) hv hlen hlen' hnd hnd' hproc hproc'
    hcs hcs' horder horder' out out' hout hout' i j id c hid hc hid' hc'

example : ∀ out out',
    mapPipeline exTree { chunkSize := 2, nProc := 2 } exVote [7, 3, 9] [0, 1, 2] [1, 0] = .ok out →
    mapPipeline exTree { chunkSize := 1, nProc := 1 } exVote [9, 5] [2, 0] [0, 1] = .ok out' →
    ∃ o, out[2]? = some o ∧ out'[0]? = some o :=
  fun out out' h h' => company_independent_of_validate exTree exTree exVote { chunkSize := 2, nProc := 2 }
    { chunkSize := 1, nProc := 1 } [7, 3, 9] [9, 5] [0, 1, 2] [2, 0] [1, 0] [0, 1]
    exTree_accepted.1 exTree_accepted.2 rfl rfl
    (exVote_ok _) rfl rfl (by decide) (by decide) (by decide) (by decide) (by decide) (by decide)
    (by decide) (by decide) out out' h h' 2 0 9 2 rfl rfl rfl rfl

/-- "... and by changing chunk size or worker count": on a validator-accepted
stored taxonomy the same query mapped with any two chunk sizes >= 1, worker
counts >= 1 and gathering orders gives the same output list. -/
theorem chunking_of_validate {κ} (t0 t : RawTree) (vote : Oracle κ)
    (cfg cfg' : Config) (ids : List CellId) (cells : List κ) (order order' : List Nat)
    (hval : t0.validate = .ok ()) (hd : DictOK t0)
    (hrun : runTree t0 cfg = .ok t) (hrun' : runTree t0 cfg' = .ok t)
    (hv : VoteOK t vote)
    (hlen : ids.length = cells.length) (hnd : ids.Nodup)
    (hproc : 1 ≤ cfg.nProc) (hproc' : 1 ≤ cfg'.nProc)
    (hcs : 1 ≤ cfg.chunkSize) (hcs' : 1 ≤ cfg'.chunkSize)
    (horder : order.Perm (List.range
      (chunks cells.length (effChunk cells.length cfg.nProc cfg.chunkSize)).length))
    (horder' : order'.Perm (List.range
      (chunks cells.length (effChunk cells.length cfg'.nProc cfg'.chunkSize)).length)) :
    mapPipeline t0 cfg vote ids cells order = mapPipeline t0 cfg' vote ids cells order' :=
  chunking t0 t vote cfg cfg' ids cells order order' hrun hrun'
    (wfb_runTree (wfb_of_validate hval hd) hrun) hv hlen hnd hproc hproc' hcs hcs'
    horder horder'

example : mapPipeline exTree { chunkSize := 2, nProc := 2 } exVote [7, 3, 9] [0, 1, 2] [1, 0] =
    mapPipeline exTree { chunkSize := 5, nProc := 1 } exVote [7, 3, 9] [0, 1, 2] [0] :=
  chunking_of_validate exTree exTree exVote _ _ _ _ _ _ exTree_accepted.1 exTree_accepted.2 rfl rfl (exVote_ok _) rfl (by decide)
    (by decide) (by decide) (by decide) (by decide) (by decide) (by decide)

/-- "Cells with identical expression vectors therefore receive identical
results" — on every validator-accepted stored taxonomy. -/
theorem identical_cells_of_validate {κ} (t0 t : RawTree) (vote : Oracle κ) (cfg : Config)
    (ids : List CellId) (cells : List κ) (order : List Nat)
    (hval : t0.validate = .ok ()) (hd : DictOK t0)
    (hrun : runTree t0 cfg = .ok t) (hv : VoteOK t vote)
    (hlen : ids.length = cells.length) (hnd : ids.Nodup)
    (hproc : 1 ≤ cfg.nProc) (hcs : 1 ≤ cfg.chunkSize)
    (horder : order.Perm (List.range
      (chunks cells.length (effChunk cells.length cfg.nProc cfg.chunkSize)).length))
    (out : List Record) (hout : mapPipeline t0 cfg vote ids cells order = .ok out)
    (i j : Nat) (idi idj : CellId) (c : κ)
    (hidi : ids[i]? = some idi) (hidj : ids[j]? = some idj)
    (hci : cells[i]? = some c) (hcj : cells[j]? = some c) :
    ∃ oi oj, out[i]? = some oi ∧ out[j]? = some oj ∧ oi.levels = oj.levels :=
  identical_cells t0 t vote cfg ids cells order hrun
    (wfb_runTree (wfb_of_validate hval hd) hrun) hv hlen hnd hproc hcs horder out hout
    i j idi idj c hidi hidj hci hcj

example : ∀ out,
    mapPipeline exTree { chunkSize := 2, nProc := 2 } exVote [7, 3, 9] [5, 1, 5] [1, 0] = .ok out →
    ∃ oi oj, out[0]? = some oi ∧ out[2]? = some oj ∧ oi.levels = oj.levels :=
  fun out h => identical_cells_of_validate exTree exTree exVote { chunkSize := 2, nProc := 2 } [7, 3, 9]
    [5, 1, 5] [1, 0] exTree_accepted.1 exTree_accepted.2 rfl (exVote_ok _) rfl
    (by decide) (by decide) (by decide) (by decide) out h 0 2 7 9 5 rfl rfl rfl rfl

end CTM.C06
