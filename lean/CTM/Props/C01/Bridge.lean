/-
  C01 — bridge to the tree validator.

  The theorems of `CTM/Props/C01.lean` are stated under the level loop's own
  decidable well-formedness `wfb t = true`.  Here the same statements are
  derived with the acceptance of the model of `validate_taxonomy_tree`
  (`RawTree.validate`, the object of C10) as the hypothesis, through
  `CTM/Lemmas/BridgeWF.lean`:

    `t.validate = .ok ()`   the validator accepts the taxonomy
    `DictOK t`              the Python dicts have distinct keys (modelling
                            convention: association lists)
  Nothing else about the taxonomy: distinct level names, a non-empty hierarchy
  and a node at the top level are consequences of acceptance (they were not
  before `fix:` 799c7a6 / 6649211 — the two findings of this bridge).
    `VoteOK t vote`         the oracle returns a child of the parent it is asked about
-/
import CTM.Props.C01
import CTM.Lemmas.BridgeWF

namespace CTM.C01
open CTM CTM.LevelLoop CTM.RawTree CTM.Bridge

/-- "the assignments of a cell form one root-to-leaf path" (mechanism): on every
taxonomy the validator accepts, the batch loop `run_type_assignment` computes,
row by row, the walk of that row's cell. -/
theorem levelLoop_refines_walk_of_validate {κ} (t : RawTree) (vote : Oracle κ) (cells : List κ)
    (hval : t.validate = .ok ()) (hd : DictOK t)
    (hv : VoteOK t vote) :
    runLevelLoop t vote cells = cells.mapM (walk t vote) :=
  levelLoop_refines_walk t vote cells (wfb_of_validate hval hd) hv

example : runLevelLoop exTree exVote [0, 1, 5, 2] = [0, 1, 5, 2].mapM (walk exTree exVote) :=
  levelLoop_refines_walk_of_validate _ _ _ exTree_accepted.1 exTree_accepted.2 (exVote_ok _)

/-- "Every taxonomy the tree validator accepts ... returns exactly one record per
query cell ... with an assignment at every level of the taxonomy. Each
assignment is a node of its level and the assignments of a cell form one
root-to-leaf path of that taxonomy": `validate t = .ok ()` is literally the
hypothesis; the path is stated both in C01's form (`IsRootToLeafPath`:
consecutive assignments related by `child_to_parent`) and in C10's form
(`RawTree.IsPath`: each assignment a listed child of the previous one). -/
theorem path_of_validate {κ} (t : RawTree) (vote : Oracle κ) (cells : List κ)
    (hval : t.validate = .ok ()) (hd : DictOK t)
    (hv : VoteOK t vote) :
    ∃ rs, runLevelLoop t vote cells = .ok rs ∧ rs.length = cells.length ∧
      ∀ r ∈ rs, IsRootToLeafPath t r ∧ IsPath t (r.map (·.2.assignment)) := by
  have w := WF.of_validate hval hd
  obtain ⟨rs, h1, h2, h3⟩ := path t vote cells (WF_wfb w) hv
  exact ⟨rs, h1, h2, fun r hr => ⟨h3 r hr, isPath_of_rootToLeaf w (h3 r hr)⟩⟩

example : ∃ rs, runLevelLoop exTree exVote [3, 4] = .ok rs ∧ rs.length = 2 ∧
    ∀ r ∈ rs, IsRootToLeafPath exTree r ∧ IsPath exTree (r.map (·.2.assignment)) :=
  path_of_validate exTree exVote [3, 4] exTree_accepted.1 exTree_accepted.2 (exVote_ok _)

/-- C01 ∘ C10 (`from_records` / `fromRecordsRaw_paths`): when the taxonomy is
the one `get_taxonomy_tree` builds from per-cell label columns (nested, at least
one cell), "one root-to-leaf path of that taxonomy" means: the tuple of
assignments of every query cell is the label tuple of some reference cell. -/
theorem path_is_reference_record {κ} (cols : List Level) (recs : List (List Node))
    (vote : Oracle κ) (cells : List κ)
    (hc : cols.Nodup) (hne : cols ≠ []) (hr : RecsOK cols recs) (hn : Nested cols recs)
    (hrec : recs ≠ []) (hv : VoteOK (fromRecordsRaw cols recs) vote) :
    ∃ rs, runLevelLoop (fromRecordsRaw cols recs) vote cells = .ok rs ∧ rs.length = cells.length ∧
      ∀ r ∈ rs, r.map (·.2.assignment) ∈ recs := by
  have w := fromRecordsRaw_wf hc hne hr hn hrec
  obtain ⟨rs, h1, h2, h3⟩ := path_of_validate _ vote cells w.valid w.dict hv
  exact ⟨rs, h1, h2, fun r hr' => (fromRecordsRaw_paths hc hne hr hn _).1 (h3 r hr').2⟩

example : ∃ rs, runLevelLoop (fromRecordsRaw [0, 1] [[10, 20], [10, 21], [11, 22]]) exVote [0, 1, 2]
      = .ok rs ∧ rs.length = 3 ∧
    ∀ r ∈ rs, r.map (·.2.assignment) ∈ [[10, 20], [10, 21], [11, 22]] :=
  path_is_reference_record [0, 1] [[10, 20], [10, 21], [11, 22]] exVote [0, 1, 2] (by decide)
    (by decide) (by intro r hr; simp at hr; rcases hr with rfl | rfl | rfl <;> rfl)
    (by
      intro j hj r hr r' hr' h
      have hj0 : j = 0 := by simp at hj; omega
      subst hj0
      simp only [List.mem_cons, List.not_mem_nil, or_false] at hr hr'
      rcases hr with rfl | rfl | rfl <;> rcases hr' with rfl | rfl | rfl <;> simp_all)
    (by simp) (exVote_ok _)

/-- "returns exactly one record per query cell, in the query file's cell order
and carrying that cell's identifier", for every configuration (`drop_level`,
`flatten`, chunk size, worker count) whose run tree exists: the STORED taxonomy
is validator-accepted; the tree of the run inherits well-formedness
(`Bridge.wfb_runTree`). -/
theorem order_ids_of_validate {κ} (t0 t : RawTree) (cfg : Config) (vote : Oracle κ)
    (ids : List CellId) (cells : List κ) (order : List Nat)
    (hval : t0.validate = .ok ()) (hd : DictOK t0)
    (hrun : runTree t0 cfg = .ok t) (hv : VoteOK t vote)
    (hlen : ids.length = cells.length) (hnd : ids.Nodup)
    (hproc : 1 ≤ cfg.nProc) (hcs : 1 ≤ cfg.chunkSize)
    (horder : order.Perm (List.range
      (chunks cells.length (effChunk cells.length cfg.nProc cfg.chunkSize)).length)) :
    mapPipeline t0 cfg vote ids cells order =
      backfill t0.dropCells
        ((List.zipWith (mkRecord t vote) ids cells).map (markDirect t.hierarchy)) ∧
    ∀ out, mapPipeline t0 cfg vote ids cells order = .ok out →
      out.map (·.cellId) = ids ∧ out.length = cells.length :=
  order_ids t0 t cfg vote ids cells order hrun
    (wfb_runTree (wfb_of_validate hval hd) hrun) hv hlen hnd hproc hcs horder

example : ∀ out, mapPipeline exTree { dropLevel := some 1, chunkSize := 2, nProc := 2 } exVote
    [7, 3, 9] [0, 1, 2] [1, 0] = .ok out → out.map (·.cellId) = [7, 3, 9] ∧ out.length = 3 :=
  (order_ids_of_validate exTree exDropped { dropLevel := some 1, chunkSize := 2, nProc := 2 } exVote
    [7, 3, 9] [0, 1, 2] [1, 0] exTree_accepted.1 exTree_accepted.2 (by rfl) (exVote_ok _) rfl (by decide) (by decide) (by decide)
    (by decide)).2

/-- "Every taxonomy the tree validator accepts — whatever its depth, including
parents with a single child and a taxonomy with a single node at the top — is
mapped without error" (run without `drop_level` / `flatten`). -/
theorem no_error_plain_of_validate {κ} (t0 : RawTree) (cfg : Config) (vote : Oracle κ)
    (ids : List CellId) (cells : List κ) (order : List Nat)
    (hdrop : cfg.dropLevel = none) (hflat : cfg.flatten = false)
    (hval : t0.validate = .ok ()) (hd : DictOK t0)
    (hv : VoteOK t0 vote)
    (hlen : ids.length = cells.length) (hnd : ids.Nodup)
    (hproc : 1 ≤ cfg.nProc) (hcs : 1 ≤ cfg.chunkSize)
    (horder : order.Perm (List.range
      (chunks cells.length (effChunk cells.length cfg.nProc cfg.chunkSize)).length)) :
    mapPipeline t0 cfg vote ids cells order =
      .ok ((List.zipWith (mkRecord t0 vote) ids cells).map (markDirect t0.hierarchy)) :=
  no_error_plain t0 cfg vote ids cells order hdrop hflat (wfb_of_validate hval hd) hv
    hlen hnd hproc hcs horder

example : mapPipeline exTree { chunkSize := 2, nProc := 2 } exVote [7, 3, 9] [0, 1, 2] [1, 0] =
    .ok ((List.zipWith (mkRecord exTree exVote) [7, 3, 9] [0, 1, 2]).map (markDirect exTree.hierarchy)) :=
  no_error_plain_of_validate exTree { chunkSize := 2, nProc := 2 } exVote [7, 3, 9] [0, 1, 2] [1, 0]
    rfl rfl exTree_accepted.1 exTree_accepted.2
    (exVote_ok _) rfl (by decide) (by decide) (by decide) (by decide)

/-- "this also holds when the taxonomy is flattened ..., in which case the levels
that were not voted on are inferred from the voted descendant and flagged as not
directly assigned" — for every validator-accepted stored taxonomy. -/
theorem flatten_path_of_validate {κ} (t0 : RawTree) (cfg : Config) (vote : Oracle κ) (ll : Level)
    (ids : List CellId) (cells : List κ) (order : List Nat)
    (hdrop : cfg.dropLevel = none) (hflat : cfg.flatten = true)
    (hleaf : t0.leafLevel = some ll)
    (hval : t0.validate = .ok ()) (hd : DictOK t0)
    (hv : VoteOK t0.flatten vote)
    (hlen : ids.length = cells.length) (hnd : ids.Nodup)
    (hproc : 1 ≤ cfg.nProc) (hcs : 1 ≤ cfg.chunkSize)
    (horder : order.Perm (List.range
      (chunks cells.length (effChunk cells.length cfg.nProc cfg.chunkSize)).length)) :
    ∃ out, mapPipeline t0 cfg vote ids cells order = .ok out ∧ out.length = cells.length ∧
      ∀ o ∈ out, ∃ path : Level → Node,
        (∀ cp ∈ pairsOf t0.hierarchy.reverse,
          t0.childToParent cp.1 (path cp.1) = some (path cp.2)) ∧
        ∀ l ∈ t0.hierarchy, path l ∈ t0.nodesAt l ∧
          ∃ e', o.levels.lookup l = some e' ∧ e'.assignment = path l ∧
            (l ≠ ll → e'.direct = some false ∧ e'.ru = none) :=
  flatten_path t0 cfg vote ll ids cells order hdrop hflat hleaf (wfb_of_validate hval hd)
    hv hlen hnd hproc hcs horder

example : ∃ out, mapPipeline exTree { flatten := true, chunkSize := 2, nProc := 2 } exVote
    [7, 3, 9] [0, 1, 2] [1, 0] = .ok out ∧ out.length = 3 :=
  (fun ⟨out, h1, h2, _⟩ => ⟨out, h1, h2⟩) <| flatten_path_of_validate exTree
    { flatten := true, chunkSize := 2, nProc := 2 } exVote 2 [7, 3, 9] [0, 1, 2]
    [1, 0] rfl rfl (by decide) exTree_accepted.1 exTree_accepted.2 (exVote_ok _) rfl (by decide) (by decide) (by decide) (by decide)

/-- "... or a level is dropped for the run" — for every validator-accepted stored
taxonomy and every level `l` that `drop_level` accepts (the split of the
hierarchy around `l` is derived from the success of `dropLevel`, which refuses
the leaf level). -/
theorem drop_path_of_validate {κ} (t0 t' : RawTree) (cfg : Config) (vote : Oracle κ)
    (l : Level) (ids : List CellId) (cells : List κ) (order : List Nat)
    (hcfg : cfg.dropLevel = some l) (hflat : cfg.flatten = false)
    (hdrop : t0.dropLevel l = .ok t')
    (hval : t0.validate = .ok ()) (hd : DictOK t0)
    (hv : VoteOK t' vote)
    (hlen : ids.length = cells.length) (hnd : ids.Nodup)
    (hproc : 1 ≤ cfg.nProc) (hcs : 1 ≤ cfg.chunkSize)
    (horder : order.Perm (List.range
      (chunks cells.length (effChunk cells.length cfg.nProc cfg.chunkSize)).length)) :
    ∃ out, mapPipeline t0 cfg vote ids cells order = .ok out ∧ out.length = cells.length ∧
      ∀ o ∈ out, ∃ path : Level → Node,
        (∀ cp ∈ pairsOf t0.hierarchy.reverse,
          t0.childToParent cp.1 (path cp.1) = some (path cp.2)) ∧
        ∀ x ∈ t0.hierarchy, path x ∈ t0.nodesAt x ∧
          ∃ e', o.levels.lookup x = some e' ∧ e'.assignment = path x ∧
            (x = l → e'.direct = some false ∧ e'.ru = none) ∧
            (x ≠ l → e'.direct = some true) := by
  obtain ⟨hm, _⟩ := dropLevel_hierarchy hdrop
  obtain ⟨pre, cl, post, hs⟩ := split_of_mem_ne_getLast hm (dropLevel_not_leaf hdrop)
  exact drop_path t0 t' cfg vote l cl pre post ids cells order hcfg hflat hdrop hs
    (wfb_of_validate hval hd) hv hlen hnd hproc hcs horder

example : ∃ out, mapPipeline exTree { dropLevel := some 1, chunkSize := 2, nProc := 2 } exVote
    [7, 3, 9] [0, 1, 2] [1, 0] = .ok out ∧ out.length = 3 :=
  (fun ⟨out, h1, h2, _⟩ => ⟨out, h1, h2⟩) <|
    drop_path_of_validate exTree exDropped { dropLevel := some 1, chunkSize := 2, nProc := 2 } exVote 1
      [7, 3, 9] [0, 1, 2] [1, 0] rfl rfl (by rfl) exTree_accepted.1 exTree_accepted.2 (exVote_ok _) rfl
      (by decide) (by decide) (by decide) (by decide)

/-- "this also holds when the taxonomy is flattened or a level is dropped for the
run" — BOTH at once (`C01.flatten_drop_path`), for every validator-accepted
stored taxonomy and every level `drop_level` accepts: the run never fails,
returns one record per cell, each a root-to-leaf path of the STORED taxonomy,
every level above the leaf level flagged not directly assigned. -/
theorem flatten_drop_path_of_validate {κ} (t0 t' : RawTree) (cfg : Config) (vote : Oracle κ)
    (l ll : Level) (ids : List CellId) (cells : List κ) (order : List Nat)
    (hdrop : t0.dropLevel l = .ok t') (hleaf : t0.leafLevel = some ll)
    (hval : t0.validate = .ok ()) (hd : DictOK t0) (hv : VoteOK t0.flatten vote)
    (hlen : ids.length = cells.length) (hnd : ids.Nodup)
    (hproc : 1 ≤ cfg.nProc) (hcs : 1 ≤ cfg.chunkSize)
    (horder : order.Perm (List.range
      (chunks cells.length (effChunk cells.length cfg.nProc cfg.chunkSize)).length)) :
    ∃ out, mapPipeline t0 { cfg with dropLevel := some l, flatten := true } vote ids cells order
        = .ok out ∧ out.length = cells.length ∧
      ∀ o ∈ out, ∃ path : Level → Node,
        (∀ cp ∈ pairsOf t0.hierarchy.reverse,
          t0.childToParent cp.1 (path cp.1) = some (path cp.2)) ∧
        ∀ x ∈ t0.hierarchy, path x ∈ t0.nodesAt x ∧
          ∃ e', o.levels.lookup x = some e' ∧ e'.assignment = path x ∧
            (x ≠ ll → e'.direct = some false ∧ e'.ru = none) := by
  obtain ⟨hm, _⟩ := dropLevel_hierarchy hdrop
  obtain ⟨pre, cl, post, hs⟩ := split_of_mem_ne_getLast hm (dropLevel_not_leaf hdrop)
  exact flatten_drop_path t0 t' cfg vote l cl ll pre post ids cells order hdrop hs hleaf
    (wfb_of_validate hval hd) hv hlen hnd hproc hcs horder

example : ∃ out, mapPipeline exTree { dropLevel := some 1, flatten := true, chunkSize := 2, nProc := 2 }
    exVote [7, 3, 9] [0, 1, 2] [1, 0] = .ok out ∧ out.length = 3 :=
  (fun ⟨out, h1, h2, _⟩ => ⟨out, h1, h2⟩) <|
    flatten_drop_path_of_validate exTree exDropped { chunkSize := 2, nProc := 2 } exVote 1 2
      [7, 3, 9] [0, 1, 2] [1, 0] (by rfl) (by decide) exTree_accepted.1 exTree_accepted.2
      (exVote_ok _) rfl (by decide) (by decide) (by decide) (by decide)

end CTM.C01
