import CTM.Generated.Resources
namespace CTM.C19
theorem placeholder_true : True := trivial
end CTM.C19
