/-
  C19 -- runs leave inputs untouched, scratch space empty, and do not interfere.

  Model: `CTM/Model/Scratch.lean` (file system = finite map, runs = lists of the operations
  `strace` shows; resource skeletons of the stage functions regenerated from the source into
  `CTM/Generated/Resources.lean`).  Lemmas: `CTM/Lemmas/Scratch.lean`.

  What ties this to /repo: `harness/props/c19.py` -- every traced stage run is checked
  against `footprintOk` (the hypothesis of `frame`, `commute`, `only_outputs_change`,
  `inputs_ro`) and replayed in the model; `translate_res.py` regenerates the skeletons.
-/
import CTM.Lemmas.Scratch
import CTM.Generated.Resources

namespace CTM.C19
open CTM.Scratch CTM.Skeleton

/-- "Its result does not depend on files left in the scratch or output directories by
earlier runs": for every run inside its footprint and every set of `stale` entries that
are neither under a temporary the run creates (its fresh names) nor a declared output or
input, running on top of the stale entries gives the same final state plus the untouched
stale entries, and every operation of the run sees exactly what it sees without them. -/
theorem frame (d : Decl) (run : List Op) (fs stale : FS)
    (hfoot : footprintOk d run = true)
    (hstale : ∀ q, stale q ≠ none →
      under (freshOf run) q = false ∧ q ∉ d.outputs ∧ q ∉ d.inputs) :
    exec (overlay stale fs) run = overlay stale (exec fs run) ∧
    reads (overlay stale fs) run = reads fs run := by
  apply exec_overlay
  intro q hq o ho
  cases ht : o.touches q with
  | false => rfl
  | true =>
    obtain ⟨h1, h2, h3⟩ := hstale q hq
    rcases touches_of_footprint d run hfoot o ho q ht with h | h | h
    · rw [h1] at h; cases h
    · exact absurd h h2
    · exact absurd h h3

example :
    let tmp : Path := ["scratch"]
    let d : Decl := { scratch := [tmp], outputs := [["out", "r.json"]], inputs := [["in", "q.h5ad"]] }
    let run : List Op := [.mkdtemp ["scratch", "buf_a1"], .openRO ["in", "q.h5ad"],
      .write ["scratch", "buf_a1", "chunk"] 1, .openRO ["scratch", "buf_a1", "chunk"],
      .write ["out", "r.json"] 2, .listdir ["scratch", "buf_a1"],
      .unlink ["scratch", "buf_a1", "chunk"], .rmdir ["scratch", "buf_a1"]]
    footprintOk d run = true ∧ under (freshOf run) ["scratch", "buf_stale"] = false := by
  decide

/-- "... nor on other runs using the same directories at the same time": two runs inside
their footprints whose temporaries and outputs are apart from everything the other run may
touch.  Every interleaving `l` of the two ends in the same state as running one after the
other, and each run sees, operation by operation, what it sees running alone. -/
theorem commute (d1 d2 : Decl) (l : List (Bool × Op)) (fs : FS)
    (h1 : footprintOk d1 (proj true l) = true) (h2 : footprintOk d2 (proj false l) = true)
    (sep12 : ∀ q, under (freshOf (proj true l)) q = true ∨ q ∈ d1.outputs →
      under (freshOf (proj false l)) q = false ∧ q ∉ d2.outputs ∧ q ∉ d2.inputs)
    (sep21 : ∀ q, under (freshOf (proj false l)) q = true ∨ q ∈ d2.outputs →
      under (freshOf (proj true l)) q = false ∧ q ∉ d1.outputs ∧ q ∉ d1.inputs) :
    exec fs (untag l) = exec (exec fs (proj true l)) (proj false l) ∧
    readsOf true fs l = reads fs (proj true l) ∧
    readsOf false fs l = reads fs (proj false l) := by
  have hind : IndepRuns (proj true l) (proj false l) := by
    intro a ha b hb q
    constructor
    · intro hw
      cases ht : b.touches q with
      | false => rfl
      | true =>
        have hwq := writes_of_footGo d1 _ [] h1 a ha q hw
        have hs := sep12 q (by simpa using hwq)
        rcases touches_of_footprint d2 _ h2 b hb q ht with h | h | h
        · rw [hs.1] at h; cases h
        · exact absurd h hs.2.1
        · exact absurd h hs.2.2
    · intro hw
      cases ht : a.touches q with
      | false => rfl
      | true =>
        have hwq := writes_of_footGo d2 _ [] h2 b hb q hw
        have hs := sep21 q (by simpa using hwq)
        rcases touches_of_footprint d1 _ h1 a ha q ht with h | h | h
        · rw [hs.1] at h; cases h
        · exact absurd h hs.2.1
        · exact absurd h hs.2.2
  exact ⟨commute_state l fs hind, commute_reads_first l fs hind, commute_reads_second l fs hind⟩

example :
    let d1 : Decl := { scratch := [["s"]], outputs := [["o", "a.json"]], inputs := [["i", "q"]] }
    let d2 : Decl := { scratch := [["s"]], outputs := [["o", "b.json"]], inputs := [["i", "q"]] }
    let l : List (Bool × Op) := [(true, .mkdtemp ["s", "t_1"]), (false, .mkdtemp ["s", "t_2"]),
      (false, .openRO ["i", "q"]), (true, .write ["s", "t_1", "x"] 1), (true, .openRO ["i", "q"]),
      (false, .write ["o", "b.json"] 2), (true, .write ["o", "a.json"] 3),
      (true, .unlink ["s", "t_1", "x"]), (false, .rmdir ["s", "t_2"]), (true, .rmdir ["s", "t_1"])]
    footprintOk d1 (proj true l) = true ∧ footprintOk d2 (proj false l) = true ∧
      freshOf (proj true l) = [["s", "t_1"]] ∧ freshOf (proj false l) = [["s", "t_2"]] := by
  decide

/-- "creates files only at the requested output locations": a run inside its footprint
changes no entry outside its own temporaries and its declared outputs. -/
theorem only_outputs_change (d : Decl) (run : List Op) (fs : FS) (q : Path)
    (hfoot : footprintOk d run = true)
    (hq : under (freshOf run) q = false) (hout : q ∉ d.outputs) :
    exec fs run q = fs q := by
  apply exec_untouched
  intro o ho
  cases hw : o.writes q with
  | false => rfl
  | true =>
    rcases writes_of_footGo d run [] hfoot o ho q hw with h | h
    · rw [List.append_nil, hq] at h; cases h
    · exact absurd h hout

/-- "A pipeline stage reads its input files without modifying them (the query file is
written to only when storing results in it is requested)": an input that is not also a
declared output keeps its entry (kind and content). -/
theorem inputs_ro (d : Decl) (run : List Op) (fs : FS) (q : Path)
    (hfoot : footprintOk d run = true) (_hin : q ∈ d.inputs) (hout : q ∉ d.outputs)
    (hq : under (freshOf run) q = false) :
    exec fs run q = fs q :=
  only_outputs_change d run fs q hfoot hq hout

example :
    let d : Decl := { scratch := [["s"]], outputs := [["o", "a.json"]], inputs := [["i", "q"]] }
    let run : List Op := [.mkstemp ["s", "copy_1.h5ad"], .openRO ["i", "q"],
      .write ["s", "copy_1.h5ad"] 1, .write ["o", "a.json"] 2, .unlink ["s", "copy_1.h5ad"]]
    footprintOk d run = true ∧ (["i", "q"] : Path) ∈ d.inputs ∧ (["i", "q"] : Path) ∉ d.outputs ∧
      under (freshOf run) ["i", "q"] = false := by
  decide

/-- a run that writes its input is *outside* the footprint unless the input is a declared
output (sanity of the discipline: `footprintOk` is not vacuous) -/
example :
    footprintOk { scratch := [["s"]], outputs := [], inputs := [["i", "q"]] }
      [.write ["i", "q"] 1] = false := by
  decide

/-- "leaves nothing behind in the scratch directory": at the level of the file system -- if
an in-footprint run has removed, by the time it ends, everything under the temporaries it
created (their names were fresh: nothing was there before), then every entry that is not a
declared output is exactly as it was before the run: the scratch directory, and everything
else, is restored. -/
theorem scratch_listing_restored (d : Decl) (run : List Op) (fs : FS)
    (hfoot : footprintOk d run = true)
    (hfresh : ∀ q, under (freshOf run) q = true → fs q = none)
    (hgone : ∀ q, under (freshOf run) q = true → exec fs run q = none)
    (q : Path) (hout : q ∉ d.outputs) :
    exec fs run q = fs q := by
  cases hu : under (freshOf run) q with
  | true => rw [hgone q hu, hfresh q hu]
  | false => exact only_outputs_change d run fs q hfoot hu hout

example :
    let d : Decl := { scratch := [["s"]], outputs := [["o", "a.json"]], inputs := [["i", "q"]] }
    let run : List Op := [.mkdtemp ["s", "t_1"], .mkstemp ["s", "t_1", "c_1.h5"], .openRO ["i", "q"],
      .write ["s", "t_1", "c_1.h5"] 1, .write ["o", "a.json"] 2, .listdir ["s", "t_1"],
      .unlink ["s", "t_1", "c_1.h5"], .rmdir ["s", "t_1"]]
    let fs : FS := fun q => if q = ["s"] ∨ q = ["o"] ∨ q = ["i"] then some .dir
      else if q = ["i", "q"] then some (.file 7) else none
    footprintOk d run = true ∧ firstNotOk fs run 0 = none ∧
      exec fs run ["s", "t_1"] = none ∧ exec fs run ["s", "t_1", "c_1.h5"] = none ∧
      exec fs run ["o", "a.json"] = some (.file 2) := by
  decide
/-- "leaves nothing behind in the scratch directory it was given once it has returned; a
mapping run also leaves nothing behind when it ends with an error" -- generic over the
resource-skeleton IR: whatever is live (a temporary created directly under a directory the
caller handed in and not yet cleaned up) after *any* execution of a skeleton -- any branch,
any number of loop rounds, a raise at any call or creation site -- is in the set the
analysis `postL` computes for that kind of exit. -/
theorem may_leak_sound (body : List Stmt) {e : Exit} {σ' : Live}
    (hx : ExecL body [] e σ') : ∀ x ∈ σ', x ∈ (postL body []).get e :=
  postL_sound hx [] (by simp)

/-- ... hence if the analysis says "nothing" for the exits in `exits`, every such execution
restores the scratch directory: nothing is live when the function is left that way. -/
theorem scratch_restored (exits : List Exit) (body : List Stmt)
    (h : restoresOn exits body = true) {e : Exit} {σ' : Live} (he : e ∈ exits)
    (hx : ExecL body [] e σ') : σ' = [] :=
  restoresOn_sound exits body h he hx

/-- the translator marks a `_clean_up(P)` that may hit the CALLER's directory -- `P` is a
scratch parameter re-bound by `P = mkdtemp(dir=P)` somewhere that does not dominate the
clean-up, e.g. inside the `try` whose `finally` cleans `P` -- by creating the reserved slot
`harmSlot`, which nothing ever cleans.  So the same obligation also says: on no path is
something of the caller's removed. -/
def harmSlot : Nat := 1000

theorem caller_dir_never_removed (exits : List Exit) (body : List Stmt)
    (h : restoresOn exits body = true) {e : Exit} {σ' : Live} (he : e ∈ exits)
    (hx : ExecL body [] e σ') : harmSlot ∉ σ' := by
  rw [scratch_restored exits body h he hx]
  simp

/-- the shape of seeded change C19_7 (`mkdtemp` moved inside the `try`) fails the obligation -/
example : restoresOn [.exc] [.tryFinally [.mk 2 0, .call] [.mk harmSlot 0, .clean 2]] = false := by
  decide

/-- non-vacuity: an execution that raises inside the protected region, and the analysis of
a skeleton with the clean-up outside the `finally` (which does leak) -/
example : ExecL [.mk 2 0, .tryFinally [.call] [.clean 2]] [] .exc [] :=
  .consNext (.mkOk 2 0 []) (.consExit (.tryFinally (e := .exc) (e' := .norm)
    (.consExit (.callRaise _) (by decide)) (.consNext (.clean 2 _) (.nil _))) (by decide))
example : restoresOn [.exc] [.mk 2 0, .call, .clean 2] = false := by decide

/-! Per-function obligations on the skeletons regenerated from the current source
(closed terms, decided by the kernel at build time). -/

/-- `validate_h5ad`: scratch restored at every exit, raising or not -/
theorem validateH5ad_restores_always :
    restoresOn [.norm, .ret, .exc] CTM.Generated.validateH5ad = true := by decide

/-- `precompute_summary_stats_from_h5ad_and_lookup`: scratch restored once it has returned -/
theorem precompute_restores_on_return :
    restoresOn [.norm, .ret] CTM.Generated.precompute = true := by decide

/-- `find_markers_for_all_taxonomy_pairs`: scratch restored once it has returned -/
theorem findMarkers_restores_on_return :
    restoresOn [.norm, .ret] CTM.Generated.findMarkers = true := by decide

/-- `run_type_assignment_on_h5ad_cpu`: its `results_buffer_` directory is removed once it
has returned (on an error it is left to the caller, `run_mapping`, which removes the
enclosing `result_buffer_` directory in its `finally`) -/
theorem typeAssignment_restores_on_return :
    restoresOn [.norm, .ret] CTM.Generated.typeAssignment = true := by decide

/-- `run_mapping`: "a mapping run also leaves nothing behind when it ends with an error" --
nothing is live at any exit, raising or not: both the `cell_type_mapper_<timestamp>_`
directory (slot 2) and the `result_buffer_` directory (slot 3) are created inside or
immediately before the `try` whose `finally` cleans them up.  (On the tree before the
`fix:` commits 637c104 and 46a73cc this obligation failed: slot 3 was cleaned inside the
`try` (D2), slot 2 was created before the output-path validity loop, which can raise --
finding `C19/scratch/cell_type_mapper-left-after-error-early`.) -/
theorem runMapping_restores_always :
    restoresOn [.norm, .ret, .exc] CTM.Generated.runMapping = true := by decide

/-- with `scratch_restored`: every execution of the `run_mapping` skeleton, however it ends,
ends with nothing live -/
theorem runMapping_every_path_clean {e : Exit} {σ' : Live}
    (hx : ExecL CTM.Generated.runMapping [] e σ') : σ' = [] := by
  apply scratch_restored [.norm, .ret, .exc] _ runMapping_restores_always _ hx
  cases e <;> simp

/-! Helpers called inside the stages that own a scratch sub-directory (more of the code
inside the model; the property itself speaks of the stages). -/

/-- `find_markers_for_all_taxonomy_pairs_from_p_mask`, `create_p_value_mask_file`,
`amalgamate_h5ad`, `pivot_csr_h5ad`, `transpose_by_way_of_disk`,
`transpose_sparse_matrix_on_disk_v2`: `mkdtemp` directly followed by `try … finally:
_clean_up` -- restored at every exit -/
theorem helpers_restore_always :
    restoresOn [.norm, .ret, .exc] CTM.Generated.findMarkersFromPMask = true ∧
    restoresOn [.norm, .ret, .exc] CTM.Generated.createPValueMask = true ∧
    restoresOn [.norm, .ret, .exc] CTM.Generated.amalgamateH5ad = true ∧
    restoresOn [.norm, .ret, .exc] CTM.Generated.pivotCsrH5ad = true ∧
    restoresOn [.norm, .ret, .exc] CTM.Generated.transposeByWayOfDisk = true ∧
    restoresOn [.norm, .ret, .exc] CTM.Generated.transposeOnDiskV2 = true := by decide

/-- `add_sparse_by_gene_markers_to_file`, `round_x_to_integers`: restored on return -/
theorem helpers_restore_on_return :
    restoresOn [.norm, .ret] CTM.Generated.addSparseByGene = true ∧
    restoresOn [.norm, .ret] CTM.Generated.roundXToIntegers = true := by decide

end CTM.C19
