/-
  C18 × C01 — centroids map home along the WHOLE path, in the composed model
  (`walk` / `mapPipeline` with the interpreted oracle `Compose.electionVote`).
-/
import CTM.Lemmas.ComposeHome
import CTM.Lemmas.ComposeWF

namespace CTM.C18
open CTM CTM.LevelLoop CTM.OutBridge CTM.Election CTM.Numeric CTM.Compose

/-- "A query cell whose log2(CPM+1) profile equals the mean profile of a leaf
cluster is assigned to that leaf and its ancestors with bootstrapping
probability 1 and average correlation 1 at every level where a choice exists,
for any bootstrap factor, whenever no other leaf below the same node is
perfectly correlated with it on the genes used."

`path` = the ancestors of leaf `lf`, top level first, ending with `lf`
(`HomePath`: each is a child of the one before, the only one whose leaves contain
`lf`; at every node of the path that has ≥ 2 children the guard `NodeGuard`
holds: the cell's profile on the node's genes is `lf`'s mean profile, on every
drawn subset it is not constant and no other leaf below the node is perfectly
correlated with it).  Then the one-cell run of the level loop (`walk`, with
the post-loops) succeeds and assigns, at EVERY level, `lf`'s ancestor with
probability 1, aggregate probability 1 and no runner-up; the correlation is 1
at every level as soon as some node on the path offers a choice (single-child
levels inherit it), and null everywhere on a pure chain.  Any subsets (any
bootstrap factor), any tie order. -/
theorem centroid_maps_home_whole_path (P : ElectionParams) (htie : TieOK P) (t : RawTree)
    (x : List Rat) (lf : Node) (path : List (Level × Node))
    (hlev : path.map (·.1) = t.hierarchy) (hp : HomePath P t x lf none path) :
    ∃ r, walk t (electionVote P) x = .ok r ∧ assignments r = path ∧
      ∀ le ∈ r, le.2.prob = 1 ∧ le.2.agg = some 1 ∧ le.2.ru = some ([], [], []) ∧
        (le.2.corr = none ∨ le.2.corr = some 1) ∧
        (ChoiceOnPath t none path → le.2.corr = some 1) := by
  obtain ⟨es, hes, hhome⟩ := walkFrom_home P htie t x lf path none hp
  obtain ⟨h1, h2, h3⟩ := homeWalk_facts t path none es hhome
  rw [hlev] at hes
  refine ⟨LevelLoop.finishCell es, by simp only [walk, hes], ?_, ?_⟩
  · rw [assignments_finishCell, h1]
  · intro le hle
    obtain ⟨f1, f2, f3, f4, f5⟩ := home_finish es h2 le hle
    exact ⟨f1, f2, f3, f4, fun hc => f5 (h3 hc)⟩

/-- the example taxonomy: the centroid of leaf 30, written in the query's gene
order, walks 10 → 20 → 30 with probability 1 and correlation 1 at every level
(node 10 offers the choice; the root and node 20 have a single child) -/
example : ∃ r, walk exTree (electionVote exPHome) [2, 4, 1] = .ok r ∧
    assignments r = [(0, 10), (1, 20), (2, 30)] ∧
    ∀ le ∈ r, le.2.prob = 1 ∧ le.2.corr = some 1 := by
  obtain ⟨r, h1, h2, h3⟩ := centroid_maps_home_whole_path exPHome exPHome_tie exTree [2, 4, 1] 30
    [(0, 10), (1, 20), (2, 30)] rfl exPHome_path
  refine ⟨r, h1, h2, fun le hle => ⟨(h3 le hle).1, (h3 le hle).2.2.2.2 ?_⟩⟩
  exact Or.inr (Or.inl ⟨[21, 20], rfl, by simp⟩)

example : ((walk exTree (electionVote exPHome) [2, 4, 1]).toOption.getD []).map
    (fun le => ((le.1 : Nat), (le.2.assignment : Nat), le.2.prob, le.2.corr, le.2.agg)) =
    [(0, 10, 1, some 1, some 1), (1, 20, 1, some 1, some 1), (2, 30, 1, some 1, some 1)] := by
  decide +kernel

/-- ... with the tree part derived: on a taxonomy the validator accepts, for a
leaf `lf` and a cell `x` for which the guard holds at every node that offers a
choice and has `lf` below it (`GuardBelow`), the way home exists — `path` runs
through all levels, every node on it has `lf` below it — and the one-cell run of
the level loop follows it: `lf`'s ancestor at EVERY level, probability 1,
aggregate probability 1, no runner-up, correlation 1 everywhere as soon as some
node on the path offers a choice. -/
theorem centroid_maps_home_validated (P : ElectionParams) (htie : TieOK P) (t : RawTree)
    (hv : t.validate = .ok ()) (d : RawTree.DictOK t) (hN : t.hierarchy.Nodup)
    (x : List Rat) (lf : Node)
    (hl : lf ∈ t.nodesAt (t.hierarchy[t.hierarchy.length - 1]'(by
      have := RawTree.hierarchy_ne_nil_of_validate hv
      have := List.length_pos_of_ne_nil this
      omega)))
    (hg : GuardBelow P t x lf) :
    ∃ path r, path.map (·.1) = t.hierarchy ∧ (∀ la ∈ path, lf ∈ t.asLeaves la.1 la.2) ∧
      walk t (electionVote P) x = .ok r ∧ assignments r = path ∧
      ∀ le ∈ r, le.2.prob = 1 ∧ le.2.agg = some 1 ∧ le.2.ru = some ([], [], []) ∧
        (le.2.corr = none ∨ le.2.corr = some 1) ∧
        (ChoiceOnPath t none path → le.2.corr = some 1) := by
  obtain ⟨path, h1, h2, h3⟩ := exists_homePath P hv d hN x lf hl hg
  obtain ⟨r, hr, ha, hall⟩ := centroid_maps_home_whole_path P htie t x lf path h1 h2
  exact ⟨path, r, h1, h3, hr, ha, hall⟩

/-- non-vacuity: the (validated) example taxonomy, leaf 30, its centroid -/
example := centroid_maps_home_validated exPHome exPHome_tie exTree (by decide)
  (RawTree.dictOK_of_b (by decide)) (by decide) [2, 4, 1] 30 (by decide) exPHome_guardBelow

/-- the same for the records of the whole pipeline: whatever the chunking,
worker count and gather order, and with `drop_level` / `flatten` (`t` = the
run's tree), the record of a cell for which `HomePath` holds binds every level of
the run's tree to `lf`'s ancestor with probability 1, aggregate 1, no runner-up,
`directly_assigned = True`, and correlation 1 when the path offers a choice. -/
theorem pipeline_centroid_home (t0 t : RawTree) (cfg : Config) (P : ElectionParams)
    (ids : List CellId) (cells : List (List Rat)) (order : List Nat)
    (hwf0 : wfb t0 = true) (hrun : runTree t0 cfg = .ok t) (htie : TieOK P)
    (hlen : ids.length = cells.length) (hnd : ids.Nodup)
    (hproc : 1 ≤ cfg.nProc) (hcs : 1 ≤ cfg.chunkSize)
    (horder : order.Perm (List.range
      (chunks cells.length (effChunk cells.length cfg.nProc cfg.chunkSize)).length))
    (out : List Record)
    (hout : mapPipeline t0 cfg (electionVote P) ids cells order = .ok out) :
    ∀ o ∈ out, ∃ (i : Nat) (id : CellId) (c : List Rat),
      ids[i]? = some id ∧ cells[i]? = some c ∧ o.cellId = id ∧
      ∀ (lf : Node) (path : List (Level × Node)), path.map (·.1) = t.hierarchy →
        HomePath P t c lf none path →
        ∀ la ∈ path, ∃ e, o.levels.lookup la.1 = some e ∧ e.assignment = la.2 ∧
          e.prob = 1 ∧ e.agg = some 1 ∧ e.ru = some ([], [], []) ∧ e.direct = some true ∧
          (ChoiceOnPath t none path → e.corr = some 1) := by
  have rt := runTreeOK_of_runTree hwf0 hrun
  obtain ⟨hv, _⟩ := electionVote_ok t P htie
  have hrec := pipeline_records_idx t0 t cfg (electionVote P) ids cells order hrun rt.wf hv hlen
    hnd hproc hcs horder out hout
  intro o ho
  obtain ⟨i, id, c, hi1, hi2, hc, hid⟩ := hrec o ho
  refine ⟨i, id, c, hi1, hi2, hid, ?_⟩
  intro lf path hlev hp la hla
  obtain ⟨r, hr, hasg, hall⟩ := centroid_maps_home_whole_path P htie t c lf path hlev hp
  have hlk := (cellResult_levels rt hv id c o hc).2.1
  have hmem : la.1 ∈ t.hierarchy := by
    rw [← hlev]; exact List.mem_map.2 ⟨la, hla, rfl⟩
  have hwd : walkD t (electionVote P) c = r := by simp [walkD, hr]
  rw [hlk _ hmem, markDirect_lookup]
  simp only [mkRecord, hwd]
  -- the entry of `r` at level la.1
  obtain ⟨k, hk, hkla⟩ := List.mem_iff_getElem.1 hla
  have hrl : r.length = path.length := by
    have := congrArg List.length hasg; simpa [assignments] using this
  have hkr : k < r.length := by omega
  have hrk : (r[k].1, r[k].2.assignment) = la := by
    have e1 : (assignments r)[k]? = path[k]? := by rw [hasg]
    simp only [assignments, List.getElem?_map, List.getElem?_eq_getElem hkr,
      List.getElem?_eq_getElem hk, Option.map_some, Option.some.injEq] at e1
    rw [e1, hkla]
  have hkeys : (r.map (·.1)).Nodup := by
    have : r.map (·.1) = t.hierarchy := by
      have := congrArg (List.map (fun (q : Level × Node) => q.1)) hasg
      simp only [assignments, List.map_map] at this
      rw [hlev] at this
      exact this
    rw [this]; exact wfb_nodup_hierarchy rt.wf
  have hl1 : r[k].1 = la.1 := by rw [← hrk]
  have hlook : r.lookup la.1 = some r[k].2 := by
    rw [← hl1]; exact lookup_getElem_of_nodup r k hkr hkeys
  obtain ⟨f1, f2, f3, _, f5⟩ := hall r[k] (List.getElem_mem hkr)
  rw [hlook]
  refine ⟨flagDirect t.hierarchy la.1 r[k].2, by simp, ?_⟩
  have hcont : t.hierarchy.contains la.1 = true := List.contains_iff_mem.mpr hmem
  simp only [flagDirect, hcont, if_true]
  exact ⟨by rw [← hrk], f1, f2, f3, trivial, f5⟩

example := pipeline_centroid_home exTree exTree { chunkSize := 1, nProc := 2 } exPHome [7, 3]
  [[2, 4, 1], [2, 9, 2]] [1, 0] exTree_wf rfl exPHome_tie rfl (by decide) (by decide)
  (by decide) (by decide) _
  (mapPipeline_plain_ok exTree { chunkSize := 1, nProc := 2 } (electionVote exPHome) [7, 3]
    [[2, 4, 1], [2, 9, 2]] [1, 0] rfl rfl exTree_wf (electionVote_ok exTree exPHome exPHome_tie).1
    rfl (by decide) (by decide) (by decide) (by decide))

end CTM.C18
