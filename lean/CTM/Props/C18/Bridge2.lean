/-
  C18 × C01 × C10 — `Props/C18/Compose.lean` with the tree validator's
  acceptance as the only hypothesis on the taxonomy.

  * `centroid_maps_home_accepted`: `centroid_maps_home_validated` without
    `hierarchy.Nodup` (a consequence of acceptance since `fix:` 799c7a6).
  * `pipeline_centroid_home_of_validate`: `pipeline_centroid_home` took `wfb t0`
    and, per cell, a `HomePath` in the RUN tree `t` (any `drop_level` /
    `flatten`).  `wfb t0` follows from acceptance of the stored tree; the run
    tree is accepted again (`Bridge.WF_runTree`), so the way home exists and is
    determined by the tree (`Compose.exists_homePath`): the hypothesis left per
    cell is the numerical guard `GuardBelow` only.
-/
import CTM.Props.C18.Compose

namespace CTM.C18
open CTM CTM.LevelLoop CTM.OutBridge CTM.Election CTM.Numeric CTM.Compose CTM.Bridge

/-- "A query cell whose log2(CPM+1) profile equals the mean profile of a leaf
cluster is assigned to that leaf and its ancestors with bootstrapping
probability 1 and average correlation 1 at every level where a choice exists"
— on every taxonomy the validator accepts (`ll` its leaf level), for a leaf `lf`
and a cell `x` for which the guard holds at every node that offers a choice and
has `lf` below it. -/
theorem centroid_maps_home_accepted (P : ElectionParams) (htie : TieOK P) (t : RawTree)
    (hv : t.validate = .ok ()) (d : RawTree.DictOK t) (x : List Rat) (lf : Node) (ll : Level)
    (hll : t.leafLevel = some ll) (hl : lf ∈ t.nodesAt ll) (hg : GuardBelow P t x lf) :
    ∃ path r, path.map (·.1) = t.hierarchy ∧ (∀ la ∈ path, lf ∈ t.asLeaves la.1 la.2) ∧
      walk t (electionVote P) x = .ok r ∧ assignments r = path ∧
      ∀ le ∈ r, le.2.prob = 1 ∧ le.2.agg = some 1 ∧ le.2.ru = some ([], [], []) ∧
        (le.2.corr = none ∨ le.2.corr = some 1) ∧
        (ChoiceOnPath t none path → le.2.corr = some 1) := by
  have hne := RawTree.hierarchy_ne_nil_of_validate hv
  have hpos := List.length_pos_of_ne_nil hne
  have hidx : ll = t.hierarchy[t.hierarchy.length - 1]'(by omega) := by
    have h := hll
    simp only [RawTree.leafLevel, List.getLast?_eq_getElem?] at h
    rw [List.getElem?_eq_getElem (by omega)] at h
    exact (Option.some.inj h).symm
  subst hidx
  exact centroid_maps_home_validated P htie t hv d (RawTree.hierarchy_nodup_of_validate hv) x lf hl
    hg

/-- non-vacuity: the (validated) example taxonomy, leaf 30, its centroid -/
example := centroid_maps_home_accepted exPHome exPHome_tie exTree (by decide)
  (RawTree.dictOK_of_b (by decide)) [2, 4, 1] 30 2 (by decide) (by decide) exPHome_guardBelow

/-- the same for the records of the whole pipeline, with the acceptance of the
STORED taxonomy as the only tree hypothesis: whatever the chunking, worker count
and gather order, and with any `drop_level` / `flatten` (`t` = the run's tree,
`ll` its leaf level), the record of a cell `c` binds — for EVERY leaf `lf` of the
run's tree for which the guard `GuardBelow P t c lf` holds — every level of the
run's tree to `lf`'s ancestor (the path exists and every node on it has `lf`
below it) with probability 1, aggregate 1, no runner-up, `directly_assigned =
True`, and correlation 1 when the path offers a choice. -/
theorem pipeline_centroid_home_of_validate (t0 t : RawTree) (cfg : Config) (P : ElectionParams)
    (ids : List CellId) (cells : List (List Rat)) (order : List Nat)
    (hval : t0.validate = .ok ()) (hd : RawTree.DictOK t0) (hrun : runTree t0 cfg = .ok t)
    (htie : TieOK P)
    (hlen : ids.length = cells.length) (hnd : ids.Nodup)
    (hproc : 1 ≤ cfg.nProc) (hcs : 1 ≤ cfg.chunkSize)
    (horder : order.Perm (List.range
      (chunks cells.length (effChunk cells.length cfg.nProc cfg.chunkSize)).length))
    (out : List Record)
    (hout : mapPipeline t0 cfg (electionVote P) ids cells order = .ok out) :
    ∀ o ∈ out, ∃ (i : Nat) (id : CellId) (c : List Rat),
      ids[i]? = some id ∧ cells[i]? = some c ∧ o.cellId = id ∧
      ∀ (lf : Node) (ll : Level), t.leafLevel = some ll → lf ∈ t.nodesAt ll →
        GuardBelow P t c lf →
        ∃ path : List (Level × Node), path.map (·.1) = t.hierarchy ∧
          (∀ la ∈ path, lf ∈ t.asLeaves la.1 la.2) ∧
          ∀ la ∈ path, ∃ e, o.levels.lookup la.1 = some e ∧ e.assignment = la.2 ∧
            e.prob = 1 ∧ e.agg = some 1 ∧ e.ru = some ([], [], []) ∧ e.direct = some true ∧
            (ChoiceOnPath t none path → e.corr = some 1) := by
  have w := WF_runTree (RawTree.WF.of_validate hval hd) hrun
  have h := pipeline_centroid_home t0 t cfg P ids cells order (wfb_of_validate hval hd) hrun htie
    hlen hnd hproc hcs horder out hout
  intro o ho
  obtain ⟨i, id, c, h1, h2, h3, h4⟩ := h o ho
  refine ⟨i, id, c, h1, h2, h3, ?_⟩
  intro lf ll hll hl hg
  have hpos := List.length_pos_of_ne_nil w.hNe
  have hidx : ll = t.hierarchy[t.hierarchy.length - 1]'(by omega) := by
    have h := hll
    simp only [RawTree.leafLevel, List.getLast?_eq_getElem?] at h
    rw [List.getElem?_eq_getElem (by omega)] at h
    exact (Option.some.inj h).symm
  subst hidx
  obtain ⟨path, hp1, hp2, hp3⟩ := exists_homePath P w.valid w.dict w.hNodup c lf hl hg
  exact ⟨path, hp1, hp3, h4 lf path hp1 hp2⟩

/-- non-vacuity: the example taxonomy, the parameters `exPHome`; the first cell
is the centroid of leaf 30, for which the guard holds (`exPHome_guardBelow`) -/
example := pipeline_centroid_home_of_validate exTree exTree { chunkSize := 1, nProc := 2 } exPHome
  [7, 3] [[2, 4, 1], [2, 9, 2]] [1, 0] (by decide) (RawTree.dictOK_of_b (by decide)) rfl exPHome_tie
  rfl (by decide) (by decide) (by decide) (by decide) _
  (mapPipeline_plain_ok exTree { chunkSize := 1, nProc := 2 } (electionVote exPHome) [7, 3]
    [[2, 4, 1], [2, 9, 2]] [1, 0] rfl rfl exTree_wf (electionVote_ok exTree exPHome exPHome_tie).1
    rfl (by decide) (by decide) (by decide) (by decide))

example : exTree.leafLevel = some 2 ∧ (30 : Node) ∈ exTree.nodesAt 2 ∧
    GuardBelow exPHome exTree [2, 4, 1] 30 := ⟨by decide, by decide, exPHome_guardBelow⟩

end CTM.C18
