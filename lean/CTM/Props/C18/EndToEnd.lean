/-
  C18, files in: a query row equal BY GENE NAME to the mean profile the
  statistics file holds for a leaf maps home along the whole path.  Group F's
  name tables (`Props/C18/Names.lean`), group E's marker cache (`C08.spec`) and
  the composed election model (`Props/C18/Compose.lean`) put together.
-/
import CTM.Lemmas.EndToEnd
import CTM.Props.C18.Compose
import CTM.Props.C18.Names
import CTM.Props.C02.EndToEnd

namespace CTM.C18
open CTM CTM.LevelLoop CTM.OutBridge CTM.Election CTM.Numeric CTM.Compose
open CTM.Markers CTM.StageFiles CTM.EndToEnd

/-- "A query cell whose log2(CPM+1) profile equals the mean profile of a leaf
cluster is assigned to that leaf and its ancestors with bootstrapping
probability 1 and average correlation 1 at every level where a choice exists,
for any bootstrap factor, whenever no other leaf below the same node is
perfectly correlated with it on the genes used" — with the FILES as inputs.

Statistics file `f` (stored taxonomy validated; every leaf has a row; `col_names`
distinct), marker table `lk` whose cache is written (`cacheOf … = .ok`), query
gene names `Q` in ANY order.  The cell `x` equals, gene name by gene name, the
mean profile `f` holds for the leaf `lf` (`SameByName`: for every query column
named `g` that is also a reference gene, `x`'s value = `meanByName f lf g` =
row `cluster_to_row[lf]`, column `col_names.index(g)`).  Under the separation
part of the guard at every parent with a choice that has `lf` below it
(`SeparationBelow`: no raise, `lf`'s profile on the node's genes not constant on
any drawn subset, no other leaf below the node perfectly correlated with it),
the one-cell run of the level loop with the file-level election assigns `lf`'s
ancestor at EVERY level with probability 1, aggregate probability 1, no
runner-up, and correlation 1 everywhere as soon as the path offers a choice.
That the cell's profile on the node's genes IS the leaf's reference row — the
`query` clause of the guard — is derived from the files (`nodeQuery_eq_refRow`:
C08.spec pairs the columns by name, F reads the means by name). -/
theorem centroid_end_to_end (f : StatsFile) (lk : Lookup) (Q : List Gene) (rp : RunParams)
    (hv : f.tree.validate = .ok ()) (hN : f.tree.hierarchy.Nodup) (d : RawTree.DictOK f.tree)
    (hfile : FileOK f) (hcn : f.colNames.Nodup) (c : Cache)
    (hcache : cacheOf f lk Q rp.minMarkers = .ok c)
    (htie : ∀ p x V, ValidOrder V (rp.tie p x V))
    (x : List Rat) (lf : Leaf) (hl : lf ∈ leavesOf f.tree)
    (hsame : SameByName f Q x lf)
    (hsep : SeparationBelow (fileParams f lk Q rp) f.tree x lf) :
    ∃ path r, path.map (·.1) = f.tree.hierarchy ∧
      (∀ la ∈ path, lf ∈ f.tree.asLeaves la.1 la.2) ∧
      walk f.tree (electionVote (fileParams f lk Q rp)) x = .ok r ∧ assignments r = path ∧
      ∀ le ∈ r, le.2.prob = 1 ∧ le.2.agg = some 1 ∧ le.2.ru = some ([], [], []) ∧
        (le.2.corr = none ∨ le.2.corr = some 1) ∧
        (ChoiceOnPath f.tree none path → le.2.corr = some 1) := by
  have hT := Bridge.treeWF_of_WF (RawTree.WF.of_validate hv d)
  have hg := guardBelow_of_files f lk Q rp hT hfile hcn c hcache x lf hl hsame hsep
  have h0 : 0 < f.tree.hierarchy.length :=
    List.length_pos_of_ne_nil (RawTree.hierarchy_ne_nil_of_validate hv)
  exact centroid_maps_home_validated (fileParams f lk Q rp) (fun p x V => htie p x V) f.tree hv d
    hN x lf (by rw [← leavesOf_eq_last f.tree h0]; exact hl) hg

/-- the whole chain — first stage, marker stage, mapper, election.  The
statistics file is the one the model's first stage writes (`writeStats`) for the
validated taxonomy `t` and the reference cells `files`, afterwards rearranged by
ANY row permutation `σ` and gene permutation `π`; the query lists its genes in
any order `Q`.  A query row whose value in the column named `g` is the mean,
over exactly the cells the taxonomy lists for leaf `lf`, of gene `g`
(`memberMean`, F's `names_consistent_written_any_order`) maps home along the
whole path under the separation guard. -/
theorem centroid_end_to_end_written (σ π : List Nat) (t : RawTree) (genes : List Gene)
    (files : List (Nat × List Stats.CellRec)) (rows nProc : Nat) (f : StatsFile) (ll : Level)
    (lk : Lookup) (Q : List Gene) (rp : RunParams)
    (hrows : 1 ≤ rows) (hproc : 1 ≤ nProc) (hv : t.validate = .ok ()) (hN : t.hierarchy.Nodup)
    (d : RawTree.DictOK t) (hll : t.leafLevel = some ll)
    (hdisj : (t.level ll).Pairwise (fun a b => ∀ c ∈ a.2, c ∉ b.2))
    (hg : ∀ fl ∈ files, ∀ cell ∈ fl.2, cell.vals.length = genes.length) (hn : genes.Nodup)
    (h : writeStats t genes files rows nProc = .ok f)
    (hσ : IsPerm σ f.data.length) (hπ : IsPerm π genes.length) (c : Cache)
    (hcache : cacheOf (permuteGenes π (permuteRows σ f)) lk Q rp.minMarkers = .ok c)
    (htie : ∀ p x V, ValidOrder V (rp.tie p x V))
    (x : List Rat) (lf : Leaf) (hl : lf ∈ leavesOf t) (hx : x.length = Q.length)
    (hsame : ∀ (q : Nat) (g : Gene) (j : Nat), Q[q]? = some g → nameToIdx genes g = some j →
      x.getD q 0 = memberMean t ll files lf j)
    (hsep : SeparationBelow (fileParams (permuteGenes π (permuteRows σ f)) lk Q rp) t x lf) :
    ∃ path r, path.map (·.1) = t.hierarchy ∧ (∀ la ∈ path, lf ∈ t.asLeaves la.1 la.2) ∧
      walk t (electionVote (fileParams (permuteGenes π (permuteRows σ f)) lk Q rp)) x = .ok r ∧
      assignments r = path ∧
      ∀ le ∈ r, le.2.prob = 1 ∧ le.2.agg = some 1 ∧ le.2.ru = some ([], [], []) ∧
        (le.2.corr = none ∨ le.2.corr = some 1) ∧
        (ChoiceOnPath t none path → le.2.corr = some 1) := by
  have hkeys : (t.nodesAt ll).Nodup := d.nodesAt_nodup ll
  obtain ⟨hfok, hmean⟩ := names_consistent_written_any_order σ π t genes files rows nProc f ll
    hrows hproc hll hkeys hdisj hg h hn hσ hπ
  obtain ⟨_, hcol, htree, _, _⟩ :=
    names_consistent_written t genes files rows nProc f ll hrows hproc hll hkeys hdisj hg h
  have htree' : (permuteGenes π (permuteRows σ f)).tree = t := htree
  have hcols : (permuteGenes π (permuteRows σ f)).colNames = permuteList π genes := by
    show permuteList π (permuteRows σ f).colNames = _
    rw [show (permuteRows σ f).colNames = f.colNames from rfl, hcol]
  have hsameN : SameByName (permuteGenes π (permuteRows σ f)) Q x lf := by
    refine ⟨hx, ?_⟩
    intro q g hq hgm
    rw [hcols, permuteList_mem π genes hπ] at hgm
    obtain ⟨j, hj⟩ := nameToIdx_of_mem genes g hgm
    rw [hmean lf hl g j hj, hsame q g j hq hj]
  have := centroid_end_to_end (permuteGenes π (permuteRows σ f)) lk Q rp
    (by rw [htree']; exact hv) (by rw [htree']; exact hN) (by rw [htree']; exact d) hfok
    (by rw [hcols]; exact permuteList_nodup π genes hπ hn) c hcache htie x lf
    (by rw [htree']; exact hl) hsameN (by rw [htree']; exact hsep)
  rw [htree'] at this
  exact this

/-! ## non-vacuity: group F's example file `Ex.f0`, the marker table and query
gene order of `C02.ExE2E`, the cell `[3, 1, 2]` = the centroid of leaf 30 written
in the query's gene order (9, 7, 5) -/

namespace ExE2E

def rpH : RunParams :=
  { subsets := fun p _ => if p = none then [[0, 1, 2], [0, 1, 2]] else [[0, 1]],
    corrOf := fun _ _ _ _ => 1, tie := fun _ _ V => stableTie V, nAssign := 2, minMarkers := 1 }

abbrev P := fileParams Ex.f0 C02.ExE2E.lk C02.ExE2E.Q rpH

theorem sep : SeparationBelow P Ex.f0.tree [3, 1, 2] 30 := by
  have key : ∀ p ∈ Ex.f0.tree.allParents, ∀ l ∈ Ex.f0.tree.hierarchy,
      (match Ex.f0.tree.children p with
       | .ok kids => decide (2 ≤ kids.length) &&
           decide ((30 : Node) ∈ (nodeRows (kidsOf Ex.f0.tree l kids)).1)
       | .error _ => false) = true →
      (p = none ∧ l = 0) ∨ (p = some (0, 10) ∧ l = 1) := by decide
  intro p hp l hl kids hk h2 hin
  rcases key p hp l hl (by rw [hk]; simp [h2, hin]) with ⟨rfl, rfl⟩ | ⟨rfl, rfl⟩
  · have h' : Ex.f0.tree.children none = .ok [11, 10] := rfl
    rw [h'] at hk; cases hk
    refine ⟨⟨by simp [P, fileParams, rpH], ?_, by decide, by simp [P, fileParams, rpH]⟩,
      by decide +kernel, ?_⟩
    · intro s hs i hi
      have : s = [0, 1, 2] := by simpa [P, fileParams, rpH] using hs
      subst this
      have hq : (P.qcols none).length = 3 := by decide +kernel
      have hr : (P.rcols none).length = 3 := by decide +kernel
      rw [hq, hr]
      simp at hi; omega
    · intro it j _; simp [P, fileParams, rpH]
  · have h' : Ex.f0.tree.children (some (0, 10)) = .ok [31, 30] := rfl
    rw [h'] at hk; cases hk
    refine ⟨⟨by simp [P, fileParams, rpH], ?_, by decide, by simp [P, fileParams, rpH]⟩,
      by decide +kernel, ?_⟩
    · intro s hs i hi
      have : s = [0, 1] := by simpa [P, fileParams, rpH] using hs
      subst this
      have hq : (P.qcols (some (0, 10))).length = 2 := by decide +kernel
      have hr : (P.rcols (some (0, 10))).length = 2 := by decide +kernel
      rw [hq, hr]
      simp at hi; omega
    · intro it j _; simp [P, fileParams, rpH]

end ExE2E

theorem ExE2E.same : SameByName Ex.f0 C02.ExE2E.Q [3, 1, 2] 30 := by
  refine ⟨rfl, ?_⟩
  intro q g hq _
  match q, hq with
  | 0, hq => simp [C02.ExE2E.Q] at hq; subst hq; decide +kernel
  | 1, hq => simp [C02.ExE2E.Q] at hq; subst hq; decide +kernel
  | 2, hq => simp [C02.ExE2E.Q] at hq; subst hq; decide +kernel
  | q + 3, hq => simp [C02.ExE2E.Q] at hq

example (c : Cache) (hc : cacheOf Ex.f0 C02.ExE2E.lk C02.ExE2E.Q 1 = .ok c) :=
  centroid_end_to_end Ex.f0 C02.ExE2E.lk C02.ExE2E.Q ExE2E.rpH (by rfl) (by decide)
    (RawTree.dictOK_of_b (by decide)) (fileOK_of_check _ (by decide +kernel)) (by decide) c hc
    (fun _ _ V => stableTie_valid V) [3, 1, 2] 30 (by decide) ExE2E.same ExE2E.sep

example : (cacheOf Ex.f0 C02.ExE2E.lk C02.ExE2E.Q 1).toOption.isSome = true := by decide +kernel

example : ((walk Ex.f0.tree (electionVote ExE2E.P) [3, 1, 2]).toOption.getD []).map
    (fun le => ((le.1 : Nat), (le.2.assignment : Nat), le.2.prob, le.2.corr, le.2.agg)) =
    [(0, 10, 1, some 1, some 1), (1, 30, 1, some 1, some 1)] := by decide +kernel

end CTM.C18
