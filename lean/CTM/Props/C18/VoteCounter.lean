/-
  C18 × C16 — the vote counter of `tally_votes` can hold a unanimous vote.

  `tally_votes` allocates `votes` with `choose_int_dtype((0, bootstrap_iteration))`
  (the ladder `Generated.intLadder` is regenerated from the source by
  `./check C16`).  A centroid that wins every iteration collects exactly
  `bootstrap_iteration` votes — the largest count there is — and "bootstrapping
  probability 1" is that count divided by `bootstrap_iteration`.  The theorems
  say that the dtype chosen for `(0, n)` stores every count `0 … n` unchanged
  (no wrap-around), for every `n` up to the widest rung, and for EVERY ladder
  the translator may regenerate that still ends in a rung reaching 2^64-1
  (`ladder_exists`).  (Seeded change C18_9 sizes the counter for `(0, n - 1)`:
  at `n = 256` / `65536` the count `n` is then outside the rung; the harness
  family 255/256/257 of `harness/props/c18.py` exhibits it on the real code.)
  Integer bounds (`floatBits = none`): the source compares after
  `np.float64(..)`, which is exact for `n < 2^53`.
-/
import CTM.Lemmas.Validate

namespace CTM.C18
open CTM CTM.Validate

/-- every count `v ≤ n` fits the dtype chosen for `(0, n)` -/
theorem vote_counter_holds (n : Nat) (hn : (n : Int) ≤ 18446744073709551615)
    (v : Nat) (hv : v ≤ n) :
    castTo (chooseIntDtype none (0 : Rat) ((n : Int) : Rat)) ((v : Int) : Rat) = some (v : Int) := by
  have h0 : roundHalfEven (0 : Rat) = 0 := by simpa using round_int 0
  obtain ⟨r, hr⟩ := ladder_exists 0 (n : Int) (Or.inl ⟨le_refl _, hn⟩)
  have hr' : Generated.intLadder.find?
      (rungAccepts none (roundHalfEven (0 : Rat)) (roundHalfEven ((n : Int) : Rat))) = some r := by
    rw [h0, round_int]; exact hr
  rw [chooseIntDtype_of_find hr', find_fits hr' (by exact_mod_cast Int.natCast_nonneg v)
    (by exact_mod_cast hv), round_int]

/-- in particular the unanimous count `n` itself -/
theorem unanimous_count_holds (n : Nat) (hn : (n : Int) ≤ 18446744073709551615) :
    castTo (chooseIntDtype none (0 : Rat) ((n : Int) : Rat)) ((n : Int) : Rat) = some (n : Int) :=
  vote_counter_holds n hn n (le_refl _)

example : castTo (chooseIntDtype none (0 : Rat) ((256 : Int) : Rat)) ((256 : Int) : Rat) = some 256 :=
  unanimous_count_holds 256 (by decide)

end CTM.C18
