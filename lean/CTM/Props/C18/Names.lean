/-
  Property C18, first sentence — "Statistics, reference markers and selected
  markers produced by the pipeline's own stages are accepted by the next stage
  and identify clusters and genes consistently by name" — the DATA side: the
  statistics file as the mapper reads it.

  Theorems about the model `CTM/Model/StageFiles.lean` for ALL statistics
  files, row orders, gene orders, marker tables and queries.

  Vocabulary (definitions in CTM/Lemmas/StageFiles.lean):
    `IsPerm perm n`        `perm` lists `0 … n-1`, each once
    `meanByName f leaf g`  the value the mapper sees for (leaf NAME, gene NAME):
                           row `cluster_to_row[leaf]`, column `col_names.index(g)`
    `FileOK f`             every leaf of the stored taxonomy has a row inside the
                           arrays, of the width of `col_names`
    `Ex.tr`, `Ex.files`, `Ex.f0`, `Ex.lk`, `Ex.query`   a small instance
-/
import CTM.Lemmas.StageFiles

namespace CTM.C18
open CTM CTM.Stats CTM.Markers CTM.StageFiles

/-- "... identify clusters ... consistently by name": the row of means the
mapper reads for leaf `ℓ` (`get_leaf_means`) is the row `cluster_to_row[ℓ]`
points to — `sum / max(1, n_cells)` of that row, gene by gene — whatever the
order of the table and of the arrays; and the leaf-mean matrix lists the leaves
of the stored taxonomy in sorted order, its columns are `col_names`, and its
`i`-th row is the row read for its `i`-th leaf name. -/
theorem names_consistent_row_read (f : StatsFile) :
    (∀ (leaf : Leaf) (r : Nat) (row : Row), f.clusterToRow.lookup leaf = some r →
      f.data[r]? = some row → row.genes.length = f.colNames.length →
      leafMeanRow f leaf = .ok (row.genes.map (fun s => meanOf row.n s.sum))) ∧
    (∀ M : Matrix, leafMeans f = .ok M →
      M.cellIds = RawTree.sortNat (leavesOf f.tree) ∧ M.geneIds = f.colNames ∧
      M.data.length = M.cellIds.length ∧
      ∀ (i : Nat) (leaf : Leaf), M.cellIds[i]? = some leaf →
        ∃ row, M.data[i]? = some row ∧ leafMeanRow f leaf = .ok row) :=
  ⟨fun leaf r row h1 h2 h3 => leafMeanRow_of_row f leaf r row h1 h2 h3,
   fun M h => leafMeans_shape f M h⟩

example : Ex.f0.clusterToRow.lookup 31 = some 1 ∧
    Ex.f0.data[1]? = some ⟨2, [⟨6, 20, 2, 2, 2⟩, ⟨8, 40, 2, 2, 2⟩, ⟨2, 4, 1, 1, 1⟩]⟩ ∧
    leafMeanRow Ex.f0 31 = .ok [3, 4, 1] ∧
    leafMeans Ex.f0 = .ok { cellIds := [30, 31, 33], geneIds := [7, 5, 9],
                            data := [[1, 2, 3], [3, 4, 1], [2, 1, 3]] } := by
  decide +kernel

/-- "... are accepted by the next stage": a statistics file in which every leaf
of the stored taxonomy has a row (of the width of `col_names`) is read by the
mapper without error. -/
theorem names_consistent_accepted (f : StatsFile) (h : FileOK f) : ∃ M, leafMeans f = .ok M :=
  leafMeans_ok f h

example : FileOK Ex.f0 := fileOK_of_check _ (by decide +kernel)

/-- "... identify clusters ... consistently by name", for every row order of
the statistics file: move the rows of all arrays by any permutation and rewrite
`cluster_to_row` accordingly (what a truncation, a merge or another writer may
produce) — every leaf still reads the same row, and the leaf-mean matrix is
identical.  (No condition on `cluster_to_row`: an entry pointing outside the
arrays is an error before and after.) -/
theorem names_consistent_rows (perm : List Nat) (f : StatsFile) (h : IsPerm perm f.data.length) :
    (∀ leaf, leafMeanRow (permuteRows perm f) leaf = leafMeanRow f leaf) ∧
    leafMeans (permuteRows perm f) = leafMeans f :=
  ⟨leafMeanRow_permuteRows perm f h, leafMeans_permuteRows perm f h⟩

example : IsPerm [1, 2, 0] Ex.f0.data.length ∧
    (permuteRows [1, 2, 0] Ex.f0).clusterToRow = [(30, 1), (31, 2), (33, 0)] ∧
    (permuteRows [1, 2, 0] Ex.f0).data[0]? = Ex.f0.data[2]? ∧
    leafMeans (permuteRows [1, 2, 0] Ex.f0) = leafMeans Ex.f0 := by
  unfold IsPerm
  decide +kernel

/-- "... identify ... genes consistently by name", for every gene order of the
statistics file: move the columns of `col_names` and of every per-gene array by
any permutation — the value read for (leaf name, gene NAME) is unchanged.
Hypotheses: gene names distinct (they are the keys of the name → column dict)
and every row as wide as `col_names` (the arrays are rectangular). -/
theorem names_consistent_genes (perm : List Nat) (f : StatsFile)
    (h : IsPerm perm f.colNames.length) (hn : f.colNames.Nodup)
    (hw : ∀ row ∈ f.data, row.genes.length = f.colNames.length) :
    ∀ (leaf : Leaf) (g : Gene), meanByName (permuteGenes perm f) leaf g = meanByName f leaf g :=
  meanByName_permuteGenes perm f h hn hw

example : IsPerm [2, 0, 1] Ex.f0.colNames.length ∧ Ex.f0.colNames.Nodup ∧
    (∀ row ∈ Ex.f0.data, row.genes.length = Ex.f0.colNames.length) ∧
    (permuteGenes [2, 0, 1] Ex.f0).colNames = [5, 9, 7] ∧
    leafMeanRow (permuteGenes [2, 0, 1] Ex.f0) 31 = .ok [4, 1, 3] ∧
    meanByName (permuteGenes [2, 0, 1] Ex.f0) 31 9 = some 1 ∧ meanByName Ex.f0 31 9 = some 1 := by
  unfold IsPerm
  decide +kernel

end CTM.C18
