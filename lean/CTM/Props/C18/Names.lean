/-
  Property C18, first sentence — "Statistics, reference markers and selected
  markers produced by the pipeline's own stages are accepted by the next stage
  and identify clusters and genes consistently by name" — the DATA side: the
  statistics file as the mapper reads it.

  Theorems about the model `CTM/Model/StageFiles.lean` for ALL statistics
  files, row orders, gene orders, marker tables and queries.

  Vocabulary (definitions in CTM/Lemmas/StageFiles.lean):
    `IsPerm perm n`        `perm` lists `0 … n-1`, each once
    `meanByName f leaf g`  the value the mapper sees for (leaf NAME, gene NAME):
                           row `cluster_to_row[leaf]`, column `col_names.index(g)`
    `FileOK f`             every leaf of the stored taxonomy has a row inside the
                           arrays, of the width of `col_names`
    `membersOf t ll files leaf`  the cells, over all files, that the taxonomy
                           lists for `leaf`
    `memberMean t ll files leaf j`  `Σ v_j / max(1, n)` over those cells
    `Ex.tr`, `Ex.files`, `Ex.genes`, `Ex.f0`, `Ex.lk`, `Ex.query`   a small instance
  and from CTM/Lemmas/Markers.lean (property C08): `TreeWF`, `Consulted`,
  `specGenes`.
-/
import CTM.Lemmas.StageFiles

namespace CTM.C18
open CTM CTM.Stats CTM.Markers CTM.StageFiles

/-- "... identify clusters ... consistently by name": the row of means the
mapper reads for leaf `ℓ` (`get_leaf_means`) is the row `cluster_to_row[ℓ]`
points to — `sum / max(1, n_cells)` of that row, gene by gene — whatever the
order of the table and of the arrays; and the leaf-mean matrix lists the leaves
of the stored taxonomy in sorted order, its columns are `col_names`, and its
`i`-th row is the row read for its `i`-th leaf name. -/
theorem names_consistent_row_read (f : StatsFile) :
    (∀ (leaf : Leaf) (r : Nat) (row : Row), f.clusterToRow.lookup leaf = some r →
      f.data[r]? = some row → row.genes.length = f.colNames.length →
      leafMeanRow f leaf = .ok (row.genes.map (fun s => meanOf row.n s.sum))) ∧
    (∀ M : Matrix, leafMeans f = .ok M →
      M.cellIds = RawTree.sortNat (leavesOf f.tree) ∧ M.geneIds = f.colNames ∧
      M.data.length = M.cellIds.length ∧
      ∀ (i : Nat) (leaf : Leaf), M.cellIds[i]? = some leaf →
        ∃ row, M.data[i]? = some row ∧ leafMeanRow f leaf = .ok row) :=
  ⟨fun leaf r row h1 h2 h3 => leafMeanRow_of_row f leaf r row h1 h2 h3,
   fun M h => leafMeans_shape f M h⟩

example : Ex.f0.clusterToRow.lookup 31 = some 1 ∧
    Ex.f0.data[1]? = some ⟨2, [⟨6, 20, 2, 2, 2⟩, ⟨8, 40, 2, 2, 2⟩, ⟨2, 4, 1, 1, 1⟩]⟩ ∧
    leafMeanRow Ex.f0 31 = .ok [3, 4, 1] ∧
    leafMeans Ex.f0 = .ok { cellIds := [30, 31, 33], geneIds := [7, 5, 9],
                            data := [[1, 2, 3], [3, 4, 1], [2, 1, 3]] } := by
  decide +kernel

/-- "... are accepted by the next stage": a statistics file in which every leaf
of the stored taxonomy has a row (of the width of `col_names`) is read by the
mapper without error. -/
theorem names_consistent_file_accepted (f : StatsFile) (h : FileOK f) : ∃ M, leafMeans f = .ok M :=
  leafMeans_ok f h

example : FileOK Ex.f0 := fileOK_of_check _ (by decide +kernel)

/-- "... identify clusters ... consistently by name", for every row order of
the statistics file: move the rows of all arrays by any permutation and rewrite
`cluster_to_row` accordingly (what a truncation, a merge or another writer may
produce) — every leaf still reads the same row, and the leaf-mean matrix is
identical.  (No condition on `cluster_to_row`: an entry pointing outside the
arrays is an error before and after.) -/
theorem names_consistent_rows (perm : List Nat) (f : StatsFile) (h : IsPerm perm f.data.length) :
    (∀ leaf, leafMeanRow (permuteRows perm f) leaf = leafMeanRow f leaf) ∧
    leafMeans (permuteRows perm f) = leafMeans f :=
  ⟨leafMeanRow_permuteRows perm f h, leafMeans_permuteRows perm f h⟩

example : IsPerm [1, 2, 0] Ex.f0.data.length ∧
    (permuteRows [1, 2, 0] Ex.f0).clusterToRow = [(30, 1), (31, 2), (33, 0)] ∧
    (permuteRows [1, 2, 0] Ex.f0).data[0]? = Ex.f0.data[2]? ∧
    leafMeans (permuteRows [1, 2, 0] Ex.f0) = leafMeans Ex.f0 := by
  unfold IsPerm
  decide +kernel

/-- "... identify ... genes consistently by name", for every gene order of the
statistics file: move the columns of `col_names` and of every per-gene array by
any permutation — the value read for (leaf name, gene NAME) is unchanged.
Hypotheses: gene names distinct (they are the keys of the name → column dict)
and every row as wide as `col_names` (the arrays are rectangular). -/
theorem names_consistent_genes (perm : List Nat) (f : StatsFile)
    (h : IsPerm perm f.colNames.length) (hn : f.colNames.Nodup)
    (hw : ∀ row ∈ f.data, row.genes.length = f.colNames.length) :
    ∀ (leaf : Leaf) (g : Gene), meanByName (permuteGenes perm f) leaf g = meanByName f leaf g :=
  meanByName_permuteGenes perm f h hn hw

example : IsPerm [2, 0, 1] Ex.f0.colNames.length ∧ Ex.f0.colNames.Nodup ∧
    (∀ row ∈ Ex.f0.data, row.genes.length = Ex.f0.colNames.length) ∧
    (permuteGenes [2, 0, 1] Ex.f0).colNames = [5, 9, 7] ∧
    leafMeanRow (permuteGenes [2, 0, 1] Ex.f0) 31 = .ok [4, 1, 3] ∧
    meanByName (permuteGenes [2, 0, 1] Ex.f0) 31 9 = some 1 ∧ meanByName Ex.f0 31 9 = some 1 := by
  unfold IsPerm
  decide +kernel

/-- "Statistics ... produced by the pipeline's own stages are accepted by the
next stage and identify clusters and genes consistently by name" — the file
written by the model's own first stage (`writeStats` =
`precompute_summary_stats_from_h5ad_list_and_tree`), for every chunk size
`rows ≥ 1` and worker count `nProc ≥ 1`.  Hypotheses: the leaf level's dict has
distinct keys, the cell lists of the leaves are pairwise disjoint (what
`validate_taxonomy_tree` guarantees, hypothesis of `C09.name_table_lookup`),
every cell has one value per gene name.  When the stage succeeds:
 * the file is accepted by the reader (`FileOK`), `col_names` are the gene
   names handed in, the stored taxonomy is the taxonomy, the arrays are
   rectangular;
 * for every leaf `ℓ` the row the mapper reads (`cluster_to_row[ℓ]`) is the
   row the stage wrote for `ℓ` — `buf[rank of ℓ among the sorted leaf names]` —
   whose `n_cells` is the number of cells, over all files, that the taxonomy
   lists for `ℓ` (`membersOf`), and the mean read at gene position `j` is
   `Σ v_j / max(1, n)` over exactly those cells (`memberMean`);
 * read by NAME: `meanByName f ℓ g` is that mean for the column `g` has in the
   gene list. -/
theorem names_consistent_written (t : RawTree) (genes : List Gene)
    (files : List (Nat × List CellRec)) (rows nProc : Nat) (f : StatsFile) (ll : Level)
    (hrows : 1 ≤ rows) (hproc : 1 ≤ nProc) (hll : t.leafLevel = some ll)
    (hkeys : (t.nodesAt ll).Nodup)
    (hdisj : (t.level ll).Pairwise (fun a b => ∀ c ∈ a.2, c ∉ b.2))
    (hg : ∀ fl ∈ files, ∀ cell ∈ fl.2, cell.vals.length = genes.length)
    (h : writeStats t genes files rows nProc = .ok f) :
    FileOK f ∧ f.colNames = genes ∧ f.tree = t ∧
    (∀ row ∈ f.data, row.genes.length = f.colNames.length) ∧
    ∀ leaf ∈ leavesOf t,
      (∃ r row, indexIn (uniqueSorted (t.nodesAt ll)) leaf = some r ∧
        f.clusterToRow.lookup leaf = some r ∧ f.data[r]? = some row ∧
        row.n = (membersOf t ll files leaf).length ∧
        leafMeanRow f leaf = .ok (row.genes.map (fun s => meanOf row.n s.sum))) ∧
      (∃ row, leafMeanRow f leaf = .ok row ∧ row.length = genes.length ∧
        ∀ j, j < genes.length → row[j]? = some (memberMean t ll files leaf j)) ∧
      (∀ (g : Gene) (j : Nat), nameToIdx genes g = some j →
        meanByName f leaf g = some (memberMean t ll files leaf j)) := by
  obtain ⟨h1, h2, h3, _, _, hmain⟩ :=
    writeStats_spec t genes files rows nProc f ll hrows hproc hll hkeys hdisj hg h
  refine ⟨h1, h2, h3,
    writeStats_widths t genes files rows nProc f ll hrows hproc hll hkeys hdisj hg h, ?_⟩
  intro leaf hl
  obtain ⟨r, row, e1, e2, e3, e4, e5, e6, e7⟩ := hmain leaf hl
  exact ⟨⟨r, row, e1, e2, e3, e5, e6⟩, ⟨_, e6, by simpa using e4, e7⟩,
    fun g j hj => writeStats_meanByName t genes files rows nProc f ll hrows hproc hll hkeys hdisj
      hg h leaf hl g j hj⟩

/- the instance: `Ex.f0` IS the file written for `Ex.tr`, `Ex.files` (chunks of 2 rows, 2
workers); leaf 31 has the cells 101, 102 (both in file 1), values 2, 4 for gene 7 -/
example : Ex.tr.leafLevel = some 1 ∧ (Ex.tr.nodesAt 1).Nodup ∧
    (Ex.tr.level 1).Pairwise (fun a b => ∀ c ∈ a.2, c ∉ b.2) ∧
    (∀ fl ∈ Ex.files, ∀ cell ∈ fl.2, cell.vals.length = Ex.genes.length) ∧
    (writeStats Ex.tr Ex.genes Ex.files 2 2).toOption.map
        (fun f => (f.clusterToRow, f.colNames, f.data, f.tree))
      = some (Ex.f0.clusterToRow, Ex.f0.colNames, Ex.f0.data, Ex.f0.tree) ∧
    (membersOf Ex.tr 1 Ex.files 31).map (·.name) = [101, 102] ∧
    memberMean Ex.tr 1 Ex.files 31 0 = 3 ∧ meanByName Ex.f0 31 7 = some 3 := by
  decide +kernel

/-- the side condition "the stage succeeds" of `names_consistent_written` is
about the data only: when no file holds a cell the taxonomy names, the first
stage fails (`final_output` stays `None`, cf. `C09.direct_needs_wanted`)
instead of handing an all-zero file to the next stage. -/
theorem names_consistent_written_needs_cells (t : RawTree) (genes : List Gene)
    (files : List (Nat × List CellRec)) (rows nProc : Nat) (ll : Level) (hproc : 1 ≤ nProc)
    (hll : t.leafLevel = some ll)
    (hno : ∀ fl ∈ files, ∀ cell ∈ fl.2, ∀ q ∈ t.level ll, cell.name ∉ q.2) :
    writeStats t genes files rows nProc = .error (.stats .noBuffers) :=
  writeStats_no_cells t genes files rows nProc ll hproc hll hno

example : (writeStats Ex.tr Ex.genes [(0, [⟨199, [9, 9, 9]⟩])] 2 2).toOption.isNone = true ∧
    ∀ fl ∈ [(0, [(⟨199, [9, 9, 9]⟩ : CellRec)])], ∀ cell ∈ fl.2, ∀ q ∈ Ex.tr.level 1,
      cell.name ∉ q.2 := by
  decide +kernel

/-- "... for every row order ... and every gene order": the file of
`names_consistent_written`, with its rows then moved by any permutation `σ`
(and `cluster_to_row` rewritten) and its gene columns by any permutation `π`,
still gives, for every leaf NAME and gene NAME, the mean over the leaf's cells
of that gene.  Extra hypothesis: the gene names are distinct. -/
theorem names_consistent_written_any_order (σ π : List Nat) (t : RawTree) (genes : List Gene)
    (files : List (Nat × List CellRec)) (rows nProc : Nat) (f : StatsFile) (ll : Level)
    (hrows : 1 ≤ rows) (hproc : 1 ≤ nProc) (hll : t.leafLevel = some ll)
    (hkeys : (t.nodesAt ll).Nodup)
    (hdisj : (t.level ll).Pairwise (fun a b => ∀ c ∈ a.2, c ∉ b.2))
    (hg : ∀ fl ∈ files, ∀ cell ∈ fl.2, cell.vals.length = genes.length)
    (h : writeStats t genes files rows nProc = .ok f) (hn : genes.Nodup)
    (hσ : IsPerm σ f.data.length) (hπ : IsPerm π genes.length) :
    FileOK (permuteGenes π (permuteRows σ f)) ∧
    ∀ leaf ∈ leavesOf t, ∀ (g : Gene) (j : Nat), nameToIdx genes g = some j →
      meanByName (permuteGenes π (permuteRows σ f)) leaf g
        = some (memberMean t ll files leaf j) := by
  obtain ⟨h1, h2, _, h4, h5⟩ :=
    names_consistent_written t genes files rows nProc f ll hrows hproc hll hkeys hdisj hg h
  have hπ' : IsPerm π f.colNames.length := by rw [h2]; exact hπ
  refine ⟨fileOK_permute σ π f hσ hπ' h1, fun leaf hl g j hj => ?_⟩
  rw [meanByName_permute σ π f hσ hπ' (by rw [h2]; exact hn) h4 leaf g]
  exact (h5 leaf hl).2.2 g j hj

example : IsPerm [1, 2, 0] Ex.f0.data.length ∧ IsPerm [2, 0, 1] Ex.genes.length ∧ Ex.genes.Nodup ∧
    meanByName (permuteGenes [2, 0, 1] (permuteRows [1, 2, 0] Ex.f0)) 31 7 = some 3 ∧
    nameToIdx Ex.genes 7 = some 0 ∧ memberMean Ex.tr 1 Ex.files 31 0 = 3 := by
  unfold IsPerm
  decide +kernel

/-- "Statistics ... and selected markers produced by the pipeline's own stages
are accepted by the next stage and identify clusters and genes consistently by
name" — the composition, as the mapper sees it at one node
(`assemble_query_data`).  Statistics file `f` whose leaves all have a row
(`FileOK`), validated taxonomy, marker table `lk` for which the marker cache
could be created against the file's `col_names` and the query's gene names,
rectangular query matrix: for every consulted parent the node's matrices are
built without error, and
 * column `j` of the query matrix and column `j` of the reference matrix are
   the SAME gene name `names[j]`; as a set the names are the node's markers
   `specGenes` (property C08), none repeated;
 * the rows of the reference matrix are the leaves below the node, by NAME,
   in sorted order; entry `(i, j)` is the mean the statistics file holds for
   (leaf name, gene name) — `meanByName`, i.e. row `cluster_to_row[leaf]`,
   column `col_names.index(gene)`;
 * entry `(k, j)` of the query matrix is the query's value of cell `k` in the
   column NAMED `names[j]`.
(`col_names` / the query's gene names need not even be distinct: both sides
resolve a repeated name to its last column.) -/
theorem names_consistent_mapper (f : StatsFile) (lk : Lookup) (query : Matrix) (m : Nat) (p : PKey)
    (c : Cache) (hT : TreeWF f.tree) (hv : f.tree.validate = .ok ())
    (hq : ∀ row ∈ query.data, row.length = query.geneIds.length) (hf : FileOK f)
    (hp : p ∈ f.tree.allParents) (hc : Consulted f.tree p)
    (hcache : createCache (some f.tree) lk f.colNames query.geneIds m = .ok c) :
    ∃ names nd, mapperNode f lk query m p = .ok nd ∧ nd.query.geneIds = names ∧
      nd.reference.geneIds = names ∧
      (∀ g, g ∈ names ↔ g ∈ specGenes f.tree lk query.geneIds m p) ∧ names.Nodup ∧
      (∀ g ∈ names, g ∈ f.colNames ∧ g ∈ query.geneIds) ∧
      leavesUnder f.tree p = .ok nd.reference.cellIds ∧ nd.query.cellIds = query.cellIds ∧
      nd.reference.data.length = nd.reference.cellIds.length ∧
      nd.query.data.length = query.data.length ∧
      (∀ (i : Nat) (leaf : Leaf) (j : Nat) (g : Gene), nd.reference.cellIds[i]? = some leaf →
        names[j]? = some g → (nd.reference.data[i]?.bind (·[j]?)) = meanByName f leaf g) ∧
      (∀ (k j : Nat) (g : Gene), names[j]? = some g →
        (nd.query.data[k]?.bind (·[j]?)) =
          (query.data[k]?.bind (fun row => (nameToIdx query.geneIds g).bind (row[·]?)))) :=
  mapperNode_spec f lk query m p c hT hq hf hp hc hcache
    (leavesUnder_sub f.tree hT (RawTree.strict_of_validate hv) p hp)

/- the instance: at the root the markers are 7 and 9 (columns 0, 2 of the file; 2, 0 of the
query), at class 10 the marker is 5 (column 1 of the file, 3 of the query) -/
example : TreeWF Ex.f0.tree ∧ Ex.f0.tree.validate = .ok () ∧
    (∀ row ∈ Ex.query.data, row.length = Ex.query.geneIds.length) ∧
    none ∈ Ex.f0.tree.allParents ∧ some (0, 10) ∈ Ex.f0.tree.allParents ∧
    (createCache (some Ex.f0.tree) Ex.lk Ex.f0.colNames Ex.query.geneIds 1).toBool = true ∧
    mapperNode Ex.f0 Ex.lk Ex.query 1 none = .ok
      { query := { cellIds := [0, 1], geneIds := [7, 9], data := [[3, 1], [7, 5]] },
        reference := { cellIds := [30, 31, 33], geneIds := [7, 9], data := [[1, 3], [3, 1], [2, 3]] } } ∧
    mapperNode Ex.f0 Ex.lk Ex.query 1 (some (0, 10)) = .ok
      { query := { cellIds := [0, 1], geneIds := [5], data := [[4], [8]] },
        reference := { cellIds := [30, 31], geneIds := [5], data := [[2], [4]] } } :=
  ⟨⟨by decide, by decide, by decide, by decide⟩, by decide +kernel, by decide, by decide, by decide,
    by decide +kernel, by decide +kernel, by decide +kernel⟩
example : Consulted Ex.f0.tree none ∧ Consulted Ex.f0.tree (some (0, 10)) :=
  ⟨⟨[11, 10], rfl, by decide⟩, ⟨[31, 30], rfl, by decide⟩⟩

/-- "... consistently by name", for every row order and every gene order of
the statistics file at once: hand the mapper the file with its rows moved by
`σ` and its gene columns moved by `π` (marker cache created against the NEW
`col_names`).  The node's matrices are still built without error, their
columns are still one list of gene names on both sides (the same SET of names,
`specGenes`), their rows the leaves below the node by name, and every entry of
the reference matrix is the value the ORIGINAL file holds for (leaf name, gene
name).  Extra hypotheses: gene names distinct, rectangular arrays. -/
theorem names_consistent_mapper_any_order (σ π : List Nat) (f : StatsFile) (lk : Lookup)
    (query : Matrix) (m : Nat) (p : PKey) (c : Cache)
    (hσ : IsPerm σ f.data.length) (hπ : IsPerm π f.colNames.length)
    (hT : TreeWF f.tree) (hv : f.tree.validate = .ok ()) (hn : f.colNames.Nodup)
    (hw : ∀ row ∈ f.data, row.genes.length = f.colNames.length)
    (hq : ∀ row ∈ query.data, row.length = query.geneIds.length) (hf : FileOK f)
    (hp : p ∈ f.tree.allParents) (hc : Consulted f.tree p)
    (hcache : createCache (some f.tree) lk (permuteGenes π (permuteRows σ f)).colNames
      query.geneIds m = .ok c) :
    ∃ names nd, mapperNode (permuteGenes π (permuteRows σ f)) lk query m p = .ok nd ∧
      nd.query.geneIds = names ∧ nd.reference.geneIds = names ∧
      (∀ g, g ∈ names ↔ g ∈ specGenes f.tree lk query.geneIds m p) ∧ names.Nodup ∧
      (∀ g ∈ names, g ∈ f.colNames ∧ g ∈ query.geneIds) ∧
      leavesUnder f.tree p = .ok nd.reference.cellIds ∧ nd.query.cellIds = query.cellIds ∧
      nd.reference.data.length = nd.reference.cellIds.length ∧
      nd.query.data.length = query.data.length ∧
      (∀ (i : Nat) (leaf : Leaf) (j : Nat) (g : Gene), nd.reference.cellIds[i]? = some leaf →
        names[j]? = some g → (nd.reference.data[i]?.bind (·[j]?)) = meanByName f leaf g) ∧
      (∀ (k j : Nat) (g : Gene), names[j]? = some g →
        (nd.query.data[k]?.bind (·[j]?)) =
          (query.data[k]?.bind (fun row => (nameToIdx query.geneIds g).bind (row[·]?)))) := by
  obtain ⟨names, nd, h1, h2, h3, h4, h5, hin, h6, h7, h8, h9, h10, h11⟩ :=
    names_consistent_mapper (permuteGenes π (permuteRows σ f)) lk query m p c hT hv hq
      (fileOK_permute σ π f hσ hπ hf) hp hc hcache
  refine ⟨names, nd, h1, h2, h3, h4, h5, ?_, h6, h7, h8, h9, ?_, h11⟩
  · intro g hg
    exact ⟨(permuteList_mem π f.colNames hπ g).1 (hin g hg).1, (hin g hg).2⟩
  · intro i leaf j g hi hj
    rw [h10 i leaf j g hi hj]
    exact meanByName_permute σ π f hσ hπ hn hw leaf g

/- rows moved by [1,2,0], genes by [2,0,1] (`col_names` = 5, 9, 7): at the root the names now
come in the order 9, 7 (reference index order), the entries are the same values by name -/
example : IsPerm [1, 2, 0] Ex.f0.data.length ∧ IsPerm [2, 0, 1] Ex.f0.colNames.length ∧
    (createCache (some Ex.f0.tree) Ex.lk (permuteGenes [2, 0, 1] (permuteRows [1, 2, 0] Ex.f0)).colNames
      Ex.query.geneIds 1).toBool = true ∧
    mapperNode (permuteGenes [2, 0, 1] (permuteRows [1, 2, 0] Ex.f0)) Ex.lk Ex.query 1 none = .ok
      { query := { cellIds := [0, 1], geneIds := [9, 7], data := [[1, 3], [5, 7]] },
        reference := { cellIds := [30, 31, 33], geneIds := [9, 7], data := [[3, 1], [1, 3], [3, 2]] } } ∧
    meanByName Ex.f0 33 9 = some 3 ∧ meanByName Ex.f0 33 7 = some 2 := by
  unfold IsPerm
  decide +kernel

/-- "Statistics ... and selected markers produced by the pipeline's own stages
are accepted by the next stage and identify clusters and genes consistently by
name" — first stage and mapper end to end.  The statistics file is the one the
model's first stage writes for a validated taxonomy `t` (any chunk size and
worker count), afterwards rearranged by ANY row permutation `σ` and ANY gene
permutation `π`; the marker cache is created against the rearranged
`col_names` and the query's gene names.  Then for every consulted parent the
mapper builds its matrices without error; query and reference matrix carry the
same list of gene names (the node's markers `specGenes`), the reference rows are
the leaves below the node by name, and the reference entry for (leaf `ℓ`, gene
name `g`) is the mean, over exactly the cells the taxonomy lists for `ℓ` in all
files, of the value in the column `g` had in the gene list handed to the first
stage; the query entry is the query's value in the column NAMED `g`. -/
theorem names_consistent_pipeline (σ π : List Nat) (t : RawTree) (genes : List Gene)
    (files : List (Nat × List CellRec)) (rows nProc : Nat) (f : StatsFile) (ll : Level)
    (lk : Lookup) (query : Matrix) (m : Nat) (p : PKey) (c : Cache)
    (hrows : 1 ≤ rows) (hproc : 1 ≤ nProc) (hT : TreeWF t) (hv : t.validate = .ok ())
    (hll : t.leafLevel = some ll)
    (hg : ∀ fl ∈ files, ∀ cell ∈ fl.2, cell.vals.length = genes.length) (hn : genes.Nodup)
    (h : writeStats t genes files rows nProc = .ok f)
    (hσ : IsPerm σ f.data.length) (hπ : IsPerm π genes.length)
    (hq : ∀ row ∈ query.data, row.length = query.geneIds.length)
    (hp : p ∈ t.allParents) (hc : Consulted t p)
    (hcache : createCache (some t) lk (permuteList π genes) query.geneIds m = .ok c) :
    ∃ names nd, mapperNode (permuteGenes π (permuteRows σ f)) lk query m p = .ok nd ∧
      nd.query.geneIds = names ∧ nd.reference.geneIds = names ∧
      (∀ g, g ∈ names ↔ g ∈ specGenes t lk query.geneIds m p) ∧ names.Nodup ∧
      leavesUnder t p = .ok nd.reference.cellIds ∧ nd.query.cellIds = query.cellIds ∧
      (∀ (i : Nat) (leaf : Leaf) (j : Nat) (g : Gene), nd.reference.cellIds[i]? = some leaf →
        names[j]? = some g → ∃ col, nameToIdx genes g = some col ∧
          (nd.reference.data[i]?.bind (·[j]?)) = some (memberMean t ll files leaf col)) ∧
      (∀ (k j : Nat) (g : Gene), names[j]? = some g →
        (nd.query.data[k]?.bind (·[j]?)) =
          (query.data[k]?.bind (fun row => (nameToIdx query.geneIds g).bind (row[·]?)))) := by
  have hkeys : (t.nodesAt ll).Nodup := hT.nodesNodup ll (leafLevel_mem t ll hll)
  have hdisj := disjoint_of_strict t (RawTree.strict_of_validate hv) ll hll
  obtain ⟨hok, hcn, htree, hw, hleaf⟩ :=
    names_consistent_written t genes files rows nProc f ll hrows hproc hll hkeys hdisj hg h
  subst htree
  subst hcn
  obtain ⟨names, nd, h1, h2, h3, h4, h5, hin, h6, h7, _, _, h10, h11⟩ :=
    names_consistent_mapper_any_order σ π f lk query m p c hσ hπ hT hv hn hw hq hok hp hc hcache
  refine ⟨names, nd, h1, h2, h3, h4, h5, h6, h7, ?_, h11⟩
  intro i leaf j g hi hj
  have hgn := (hin g (List.mem_of_getElem? hj)).1
  obtain ⟨col, hcol⟩ := nameToIdx_of_mem f.colNames g hgn
  have hl : leaf ∈ leavesOf f.tree :=
    leavesUnder_sub f.tree hT (RawTree.strict_of_validate hv) p hp _ h6 leaf
      (List.mem_of_getElem? hi)
  refine ⟨col, hcol, ?_⟩
  rw [h10 i leaf j g hi hj]
  exact (hleaf leaf hl).2.2 g col hcol

/- class 10 of the instance (leaves 30, 31; marker 5 = column 1 of `Ex.genes`): means 2 and 4 -/
example : mapperNode (permuteGenes [2, 0, 1] (permuteRows [1, 2, 0] Ex.f0)) Ex.lk Ex.query 1
      (some (0, 10)) = .ok
      { query := { cellIds := [0, 1], geneIds := [5], data := [[4], [8]] },
        reference := { cellIds := [30, 31], geneIds := [5], data := [[2], [4]] } } ∧
    nameToIdx Ex.genes 5 = some 1 ∧ memberMean Ex.tr 1 Ex.files 30 1 = 2 ∧
    memberMean Ex.tr 1 Ex.files 31 1 = 4 ∧
    (createCache (some Ex.tr) Ex.lk (permuteList [2, 0, 1] Ex.genes) Ex.query.geneIds 1).toBool
      = true := by
  decide +kernel

end CTM.C18
