/-
  C18, first sentence — "Statistics, reference markers and selected markers
  produced by the pipeline's own stages are accepted by the next stage and
  identify clusters and genes consistently by name" — the INDEX side: genes,
  leaf pairs, the marker table and its acceptance.

  Model: CTM/Model/StageFiles.lean (`RefFile`, `prepOutput` = `_prep_output_file`,
  `idxToPair` = the finder's `idx_to_pair`, `idxOfPair` = `MarkerGeneArray.idx_of_pair`,
  `taxonomyIdx` = `selection._get_taxonomy_idx`, `geneNamesAt` =
  `gene_names[chosen_idx]`, `markerTable` = the dict assembled from
  `create_raw_marker_gene_lookup`'s workers), CTM/Model/Markers.lean (`createCache`).
  Theorems about the executable model for ALL inputs; helper lemmas in
  CTM/Lemmas/StageFilesPairs.lean.
-/
import CTM.Lemmas.StageFilesPairs

namespace CTM.C18
open CTM CTM.Markers CTM.StageFiles CTM.StageFilesPairs

/-- "... identify … genes consistently by name" (statistics file → reference-marker file):
the reference-marker file carries the statistics file's `col_names` unchanged as its
`gene_names` and one row per entry of the finder's `idx_to_pair`; hence (gene names being
distinct) the gene with name `g` in the reference-marker file sits at position
`col_names.index(g)`, i.e. it is column `g` of the statistics file. -/
theorem names_consistent_gene_names (f : StatsFile) :
    (refFileOf f).geneNames = f.colNames ∧
    (refFileOf f).nPairs = (idxToPair (leavesOf f.tree)).length ∧
    (f.colNames.Nodup →
      ∀ g i, nameToIdx f.colNames g = some i ↔ (refFileOf f).geneNames[i]? = some g) :=
  ⟨rfl, rfl, fun hn g i => nameToIdx_iff f.colNames hn g i⟩

example : (refFileOf { clusterToRow := [], colNames := [7, 5, 9], data := [], tree := exTr }).geneNames
      = [7, 5, 9] ∧
    nameToIdx [7, 5, 9] 9 = some 2 ∧ nameToIdx [7, 5, 9] 4 = none ∧
    (refFileOf { clusterToRow := [], colNames := [7, 5, 9], data := [], tree := exTr }).nPairs = 3 := by
  decide

/-- "... genes consistently by name" (reference-marker file → marker table): the selection
stage turns chosen POSITIONS into NAMES with `gene_names[chosen_idx]`; this succeeds exactly
when every position is inside `gene_names`, returns the names at those positions in the same
order, every returned name is one of `gene_names`, and the only possible failure is the
`IndexError`. -/
theorem names_consistent_positions_to_names (G : List Gene) (idxs : List Nat) :
    (∀ names, geneNamesAt G idxs = .ok names ↔
      (∀ i ∈ idxs, i < G.length) ∧ names = idxs.map (fun i => G.getD i 0)) ∧
    (∀ names, geneNamesAt G idxs = .ok names ↔
      List.Forall₂ (fun i g => G[i]? = some g) idxs names) ∧
    (∀ names, geneNamesAt G idxs = .ok names → ∀ g ∈ names, g ∈ G) ∧
    (∀ e, geneNamesAt G idxs = .error e → e = .badGeneIndex ∧ ∃ i ∈ idxs, G.length ≤ i) :=
  ⟨fun names => geneNamesAt_ok_iff G idxs names,
   fun names => geneNamesAt_ok_iff_forall₂ G idxs names,
   fun names h => geneNamesAt_mem G idxs names h,
   fun e h => ⟨geneNamesAt_error_class G idxs e h, (geneNamesAt_error_iff G idxs).1 ⟨e, h⟩⟩⟩

example : geneNamesAt [7, 5, 9] [2, 0, 2] = .ok [9, 7, 9] ∧
    geneNamesAt [7, 5, 9] [0, 3] = .error .badGeneIndex := by decide

/-- "... identify clusters … consistently by name" (reference-marker file ↔ marker finder):
for distinct leaf names, `pair_to_idx` written by `_prep_output_file` is exactly the inverse of
the `idx_to_pair` the finder scores by — `idx_of_pair(a, b) = k` iff row `k` of every marker
table belongs to the pair `idx_to_pair[k] = (a, b)`; every index returned is `< n_pairs`, every
row `< n_pairs` is the index of a pair; `idx_of_pair` answers for every ordered pair `a < b`
of leaves and raises ("not a valid taxonomy pair specification") on everything else; and
`n_pairs = n (n-1) / 2`. -/
theorem names_consistent_pair_index (leaves : List Leaf) (names : List Gene) (h : leaves.Nodup) :
    let r := prepOutput leaves names
    (∀ x k, idxOfPair r x = .ok k ↔ (idxToPair leaves)[k]? = some x) ∧
    (∀ x k, idxOfPair r x = .ok k → k < r.nPairs) ∧
    (∀ k, k < r.nPairs → ∃ x, idxOfPair r x = .ok k) ∧
    (∀ a b, a ∈ leaves → b ∈ leaves → a < b → ∃ k, idxOfPair r (a, b) = .ok k) ∧
    (∀ a b, idxOfPair r (a, b) = .error .badPair ↔ ¬ (a ∈ leaves ∧ b ∈ leaves ∧ a < b)) ∧
    (∀ x e, idxOfPair r x = .error e → e = .badPair) ∧
    r.nPairs = leaves.length * (leaves.length - 1) / 2 := by
  intro r
  refine ⟨idxOfPair_prepOutput leaves names h, ?_, ?_, idxOfPair_prepOutput_total leaves names h,
    idxOfPair_prepOutput_error_iff leaves names h, idxOfPair_error_class r,
    (idxToPair_spec leaves h).2.2⟩
  · intro x k hk
    have := (idxOfPair_prepOutput leaves names h x k).1 hk
    exact (List.getElem?_eq_some_iff.1 this).1
  · intro k hk
    exact ⟨(idxToPair leaves)[k]'hk,
      (idxOfPair_prepOutput leaves names h _ k).2 (List.getElem?_eq_getElem hk)⟩

example : prepOutput [33, 30, 31] [7, 5, 9] =
      { geneNames := [7, 5, 9], pairToIdx := [((30, 31), 0), ((30, 33), 1), ((31, 33), 2)], nPairs := 3 } ∧
    idxToPair [33, 30, 31] = [(30, 31), (30, 33), (31, 33)] ∧
    idxOfPair (prepOutput [33, 30, 31] [7, 5, 9]) (31, 33) = .ok 2 ∧
    idxOfPair (prepOutput [33, 30, 31] [7, 5, 9]) (33, 31) = .error .badPair ∧
    [33, 30, 31].Nodup := by decide

end CTM.C18
