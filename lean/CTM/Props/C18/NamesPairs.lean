/-
  C18, first sentence — "Statistics, reference markers and selected markers
  produced by the pipeline's own stages are accepted by the next stage and
  identify clusters and genes consistently by name" — the INDEX side: genes,
  leaf pairs, the marker table and its acceptance.

  Model: CTM/Model/StageFiles.lean (`RefFile`, `prepOutput` = `_prep_output_file`,
  `idxToPair` = the finder's `idx_to_pair`, `idxOfPair` = `MarkerGeneArray.idx_of_pair`,
  `taxonomyIdx` = `selection._get_taxonomy_idx`, `geneNamesAt` =
  `gene_names[chosen_idx]`, `markerTable` = the dict assembled from
  `create_raw_marker_gene_lookup`'s workers), CTM/Model/Markers.lean (`createCache`).
  Theorems about the executable model for ALL inputs; helper lemmas in
  CTM/Lemmas/StageFilesPairs.lean.
-/
import CTM.Lemmas.StageFilesPairs

namespace CTM.C18
open CTM CTM.Markers CTM.StageFiles CTM.StageFilesPairs

/-- "... identify … genes consistently by name" (statistics file → reference-marker file):
the reference-marker file carries the statistics file's `col_names` unchanged as its
`gene_names` and one row per entry of the finder's `idx_to_pair`; hence (gene names being
distinct) the gene with name `g` in the reference-marker file sits at position
`col_names.index(g)`, i.e. it is column `g` of the statistics file. -/
theorem names_consistent_gene_names (f : StatsFile) :
    (refFileOf f).geneNames = f.colNames ∧
    (refFileOf f).nPairs = (idxToPair (leavesOf f.tree)).length ∧
    (f.colNames.Nodup →
      ∀ g i, nameToIdx f.colNames g = some i ↔ (refFileOf f).geneNames[i]? = some g) :=
  ⟨rfl, rfl, fun hn g i => nameToIdx_iff f.colNames hn g i⟩

example : (refFileOf { clusterToRow := [], colNames := [7, 5, 9], data := [], tree := exTr }).geneNames
      = [7, 5, 9] ∧
    nameToIdx [7, 5, 9] 9 = some 2 ∧ nameToIdx [7, 5, 9] 4 = none ∧
    (refFileOf { clusterToRow := [], colNames := [7, 5, 9], data := [], tree := exTr }).nPairs = 3 := by
  decide

/-- "... genes consistently by name" (reference-marker file → marker table): the selection
stage turns chosen POSITIONS into NAMES with `gene_names[chosen_idx]`; this succeeds exactly
when every position is inside `gene_names`, returns the names at those positions in the same
order, every returned name is one of `gene_names`, and the only possible failure is the
`IndexError`. -/
theorem names_consistent_positions_to_names (G : List Gene) (idxs : List Nat) :
    (∀ names, geneNamesAt G idxs = .ok names ↔
      (∀ i ∈ idxs, i < G.length) ∧ names = idxs.map (fun i => G.getD i 0)) ∧
    (∀ names, geneNamesAt G idxs = .ok names ↔
      List.Forall₂ (fun i g => G[i]? = some g) idxs names) ∧
    (∀ names, geneNamesAt G idxs = .ok names → ∀ g ∈ names, g ∈ G) ∧
    (∀ e, geneNamesAt G idxs = .error e → e = .badGeneIndex ∧ ∃ i ∈ idxs, G.length ≤ i) :=
  ⟨fun names => geneNamesAt_ok_iff G idxs names,
   fun names => geneNamesAt_ok_iff_forall₂ G idxs names,
   fun names h => geneNamesAt_mem G idxs names h,
   fun e h => ⟨geneNamesAt_error_class G idxs e h, (geneNamesAt_error_iff G idxs).1 ⟨e, h⟩⟩⟩

example : geneNamesAt [7, 5, 9] [2, 0, 2] = .ok [9, 7, 9] ∧
    geneNamesAt [7, 5, 9] [0, 3] = .error .badGeneIndex := by decide

/-- "... identify clusters … consistently by name" (reference-marker file ↔ marker finder):
for distinct leaf names, `pair_to_idx` written by `_prep_output_file` is exactly the inverse of
the `idx_to_pair` the finder scores by — `idx_of_pair(a, b) = k` iff row `k` of every marker
table belongs to the pair `idx_to_pair[k] = (a, b)`; every index returned is `< n_pairs`, every
row `< n_pairs` is the index of a pair; `idx_of_pair` answers for every ordered pair `a < b`
of leaves and raises ("not a valid taxonomy pair specification") on everything else; and
`n_pairs = n (n-1) / 2`. -/
theorem names_consistent_pair_index (leaves : List Leaf) (names : List Gene) (h : leaves.Nodup) :
    let r := prepOutput leaves names
    (∀ x k, idxOfPair r x = .ok k ↔ (idxToPair leaves)[k]? = some x) ∧
    (∀ x k, idxOfPair r x = .ok k → k < r.nPairs) ∧
    (∀ k, k < r.nPairs → ∃ x, idxOfPair r x = .ok k) ∧
    (∀ a b, a ∈ leaves → b ∈ leaves → a < b → ∃ k, idxOfPair r (a, b) = .ok k) ∧
    (∀ a b, idxOfPair r (a, b) = .error .badPair ↔ ¬ (a ∈ leaves ∧ b ∈ leaves ∧ a < b)) ∧
    (∀ x e, idxOfPair r x = .error e → e = .badPair) ∧
    r.nPairs = leaves.length * (leaves.length - 1) / 2 := by
  intro r
  refine ⟨idxOfPair_prepOutput leaves names h, ?_, ?_, idxOfPair_prepOutput_total leaves names h,
    idxOfPair_prepOutput_error_iff leaves names h, idxOfPair_error_class r,
    (idxToPair_spec leaves h).2.2⟩
  · intro x k hk
    have := (idxOfPair_prepOutput leaves names h x k).1 hk
    exact (List.getElem?_eq_some_iff.1 this).1
  · intro k hk
    exact ⟨(idxToPair leaves)[k]'hk,
      (idxOfPair_prepOutput leaves names h _ k).2 (List.getElem?_eq_getElem hk)⟩

example : prepOutput [33, 30, 31] [7, 5, 9] =
      { geneNames := [7, 5, 9], pairToIdx := [((30, 31), 0), ((30, 33), 1), ((31, 33), 2)], nPairs := 3 } ∧
    idxToPair [33, 30, 31] = [(30, 31), (30, 33), (31, 33)] ∧
    idxOfPair (prepOutput [33, 30, 31] [7, 5, 9]) (31, 33) = .ok 2 ∧
    idxOfPair (prepOutput [33, 30, 31] [7, 5, 9]) (33, 31) = .error .badPair ∧
    [33, 30, 31].Nodup := by decide

/-- "reference markers … produced by the pipeline's own stages are accepted by the next stage
and identify clusters … consistently by name": for a validated taxonomy (C10's `WF`) and the
reference-marker file `_prep_output_file` wrote for it, the selection stage's
`_get_taxonomy_idx(parent)` never raises — `idx_of_pair` knows every pair `leaves_to_compare`
asks for — for EVERY parent key (where `children` would raise or there is no level below, the
list of pairs is empty), and the columns it returns (sorted, no repetition, all `< n_pairs`, as
many as there are pairs) are exactly the finder's rows `idx_to_pair[k]` of those pairs; distinct
pairs of the parent get distinct columns (`IdxInjOn`, the hypothesis of the C12 bridge). -/
theorem names_consistent_pairs_resolve (t : RawTree) (w : RawTree.WF t) (names : List Gene)
    (parent : PKey) :
    let r := prepOutput (leavesOf t) names
    (∃ ks, taxonomyIdx r t parent = .ok ks ∧ ks.Nodup ∧ ks.Pairwise (· < ·) ∧
      ks.length = (t.leafPairs parent).length ∧ (∀ k ∈ ks, k < r.nPairs) ∧
      (∀ k, k ∈ ks ↔ ∃ x ∈ t.leafPairs parent, (idxToPair (leavesOf t))[k]? = some x)) ∧
    (∀ x ∈ t.leafPairs parent, ∃ k, idxOfPair r x = .ok k ∧ (idxToPair (leavesOf t))[k]? = some x) ∧
    Bridge.IdxInjOn (fun x => (idxOfPair r x).toOption.getD 0) (t.leafPairs parent) := by
  intro r
  obtain ⟨ks, h1, h2, h3, h4, _⟩ := taxonomyIdx_spec w names parent
  refine ⟨⟨ks, h1, ?_, h2, h3, ?_, h4⟩, ?_, idxInjOn_prepOutput w names parent⟩
  · exact h2.imp (fun h => Nat.ne_of_lt h)
  · intro k hk
    obtain ⟨x, _, hx⟩ := (h4 k).1 hk
    exact (List.getElem?_eq_some_iff.1 hx).1
  · rintro ⟨a, b⟩ hx
    obtain ⟨ha, hb, hab⟩ := leafPairs_leaves w parent a b hx
    obtain ⟨k, hk⟩ := idxOfPair_prepOutput_total _ names (leavesOf_nodup w) a b ha hb hab
    exact ⟨k, hk, (idxOfPair_prepOutput _ names (leavesOf_nodup w) (a, b) k).1 hk⟩

example : RawTree.WF exTr ∧ leavesOf exTr = [33, 30, 31] ∧
    exTr.leafPairs none = [(31, 33), (30, 33)] ∧
    taxonomyIdx (prepOutput (leavesOf exTr) [7, 5, 9]) exTr none = .ok [1, 2] ∧
    taxonomyIdx (prepOutput (leavesOf exTr) [7, 5, 9]) exTr (some (0, 10)) = .ok [0] ∧
    taxonomyIdx (prepOutput (leavesOf exTr) [7, 5, 9]) exTr (some (0, 11)) = .ok [] :=
  ⟨exTr_wf, by decide, by decide, by decide, by decide, by decide⟩

/-- "selected markers produced by the pipeline's own stages … identify clusters and genes
consistently by name": the marker table written by the selection stage (one entry per parent
the workers delivered, in delivery order `order`; `chosen p` = the positions selected for `p`)
has exactly the delivered parents as keys, in that order; the list under key `p` is
`gene_names[chosen p]` of the reference-marker file, so every listed gene is a reference gene;
the table exists exactly when every chosen position is inside `gene_names` (the only failure is
the `IndexError`); and when the delivered parents are `taxonomy_tree.all_parents` of a
well-formed taxonomy in any order, the table is a dict (distinct keys) each of whose keys
`'None'` / `'level/node'` names a parent of that taxonomy. -/
theorem names_consistent_table (r : RefFile) (order : List PKey) (chosen : PKey → List Nat) :
    (∀ lk, markerTable r order chosen = .ok lk →
      lk.map (·.1) = order ∧ (∀ e ∈ lk, ∀ g ∈ e.2, g ∈ r.geneNames) ∧
      (∀ p gs, (p, gs) ∈ lk → geneNamesAt r.geneNames (chosen p) = .ok gs) ∧
      (∀ k, get? lk k =
        if k ∈ order then some ((chosen k).map (fun i => r.geneNames.getD i 0)) else none)) ∧
    ((∃ lk, markerTable r order chosen = .ok lk) ↔
      ∀ p ∈ order, ∀ i ∈ chosen p, i < r.geneNames.length) ∧
    (∀ e, markerTable r order chosen = .error e → e = .badGeneIndex) ∧
    (∀ t : RawTree, TreeWF t → order.Perm t.allParents →
      ∀ lk, markerTable r order chosen = .ok lk →
        KeysNodup lk ∧ (∀ k ∈ lk.map (·.1), k ∈ t.allParents) ∧
        (∀ p ∈ t.allParents, ∃ gs, get? lk p = some gs)) := by
  refine ⟨fun lk h => ⟨markerTable_keys r order chosen lk h, markerTable_genes r order chosen lk h,
      fun p gs hm => (markerTable_entry r order chosen lk h p gs hm).2,
      markerTable_get? r order chosen lk h⟩, ?_, markerTable_error_class r order chosen, ?_⟩
  · constructor
    · rintro ⟨lk, h⟩; exact ((markerTable_ok_iff r order chosen lk).1 h).1
    · intro h; exact ⟨_, (markerTable_ok_iff r order chosen _).2 ⟨h, rfl⟩⟩
  · intro t hT hp lk h
    have hnd : order.Nodup := hp.nodup_iff.2 (treeOK_of_wf t hT).parentsNodup
    refine ⟨markerTable_keysNodup r order chosen lk h hnd, ?_, ?_⟩
    · intro k hk
      rw [markerTable_keys r order chosen lk h] at hk
      exact hp.mem_iff.1 hk
    · intro p hpm
      rw [markerTable_get? r order chosen lk h, if_pos (hp.mem_iff.2 hpm)]
      exact ⟨_, rfl⟩

example : markerTable (prepOutput [33, 30, 31] [7, 5, 9]) [some (0, 10), none, some (0, 11)]
      (fun p => if p == none then [0, 2] else [1])
      = .ok [(some (0, 10), [5]), (none, [7, 9]), (some (0, 11), [5])] ∧
    exTr.allParents = [none, some (0, 11), some (0, 10)] := by decide

example : markerTable (prepOutput [33, 30, 31] [7, 5, 9]) [none] (fun _ => [3]) = .error .badGeneIndex := by
  decide

example : TreeWF exTr ∧ [some (0, 10), none, some (0, 11)].Perm exTr.allParents :=
  ⟨C08.validated_tree_is_wf exTr (by decide) (by decide) (by decide) (by decide), by decide⟩

/-- "... are accepted by the next stage": the marker table the selection stage makes from the
reference-marker file of a statistics file `f` (any delivery order of `all_parents`, taxonomy
well formed) is accepted by the mapper's marker cache built against the SAME statistics file
(reference gene names = `f.col_names`, taxonomy = `f.taxonomy_tree`) and query genes `Q`, as
soon as every consulted parent (two or more children) was given at least one gene and the
listed genes are query genes (the selection works on the reference genes thinned to the
query) — no name of a parent or of a gene is ever refused. -/
theorem names_consistent_accepted (f : StatsFile) (hT : TreeWF f.tree) (order : List PKey)
    (chosen : PKey → List Nat) (lk : Lookup) (Q : List Gene) (m : Nat)
    (hp : order.Perm f.tree.allParents)
    (h : markerTable (refFileOf f) order chosen = .ok lk)
    (hQ : ∀ e ∈ lk, ∀ g ∈ e.2, g ∈ Q)
    (hne : ∀ p ∈ f.tree.allParents, Consulted f.tree p → ∀ gs, (p, gs) ∈ lk → gs ≠ []) :
    ∃ c, createCache (some f.tree) lk f.colNames Q m = .ok c := by
  have hnd : order.Nodup := hp.nodup_iff.2 (treeOK_of_wf _ hT).parentsNodup
  have hk := markerTable_keysNodup _ order chosen lk h hnd
  refine C08.accepted_otherwise f.tree hT lk f.colNames Q m hk ?_
    (markerTable_genes (refFileOf f) order chosen lk h)
  intro p hpm hc
  have hpo : p ∈ order := hp.mem_iff.2 hpm
  have hget := markerTable_get? _ order chosen lk h p
  rw [if_pos hpo] at hget
  have hmem := mem_of_get? lk p _ hget
  obtain ⟨g, hg⟩ := List.exists_mem_of_ne_nil _ (hne p hpm hc _ hmem)
  exact not_errAt_of_own f.tree lk Q m p _ hget g hg (hQ _ hmem g hg)

example : ∃ c, createCache (some exTr) [(some (0, 10), [5]), (none, [7, 9]), (some (0, 11), [5])]
    [7, 5, 9] [9, 5, 7, 4] 1 = .ok c :=
  names_consistent_accepted { clusterToRow := [], colNames := [7, 5, 9], data := [], tree := exTr }
    (C08.validated_tree_is_wf exTr (by decide) (by decide) (by decide) (by decide))
    [some (0, 10), none, some (0, 11)] (fun p => if p == none then [0, 2] else [1]) _ [9, 5, 7, 4] 1
    (by decide) (by decide) (by decide)
    (fun p _ _ gs hm =>
      (by decide : ∀ e ∈ [(some (0, 10), [5]), ((none : PKey), [7, 9]), (some (0, 11), [5])], e.2 ≠ [])
        (p, gs) hm)

example : (createCache (some exTr) [(some (0, 10), [5]), (none, [7, 9]), (some (0, 11), [5])]
      [7, 5, 9] [9, 5, 7, 4] 1).toOption.map (·.groups)
    = some [(some (0, 10), [(1, 1)]), (none, [(0, 2), (2, 0)]), (some (0, 11), [(1, 1)])] := by
  decide +kernel

/-- "... are accepted by the next stage and identify clusters and genes consistently by name",
sharpened: against the statistics file it was derived from, a marker table made by the selection
stage can be refused by the marker cache ONLY with the two messages of `validate_marker_lookup`
about the query lacking markers — never "marker genes are not in the reference dataset", never
the cache writer's "No markers at parent node … present in query set", never a `KeyError` of a
name table — and it is accepted exactly when no consulted parent is in C08's error condition
`errAt` (root list empty / nothing the table offers the parent is a query gene). -/
theorem names_consistent_table_rejections (f : StatsFile) (hT : TreeWF f.tree) (order : List PKey)
    (chosen : PKey → List Nat) (lk : Lookup) (Q : List Gene) (m : Nat)
    (hp : order.Perm f.tree.allParents)
    (h : markerTable (refFileOf f) order chosen = .ok lk) :
    (∀ e, createCache (some f.tree) lk f.colNames Q m = .error e →
      e = .noMarkersAnyLevel ∨ e = .validating) ∧
    ((∃ c, createCache (some f.tree) lk f.colNames Q m = .ok c) ↔
      ∀ p ∈ f.tree.allParents, Consulted f.tree p → ¬ errAt f.tree lk Q m p) := by
  have hnd : order.Nodup := hp.nodup_iff.2 (treeOK_of_wf _ hT).parentsNodup
  have hk := markerTable_keysNodup _ order chosen lk h hnd
  have hR := markerTable_genes (refFileOf f) order chosen lk h
  exact ⟨createCache_error_query_only f.tree hT lk f.colNames Q m hk hR,
    createCache_ok_iff f.tree hT lk f.colNames Q m hk hR⟩

example : createCache (some exTr) [(some (0, 10), [5]), (none, [7, 9]), (some (0, 11), [5])]
      [7, 5, 9] [4] 1 = .error .noMarkersAnyLevel ∧
    createCache (some exTr) [(some (0, 10), [5]), (none, [7, 9]), (some (0, 11), [5])]
      [7, 5, 9] [5] 1 = .error .validating := by decide +kernel

/-- "selected markers produced by the pipeline's own stages …": the order in which the workers
deliver the parents is immaterial.  Two delivery orders of the same parents either both give a
table or both raise; the two tables are permutations of each other and answer every key lookup
`marker_lookup[k]` identically; hence (everything downstream reads the table by key) the
validation's error condition at every parent is the same, and the marker cache accepts the one
exactly when it accepts the other. -/
theorem names_consistent_table_order_immaterial (r : RefFile) (order order' : List PKey)
    (chosen : PKey → List Nat) (hp : order.Perm order') :
    ((∃ lk, markerTable r order chosen = .ok lk) ↔ ∃ lk', markerTable r order' chosen = .ok lk') ∧
    ∀ lk lk', markerTable r order chosen = .ok lk → markerTable r order' chosen = .ok lk' →
      lk.Perm lk' ∧ (∀ k, get? lk k = get? lk' k) ∧
      ∀ t : RawTree, TreeWF t → order.Perm t.allParents → ∀ (Q : List Gene) (m : Nat),
        (∀ p, errAt t lk Q m p ↔ errAt t lk' Q m p) ∧
        ((∃ c, createCache (some t) lk r.geneNames Q m = .ok c) ↔
          ∃ c', createCache (some t) lk' r.geneNames Q m = .ok c') := by
  refine ⟨⟨?_, ?_⟩, ?_⟩
  · rintro ⟨lk, h⟩
    obtain ⟨lk', h', _⟩ := markerTable_perm r order order' chosen hp lk h
    exact ⟨lk', h'⟩
  · rintro ⟨lk', h'⟩
    obtain ⟨lk, h, _⟩ := markerTable_perm r order' order chosen hp.symm lk' h'
    exact ⟨lk, h⟩
  · intro lk lk' h h'
    obtain ⟨lk2, h2, hperm, hget⟩ := markerTable_perm r order order' chosen hp lk h
    rw [h'] at h2
    cases h2
    refine ⟨hperm, hget, ?_⟩
    intro t hT hpt Q m
    have herr : ∀ p, errAt t lk Q m p ↔ errAt t lk' Q m p :=
      fun p => errAt_congr t lk lk' Q m p hget
    refine ⟨herr, ?_⟩
    have hnd : order.Nodup := hpt.nodup_iff.2 (treeOK_of_wf _ hT).parentsNodup
    have hnd' : order'.Nodup := hp.nodup_iff.1 hnd
    rw [createCache_ok_iff t hT lk r.geneNames Q m (markerTable_keysNodup r order chosen lk h hnd)
        (markerTable_genes r order chosen lk h),
      createCache_ok_iff t hT lk' r.geneNames Q m (markerTable_keysNodup r order' chosen lk' h' hnd')
        (markerTable_genes r order' chosen lk' h')]
    constructor
    · intro H p hpm hc he; exact H p hpm hc ((herr p).2 he)
    · intro H p hpm hc he; exact H p hpm hc ((herr p).1 he)

example : markerTable (prepOutput [33, 30, 31] [7, 5, 9]) [none, some (0, 11), some (0, 10)]
      (fun p => if p == none then [0, 2] else [1])
      = .ok [(none, [7, 9]), (some (0, 11), [5]), (some (0, 10), [5])] ∧
    [some (0, 10), none, some (0, 11)].Perm [none, some (0, 11), some (0, 10)] := by decide

end CTM.C18
