/-
  C04 — the forced-order enumeration is exhaustive by theorem.

  `harness/props/c04.py` forces on the real stages the completion orders
  `Procs.completionOrders nWorkers nProc` (all of them for ≤ 4 workers in the
  thorough tier).  Here that enumeration is tied to the stage machine
  (`Procs.pollLoop`, the model of the start / poll / drain loop, C14): an order
  `σ` of the workers is enumerated **iff** the machine, shown the workers' exit
  codes one at a time in the order `σ` (`sing σ`; all exit with code 0), returns
  normally - i.e. iff the loop can see the workers complete in that order.
-/
import CTM.Lemmas.ProcsFeasible

namespace CTM.C04
open CTM.Procs

/-- `feasibleOrder` in plain words: for a permutation of the workers, feasible
means that the `k`-th worker to complete is one of the first `k + nProc`
dispatched (with `k` completions and at most `nProc` outstanding, no later
worker can have been started) -/
theorem feasible_iff_window (nProc n : Nat) (σ : List Nat) (hp : σ.Perm (List.range n)) :
    feasibleOrder nProc σ = true ↔ ∀ (k w : Nat), σ[k]? = some w → w < k + nProc :=
  Procs.feasible_iff_window hp

/-- **sound**: every order the machine accepts is feasible … -/
theorem machine_order_feasible (n nProc : Nat) (hproc : 0 < nProc) (σ : List Nat)
    (hp : σ.Perm (List.range n)) (s : St)
    (h : pollLoop .list n nProc id (sing σ) (fun _ => 0) = .ok s) :
    feasibleOrder nProc σ = true :=
  feasible_of_window hp (machine_accepts_window hp hproc h)

/-- … and **complete**: every feasible order is accepted by the machine -/
theorem feasible_order_produced (n nProc : Nat) (hproc : 0 < nProc) (σ : List Nat)
    (hp : σ.Perm (List.range n)) (hf : feasibleOrder nProc σ = true) :
    (pollLoop .list n nProc id (sing σ) (fun _ => 0)).outcome = .ok :=
  machine_produces hp hproc (window_of_feasible hf)

/-- the enumeration used by the harness is exactly the set of orders of the
`n` workers in which the poll loop with `nProc` slots can see them complete:
nothing feasible is left out (for any `n`; the thorough tier runs all of them
for `n ≤ 4`), nothing infeasible is forced -/
theorem completion_orders_exhaustive (n nProc : Nat) (hproc : 0 < nProc) (σ : List Nat) :
    σ ∈ completionOrders n nProc ↔
      σ.Perm (List.range n) ∧ (pollLoop .list n nProc id (sing σ) (fun _ => 0)).outcome = .ok := by
  rw [mem_completionOrders_iff]
  constructor
  · rintro ⟨hp, hf⟩
    exact ⟨hp, feasible_order_produced n nProc hproc σ hp hf⟩
  · rintro ⟨hp, ho⟩
    refine ⟨hp, ?_⟩
    cases h : pollLoop .list n nProc id (sing σ) (fun _ => 0) with
    | ok s => exact machine_order_feasible n nProc hproc σ hp s h
    | failed c s => rw [h] at ho; cases ho
    | spin s => rw [h] at ho; cases ho

example : completionOrders 3 2 = [[0, 1, 2], [1, 0, 2], [1, 2, 0], [0, 2, 1]] := by decide
/-- worker 2 cannot complete first when only two slots exist: the machine waits for ever -/
example : (pollLoop .list 3 2 id (sing [2, 0, 1]) (fun _ => 0)).outcome = .spin := by decide
example : (pollLoop .list 3 2 id (sing [1, 2, 0]) (fun _ => 0)).outcome = .ok := by decide

end CTM.C04
