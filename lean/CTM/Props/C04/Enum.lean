/-
  C04 — "… produces the same result on every run … under any Python hash
  seed": the full form of what `CTM.C04.enum_indep_sorted` (formerly `enum_indep_partial`) stood for.

  For every `set → list` site on the data path of the mapping stage the model
  function of the group that owns the site is shown invariant under every
  enumeration order of the set (a `List.Perm` of the enumerated list, or any
  list with the same members where the site enumerates with possible repeats):

    (a) `create_marker_cache_from_specified_markers` / `write_query_markers_to_h5`:
        `list(set(markers) ∩ set(query))`                     — Model/Markers.lean
    (b) the children of every node of the stored taxonomy (sets in
        `get_taxonomy_tree`, hence `leaves_to_compare` / `_get_leaves_from_tree`
        / `children`)                                          — Model/Tree.lean, LevelLoop.lean
    (c) `set(assignment)` → `idx_to_type` in `run_type_assignment`  — Model/LevelLoop.lean
        (re-stated with the enumeration as a parameter in Lemmas/EnumIndep.lean)
    (d) `list(set(reference_types))` in `aggregate_votes`      — Model/Election.lean
    (e) sets met by `clean_for_json`                           — Model/Output.lean

  and `enum_indep_mapping` composes them for the mapping stage.
-/
import CTM.Lemmas.EnumIndep
import CTM.Lemmas.BridgeWF
import CTM.Props.C08
import CTM.Props.C02
import CTM.Props.C10
import CTM.Props.C15

namespace CTM.C04
open CTM CTM.RawTree CTM.LevelLoop CTM.EnumIndep CTM.Bridge

/-- the example tree of C10 with every dict and every child / row list in
another order -/
def exTreePerm : RawTree :=
  { hierarchy := [0, 1, 2]
    levels := [(0, [(11, [22]), (10, [20, 21])]),
               (1, [(20, [30]), (21, [32, 31]), (22, [33])]),
               (2, [(33, [3, 4]), (30, [0]), (31, [2, 1]), (32, [])])] }


/-- (a) "marker lists sorted by reference gene index before use": whatever order
`set(markers) ∩ set(query)` is enumerated in, the `(reference, query)` index
group written to the marker cache is the same (group E's
`C08.enumeration_immaterial`) -/
theorem enum_indep_markers (R Q : List Markers.Gene) {genes genes' : List Markers.Gene}
    (hp : genes.Perm genes') : Markers.writeGroup R Q genes = Markers.writeGroup R Q genes' :=
  C08.enumeration_immaterial R Q hp

/-- (b) the stored taxonomy's child lists (and dict keys) in any order: two
stored trees that differ only by such permutations (`TreeEquiv`: what
`get_taxonomy_tree` can produce from the same label columns under two hash
seeds) give the same mapping, for an oracle that reads the children of a
parent and their leaves as sets (`Bridge.mapPipeline_equiv`) -/
theorem enum_indep_tree_children {κ} {t₁ t₂ : RawTree} {vote : Oracle κ} (e : TreeEquiv t₁ t₂)
    (w₁ : WF t₁) (w₂ : WF t₂) (hnode : HasNode t₁) (hob : OrderBlind vote)
    (hv₁ : VoteOK t₁ vote) (hv₂ : VoteOK t₂ vote)
    (cfg : Config) (hdrop : cfg.dropLevel = none) (hflat : cfg.flatten = false)
    (ids : List CellId) (cells : List κ) (order : List Nat)
    (hlen : ids.length = cells.length) (hnd : ids.Nodup)
    (hproc : 1 ≤ cfg.nProc) (hcs : 1 ≤ cfg.chunkSize)
    (horder : order.Perm (List.range (chunks cells.length
      (effChunk cells.length cfg.nProc cfg.chunkSize)).length)) :
    mapPipeline t₁ cfg vote ids cells order = mapPipeline t₂ cfg vote ids cells order :=
  mapPipeline_equiv e w₁ w₂ hnode hob hv₁ hv₂ cfg hdrop hflat ids cells order hlen hnd hproc hcs
    horder

/-- (b') `as_leaves` / `_get_leaves_from_tree`: the leaves under a node are the
same set whatever the order of the child lists -/
theorem enum_indep_tree_leaves {t₁ t₂ : RawTree} (e : TreeEquiv t₁ t₂) (w₁ : WF t₁)
    {l : Level} (hl : l ∈ t₁.hierarchy) {n : Node} (hn : n ∈ t₁.nodesAt l) :
    (t₁.asLeaves l n).Perm (t₂.asLeaves l n) :=
  asLeaves_equiv e (strict_of_validate w₁.valid) w₁.hNodup hl hn

/-- (b'') `leaves_to_compare` (the sibling pairs a parent must discriminate): the
same set of pairs whatever the order of the child lists.  (`sibs`: the children
of the parent, at level `cl`, as in `C10.pairs_exact`.) -/
theorem enum_indep_tree_pairs {t₁ t₂ : RawTree} (e : TreeEquiv t₁ t₂) (w₁ : WF t₁) (w₂ : WF t₂)
    (parent : Option (Level × Node)) (sibs : List Node) (cl : Level)
    (hs : t₁.children parent = .ok sibs) (hcl : t₁.levelUnder parent = some cl)
    (hsub : ∀ k ∈ sibs, k ∈ t₁.nodesAt cl) (hclm : cl ∈ t₁.hierarchy) :
    (t₁.leafPairs parent).Perm (t₂.leafPairs parent) := by
  obtain ⟨sibs₂, hs₂, hperm, _⟩ := children_equiv e w₁ w₂ hs
  have hcl₂ : t₂.levelUnder parent = some cl := by rw [← levelUnder_equiv e]; exact hcl
  obtain ⟨hn₁, hm₁⟩ := C10.pairs_exact t₁ w₁ parent sibs cl hs hcl
  obtain ⟨hn₂, hm₂⟩ := C10.pairs_exact t₂ w₂ parent sibs₂ cl hs₂ hcl₂
  apply (List.perm_ext_iff_of_nodup hn₁ hn₂).2
  rintro ⟨a, b⟩
  rw [hm₁, hm₂]
  have s₁ := strict_of_validate w₁.valid
  have hl : ∀ k ∈ sibs, ∀ x, x ∈ t₁.asLeaves cl k ↔ x ∈ t₂.asLeaves cl k := fun k hk x =>
    (asLeaves_equiv e s₁ w₁.hNodup hclm (hsub k hk)).mem_iff
  constructor
  · rintro ⟨hlt, s₀, s₁', h0, h1, hne, ha, hb⟩
    exact ⟨hlt, s₀, s₁', hperm.subset h0, hperm.subset h1, hne, (hl _ h0 a).1 ha, (hl _ h1 b).1 hb⟩
  · rintro ⟨hlt, s₀, s₁', h0, h1, hne, ha, hb⟩
    have h0' := hperm.symm.subset h0
    have h1' := hperm.symm.subset h1
    exact ⟨hlt, s₀, s₁', h0', h1', hne, (hl _ h0' a).2 ha, (hl _ h1' b).2 hb⟩

example : (C10.exTree.leafPairs (some (0, 10))).Perm (exTreePerm.leafPairs (some (0, 10))) := by
  decide

/-- (c) `set(assignment)`: `run_type_assignment` - and the whole data flow of
`_run_mapping` around it - with `idx_to_type` enumerated by *any* `enum`
(any order, any hash seed) equals group D's model, which fixes first-occurrence
order; hence any two enumerations give the same result -/
theorem enum_indep_assignment_set {κ} {enum₁ enum₂ : List Node → List Node}
    (h₁ : IsEnum enum₁) (h₂ : IsEnum enum₂) (t : RawTree) (vote : Oracle κ) (cells : List κ)
    (cfg : Config) (ids : List CellId) (order : List Nat) :
    runLevelLoopE enum₁ t vote cells = runLevelLoopE enum₂ t vote cells ∧
    runLevelLoopE enum₁ t vote cells = runLevelLoop t vote cells ∧
    mapPipelineE enum₁ t cfg vote ids cells order = mapPipelineE enum₂ t cfg vote ids cells order ∧
    mapPipelineE enum₁ t cfg vote ids cells order = mapPipeline t cfg vote ids cells order := by
  refine ⟨?_, runLevelLoopE_eq h₁ t vote cells, ?_, mapPipelineE_eq h₁ t cfg vote ids cells order⟩
  · rw [runLevelLoopE_eq h₁, runLevelLoopE_eq h₂]
  · rw [mapPipelineE_eq h₁, mapPipelineE_eq h₂]

/-- non-vacuity: reversing the first-occurrence order is an enumeration -/
example : IsEnum (fun l => (distinct l).reverse) := fun l x => by
  simp [mem_distinct]

/-- (d) `unq_types = list(set(reference_types)); unq_types.sort()`: whatever list
`enum` the set came out as (same members as `reference_types`), `aggregate_votes`
returns what group C's model returns (`C02.aggregate_sound` describes it) -/
theorem enum_indep_aggregate {enum₁ enum₂ types : List Nat} (h₁ : ∀ t, t ∈ enum₁ ↔ t ∈ types)
    (h₂ : ∀ t, t ∈ enum₂ ↔ t ∈ types) (votes : List Nat) (corr : List Rat) :
    aggregateVotesE enum₁ types votes corr = aggregateVotesE enum₂ types votes corr ∧
    aggregateVotesE enum₁ types votes corr = Election.aggregateVotes types votes corr := by
  rw [aggregateVotesE_eq h₁, aggregateVotesE_eq h₂]
  exact ⟨rfl, rfl⟩

example : aggregateVotesE [7, 5] [7, 5, 7] [2, 0, 1] [3 / 2, 0, 1 / 4]
    = aggregateVotesE [5, 7, 5] [7, 5, 7] [2, 0, 1] [3 / 2, 0, 1 / 4] := by decide +kernel

/-- (e) `clean_for_json` turns a set into the sorted list of its elements: the
enumeration order does not show (group I's `C15.clean_for_json_set_order`) -/
theorem enum_indep_clean_for_json (xs ys : List Int) (h : xs.Perm ys) :
    Output.clean (.intSet xs) = Output.clean (.intSet ys) :=
  C15.clean_for_json_set_order xs ys h

/-- **the mapping stage under any hash seed.**  Two runs of the mapping on the
same inputs: the stored taxonomies differ by the order of child lists / dict
keys (`TreeEquiv`), `set(assignment)` is enumerated by `enum₁` resp. `enum₂` in
every worker, the chunk results are concatenated in the orders `order₁` resp.
`order₂` (any completion orders), and the per-parent vote (marker cache (a),
`aggregate_votes` (d), nearest-centroid election) reads the children of a
parent and their leaves as sets (`OrderBlind`, discharged for the concrete
election by (a) and (d)).  Then `output["results"]` is the same.  ((e) concerns
the serialisation of that value only.) -/
theorem enum_indep_mapping {κ} {t₁ t₂ : RawTree} {vote : Oracle κ}
    {enum₁ enum₂ : List Node → List Node} (he₁ : IsEnum enum₁) (he₂ : IsEnum enum₂)
    (e : TreeEquiv t₁ t₂) (w₁ : WF t₁) (w₂ : WF t₂) (hnode : HasNode t₁) (hob : OrderBlind vote)
    (hv₁ : VoteOK t₁ vote) (hv₂ : VoteOK t₂ vote)
    (cfg : Config) (hdrop : cfg.dropLevel = none) (hflat : cfg.flatten = false)
    (ids : List CellId) (cells : List κ) (order₁ order₂ : List Nat)
    (hlen : ids.length = cells.length) (hnd : ids.Nodup)
    (hproc : 1 ≤ cfg.nProc) (hcs : 1 ≤ cfg.chunkSize)
    (ho₁ : order₁.Perm (List.range (chunks cells.length
      (effChunk cells.length cfg.nProc cfg.chunkSize)).length))
    (ho₂ : order₂.Perm (List.range (chunks cells.length
      (effChunk cells.length cfg.nProc cfg.chunkSize)).length)) :
    mapPipelineE enum₁ t₁ cfg vote ids cells order₁ =
      mapPipelineE enum₂ t₂ cfg vote ids cells order₂ := by
  rw [mapPipelineE_eq he₁, mapPipelineE_eq he₂]
  rw [mapPipeline_plain_ok t₁ cfg vote ids cells order₁ hdrop hflat (wfb_of_WF w₁ hnode) hv₁ hlen
      hnd hproc hcs ho₁,
    ← mapPipeline_plain_ok t₁ cfg vote ids cells order₂ hdrop hflat (wfb_of_WF w₁ hnode) hv₁ hlen
      hnd hproc hcs ho₂]
  exact mapPipeline_equiv e w₁ w₂ hnode hob hv₁ hv₂ cfg hdrop hflat ids cells order₂ hlen hnd
    hproc hcs ho₂

/-- non-vacuity, computed: other child order, other enumeration of
`set(assignment)`, other completion order - same `output["results"]` -/
example : mapPipelineE (fun l => (distinct l).reverse) C10.exTree { chunkSize := 2, nProc := 2 }
      minVote [7, 3, 5] [0, 1, 2] [1, 0] =
    mapPipelineE distinct exTreePerm { chunkSize := 2, nProc := 2 } minVote [7, 3, 5] [0, 1, 2]
      [0, 1] := by
  rfl

end CTM.C04
