import CTM.Model.Markers
namespace CTM.C08
theorem placeholder_true : True := trivial
end CTM.C08
