/-
  Property C08 — "Marker genes are reconciled with the query by name, with
  ancestor fallback" — stated about the model `CTM/Model/Markers.lean` for ALL
  taxonomies, marker tables, query / reference gene lists and `min_markers`.

  Vocabulary (definitions in CTM/Lemmas/Markers.lean, kept there so that this
  file holds statements only):
    `TreeWF t`      level names distinct, ≥ 1 level, every level has its dict,
                    node names of a level distinct (what a validated taxonomy is)
    `Consulted t p` parent `p` has ≥ 2 children (the run chooses among them)
    `specGenes t lk Q m p`  the property's first sentence, computed from the
                    ORIGINAL table `lk`: own list ∩ Q if that has ≥ m genes or
                    `p` is the root; else own ∪ lists of the ancestors present
                    in the table, nearest first, until ≥ m genes of Q; then the
                    root's list; always ∩ Q
    `errAt t lk Q m p`  root missing/empty, or `specGenes` is empty
    `RowsFor R Q rows names`  row j = (reference index, query index) of names[j]
    `KeysNodup lk`  the table is a dict
-/
import CTM.Lemmas.Markers

namespace CTM.C08
open CTM CTM.Markers

/-! ## the genes used = the genes reported = the specification -/

/-- "The genes used at a parent node, which are also the genes the output
reports for it, are the parent's listed markers that occur in the query; if
fewer than the configured minimum remain, the lists of its ancestors are added
nearest first, and finally the root's, until the minimum is reached, always
restricted to genes present in the query."

For every consulted parent of a run whose cache creation succeeds: the group
exists; what `assemble_query_data` selects (`assemble`) and what
`serialize_markers` reads back (`reportedGroup`) are the same list `names`;
as a set it is `specGenes` of the original table; no repetition; rows in
increasing reference index, row `j` holding the reference index and the query
index of `names[j]` ("paired by gene name regardless of column order"). -/
theorem spec (t : RawTree) (hT : TreeWF t) (lk : Lookup) (R Q : List Gene) (m : Nat) (c : Cache)
    (h : createCache (some t) lk R Q m = .ok c) (p : PKey) (hp : p ∈ t.allParents)
    (hc : Consulted t p) :
    ∃ rows names, c.groups.lookup p = some rows ∧ RowsFor R Q rows names ∧
      rows.Pairwise (fun a b => a.1 ≤ b.1) ∧
      reportedGroup c p = .ok names ∧ assemble c p = .ok names ∧
      (∀ g, g ∈ names ↔ g ∈ specGenes t lk Q m p) ∧ names.Nodup :=
  createCache_group t (treeOK_of_wf t hT) lk R Q m c h p hp hc

/-- "... which are also the genes the output reports for it": every entry of
the output table (`serialize_markers`) is the cache group of its parent — the
list `spec` speaks about — or `[]` when the parent has fewer than two children;
there is exactly one key per parent of the taxonomy. -/
theorem reported_is_cache (t : RawTree) (c : Cache) (out : List (PKey × List Gene))
    (h : serialize t c = .ok out) :
    (∀ k, k ∈ out.map (·.1) ↔ k ∈ t.allParents) ∧ ∀ e ∈ out, ReportedEntry t c e.1 e.2 :=
  serialize_spec t c out h

/-- "if fewer than the configured minimum remain, the lists of its ancestors
are added nearest first, and finally the root's, until the minimum is reached":
for a non-root parent with fewer than `m` own markers in the query, `specGenes`
is `Q ∩ (own ∪ L(a₁) ∪ … ∪ L(a_k))` where `a₁, a₂, …` are the ancestors present
in the table, nearest first, every shorter union has fewer than `m` genes of
the query, and either the union has at least `m` of them or all ancestors were
used and the root's list is added. -/
theorem spec_nearest_first (t : RawTree) (lk : Lookup) (Q : List Gene) (m : Nat) (l : Level) (n : Node)
    (hlt : countQ Q ((get? lk (some (l, n))).getD []) < m) :
    let own := (get? lk (some (l, n))).getD []
    let present := (ancestorKeys t l n).filterMap (get? lk)
    ∃ k, k ≤ present.length ∧
      (∀ j, j < k → countQ Q (own ++ (present.take j).flatten) < m) ∧
      ((countQ Q (own ++ (present.take k).flatten) ≥ m ∧
          specGenes t lk Q m (some (l, n)) = interQ Q (own ++ (present.take k).flatten)) ∨
       (k = present.length ∧ countQ Q (own ++ (present.take k).flatten) < m ∧
          specGenes t lk Q m (some (l, n)) =
            interQ Q (own ++ (present.take k).flatten ++ (get? lk none).getD []))) := by
  intro own present
  obtain ⟨k, hk, he, h1, h2⟩ := specAcc_prefix Q m present own hlt
  refine ⟨k, hk, h2, ?_⟩
  unfold specGenes
  simp only [hlt, if_true]
  change (_ ∧ (if countQ Q (specAcc Q m present own) < m then _ else _) = _) ∨
    (_ ∧ _ ∧ (if countQ Q (specAcc Q m present own) < m then _ else _) = _)
  rw [he]
  by_cases hge : countQ Q (own ++ (present.take k).flatten) < m
  · right
    refine ⟨?_, hge, by simp [hge]⟩
    by_cases hkl : k < present.length
    · have := h1 hkl; omega
    · omega
  · left
    exact ⟨by omega, by simp [hge]⟩

/-- "... until the minimum is reached": after the fallback a non-root parent
has at least `m` genes of the query, unless the table is exhausted — then it
has every gene of the query listed for it, for ANY of its ancestors present in
the table, or for the root. -/
theorem min_reached_or_exhausted (t : RawTree) (lk : Lookup) (Q : List Gene) (m : Nat) (l : Level)
    (n : Node) (hlt : countQ Q ((get? lk (some (l, n))).getD []) < m) :
    m ≤ (specGenes t lk Q m (some (l, n))).length ∨
    specGenes t lk Q m (some (l, n)) =
      interQ Q ((get? lk (some (l, n))).getD [] ++
        ((ancestorKeys t l n).filterMap (get? lk)).flatten ++ (get? lk none).getD []) := by
  obtain ⟨k, _, _, h | ⟨hk, _, h⟩⟩ := spec_nearest_first t lk Q m l n hlt
  · left
    rw [h.2]
    exact h.1
  · right
    rw [h, hk, List.take_length]


/-- "... are the parent's listed markers that occur in the query" when enough
of them remain, and always for the root: no fallback. -/
theorem spec_enough (t : RawTree) (lk : Lookup) (Q : List Gene) (m : Nat) (p : PKey)
    (h : p = none ∨ countQ Q ((get? lk p).getD []) ≥ m) :
    specGenes t lk Q m p = interQ Q ((get? lk p).getD []) :=
  specGenes_enough t lk Q m p h

/-- own markers survive the patching; nothing outside the query is ever used:
`L(p) ∩ Q ⊆ used p ⊆ Q` -/
theorem own_survive (t : RawTree) (lk : Lookup) (Q : List Gene) (m : Nat) (p : PKey) (g : Gene) :
    (g ∈ (get? lk p).getD [] → g ∈ Q → g ∈ specGenes t lk Q m p) ∧
    (g ∈ specGenes t lk Q m p → g ∈ Q) :=
  specGenes_own t lk Q m p g

/-- a gene used at a parent is listed for the parent, for one of its ancestors,
or for the root — never taken from anywhere else in the table -/
theorem spec_sources (t : RawTree) (lk : Lookup) (Q : List Gene) (m : Nat) (l : Level) (n : Node)
    (g : Gene) (h : g ∈ specGenes t lk Q m (some (l, n))) :
    g ∈ (get? lk (some (l, n))).getD [] ∨
    (∃ a ∈ ancestorKeys t l n, ∃ la, get? lk a = some la ∧ g ∈ la) ∨
    g ∈ (get? lk none).getD [] :=
  specGenes_sources t lk Q m l n g h

/-- "deepest parents first; union with ancestors' ORIGINAL lists": although
`validate_marker_lookup` mutates the table while it walks it, every list it
reads while patching a parent is still the original one — the loop over the
mutated dict (`validateStep`) equals the loop that reads the original table. -/
theorem original_lists (t : RawTree) (hT : TreeWF t) (Q : List Gene) (m : Nat) (lk : Lookup) :
    foldSteps (validateStep t Q m) t.allParents.reverse { lookup := lk } =
      foldSteps (validateStepWith t Q m (fun _ => lk)) t.allParents.reverse { lookup := lk } := by
  have h := treeOK_of_wf t hT
  exact foldSteps_orig t Q m lk t.allParents.reverse h.deepestFirst
    (fun p hp => h.selfFree p (List.mem_reverse.1 hp)) { lookup := lk } (fun _ _ _ _ => rfl)

/-- the validated table: consulted parents hold (within the query) `specGenes`
of the original table; every other key — single-child parents, keys naming no
node of the run's taxonomy — is left exactly as it was. -/
theorem validated_table (t : RawTree) (hT : TreeWF t) (Q : List Gene) (m : Nat) (lk lk' : Lookup)
    (h : validateLookup t Q m lk = .ok lk') :
    (∀ p ∈ t.allParents, Consulted t p →
        ∀ g, (g ∈ (get? lk' p).getD [] ∧ g ∈ Q) ↔ g ∈ specGenes t lk Q m p) ∧
    (∀ k, ¬ (k ∈ t.allParents ∧ Consulted t k) → get? lk' k = get? lk k) :=
  validateLookup_entries t (treeOK_of_wf t hT) Q m lk lk' h

/-! ## pairing by name, independence of column order -/

/-- "Query and reference values are paired by gene name regardless of column
order": whether the run is accepted, and with which error it ends, depends on
the query and reference gene lists only as sets — in particular not on their
order. -/
theorem verdict_order_invariant (t : RawTree) (hT : TreeWF t) (lk : Lookup) {R R' Q Q' : List Gene}
    (m : Nat) (hQ : ∀ g, g ∈ Q ↔ g ∈ Q') (hR : ∀ g, g ∈ R ↔ g ∈ R') (e : MErr) :
    createCache (some t) lk R Q m = .error e ↔ createCache (some t) lk R' Q' m = .error e :=
  createCache_verdict_congr t (treeOK_of_wf t hT) lk m hQ hR e

/-- ... and so do the genes used at every consulted parent: after permuting
the columns of the query and of the reference (any re-listing of the same
names), each consulted parent uses the same set of genes (listed in the new
reference order, by `spec`). -/
theorem genes_order_invariant (t : RawTree) (hT : TreeWF t) (lk : Lookup) {R R' Q Q' : List Gene}
    (m : Nat) (hQ : ∀ g, g ∈ Q ↔ g ∈ Q') (c c' : Cache)
    (h : createCache (some t) lk R Q m = .ok c) (h' : createCache (some t) lk R' Q' m = .ok c')
    (p : PKey) (hp : p ∈ t.allParents) (hc : Consulted t p) :
    ∃ names names', assemble c p = .ok names ∧ assemble c' p = .ok names' ∧
      ∀ g, g ∈ names ↔ g ∈ names' := by
  obtain ⟨_, names, _, _, _, _, ha, hm, _⟩ := spec t hT lk R Q m c h p hp hc
  obtain ⟨_, names', _, _, _, _, ha', hm', _⟩ := spec t hT lk R' Q' m c' h' p hp hc
  refine ⟨names, names', ha, ha', fun g => ?_⟩
  rw [hm, hm', specGenes_congrQ hQ]

/-- Python enumerates `set(markers) ∩ set(query)` in an arbitrary order before
writing the group: the group written does not depend on that order. -/
theorem enumeration_immaterial (R Q : List Gene) {genes genes' : List Gene} (hp : genes.Perm genes') :
    writeGroup R Q genes = writeGroup R Q genes' :=
  writeGroup_perm R Q hp

/-! ## parents with a single child need no markers -/

/-- "parents with a single child need no markers": the validation does not
look at the entry of a parent with fewer than two children (missing, empty or
junk), changes nothing and reports no error for it ... -/
theorem single_child_free (t : RawTree) (Q : List Gene) (m : Nat) (st : VState) (p : PKey)
    (ch : List Node) (hc : childrenOf t p = .ok ch) (hl : ¬ ch.length > 1) :
    validateStep t Q m st p = .ok { st with skipped := st.skipped + 1 } := by
  simp [validateStep, validateStepWith, hc, hl]

/-- ... the cache writer does not refuse its list for lack of overlap with the
query (the `fix:` for defect D8: only consulted keys can raise) ... -/
theorem single_child_no_overlap_error (Q : List Gene) (cons : List PKey) (lk final : Lookup)
    (h : ∀ e ∈ lk, e.1 ∈ cons → ¬ (interQ Q e.2 = [] ∧ e.2 ≠ [])) :
    intersectAll Q (some cons) lk = .ok (lk.map (fun e => (e.1, interQ Q e.2))) := by
  apply intersectAll_ok_iff
  rintro e he ⟨h1, h2, h3⟩
  simp only [isConsultedKey, List.contains_iff_mem] at h1
  exact h e he h1 ⟨h2, h3⟩

/-- ... and the output reports `[]` for it. -/
theorem single_child_reports_nothing (t : RawTree) (c : Cache) (out : List (PKey × List Gene))
    (h : serialize t c = .ok out) (l : Level) (n : Node) (g : List Gene) (he : (some (l, n), g) ∈ out)
    (ch : List Node) (hc : childrenOf t (some (l, n)) = .ok ch) (hl : ch.length < 2) : g = [] := by
  have := (serialize_spec t c out h).2 _ he
  obtain ⟨ch', hc', h2⟩ := this
  rw [hc] at hc'; cases hc'
  simpa [hl] using h2

/-! ## errors -/

/-- `validate_marker_lookup` accepts the table exactly when no consulted parent
is in the error condition `errAt` (root missing or empty; or nothing in the
query after the whole fallback). -/
theorem validate_ok_iff (t : RawTree) (hT : TreeWF t) (Q : List Gene) (m : Nat) (lk : Lookup) :
    (∃ lk', validateLookup t Q m lk = .ok lk') ↔
      ∀ p ∈ t.allParents, Consulted t p → ¬ errAt t lk Q m p :=
  validateLookup_ok_iff t (treeOK_of_wf t hT) Q m lk

/-- "A root without usable markers ... ends the run with an error instead of a
mapping": a consulted root none of whose listed markers is in the query
(missing, empty, or disjoint from the query), for every `min_markers`. -/
theorem root_without_markers_rejected (t : RawTree) (hT : TreeWF t) (lk : Lookup) (R Q : List Gene)
    (m : Nat) (hc : Consulted t none) (h0 : interQ Q ((get? lk none).getD []) = []) :
    ∃ e, createCache (some t) lk R Q m = .error e :=
  createCache_rejects_root t (treeOK_of_wf t hT) lk R Q m hc h0

/-- "a marker unknown to the reference ... ends the run with an error": a
marker listed under any key of the table (consulted or not) that the query has
but the reference lacks. -/
theorem unknown_marker_rejected (t : RawTree) (hT : TreeWF t) (lk : Lookup) (R Q : List Gene) (m : Nat)
    (hk : KeysNodup lk) (k : PKey) (l : List Gene) (hkl : (k, l) ∈ lk) (g : Gene) (hg : g ∈ l)
    (hq : g ∈ Q) (hr : g ∉ R) :
    ∃ e, createCache (some t) lk R Q m = .error e :=
  createCache_rejects_foreign t (treeOK_of_wf t hT) lk R Q m hk k l hkl g hg hq hr

/-- "a query sharing no marker with the table ends the run with an error": a
consulted parent for which the query has none of the genes the table offers it
(own, ancestors', root's) ends the run — for every `min_markers`, 0 included
(the code did not reject for `min_markers = 0` until `fix:` 78f9fd9, finding
`C08/errors/accepted/query-shares-no-marker/min_markers-0`). -/
theorem no_shared_marker_rejected (t : RawTree) (hT : TreeWF t) (lk : Lookup) (R Q : List Gene) (m : Nat)
    (p : PKey) (hp : p ∈ t.allParents) (hc : Consulted t p)
    (h0 : specGenes t lk Q m p = []) :
    ∃ e, createCache (some t) lk R Q m = .error e :=
  createCache_rejects_errAt t (treeOK_of_wf t hT) lk R Q m p hp hc (Or.inr h0)

/-- "... and conversely none of these ⇒ a mapping": a dict-like table all of
whose listed genes are reference genes is accepted as soon as no consulted
parent is in the error condition — whatever is listed for single-child parents
or for keys that name no node (no spurious rejection). -/
theorem accepted_otherwise (t : RawTree) (hT : TreeWF t) (lk : Lookup) (R Q : List Gene) (m : Nat)
    (hk : KeysNodup lk)
    (hval : ∀ p ∈ t.allParents, Consulted t p → ¬ errAt t lk Q m p)
    (hR : ∀ e ∈ lk, ∀ g ∈ e.2, g ∈ R) :
    ∃ c, createCache (some t) lk R Q m = .ok c :=
  createCache_complete t (treeOK_of_wf t hT) lk R Q m hk hval hR

/-- with a taxonomy the cache writer's own "No markers at parent node … were
present in query set" can no longer be what ends the run: consulted parents
without a query marker were refused by the validation, unconsulted keys
(single child, dropped level: defect D8) cannot raise it. -/
theorem overlap_error_unreachable (t : RawTree) (hT : TreeWF t) (lk : Lookup) (R Q : List Gene) (m : Nat)
    (hk : KeysNodup lk) : createCache (some t) lk R Q m ≠ .error .noQueryOverlap :=
  createCache_no_overlap_error t (treeOK_of_wf t hT) lk R Q m hk

/-- the run never ends in an unplanned `KeyError` / `IndexError` of the name →
column tables: the only errors of the cache creation are the four documented
messages. -/
theorem only_documented_errors (t : RawTree) (hT : TreeWF t) (lk : Lookup) (R Q : List Gene) (m : Nat)
    (e : MErr) (h : createCache (some t) lk R Q m = .error e) :
    e = .noMarkersAnyLevel ∨ e = .validating ∨ e = .noQueryOverlap ∨ e = .notInReference :=
  createCache_error_class t (treeOK_of_wf t hT) lk R Q m e h

/-! ## flattening -/

/-- "flattening unions every list into the root's": the flattened table has the
single key `'None'`, whose list is the sorted, repetition-free union of all
lists of the table. -/
theorem flatten_union (lk : Lookup) :
    ∃ genes, flattenLookup lk = [(none, genes)] ∧ genes.Pairwise (· < ·) ∧
      ∀ g, g ∈ genes ↔ ∃ e ∈ lk, g ∈ e.2 :=
  flattenLookup_spec lk

/-- "flattening unions every list into the root's" — end to end: in a flattened
run the only parent is the root, and the genes it uses (= reports) are exactly
the genes of the query that occur in ANY list of the original table. -/
theorem flatten_spec (t : RawTree) (hT : TreeWF t.flatten) (lk : Lookup) (R Q : List Gene) (m : Nat)
    (c : Cache) (h : createCache (some t.flatten) (flattenLookup lk) R Q m = .ok c)
    (hc : Consulted t.flatten none) :
    ∃ names, assemble c none = .ok names ∧ reportedGroup c none = .ok names ∧
      ∀ g, g ∈ names ↔ g ∈ Q ∧ ∃ e ∈ lk, g ∈ e.2 := by
  obtain ⟨_, names, _, _, _, hrep, hass, hmem, _⟩ :=
    spec t.flatten hT (flattenLookup lk) R Q m c h none (by simp [RawTree.allParents]) hc
  refine ⟨names, hass, hrep, fun g => ?_⟩
  rw [hmem, spec_enough _ _ _ _ _ (Or.inl rfl)]
  obtain ⟨genes, hfl, _, hg⟩ := flatten_union lk
  rw [hfl, mem_interQ]
  simp only [get?, List.lookup_cons, beq_self_eq_true, Option.getD_some]
  rw [hg]
  exact And.comm


/-! ## the whole marker stage -/

/-- once the cache is written, the rest of the marker stage of a run without
`drop_level` / `flatten` cannot fail (`reconcile_taxonomy_and_markers`, the
per-node `assemble_query_data` gene lists, `serialize_markers`), and for every
consulted parent the genes used are the genes reported.  `Populated`: every
parent has at least one child. -/
theorem stage_succeeds (t : RawTree) (hT : TreeWF t) (hpop : Populated t) (lk : Lookup) (R Q : List Gene)
    (m : Nat) (c : Cache) (h : createCache (some t) lk R Q m = .ok c) :
    ∃ out, stage t lk R Q m none false = .ok out ∧
      (∀ e ∈ out.used, e.1 ∈ t.allParents ∧ Consulted t e.1 ∧ assemble c e.1 = .ok e.2 ∧
        reportedGroup c e.1 = .ok e.2) ∧
      (∀ e ∈ out.reported, ReportedEntry t c e.1 e.2) :=
  stage_ok t (treeOK_of_wf t hT) hpop lk R Q m c h

/-- `drop_level`: the marker stage of a run that drops level `l` is the marker
stage on the reduced taxonomy with the SAME table (keys of the dropped level
stay in the table as orphans; by `validated_table` and
`overlap_error_unreachable` they are neither read nor able to fail the run);
a level that is not in the hierarchy is ignored. -/
theorem drop_level_stage (t : RawTree) (lk : Lookup) (R Q : List Gene) (m : Nat) (l : Level)
    (flatten : Bool) :
    (t.hierarchy.contains l = false →
      stage t lk R Q m (some l) flatten = stage t lk R Q m none flatten) ∧
    (∀ t', t.hierarchy.contains l = true → t.dropLevel l = .ok t' →
      stage t lk R Q m (some l) flatten = stage t' lk R Q m none flatten) := by
  constructor
  · intro h
    simp only [stage, h, Bool.false_eq_true, if_false]
  · intro t' h hd
    simp only [stage, h, if_true, hd]


/-- the hypothesis `TreeWF` of the theorems above is what a validated taxonomy
is: accepted by `validate_taxonomy_tree` (model `RawTree.validate`), level
names distinct, node names of each level distinct (they are dict keys). -/
theorem validated_tree_is_wf (t : RawTree) (hv : t.validate = .ok ()) (hN : t.hierarchy.Nodup)
    (hne : t.hierarchy ≠ []) (hK : ∀ l ∈ t.hierarchy, (t.nodesAt l).Nodup) : TreeWF t :=
  treeWF_of_validate t hv hN hne hK

/-! ## non-vacuity: a concrete run meets the hypotheses

levels 0 (class), 1 (subclass), 2 (cluster); class 10 has subclasses 20, 21;
class 11 has the single subclass 22; subclass 20 has clusters 30, 31.
Table: root ↦ [1,2,3], class 10 ↦ [2,9], subclass 20 ↦ [4] (too few for m = 2),
class 11 ↦ [7] (single child, gene not in the query).  Q = [4,3,2,1], R = [1,2,3,4,7,9]. -/

def t0 : RawTree :=
  { hierarchy := [0, 1, 2]
    levels := [(0, [(10, [20, 21]), (11, [22])]), (1, [(20, [30, 31]), (21, [32]), (22, [33])]),
               (2, [(30, []), (31, []), (32, []), (33, [])])] }

def lk0 : Lookup := [(some (1, 20), [4]), (none, [1, 2, 3]), (some (0, 10), [2, 9]), (some (0, 11), [7])]

example : TreeWF t0 := ⟨by decide, by decide, by decide, by decide⟩
example : t0.validate = .ok () := by rfl
example : KeysNodup lk0 := by unfold KeysNodup; decide
example : Consulted t0 (some (1, 20)) := ⟨[30, 31], rfl, by decide⟩
example : Consulted t0 none := ⟨[10, 11], rfl, by decide⟩
/-- the fallback is exercised: subclass 20 gets its own gene 4 plus class 10's gene 2 -/
example : specGenes t0 lk0 [4, 3, 2, 1] 2 (some (1, 20)) = [4, 2] := by decide
example : (createCache (some t0) lk0 [1, 2, 3, 4, 7, 9] [4, 3, 2, 1] 2).toBool = true := by decide
example : Populated t0 := by
  intro p hp ch hc
  have hall : ∀ p ∈ t0.allParents, (match childrenOf t0 p with
      | .ok ch => decide (1 ≤ ch.length)
      | .error _ => true) = true := by decide
  have := hall p hp
  rw [hc] at this
  simpa using this
/-- the hypotheses of the rejection theorems are met by small variants -/
example : specGenes t0 lk0 [8] 1 (some (1, 20)) = [] := by decide
example : interQ [8] ((get? lk0 none).getD []) = [] := by decide
example : (createCache (some t0) lk0 [1, 2, 3, 4, 7, 9] [8] 1).toBool = false := by decide
example : ∀ p ∈ t0.allParents, Consulted t0 p → ¬ errAt t0 lk0 [4, 3, 2, 1] 2 p := by
  apply (validate_ok_iff t0 ⟨by decide, by decide, by decide, by decide⟩ [4, 3, 2, 1] 2 lk0).1
  have hb : (validateLookup t0 [4, 3, 2, 1] 2 lk0).toBool = true := by decide
  cases h : validateLookup t0 [4, 3, 2, 1] 2 lk0 with
  | ok lk' => exact ⟨lk', rfl⟩
  | error e => simp [h, Except.toBool] at hb

end CTM.C08
