/-
  Property C12 — selected query markers cover every cluster pair as far as
  possible.  Theorems about the model `CTM/Model/Selection.lean`
  (`_run_selection`, `select_marker_genes_v2`, `select_all_markers` with
  `genes_at_a_time = 1`), for every reference-marker table, query, target and
  EVERY tie-breaking policy: the policy `tie` is an arbitrary function; the
  model refuses (`illegalPick`) an answer that is not a gene of maximal
  utility, so a successful run is a run of the greedy loop under some legal
  tie order, and conversely every legal policy yields a successful run
  (`terminates`).

  Hypothesis `TableWF t` = the file is as `diff_exp/markers.py` writes it: per
  pair the up/down lists have no repeats, are disjoint, and hold gene indices
  `< nGenes`.  The pairs a parent must discriminate are an input (`leaves`,
  global pair indices as `taxonomy_tree.leaves_to_compare` lists them; their
  exactness is C10).
-/
import CTM.Lemmas.Selection
import CTM.Generated.SelectionConsts

namespace CTM.C12
open CTM.Selection

/-- a sample table: 4 reference genes, 3 pairs -/
def sampleTable : RefTable :=
  { nGenes := 4, pairs := [⟨[0], [1, 2]⟩, ⟨[], [3]⟩, ⟨[2, 3], [0]⟩] }

/-- (non-vacuity of `TableWF`) -/
example : TableWF sampleTable := by
  intro p hp
  simp only [sampleTable, List.mem_cons, List.not_mem_nil, or_false] at hp
  rcases hp with rfl | rfl | rfl <;> constructor <;> simp [sampleTable]

/-- the thinned sample (query = genes 0, 2, 3 and a gene the reference lacks) -/
def sampleThin : Thinned := { kept := [0, 2, 3], pairs := [⟨[0], [1]⟩, ⟨[], [2]⟩, ⟨[1, 2], [0]⟩] }

example : thin sampleTable [3, 9, 0, 2] = .ok sampleThin := by decide

/-! ## inv -/

/-- "utility = number of unfilled (pair, direction) slots a gene marks; …
marker_counts / been_filled / utility_array" (anchors.state, mechanism 1–2):
at the exit of `_run_selection`, for every tie-breaking policy,
* the utility of every gene not chosen is the number of unfilled slots it marks,
* the counts of every pair are the census of the chosen genes among its
  markers (hence never above the number of markers), `aggregate` is their sum,
* a slot is flagged filled exactly when its fill condition holds. -/
theorem inv {nG n : Nat} {pairs : List Pair} {tie : Tie} {st : St}
    (hp : ∀ p ∈ pairs, PairWF nG p) (h : runState nG pairs n tie = .ok st) :
    st.slots.map Slot.toPair = pairs ∧
    (∀ g, g < nG → g ∉ st.chosen → st.util[g]? = some (specUtil st.slots g)) ∧
    (∀ s ∈ st.slots, s.cUp = cnt st.chosen s.up ∧ s.cDown = cnt st.chosen s.down ∧
        s.agg = s.cDown + s.cUp ∧ s.cUp ≤ s.up.length ∧ s.cDown ≤ s.down.length) ∧
    (∀ s ∈ st.slots, (s.fDown = true ↔ s.condDown n = true) ∧
        (s.fUp = true ↔ s.condUp n = true)) := by
  obtain ⟨hI, hF, _⟩ := runState_exit hp h
  refine ⟨hI.shape, hI.util, ?_, ?_⟩
  · intro s hs
    have := hI.slot s hs
    refine ⟨this.cUp, this.cDown, this.agg, ?_, ?_⟩
    · rw [this.cUp]; exact cnt_le _ _
    · rw [this.cDown]; exact cnt_le _ _
  · intro s hs
    have := hI.slot s hs
    exact ⟨⟨this.fDown, (hF s hs).1⟩, ⟨this.fUp, (hF s hs).2⟩⟩

/-- the same facts as an invariant of every step (`Inv` is the conjunction
above plus: chosen genes are distinct, in range, have utility ≤ -1, and each
marks some pair): it holds initially, `_update_been_filled` preserves it, and
so does choosing any in-range unchosen gene that marks some pair — "filled"
flags only ever go from false to true (`Slot.fill`). -/
theorem inv_step {nG n : Nat} {pairs : List Pair} (hp : ∀ p ∈ pairs, PairWF nG p) :
    Inv n nG pairs (initState nG pairs) ∧
    (∀ st, Inv n nG pairs st → Inv n nG pairs (updateBeenFilled n st)) ∧
    (∀ st st' g, Inv n nG pairs st → g < nG → (∃ p ∈ pairs, g ∈ p.up ∨ g ∈ p.down) →
        chooseGene g st = .ok st' → Inv n nG pairs st') ∧
    (∀ s : Slot, ((s.fill n).fDown = false → s.fDown = false) ∧
        ((s.fill n).fUp = false → s.fUp = false)) := by
  refine ⟨Inv.init hp, fun st h => h.update, fun st st' g h hg hm hc => h.choose hg hm hc, ?_⟩
  intro s
  simp only [fill_fDown, fill_fUp, Bool.or_eq_false_iff]
  exact ⟨fun h => h.1, fun h => h.1⟩

example : ∀ p ∈ sampleThin.pairs, PairWF 3 p := by
  intro p hp
  simp only [sampleThin, List.mem_cons, List.not_mem_nil, or_false] at hp
  rcases hp with rfl | rfl | rfl <;> constructor <;> simp

example : (runState 3 sampleThin.pairs 1 tieFirst).map (·.chosen) = .ok [2, 0, 1] := by decide

/-- "utility = number of unfilled (pair, direction) slots a gene marks; greedy
pick of the maximum": in any state of the loop (`Inv`), a pick the model
accepts (`legalPick`, made only while the maximal utility is positive) is a
gene not chosen before, marks at least one unfilled slot, and no unchosen gene
marks more unfilled slots. -/
theorem greedy_pick {n nG : Nat} {pairs : List Pair} {st : St} {m : Int} {g : Nat}
    (h : Inv n nG pairs st) (hm : maxUtil st.util = some m) (hpos : ¬ m ≤ 0)
    (hl : legalPick st.util g = true) :
    g ∉ st.chosen ∧ 0 < specUtil st.slots g ∧
      ∀ g', g' < nG → g' ∉ st.chosen → specUtil st.slots g' ≤ specUtil st.slots g :=
  pick_greedy h hm hpos hl

example : legalPick [1, 3, -1, 3] 3 = true ∧ legalPick [1, 3, -1, 3] 0 = false := by decide

/-- "pairs with at most the target number of markers have all of them taken up
front" (`_choose_desperate_markers`): before the main loop starts, every
marker (in the query) of a pair with `0 < #markers ≤ n` has been chosen. -/
theorem desperate_all_taken {n nG : Nat} {pairs : List Pair} {st : St}
    (hp : ∀ p ∈ pairs, PairWF nG p) (h : preState nG pairs n = .ok st) :
    ∀ p ∈ pairs, 0 < p.down.length + p.up.length → p.down.length + p.up.length ≤ n →
      ∀ g, g ∈ p.up ∨ g ∈ p.down → g ∈ st.chosen :=
  preState_takes_desperate hp h

example : (preState 3 sampleThin.pairs 2).map (·.chosen) = .ok [0, 1, 2] := by decide

/-! ## the block loop of `create_utility_array` -/

/-- `create_utility_array` visits the parent's pairs in blocks
(`for pair0 in range(0, n_taxon, batch_size)`): for EVERY block size ≥ 1 the
blocks partition the pair list — no block border and no trailing partial block
is lost or visited twice … -/
theorem block_slices_cover {α : Type} (bs : Nat) (hbs : 0 < bs) (l : List α) :
    (blockSlices bs l).flatten = l := by
  unfold blockSlices
  suffices h : ∀ (fuel : Nat) (l : List α), l.length ≤ fuel →
      (blockSlicesAux fuel bs l).flatten = l from h _ l (Nat.le_refl _)
  intro fuel
  induction fuel with
  | zero =>
    intro l hl
    have : l = [] := List.length_eq_zero_iff.mp (by omega)
    subst this; rfl
  | succ fuel ih =>
    intro l hl
    simp only [blockSlicesAux]
    cases l with
    | nil => rfl
    | cons x xs =>
      simp only [List.isEmpty_cons, Bool.false_eq_true, if_false, List.flatten_cons]
      rw [ih ((x :: xs).drop bs) (by simp only [List.length_drop, List.length_cons] at hl ⊢; omega),
        List.take_append_drop]

/-- … hence the utility accumulated block by block is the utility over all the
parent's pairs, and the initial arrays the model builds with the code's block
size (`utilityBlock gbSize nGenes`) are those of the whole-table sum on which
`inv` … `indep` are proved. -/
theorem utility_blocks (bs : Nat) (hbs : 0 < bs) (slots : List Slot) (g : Nat) (nGenes : Nat)
    (pairs : List Pair) :
    initUtilB bs slots g = initUtil slots g ∧
    initStateB bs nGenes pairs = initStateWhole nGenes pairs ∧
    initState nGenes pairs = initStateWhole nGenes pairs :=
  ⟨initUtilB_eq bs hbs slots g, initStateB_eq bs hbs nGenes pairs, initState_eq_whole nGenes pairs⟩

example : blockSlices 2 [1, 2, 3, 4, 5] = [[1, 2], [3, 4], [5]] := by decide
example : utilityBlock 10 200000 = 17896 := by decide

/-- the block arithmetic re-extracted from the current source
(`CTM/Generated/SelectionConsts.lean`, rewritten by `./check C12`) is the one
the model implements: `gb_size`, `byte_size`, `batch_size`, the loop header and
the slice end. -/
theorem block_constants_pinned :
    CTM.Generated.SelectionConsts.gbSize = gbSize ∧
    CTM.Generated.SelectionConsts.byteSizeExpr = "gb_size * 1024 ** 3" ∧
    CTM.Generated.SelectionConsts.batchSizeExpr =
      "max(1, np.round(byte_size / (3 * n_genes)).astype(int))" ∧
    CTM.Generated.SelectionConsts.blockLoop = "pair0 in range(0, n_taxon, batch_size)" ∧
    CTM.Generated.SelectionConsts.pair1Expr = "min(n_pairs, pair0 + batch_size)" := by
  decide

/-! ## terminates -/

/-- the `while True` loop of `_run_selection` stops: under every legal
tie-breaking policy (one that always names a gene of maximal utility, as
`np.argsort(...)[-1]` does) the run ends successfully — in particular the
fuel bound `nGenes + 1` of the model is never reached and no gene is chosen
twice. -/
theorem terminates {nG n : Nat} {pairs : List Pair} {tie : Tie}
    (hp : ∀ p ∈ pairs, PairWF nG p) (hG : 0 < nG) (ht : LegalTie tie) :
    ∃ st, runState nG pairs n tie = .ok st :=
  runState_total hp hG ht

/-- for an arbitrary (possibly illegal) policy the only possible failures are
the model's refusal of an illegal pick, or `max()` of an empty utility array
when there is no gene at all: never `outOfFuel`, never `choseTwice`, never the
up/down assertion. -/
theorem terminates_any {nG n : Nat} {pairs : List Pair} {tie : Tie} {e : Err}
    (hp : ∀ p ∈ pairs, PairWF nG p) (h : runState nG pairs n tie = .error e) :
    (e = .illegalPick ∧ ¬ LegalTie tie) ∨ (e = .emptyMax ∧ nG = 0) :=
  runState_error hp h

example : LegalTie tieFirst := tieFirst_legal

/-! ## coverage -/

/-- "For every such leaf pair the number of selected genes that are reference
markers of the pair is at least the smaller of twice the per-direction target
and the number of the pair's reference markers available in the query."
`names` is what the parent gets; `k` ranges over the pairs the parent must
discriminate; `p.up ++ p.down` are the pair's reference markers. For every
table, query, target, tie policy, and both table paths (`beh`). -/
theorem coverage {t : RefTable} {query leaves : List Nat} {beh : Bool} {n : Nat} {tie : Tie}
    {th : Thinned} {names : List Nat}
    (ht : TableWF t) (hth : thin t query = .ok th)
    (h : selectParent th leaves beh n tie = .ok names) :
    ∀ k ∈ leaves, ∀ p, t.pairs[k]? = some p →
      min (2 * n) ((p.up ++ p.down).countP (fun g => query.contains g))
        ≤ names.countP (fun g => (p.up ++ p.down).contains g) := by
  intro k hk p hpk
  have hne : leaves ≠ [] := by intro h0; rw [h0] at hk; cases hk
  obtain ⟨ps, st, hr, hnames, hwf, hfwd, _⟩ := selectParent_pieces ht hth hne h
  obtain ⟨hkept, _, _⟩ := thin_ok hth
  have hpw : PairWF t.nGenes p := ht p (List.mem_of_getElem? hpk)
  have hcov := coverage_pairs hwf hr (thinPair th.kept p) (hfwd k hk p hpk)
  obtain ⟨hI, _, _⟩ := runState_exit hwf hr
  have hkn : th.kept.Nodup := by rw [hkept]; exact keptGenes_nodup _ _
  have hu := cnt_thin hkn hI.nodup hI.lt hpw.upNodup
  have hd := cnt_thin hkn hI.nodup hI.lt hpw.downNodup
  have hlu : (thinList th.kept p.up).length = p.up.countP (fun g => query.contains g) := by
    rw [hkept]; exact length_thinList_kept hpw.upLt
  have hld : (thinList th.kept p.down).length = p.down.countP (fun g => query.contains g) := by
    rw [hkept]; exact length_thinList_kept hpw.downLt
  rw [hnames, countP_or_disjoint _ _ _ hpw.disj, List.countP_append]
  simp only [thinPair] at hcov
  omega

/-- the same bound on the arrays `_run_selection` works with (after thinning
to the query genes and restriction to the parent's pairs). -/
theorem coverage_core {nG n : Nat} {pairs : List Pair} {tie : Tie} {chosen : List Nat}
    (hp : ∀ p ∈ pairs, PairWF nG p) (h : runSelection nG pairs n tie = .ok chosen) :
    ∀ p ∈ pairs, min (2 * n) (p.up ++ p.down).length
      ≤ chosen.countP (fun g => (p.up ++ p.down).contains g) := by
  intro p hpm
  simp only [runSelection] at h
  cases hr : runState nG pairs n tie with
  | error e => rw [hr] at h; simp [Except.map] at h
  | ok st =>
    rw [hr] at h
    simp only [Except.map, Except.ok.injEq] at h
    subst h
    have hcov := coverage_pairs hp hr p hpm
    obtain ⟨hI, _, _⟩ := runState_exit hp hr
    have hw := hp p hpm
    rw [countP_or_disjoint _ _ _ hw.disj, countP_mem_comm hI.nodup hw.upNodup,
      countP_mem_comm hI.nodup hw.downNodup, List.length_append]
    exact hcov

example : selectParent sampleThin [0, 2] false 1 tieFirst = .ok [0, 2] := by decide

/-! ## wf -/

/-- "For each parent node the selected genes are free of duplicates, occur in
the query and are reference markers of at least one leaf pair that the parent
must discriminate". -/
theorem wf {t : RefTable} {query leaves : List Nat} {beh : Bool} {n : Nat} {tie : Tie}
    {th : Thinned} {names : List Nat}
    (ht : TableWF t) (hth : thin t query = .ok th)
    (h : selectParent th leaves beh n tie = .ok names) :
    names.Nodup ∧
    (∀ g ∈ names, g ∈ query ∧ g < t.nGenes) ∧
    (∀ g ∈ names, ∃ k ∈ leaves, ∃ p, t.pairs[k]? = some p ∧ (g ∈ p.up ∨ g ∈ p.down)) := by
  by_cases hne : leaves = []
  · subst hne
    have : names = [] := by
      simp only [selectParent, List.isEmpty_nil, if_true, Except.ok.injEq] at h
      exact h.symm
    subst this
    simp
  obtain ⟨ps, st, hr, hnames, hwf, _, hback⟩ := selectParent_pieces ht hth hne h
  obtain ⟨hkept, _, _⟩ := thin_ok hth
  obtain ⟨hI, _, _⟩ := runState_exit hwf hr
  have hkn : th.kept.Nodup := by rw [hkept]; exact keptGenes_nodup _ _
  have hget : ∀ i, i < th.kept.length → th.kept.getD i 0 = th.kept[i]! := by
    intro i hi
    rw [List.getD_eq_getElem?_getD, getElem!_pos th.kept i hi, List.getElem?_eq_getElem hi]; rfl
  have hmemk : ∀ i ∈ st.chosen, th.kept.getD i 0 ∈ th.kept := by
    intro i hi
    have hlt := hI.lt i hi
    rw [List.getD_eq_getElem?_getD, List.getElem?_eq_getElem hlt]
    exact List.getElem_mem hlt
  refine ⟨?_, ?_, ?_⟩
  · rw [hnames]
    apply List.Nodup.map_on _ hI.nodup
    intro i hi j hj hij
    have hi' := hI.lt i hi
    have hj' := hI.lt j hj
    rw [List.getD_eq_getElem?_getD, List.getD_eq_getElem?_getD, List.getElem?_eq_getElem hi',
      List.getElem?_eq_getElem hj'] at hij
    exact (List.Nodup.getElem_inj_iff hkn).mp hij
  · intro g hg
    rw [hnames] at hg
    obtain ⟨i, hi, rfl⟩ := List.mem_map.mp hg
    have hk2 := hmemk i hi
    have : th.kept.getD i 0 ∈ keptGenes t.nGenes query := by rw [← hkept]; exact hk2
    rw [mem_keptGenes] at this
    exact ⟨this.2, this.1⟩
  · intro g hg
    rw [hnames] at hg
    obtain ⟨i, hi, rfl⟩ := List.mem_map.mp hg
    obtain ⟨p', hp', hm⟩ := hI.marks i hi
    obtain ⟨k, hk, p, hpk, rfl⟩ := hback p' hp'
    refine ⟨k, hk, p, hpk, ?_⟩
    have hlt := hI.lt i hi
    simp only [thinPair] at hm
    rcases hm with hm | hm
    · left; exact (mem_thinList_iff_getD hkn hlt).mp hm
    · right; exact (mem_thinList_iff_getD hkn hlt).mp hm

/-- "a parent with nothing to discriminate gets none" -/
theorem wf_trivial (th : Thinned) (beh : Bool) (n : Nat) (tie : Tie) :
    selectParent th [] beh n tie = .ok [] := rfl

/-- … also when the parent has pairs but none of them has a marker in the
query: nothing is selected. -/
theorem wf_no_markers {nG n : Nat} {pairs : List Pair} {tie : Tie} {chosen : List Nat}
    (hp : ∀ p ∈ pairs, p.up = [] ∧ p.down = [])
    (h : runSelection nG pairs n tie = .ok chosen) : chosen = [] := by
  have hwf : ∀ p ∈ pairs, PairWF nG p := by
    intro p hpm
    obtain ⟨h1, h2⟩ := hp p hpm
    constructor <;> simp [h1, h2]
  simp only [runSelection] at h
  cases hr : runState nG pairs n tie with
  | error e => rw [hr] at h; simp [Except.map] at h
  | ok st =>
    rw [hr] at h
    simp only [Except.map, Except.ok.injEq] at h
    subst h
    obtain ⟨hI, _, _⟩ := runState_exit hwf hr
    cases hc : st.chosen with
    | nil => rfl
    | cons g gs =>
      obtain ⟨p, hpm, hm⟩ := hI.marks g (by rw [hc]; simp)
      obtain ⟨h1, h2⟩ := hp p hpm
      rw [h1, h2] at hm
      simp at hm

example : selectParent sampleThin [1] false 2 tieFirst = .ok [3] := by decide


/-! ## the whole of `select_all_markers` -/

/-- all clauses of the first two sentences of C12 for the result of
`select_all_markers` (any cut-off, any per-parent tie policies, per-parent
targets `p.n` after `n_per_utility_override`): one entry per parent, and every
entry that is a selection is well-formed and covers each of the parent's pairs
up to `min (2n) (available)`. -/
theorem select_all_spec {t : RefTable} {query : List Nat} {parents : List Parent} {cutoff : Nat}
    {ties : Nat → Tie} {r : List (Except Err (List Nat))}
    (ht : TableWF t) (h : selectAll t query parents cutoff ties = .ok r) :
    r.length = parents.length ∧
    ∀ (i : Nat) (p : Parent) (names : List Nat), parents[i]? = some p →
      r[i]? = some (Except.ok names) →
      names.Nodup ∧ (∀ g ∈ names, g ∈ query ∧ g < t.nGenes) ∧
      (∀ g ∈ names, ∃ k ∈ p.leaves, ∃ pr, t.pairs[k]? = some pr ∧ (g ∈ pr.up ∨ g ∈ pr.down)) ∧
      (p.leaves = [] → names = []) ∧
      (∀ k ∈ p.leaves, ∀ pr, t.pairs[k]? = some pr →
        min (2 * p.n) ((pr.up ++ pr.down).countP (fun g => query.contains g))
          ≤ names.countP (fun g => (pr.up ++ pr.down).contains g)) := by
  unfold selectAll at h
  cases hth : thin t query with
  | error e => rw [hth] at h; cases h
  | ok th =>
    rw [hth] at h
    simp only [Except.ok.injEq] at h
    subst h
    refine ⟨by simp, ?_⟩
    intro i p names hp hi
    simp only [List.getElem?_map, List.getElem?_zipIdx, Option.map_eq_some_iff] at hi
    obtain ⟨⟨p1, j1⟩, ⟨p', hp', hpe⟩, hs⟩ := hi
    rw [hp] at hp'
    simp only [Option.some.injEq] at hp'
    subst hp'
    simp only [Prod.mk.injEq] at hpe
    obtain ⟨rfl, rfl⟩ := hpe
    simp only at hs
    obtain ⟨h1, h2, h3⟩ := wf ht hth hs
    refine ⟨h1, h2, h3, ?_, coverage ht hth hs⟩
    intro hl
    rw [hl] at hs
    simp only [selectParent, List.isEmpty_nil, if_true, Except.ok.injEq] at hs
    exact hs.symm

example : selectAll sampleTable [3, 9, 0, 2] [⟨[2], 1⟩, ⟨[], 2⟩] 7 (fun _ => tieFirst)
    = .ok [.ok [0, 2], .ok []] := by decide

/-! ## several reference-marker files -/

/-- `create_marker_gene_lookup_from_ref_list` with several reference-marker
files (`selectMulti`): a parent is selected on the file with the largest cell
census under it (the first such file), and on THAT file's table, with the
WHOLE query (not the genes common to all files), its selection satisfies all
clauses of C12: duplicate-free, in the query, each gene a marker (in that file)
of a pair the parent must discriminate, every such pair covered up to
`min (2n) (its markers in that file available in the query)`. -/
theorem multi_spec {tables : List RefTable} {query : List Nat} {parents : List MParent}
    {cutoff : Nat} {ties : Nat → Tie}
    (hts : ∀ t ∈ tables, TableWF t) (i : Nat) (p : MParent) (names : List Nat)
    (hp : parents[i]? = some p)
    (hr : (selectMulti tables query parents cutoff ties)[i]? = some (Except.ok names)) :
    ∃ (f : Nat) (t : RefTable) (m : Nat), tables[f]? = some t ∧ p.census[f]? = some m ∧
      (∀ (k v : Nat), p.census[k]? = some v → v ≤ m) ∧
      (∀ k, k < f → ∀ v, p.census[k]? = some v → v < m) ∧
      names.Nodup ∧ (∀ g ∈ names, g ∈ query ∧ g < t.nGenes) ∧
      (∀ g ∈ names, ∃ k ∈ p.leaves, ∃ pr : Pair, t.pairs[k]? = some pr ∧
        (g ∈ pr.up ∨ g ∈ pr.down)) ∧
      (∀ k ∈ p.leaves, ∀ pr : Pair, t.pairs[k]? = some pr →
        min (2 * p.n) ((pr.up ++ pr.down).countP (fun g => query.contains g))
          ≤ names.countP (fun g => (pr.up ++ pr.down).contains g)) := by
  simp only [selectMulti, List.getElem?_map, List.getElem?_zipIdx, Option.map_eq_some_iff] at hr
  obtain ⟨⟨p1, j1⟩, ⟨p', hp', hpe⟩, hs⟩ := hr
  rw [hp] at hp'
  simp only [Option.some.injEq] at hp'
  subst hp'
  simp only [Prod.mk.injEq] at hpe
  obtain ⟨rfl, rfl⟩ := hpe
  simp only at hs
  cases hf : assignFile p.census with
  | none => rw [hf] at hs; cases hs
  | some f =>
    rw [hf] at hs
    simp only at hs
    cases ht : tables[f]? with
    | none => rw [ht] at hs; cases hs
    | some t =>
      rw [ht] at hs
      simp only at hs
      cases hth : thin t query with
      | error e => rw [hth] at hs; cases hs
      | ok th =>
        rw [hth] at hs
        simp only at hs
        obtain ⟨m, hm1, hm2, hm3⟩ := assignFile_spec hf
        have htw : TableWF t := hts t (List.mem_of_getElem? ht)
        obtain ⟨h1, h2, h3⟩ := wf htw hth hs
        exact ⟨f, t, m, ht, hm1, hm2, hm3, h1, h2, h3, coverage htw hth hs⟩

example : assignFile [3, 7, 7, 2] = some 1 ∧ assignFile [] = none := by decide

example : selectMulti [sampleTable, ⟨2, [⟨[0], [1]⟩, ⟨[], []⟩, ⟨[], [1]⟩]⟩] [3, 9, 0, 2, 1]
    [⟨[2], 1, [5, 1]⟩, ⟨[0], 1, [2, 4]⟩] 7 (fun _ => tieFirst) = [.ok [0, 2], .ok [0, 1]] := by
  decide

/-! ## indep -/

/-- "The selection is the same for … any threshold deciding which parents are
processed on the full table": for one parent, selection on the full thinned
table with the sorted array of global pair indices (`spawn_copy`, behemoth
path) and selection on the table restricted to the parent's pairs in
`leaves_to_compare` order (`downsample_pairs_to_other`) choose the same genes,
under any tie-breaking policy that looks at the utility array only (as
`np.argsort(utility_array)` does).  The two ordered lists can differ in the
order of the forced "desperate" prefix, hence `Perm` and not `=`. -/
theorem indep {t : RefTable} {query leaves : List Nat} {n : Nat} {pol : List Int → Nat}
    {th : Thinned} {a b : List Nat}
    (ht : TableWF t) (hth : thin t query = .ok th)
    (ha : selectParent th leaves true n (fun _ u => pol u) = .ok a)
    (hb : selectParent th leaves false n (fun _ u => pol u) = .ok b) : a.Perm b := by
  by_cases hne : leaves = []
  · subst hne
    simp only [selectParent, List.isEmpty_nil, if_true, Except.ok.injEq] at ha hb
    rw [← ha, ← hb]
  obtain ⟨psa, sta, hla, hra, hna⟩ := selectParent_ok hne ha
  obtain ⟨psb, stb, hlb, hrb, hnb⟩ := selectParent_ok hne hb
  obtain ⟨_, hpairs, _⟩ := thin_ok hth
  obtain ⟨hpa, _⟩ := lookupPairs_spec _ _ hla
  obtain ⟨hpb, _⟩ := lookupPairs_spec _ _ hlb
  have hperm : psa.Perm psb := by
    rw [hpa, hpb]
    apply List.Perm.filterMap
    simp only [localOrder, if_true, Bool.false_eq_true, if_false]
    exact List.mergeSort_perm _ _
  have hwf : ∀ p ∈ psb, PairWF th.kept.length p := by
    intro p hp
    rw [hpb, List.mem_filterMap] at hp
    obtain ⟨k, _, hk⟩ := hp
    have hmem := List.mem_of_getElem? hk
    rw [hpairs, List.mem_map] at hmem
    obtain ⟨q, hq, rfl⟩ := hmem
    exact thinPair_wf (ht q hq)
  have hsim := runState_perm hwf hperm hrb hra
  rw [hna, hnb]
  exact hsim.chosen.map _

/-- … and therefore the result of `select_all_markers` does not depend on the
behemoth cut-off: parent by parent the same genes are selected.  (The worker
count is not even a parameter of the model: the workers share nothing; that
part of the sentence is checked on the implementation for 1–4 workers.) -/
theorem indep_cutoff {t : RefTable} {query : List Nat} {parents : List Parent} {c1 c2 : Nat}
    {pol : Nat → List Int → Nat} {r1 r2 : List (Except Err (List Nat))}
    (ht : TableWF t)
    (h1 : selectAll t query parents c1 (fun i _ u => pol i u) = .ok r1)
    (h2 : selectAll t query parents c2 (fun i _ u => pol i u) = .ok r2) :
    r1.length = r2.length ∧
    ∀ (i : Nat) (a b : List Nat), r1[i]? = some (Except.ok a) → r2[i]? = some (Except.ok b) →
      a.Perm b := by
  unfold selectAll at h1 h2
  cases hth : thin t query with
  | error e => rw [hth] at h1; cases h1
  | ok th =>
    rw [hth] at h1 h2
    simp only [Except.ok.injEq] at h1 h2
    subst h1 h2
    refine ⟨by simp, ?_⟩
    intro i a b hi1 hi2
    simp only [List.getElem?_map, List.getElem?_zipIdx, Option.map_eq_some_iff] at hi1 hi2
    obtain ⟨⟨p1, j1⟩, ⟨p, hp, hpe⟩, hs1⟩ := hi1
    obtain ⟨⟨p2, j2⟩, ⟨p', hp', hpe'⟩, hs2⟩ := hi2
    rw [hp] at hp'
    simp only [Option.some.injEq] at hp'
    subst hp'
    simp only [Prod.mk.injEq] at hpe hpe'
    obtain ⟨rfl, rfl⟩ := hpe
    obtain ⟨rfl, rfl⟩ := hpe'
    simp only at hs1 hs2
    cases hb1 : isBehemoth t.pairs.length c1 p.leaves <;>
      cases hb2 : isBehemoth t.pairs.length c2 p.leaves <;>
      rw [hb1] at hs1 <;> rw [hb2] at hs2
    · rw [hs1] at hs2; cases hs2; exact List.Perm.refl _
    · exact (indep ht hth hs2 hs1).symm
    · exact indep ht hth hs1 hs2
    · rw [hs1] at hs2; cases hs2; exact List.Perm.refl _

/-- (non-vacuity of `indep`: both hypotheses hold for the sample, on the two
table paths; here the two ordered lists even coincide) -/
example : selectParent sampleThin [2, 0] false 1 (fun _ u => lastArgmax u) = .ok [2, 0] := by
  decide

example : selectParent sampleThin [2, 0] true 1 (fun _ u => lastArgmax u) = .ok [2, 0] := by
  have h : localOrder [2, 0] true = [0, 2] := by simp [localOrder, List.mergeSort]
  unfold selectParent
  rw [h]
  decide

end CTM.C12
