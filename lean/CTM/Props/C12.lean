import CTM.Model.Selection
namespace CTM.C12
theorem placeholder_true : True := trivial
end CTM.C12
