/-
  Property C09: "Reference statistics equal direct computation and are additive".

  Theorems about the executable model `CTM.Model.Stats` of the statistics
  writers (`precompute_from_anndata.py`, `stats_utils.py`,
  `truncate_precompute.py`, `precompute_utils.py`, `score_utils.py`).
  Helper lemmas live in `CTM.Lemmas.Stats`.
-/
import CTM.Lemmas.Stats

namespace CTM.C09
open CTM.Stats

/-- "The values do not depend on how cells are spread over files, encodings,
chunks or workers" (additivity): the accumulated statistics of a block of
cells `A ++ B` are the sum of the statistics of `A` and of `B`, for any
per-cell contribution `f` (in particular `fun c => cellStat c.vals`). -/
theorem stat_append {α : Type} (f : α → Row) (A B : List α) :
    rowSum ((A ++ B).map f) = (rowSum (A.map f)).add (rowSum (B.map f)) := by
  rw [List.map_append, rowSum_append]

example : rowSum ((([[1, 2], [3, 4]] : List (List Rat)) ++ [[5, 6]]).map cellStat)
    = (rowSum ([[1, 2], [3, 4]].map cellStat)).add (rowSum ([[5, 6]].map cellStat)) := by
  decide +kernel

/-- "The values do not depend on how cells are spread over files ... chunks or
workers" (order): the accumulated statistics of a block of cells do not depend
on the order in which the cells are visited. -/
theorem stat_perm {α : Type} (f : α → Row) {A B : List α} (h : A.Perm B) :
    rowSum (A.map f) = rowSum (B.map f) :=
  rowSum_perm (h.map f)

example : rowSum (([[1, 2], [3, 4], [5, 6]] : List (List Rat)).map cellStat)
    = rowSum (([[5, 6], [1, 2], [3, 4]] : List (List Rat)).map cellStat) := by
  decide +kernel

/-- "the sum and sum of squares of log2(CPM+1)" determine mean and variance:
with `n` values of sum `s` and sum of squares `q`, `meanOf n s` is the mean
(`n ≥ 1`) and `varOf n s q` the unbiased sample variance (`n ≥ 2`), as used by
`aggregate_stats`. -/
theorem mean_var (xs : List Rat) :
    (1 ≤ xs.length → meanOf xs.length xs.sum * (xs.length : Rat) = xs.sum) ∧
    (2 ≤ xs.length →
      varOf xs.length xs.sum (xs.map (fun x => x * x)).sum * ((xs.length : Rat) - 1)
        = (xs.map (fun x => (x - meanOf xs.length xs.sum) ^ 2)).sum) :=
  ⟨meanOf_mul _ _, varOf_mul xs⟩

example : meanOf 3 ([1, 2, 6].sum) = 3 ∧ varOf 3 ([1, 2, 6].sum) (([1, 2, 6].map (fun x => x * x)).sum) = 7 := by
  decide +kernel

/-- "the reference-statistics file holds the number of member cells, the sum
and sum of squares of log2(CPM+1), and the numbers of member cells with CPM
above 0, above 1, and at least 1": for a block of cells with `g` genes each, the
`n` field of `summary_stats_for_chunk` is the number of cells and the entry of
gene `j < g` holds the plain column sums of the values, of their squares, and
of the three threshold indicators.  Stated for the block added into a zeroed
row (what the file holds, also right for an empty block) and, for a non-empty
block, for `summaryStats` itself. -/
theorem summary_fields (g : Nat) (cells : List (List Rat))
    (hlen : ∀ c ∈ cells, c.length = g) (j : Nat) (hj : j < g) :
    ((Row.zero g).add (summaryStats cells)).n = cells.length ∧
    (summaryStats cells).n = cells.length ∧
    ∃ s, ((Row.zero g).add (summaryStats cells)).genes[j]? = some s ∧
      (cells ≠ [] → (summaryStats cells).genes[j]? = some s) ∧
      s.sum = (cells.map (fun c => c.getD j 0)).sum ∧
      s.sumsq = (cells.map (fun c => c.getD j 0 * c.getD j 0)).sum ∧
      s.gt0 = (cells.map (fun c => (geneStat (c.getD j 0)).gt0)).sum ∧
      s.gt1 = (cells.map (fun c => (geneStat (c.getD j 0)).gt1)).sum ∧
      s.ge1 = (cells.map (fun c => (geneStat (c.getD j 0)).ge1)).sum := by
  refine ⟨?_, summaryStats_n cells, colStat cells j,
    zero_add_summaryStats_genes g cells hlen j hj, ?_, colStat_fields cells j⟩
  · simp [Row.add, Row.zero, summaryStats_n]
  · intro hne
    rw [summaryStats_genes g cells hlen j hj, if_neg hne]

example : (summaryStats [[0, 2], [1, 3]]).n = 2 ∧
    (summaryStats [[0, 2], [1, 3]]).genes[1]? = some ⟨5, 13, 2, 2, 2⟩ := by
  decide +kernel

/-- "the numbers of member cells with CPM above 0, above 1, and at least 1":
`log2` itself is not modelled; for ANY strictly increasing `log2p1` with
`log2p1 0 = 0` and `log2p1 1 = 1` the indicator bits computed in log2 space
are: `gt0 ↔ cpm > 0`, `gt1 ↔ cpm > 1`, `ge1 ↔ log2p1 cpm > ge1Cut` (the
source's `1 - eps`); every `cpm ≥ 1` is counted in `ge1`, and a value below 1
is counted only inside the documented tolerance window
`ge1Cut < log2p1 cpm < 1`, whose width is at most `2e-6`.  The closed facts
are about the constants regenerated from `stats_utils.py`. -/
theorem thresholds (log2p1 : Rat → Rat) (hmono : ∀ a b, a < b → log2p1 a < log2p1 b)
    (h0 : log2p1 0 = 0) (h1 : log2p1 1 = 1) (cpm : Rat) :
    (geneStat (log2p1 cpm)).gt0 = (if 0 < cpm then 1 else 0) ∧
    (geneStat (log2p1 cpm)).gt1 = (if 1 < cpm then 1 else 0) ∧
    (geneStat (log2p1 cpm)).ge1 = (if Generated.ge1Cut < log2p1 cpm then 1 else 0) ∧
    (1 ≤ cpm → (geneStat (log2p1 cpm)).ge1 = 1) ∧
    ((geneStat (log2p1 cpm)).ge1 = 1 ∧ cpm < 1 →
      Generated.ge1Cut < log2p1 cpm ∧ log2p1 cpm < 1) ∧
    Generated.ge1Cut < 1 ∧ 1 - Generated.ge1Cut ≤ 2 / 1000000 ∧
    Generated.gt0Strict = true ∧ Generated.gt1Strict = true ∧ Generated.ge1Strict = true ∧
    Generated.gt0Cut = 0 ∧ Generated.gt1Cut = 1 := by
  have hcut : Generated.ge1Cut < 1 := by norm_num [Generated.ge1Cut]
  have e0 : (0 < log2p1 cpm) ↔ 0 < cpm := by
    have := strictMono_lt_iff log2p1 hmono 0 cpm; rwa [h0] at this
  have e1 : (1 < log2p1 cpm) ↔ 1 < cpm := by
    have := strictMono_lt_iff log2p1 hmono 1 cpm; rwa [h1] at this
  have e1' : (log2p1 cpm < 1) ↔ cpm < 1 := by
    have := strictMono_lt_iff log2p1 hmono cpm 1; rwa [h1] at this
  have g0 : (geneStat (log2p1 cpm)).gt0 = (if 0 < cpm then 1 else 0) := by
    simp only [geneStat, above, Generated.gt0Strict, Generated.gt0Cut, if_true, gt_iff_lt, e0]
  have g1 : (geneStat (log2p1 cpm)).gt1 = (if 1 < cpm then 1 else 0) := by
    simp only [geneStat, above, Generated.gt1Strict, Generated.gt1Cut, if_true, gt_iff_lt, e1]
  have g2 : (geneStat (log2p1 cpm)).ge1 = (if Generated.ge1Cut < log2p1 cpm then 1 else 0) := by
    simp only [geneStat, above, Generated.ge1Strict, if_true, gt_iff_lt]
  refine ⟨g0, g1, g2, ?_, ?_, hcut, by norm_num [Generated.ge1Cut], rfl, rfl, rfl, rfl, rfl⟩
  · intro h
    rw [g2, if_pos]
    have : 1 ≤ log2p1 cpm := by
      rcases lt_or_eq_of_le h with h' | h'
      · exact le_of_lt (e1.mpr h')
      · rw [← h', h1]
    linarith
  · rintro ⟨h, hlt⟩
    rw [g2] at h
    refine ⟨?_, e1'.mpr hlt⟩
    by_contra hn
    rw [if_neg hn] at h
    exact absurd h (by decide)

example : (geneStat 0).gt0 = 0 ∧ (geneStat (1/2)).gt0 = 1 ∧ (geneStat 1).gt1 = 0 ∧
    (geneStat 1).ge1 = 1 ∧ (geneStat (999999/1000000)).ge1 = 1 ∧
    (geneStat (99999/100000)).ge1 = 0 := by
  decide +kernel

/-- "The values do not depend on how cells are spread over ... chunks": for
`rows_at_a_time ≥ 1` the chunks `(data_path, r0, r1)` of one file tile its
rows: their cells concatenate to the file's cells, in order, and every chunk is
a non-empty in-range slice `r0 < r1 ≤ n` of that file holding `r1 - r0`
cells. -/
theorem fileChunks_tile (rows f : Nat) (cells : List CellRec) (hrows : 1 ≤ rows) :
    (fileChunks rows f cells).flatMap (·.cells) = cells ∧
    ∀ c ∈ fileChunks rows f cells,
      c.r0 < c.r1 ∧ c.r1 ≤ cells.length ∧ c.cells.length = c.r1 - c.r0 ∧ c.file = f := by
  refine ⟨fileChunks_cells rows f cells hrows, fun c hc => ?_⟩
  have := fileChunks_mem rows f cells hrows c hc
  exact ⟨this.1, this.2.1, this.2.2.1, this.2.2.2.1⟩

example : (fileChunks 2 7 [⟨0, [1]⟩, ⟨1, [2]⟩, ⟨2, [3]⟩]).map (fun c => (c.file, c.r0, c.r1))
    = [(7, 0, 2), (7, 2, 3)] := by
  decide +kernel

/-- "work split into at most n_processors lists of (file, r0, r1)": for
`rows_at_a_time ≥ 1` and `n_processors ≥ 1` the assignment loop never fails;
in particular the worker index of `work_load[i_worker]` never reaches
`n_processors` (no IndexError), whatever the files and chunk size. -/
theorem worksplit_in_range (files : List (Nat × List CellRec)) (rows nProc : Nat)
    (hrows : 1 ≤ rows) (hproc : 1 ≤ nProc) :
    ∃ loads, workSplit files rows nProc = .ok loads :=
  workSplit_ok files rows nProc hrows hproc

example : (workSplit [(0, [⟨0, [1]⟩, ⟨1, [2]⟩, ⟨2, [3]⟩]), (1, [⟨3, [4]⟩])] 1 2).toOption.map
      (fun loads => loads.map List.length) = some [3, 1] := by
  decide +kernel

/-- "The values do not depend on how cells are spread over ... chunks or
workers": the work loads handed to the workers are a partition of all chunks
of all files: concatenated in worker order they are exactly the chunks
`(data_path, r0, r1)` of the files in loop order, each once; there are at most
`n_processors` loads and none is empty. -/
theorem worksplit_partition (files : List (Nat × List CellRec)) (rows nProc : Nat)
    (loads : List (List Chunk)) (h : workSplit files rows nProc = .ok loads) :
    loads.flatten = files.flatMap (fun f => fileChunks rows f.1 f.2) ∧
      loads.length ≤ nProc ∧ ∀ l ∈ loads, l ≠ [] :=
  workSplit_spec files rows nProc loads h

example : (workSplit [(0, [⟨0, [1]⟩, ⟨1, [2]⟩, ⟨2, [3]⟩]), (1, [⟨3, [4]⟩])] 1 3).toOption.map
      (fun loads => loads.map (fun l => l.map (fun c => (c.file, c.r0, c.r1))))
    = some [[(0, 0, 1), (0, 1, 2), (0, 2, 3)], [(1, 0, 1)]] := by
  decide +kernel

/-- "merging per-dataset files keeps, per cluster, the row of the dataset with
the most cells": for a non-empty list of per-dataset arrays with the same
`nC` rows, `merge_precompute_files` succeeds, and each output row `r` is,
whole, row `r` of one of the input files, and no input file has more cells in
row `r` than that one. -/
theorem merge_max (nC : Nat) (files : List Buffer) (hne : files ≠ [])
    (hlen : ∀ f ∈ files, f.length = nC) :
    ∃ out, mergeMax files = .ok out ∧ out.length = nC ∧
      ∀ r, r < nC → ∃ (k : Nat) (fk : Buffer) (row : Row), files[k]? = some fk ∧
        fk[r]? = some row ∧ out[r]? = some row ∧
        ∀ f' ∈ files, ∀ row', f'[r]? = some row' → row'.n ≤ row.n :=
  mergeMax_spec nC files hne hlen

example : mergeMax [[⟨1, []⟩, ⟨5, []⟩, ⟨2, []⟩], [⟨3, []⟩, ⟨4, []⟩, ⟨2, [GStat.zero]⟩],
      [⟨0, []⟩, ⟨9, []⟩, ⟨0, []⟩]]
    = .ok [⟨3, []⟩, ⟨9, []⟩, ⟨2, [GStat.zero]⟩] := by
  decide +kernel

/-- "For each leaf cluster and gene the reference-statistics file holds the
number of member cells, the sum and sum of squares ..., and the numbers of
member cells with CPM above 0, above 1, and at least 1 ...; cells not named by
the taxonomy contribute nothing.  The values do not depend on how cells are
spread over files, ... chunks or workers."  For every chunk size
`rows ≥ 1`, every worker count `nProc ≥ 1`, every list of files, and every
name → row table with rows inside the output (at least one file holding a
named cell, as the source requires): the writer succeeds and row `c` of the
written arrays is the zero row plus the sum of `cellStat` over exactly the
cells of all files whose name the table sends to `c`.  Cells the table does
not name (`rowOf = none`) appear in no row. -/
theorem direct (nClusters g : Nat) (nameToRow : List (Nat × Nat))
    (files : List (Nat × List CellRec)) (rows nProc : Nat)
    (hrows : 1 ≤ rows) (hproc : 1 ≤ nProc) (hntr : ∀ p ∈ nameToRow, p.2 < nClusters)
    (hw : ∃ f ∈ files, wanted nameToRow f.2 = true) :
    ∃ buf, precompute nClusters g nameToRow files rows nProc = .ok buf ∧
      buf.length = nClusters ∧
      ∀ c : Nat, c < nClusters → buf[c]? = some ((Row.zero g).add (rowSum
        (((files.flatMap (·.2)).filter (fun cell => rowOf nameToRow cell == some c)).map
          (fun cell => cellStat cell.vals)))) :=
  precompute_spec nClusters g nameToRow files rows nProc hrows hproc hntr hw

example : precompute 2 1 [(10, 0), (11, 1), (12, 0)]
      [(0, [⟨10, [1]⟩, ⟨99, [7]⟩]), (1, [⟨98, [5]⟩]), (2, [⟨11, [2]⟩, ⟨12, [3]⟩])] 1 2
    = .ok [⟨2, [⟨4, 10, 2, 1, 2⟩]⟩, ⟨1, [⟨2, 4, 1, 1, 1⟩]⟩] := by
  decide +kernel

/-- The side condition of `direct` ("at least one file holds a named cell") is
needed: when no file holds a cell named by the table, no worker buffer is ever
created and the source fails (`final_output` stays `None`) instead of writing
an all-zero file. -/
theorem direct_needs_wanted (nClusters g : Nat) (nameToRow : List (Nat × Nat))
    (files : List (Nat × List CellRec)) (rows nProc : Nat) (hproc : 1 ≤ nProc)
    (hw : ∀ f ∈ files, wanted nameToRow f.2 = false) :
    precompute nClusters g nameToRow files rows nProc = .error .noBuffers :=
  precompute_no_wanted nClusters g nameToRow files rows nProc hproc hw

example : precompute 2 1 [(10, 0), (11, 1)] [(0, [⟨98, [1]⟩, ⟨99, [7]⟩])] 1 2
    = .error .noBuffers := by
  decide +kernel

/-- "The values do not depend on how cells are spread over files, encodings,
chunks or workers; cells not named by the taxonomy contribute nothing": two
runs with the same name → row table whose files hold, up to order, the same
named cells (the unnamed cells, the split into files, the chunk sizes and the
worker counts may all differ) write identical arrays. -/
theorem partition_indep (nClusters g : Nat) (nameToRow : List (Nat × Nat))
    (files₁ files₂ : List (Nat × List CellRec)) (rows₁ nProc₁ rows₂ nProc₂ : Nat)
    (hrows₁ : 1 ≤ rows₁) (hproc₁ : 1 ≤ nProc₁) (hrows₂ : 1 ≤ rows₂) (hproc₂ : 1 ≤ nProc₂)
    (hntr : ∀ p ∈ nameToRow, p.2 < nClusters)
    (hw₁ : ∃ f ∈ files₁, wanted nameToRow f.2 = true)
    (hw₂ : ∃ f ∈ files₂, wanted nameToRow f.2 = true)
    (hperm : ((files₁.flatMap (·.2)).filter (fun cell => (rowOf nameToRow cell).isSome)).Perm
      ((files₂.flatMap (·.2)).filter (fun cell => (rowOf nameToRow cell).isSome))) :
    precompute nClusters g nameToRow files₁ rows₁ nProc₁
      = precompute nClusters g nameToRow files₂ rows₂ nProc₂ := by
  obtain ⟨b₁, e₁, l₁, r₁⟩ :=
    precompute_spec nClusters g nameToRow files₁ rows₁ nProc₁ hrows₁ hproc₁ hntr hw₁
  obtain ⟨b₂, e₂, l₂, r₂⟩ :=
    precompute_spec nClusters g nameToRow files₂ rows₂ nProc₂ hrows₂ hproc₂ hntr hw₂
  rw [e₁, e₂]
  congr 1
  apply List.ext_getElem?
  intro c
  by_cases hc : c < nClusters
  · rw [r₁ c hc, r₂ c hc, S_perm_of_lab nameToRow c _ _ hperm]
  · rw [List.getElem?_eq_none (by omega), List.getElem?_eq_none (by omega)]

example : precompute 2 1 [(10, 0), (11, 1), (12, 0)]
      [(0, [⟨10, [1]⟩, ⟨99, [7]⟩]), (1, [⟨98, [5]⟩]), (2, [⟨11, [2]⟩, ⟨12, [3]⟩])] 1 2
    = precompute 2 1 [(10, 0), (11, 1), (12, 0)]
      [(5, [⟨12, [3]⟩, ⟨11, [2]⟩, ⟨10, [1]⟩])] 2 3 := by
  decide +kernel

/-- "the reference-statistics file holds the number of member cells": under
the hypotheses of `direct`, `n_cells[c]` is the number of cells, over all
files, whose name the table sends to row `c`. -/
theorem cell_count (nClusters g : Nat) (nameToRow : List (Nat × Nat))
    (files : List (Nat × List CellRec)) (rows nProc : Nat)
    (hrows : 1 ≤ rows) (hproc : 1 ≤ nProc) (hntr : ∀ p ∈ nameToRow, p.2 < nClusters)
    (hw : ∃ f ∈ files, wanted nameToRow f.2 = true) :
    ∃ buf, precompute nClusters g nameToRow files rows nProc = .ok buf ∧
      ∀ c : Nat, c < nClusters → ∃ row, buf[c]? = some row ∧
        row.n = ((files.flatMap (·.2)).filter
          (fun cell => rowOf nameToRow cell == some c)).length := by
  obtain ⟨buf, e, _, r⟩ :=
    precompute_spec nClusters g nameToRow files rows nProc hrows hproc hntr hw
  refine ⟨buf, e, fun c hc => ⟨_, r c hc, ?_⟩⟩
  simp only [Row.add, Row.zero, S, cellsOfRow, rowSum_cellStat_n, Nat.zero_add]

example : (precompute 2 1 [(10, 0), (11, 1), (12, 0)]
      [(0, [⟨10, [1]⟩, ⟨99, [7]⟩]), (1, [⟨98, [5]⟩]), (2, [⟨11, [2]⟩, ⟨12, [3]⟩])] 1 2).toOption.map
      (fun buf => buf.map (·.n)) = some [2, 1] := by
  decide +kernel

/-- "For each leaf cluster and gene the reference-statistics file holds the
number of member cells, the sum and sum of squares of log2(CPM+1), and the
numbers of member cells with CPM above 0, above 1, and at least 1" - `direct`
spelled out field by field: if every cell has `g` gene values then, for every
output row `c` and gene `j`, with `members` = the cells of all files that the
table names for `c`: `n_cells[c]` is their number and `sum[c, j]`,
`sumsq[c, j]`, `gt0[c, j]`, `gt1[c, j]`, `ge1[c, j]` are the plain sums over
`members` of the value, its square and the three threshold indicators
(`thresholds` says what the indicators mean in CPM). -/
theorem direct_fields (nClusters g : Nat) (nameToRow : List (Nat × Nat))
    (files : List (Nat × List CellRec)) (rows nProc : Nat)
    (hrows : 1 ≤ rows) (hproc : 1 ≤ nProc) (hntr : ∀ p ∈ nameToRow, p.2 < nClusters)
    (hw : ∃ f ∈ files, wanted nameToRow f.2 = true)
    (hg : ∀ f ∈ files, ∀ cell ∈ f.2, cell.vals.length = g) :
    ∃ buf, precompute nClusters g nameToRow files rows nProc = .ok buf ∧
      ∀ (c j : Nat), c < nClusters → j < g → ∃ (row : Row) (s : GStat),
        buf[c]? = some row ∧ row.genes[j]? = some s ∧
        row.n = (cellsOfRow nameToRow c (files.flatMap (·.2))).length ∧
        s.sum = ((cellsOfRow nameToRow c (files.flatMap (·.2))).map
          (fun cell => cell.vals.getD j 0)).sum ∧
        s.sumsq = ((cellsOfRow nameToRow c (files.flatMap (·.2))).map
          (fun cell => cell.vals.getD j 0 * cell.vals.getD j 0)).sum ∧
        s.gt0 = ((cellsOfRow nameToRow c (files.flatMap (·.2))).map
          (fun cell => (geneStat (cell.vals.getD j 0)).gt0)).sum ∧
        s.gt1 = ((cellsOfRow nameToRow c (files.flatMap (·.2))).map
          (fun cell => (geneStat (cell.vals.getD j 0)).gt1)).sum ∧
        s.ge1 = ((cellsOfRow nameToRow c (files.flatMap (·.2))).map
          (fun cell => (geneStat (cell.vals.getD j 0)).ge1)).sum :=
  precompute_fields nClusters g nameToRow files rows nProc hrows hproc hntr hw hg

example : (precompute 2 2 [(10, 0), (11, 1), (12, 0)]
      [(0, [⟨10, [1, 0]⟩, ⟨99, [7, 7]⟩]), (2, [⟨11, [2, 1/2]⟩, ⟨12, [3, 1]⟩])] 1 2).toOption.map
      (fun buf => buf.map (fun row => row.genes.map (fun s => (s.sum, s.gt0, s.gt1, s.ge1))))
    = some [[(4, 2, 1, 2), (1, 1, 0, 1)], [(2, 1, 1, 1), (1/2, 1, 0, 0)]] := by
  decide +kernel

/-- "Collapsing the file to a coarser hierarchy ..." (`_convert_to_new_leaves`):
`anc` sends every old leaf to its ancestor at the new leaf level.  If every old
leaf has a row (through the file's `cluster_to_row`) inside the old arrays and
every ancestor is one of the new leaves, the collapse succeeds, has one row per
new leaf, and the row of new leaf `L` (at its position `i` in
`new_tree.all_leaves`) is: the zero row if no old leaf lies under `L`,
otherwise the sum of the old rows of the old leaves under `L`, taken in
ascending row order. -/
theorem truncate_rows (g : Nat) (data : Buffer) (oldLeafToRow : List (Nat × Nat))
    (newLeaves : List Nat) (anc : List (Nat × Nat))
    (hlook : ∀ p ∈ anc, ∃ r, oldLeafToRow.lookup p.1 = some r ∧ r < data.length)
    (hanc : ∀ p ∈ anc, p.2 ∈ newLeaves) :
    ∃ out, truncate g data oldLeafToRow newLeaves anc = .ok out ∧
      out.length = newLeaves.length ∧
      ∀ (L i : Nat), indexIn newLeaves L = some i →
        out[i]? = some (if anc.filter (fun p => p.2 == L) = [] then Row.zero g
          else rowSum (((((anc.filter (fun p => p.2 == L)).map (·.1)).filterMap
            (fun k => oldLeafToRow.lookup k)).mergeSort).filterMap (fun r => data[r]?))) :=
  truncate_spec g data oldLeafToRow newLeaves anc hlook hanc

/- a concrete instance of the hypotheses: four old leaves (rows 2, 0, 3, 1) under the new
leaves 30, 31, 30, 30; new leaf 32 has no old leaf -/
example : ∃ out, truncate 0 [⟨1, []⟩, ⟨2, []⟩, ⟨4, []⟩, ⟨8, []⟩]
      [(20, 2), (21, 0), (22, 3), (23, 1)] [31, 30, 32]
      [(20, 30), (21, 31), (22, 30), (23, 30)] = .ok out ∧ out.length = 3 ∧
      out[2]? = some (Row.zero 0) := by
  obtain ⟨out, h1, h2, h3⟩ := truncate_rows 0 [⟨1, []⟩, ⟨2, []⟩, ⟨4, []⟩, ⟨8, []⟩]
    [(20, 2), (21, 0), (22, 3), (23, 1)] [31, 30, 32]
    [(20, 30), (21, 31), (22, 30), (23, 30)]
    (by
      intro p hp
      simp only [List.mem_cons, List.not_mem_nil, or_false] at hp
      rcases hp with rfl | rfl | rfl | rfl <;> exact ⟨_, rfl, by decide⟩)
    (by decide)
  exact ⟨out, h1, h2, by simpa using h3 32 2 (by decide)⟩

/-- "Collapsing the file to a coarser hierarchy gives the statistics of that
hierarchy": if moreover the old row of every old leaf `ℓ` is the zero row plus
the accumulated statistics of some list `S ℓ` (of cells' contributions), then
the row of every new leaf `L` is the zero row plus the accumulated statistics
of the concatenation of the `S ℓ` over the old leaves `ℓ` under `L`, i.e. what
direct computation with the coarser labelling gives (`rowSum` does not depend
on the order, `stat_perm`). -/
theorem truncate_direct (g : Nat) (data : Buffer) (oldLeafToRow : List (Nat × Nat))
    (newLeaves : List Nat) (anc : List (Nat × Nat)) (S : Nat → List Row)
    (hlook : ∀ p ∈ anc, ∃ r, oldLeafToRow.lookup p.1 = some r ∧ r < data.length ∧
      data[r]? = some ((Row.zero g).add (rowSum (S p.1))))
    (hanc : ∀ p ∈ anc, p.2 ∈ newLeaves) :
    ∃ out, truncate g data oldLeafToRow newLeaves anc = .ok out ∧
      out.length = newLeaves.length ∧
      ∀ (L i : Nat), indexIn newLeaves L = some i →
        out[i]? = some ((Row.zero g).add (rowSum
          (((anc.filter (fun p => p.2 == L)).map (fun p => S p.1)).flatten))) :=
  truncate_direct_spec g data oldLeafToRow newLeaves anc S hlook hanc

/- a concrete instance: two old leaves with one and two cells under one new leaf -/
example : ∃ out, truncate 1 [(Row.zero 1).add (rowSum [cellStat [1]]),
        (Row.zero 1).add (rowSum [cellStat [2], cellStat [3]])] [(20, 1), (21, 0)]
      [30] [(20, 30), (21, 30)] = .ok out ∧
      out[0]? = some ((Row.zero 1).add (rowSum [cellStat [2], cellStat [3], cellStat [1]])) := by
  obtain ⟨out, h1, _, h3⟩ := truncate_direct 1 [(Row.zero 1).add (rowSum [cellStat [1]]),
        (Row.zero 1).add (rowSum [cellStat [2], cellStat [3]])] [(20, 1), (21, 0)]
      [30] [(20, 30), (21, 30)]
      (fun l => if l = 20 then [cellStat [2], cellStat [3]] else [cellStat [1]])
    (by
      intro p hp
      simp only [List.mem_cons, List.not_mem_nil, or_false] at hp
      rcases hp with rfl | rfl <;> exact ⟨_, rfl, by decide, by decide +kernel⟩)
    (by decide)
  exact ⟨out, h1, by simpa using h3 30 0 (by decide)⟩

/-- "Collapsing the file to a coarser hierarchy gives the statistics of that
hierarchy" end to end: write the file for the fine labelling `nameToRow`
(rows of the old leaves through `oldLeafToRow`), then collapse it along `anc`
(old leaf ↦ ancestor at the new leaf level).  The result is identical to the
file written directly - with any chunk size and worker count - for the coarser
labelling `nameToRow'`, where a cell is sent to new row `i` exactly when the
fine labelling sends it to the row of an old leaf whose ancestor is the new
leaf at position `i` (`hnew`).  Side conditions: the old leaves are listed
once and have distinct rows inside the file, the new leaves are distinct and
contain every ancestor, and (as for any run) each table has its rows inside the
output and names at least one cell of some file. -/
theorem truncate_coarser (nClusters g : Nat) (nameToRow nameToRow' : List (Nat × Nat))
    (files : List (Nat × List CellRec)) (rows nProc rows' nProc' : Nat)
    (oldLeafToRow : List (Nat × Nat)) (newLeaves : List Nat) (anc : List (Nat × Nat))
    (hrows : 1 ≤ rows) (hproc : 1 ≤ nProc) (hrows' : 1 ≤ rows') (hproc' : 1 ≤ nProc')
    (hntr : ∀ p ∈ nameToRow, p.2 < nClusters)
    (hw : ∃ f ∈ files, wanted nameToRow f.2 = true)
    (hntr' : ∀ p ∈ nameToRow', p.2 < newLeaves.length)
    (hw' : ∃ f ∈ files, wanted nameToRow' f.2 = true)
    (hnd : newLeaves.Nodup) (hkeys : (anc.map (·.1)).Nodup)
    (hlook : ∀ p ∈ anc, ∃ r, oldLeafToRow.lookup p.1 = some r ∧ r < nClusters)
    (hinj : ∀ p ∈ anc, ∀ q ∈ anc,
      oldLeafToRow.lookup p.1 = oldLeafToRow.lookup q.1 → p.1 = q.1)
    (hanc : ∀ p ∈ anc, p.2 ∈ newLeaves)
    (hnew : ∀ (cell : CellRec) (i : Nat), rowOf nameToRow' cell = some i ↔
      ∃ p ∈ anc, ∃ r, oldLeafToRow.lookup p.1 = some r ∧ rowOf nameToRow cell = some r ∧
        indexIn newLeaves p.2 = some i) :
    ∃ buf, precompute nClusters g nameToRow files rows nProc = .ok buf ∧
      truncate g buf oldLeafToRow newLeaves anc
        = precompute newLeaves.length g nameToRow' files rows' nProc' :=
  truncate_precompute_spec nClusters g nameToRow nameToRow' files rows nProc rows' nProc'
    oldLeafToRow newLeaves anc hrows hproc hrows' hproc' hntr hw hntr' hw' hnd hkeys hlook hinj
    hanc hnew


/- a concrete instance of the hypotheses: cells 10, 12 in old leaf 20 (row 1), cell 11 in old
leaf 21 (row 0), cell 99 unnamed; both old leaves under the single new leaf 30 -/
example : ∃ buf, precompute 2 1 [(10, 1), (11, 0), (12, 1)]
      [(0, [⟨10, [1]⟩, ⟨99, [7]⟩]), (1, [⟨11, [2]⟩, ⟨12, [3]⟩])] 1 2 = .ok buf ∧
    truncate 1 buf [(20, 1), (21, 0)] [30] [(20, 30), (21, 30)]
      = precompute 1 1 [(10, 0), (11, 0), (12, 0)]
          [(0, [⟨10, [1]⟩, ⟨99, [7]⟩]), (1, [⟨11, [2]⟩, ⟨12, [3]⟩])] 5 1 := by
  apply truncate_coarser <;> try decide
  intro cell i
  obtain ⟨name, vals⟩ := cell
  simp only [rowOf]
  by_cases h10 : name = 10
  · subst h10; simp [List.lookup, indexIn, eq_comm]
  · by_cases h11 : name = 11
    · subst h11; simp [List.lookup, indexIn, eq_comm]
    · by_cases h12 : name = 12
      · subst h12; simp [List.lookup, indexIn, eq_comm]
      · have e1 : ∀ a b c : Nat, List.lookup name [(10, a), (11, b), (12, c)] = none := by
          intro a b c
          have f10 : (name == 10) = false := by simpa using h10
          have f11 : (name == 11) = false := by simpa using h11
          have f12 : (name == 12) = false := by simpa using h12
          simp [List.lookup, f10, f11, f12]
        simp [e1]


/-- Front end `precompute_summary_stats_from_h5ad_list_and_tree`
(`leaf_to_cells` ↦ `cell_name_to_output_row`): building the table never fails
and every output row it hands out lies inside the output arrays, whose number
of rows `n_clusters` is the number of distinct clusters.  This discharges the
hypothesis "rows inside the output" of `direct` for the real front end. -/
theorem name_table_ok (l2c : List (Nat × List Nat)) :
    ∃ tbl, nameToRowOfTree l2c = .ok tbl ∧
      ∀ p ∈ tbl, p.2 < (uniqueSorted (l2c.map (·.1))).length := by
  obtain ⟨tbl, h1, h2, _⟩ := nameToRowOfTree_spec l2c
  exact ⟨tbl, h1, h2⟩

example : nameToRowOfTree [(5, [10, 12]), (3, [11]), (5, [13])]
    = .ok [(10, 1), (12, 1), (11, 0), (13, 1)] := by
  decide +kernel

/-- "addressed through its own cluster-to-row ... tables; cells not named by
the taxonomy contribute nothing": when the cell lists of the leaves are
pairwise disjoint (what `validate_taxonomy_tree` guarantees), every cell of
leaf `leaf` is sent to the rank of `leaf` in the sorted list of distinct
clusters (the file's `cluster_to_row`), and a cell in no list is not in the
table at all (so `rowOf = none`: it contributes to no row). -/
theorem name_table_lookup (l2c : List (Nat × List Nat))
    (hdisj : l2c.Pairwise (fun a b => ∀ c ∈ a.2, c ∉ b.2)) :
    ∃ tbl, nameToRowOfTree l2c = .ok tbl ∧
      (∀ q ∈ l2c, ∀ c ∈ q.2, ∃ r, tbl.lookup c = some r ∧
        indexIn (uniqueSorted (l2c.map (·.1))) q.1 = some r ∧
        r < (uniqueSorted (l2c.map (·.1))).length) ∧
      (∀ c, (∀ q ∈ l2c, c ∉ q.2) → tbl.lookup c = none) := by
  obtain ⟨tbl, h1, _, h3, h4⟩ := nameToRowOfTree_spec l2c
  refine ⟨tbl, h1, fun q hq c hc => ?_, h3⟩
  have hmem : q.1 ∈ uniqueSorted (l2c.map (·.1)) := by
    rw [mem_uniqueSorted]; exact List.mem_map_of_mem hq
  obtain ⟨r, hr⟩ := indexIn_of_mem _ _ hmem
  exact ⟨r, by rw [h4 hdisj q hq c hc, hr], hr, indexIn_lt _ _ _ hr⟩

example : (nameToRowOfTree [(5, [10, 12]), (3, [11])]).toOption.map
      (fun tbl => (tbl.lookup 12, tbl.lookup 11, tbl.lookup 99))
    = some (some 1, some 0, none) := by
  decide +kernel


/-- "addressed through its own cluster-to-row ... tables" and additivity on the
reading side (`read_precomputed_stats` / `aggregate_stats`): if every leaf of
the population has a row of the file (through `cluster_to_row`), aggregation
succeeds; `n` is the sum of `n_cells` over the addressed rows, and for every
gene `j` (rows of `g` genes) mean and variance are `meanOf` / `varOf` of the
summed `n`, `sum`, `sumsq`, and the three counts are the sums of the rows'
counts: leaves combine additively.  (`mean_var` says that `meanOf`/`varOf` of
`(n, Σx, Σx²)` are the mean and the sample variance.) -/
theorem aggregate_spec (g : Nat) (data : Buffer) (clusterToRow : List (Nat × Nat))
    (leaves : List Nat)
    (hlook : ∀ l ∈ leaves, ∃ i, clusterToRow.lookup l = some i ∧ i < data.length) :
    ∃ a, aggregateStats g data clusterToRow leaves = .ok a ∧
      (addressedRows data clusterToRow leaves).length = leaves.length ∧
      a.n = ((addressedRows data clusterToRow leaves).map (·.n)).sum ∧
      ((∀ r ∈ addressedRows data clusterToRow leaves, r.genes.length = g) →
        ∀ j : Nat, j < g →
        a.mean[j]? = some (meanOf a.n ((addressedRows data clusterToRow leaves).map
          (fun r => (r.genes.getD j GStat.zero).sum)).sum) ∧
        a.var[j]? = some (varOf a.n
          ((addressedRows data clusterToRow leaves).map
            (fun r => (r.genes.getD j GStat.zero).sum)).sum
          ((addressedRows data clusterToRow leaves).map
            (fun r => (r.genes.getD j GStat.zero).sumsq)).sum) ∧
        a.gt0[j]? = some ((addressedRows data clusterToRow leaves).map
          (fun r => (r.genes.getD j GStat.zero).gt0)).sum ∧
        a.gt1[j]? = some ((addressedRows data clusterToRow leaves).map
          (fun r => (r.genes.getD j GStat.zero).gt1)).sum ∧
        a.ge1[j]? = some ((addressedRows data clusterToRow leaves).map
          (fun r => (r.genes.getD j GStat.zero).ge1)).sum) :=
  aggregateStats_spec g data clusterToRow leaves hlook

example : aggregateStats 1 [⟨2, [⟨4, 10, 2, 1, 2⟩]⟩, ⟨5, [⟨9, 9, 9, 9, 9⟩]⟩, ⟨1, [⟨2, 4, 1, 1, 1⟩]⟩]
      [(30, 0), (31, 2), (32, 1)] [31, 30]
    = .ok ⟨3, [2], [1], [3], [2], [3]⟩ := by
  decide +kernel


/-- Writing side and reading side together: aggregate a population of leaves
over a file written by `precompute` (every cell with `g` gene values, every
leaf with a row of the file).  With `members` = all cells the name table sends
to the rows of those leaves, leaf after leaf: `n` is their number, and for
every gene `j` the mean, variance and the three counts are those computed
from the plain sums over `members` of the value, its square and the threshold
indicators. -/
theorem aggregate_direct (nClusters g : Nat) (nameToRow : List (Nat × Nat))
    (files : List (Nat × List CellRec)) (rows nProc : Nat)
    (hrows : 1 ≤ rows) (hproc : 1 ≤ nProc) (hntr : ∀ p ∈ nameToRow, p.2 < nClusters)
    (hw : ∃ f ∈ files, wanted nameToRow f.2 = true)
    (hg : ∀ f ∈ files, ∀ cell ∈ f.2, cell.vals.length = g)
    (clusterToRow : List (Nat × Nat)) (leaves : List Nat)
    (hlook : ∀ l ∈ leaves, ∃ i, clusterToRow.lookup l = some i ∧ i < nClusters) :
    ∃ buf a, precompute nClusters g nameToRow files rows nProc = .ok buf ∧
      aggregateStats g buf clusterToRow leaves = .ok a ∧
      a.n = (leaves.flatMap (fun l =>
        cellsOfRow nameToRow ((clusterToRow.lookup l).getD 0) (files.flatMap (·.2)))).length ∧
      ∀ j : Nat, j < g →
        a.mean[j]? = some (meanOf a.n ((leaves.flatMap (fun l =>
          cellsOfRow nameToRow ((clusterToRow.lookup l).getD 0) (files.flatMap (·.2)))).map
            (fun cell => cell.vals.getD j 0)).sum) ∧
        a.var[j]? = some (varOf a.n
          ((leaves.flatMap (fun l =>
            cellsOfRow nameToRow ((clusterToRow.lookup l).getD 0) (files.flatMap (·.2)))).map
              (fun cell => cell.vals.getD j 0)).sum
          ((leaves.flatMap (fun l =>
            cellsOfRow nameToRow ((clusterToRow.lookup l).getD 0) (files.flatMap (·.2)))).map
              (fun cell => cell.vals.getD j 0 * cell.vals.getD j 0)).sum) ∧
        a.gt0[j]? = some ((leaves.flatMap (fun l =>
          cellsOfRow nameToRow ((clusterToRow.lookup l).getD 0) (files.flatMap (·.2)))).map
            (fun cell => (geneStat (cell.vals.getD j 0)).gt0)).sum ∧
        a.gt1[j]? = some ((leaves.flatMap (fun l =>
          cellsOfRow nameToRow ((clusterToRow.lookup l).getD 0) (files.flatMap (·.2)))).map
            (fun cell => (geneStat (cell.vals.getD j 0)).gt1)).sum ∧
        a.ge1[j]? = some ((leaves.flatMap (fun l =>
          cellsOfRow nameToRow ((clusterToRow.lookup l).getD 0) (files.flatMap (·.2)))).map
            (fun cell => (geneStat (cell.vals.getD j 0)).ge1)).sum :=
  precompute_aggregate nClusters g nameToRow files rows nProc hrows hproc hntr hw hg
    clusterToRow leaves hlook

example : (match precompute 2 1 [(10, 0), (11, 1), (12, 0)]
      [(0, [⟨10, [1]⟩, ⟨99, [7]⟩]), (2, [⟨11, [2]⟩, ⟨12, [6]⟩])] 1 2 with
    | .ok buf => aggregateStats 1 buf [(30, 0), (31, 1)] [31, 30]
    | .error e => .error e)
    = .ok ⟨3, [3], [7], [3], [2], [3]⟩ := by
  decide +kernel

/-- `aggregate_direct` with `mean_var`: the mean the reader reports for gene
`j` IS the arithmetic mean of the values `xs` of the member cells
(`mean * n = Σ xs`, `n ≥ 1`) and the variance IS their unbiased sample variance
(`var * (n - 1) = Σ (x - mean)²`, `n ≥ 2`). -/
theorem aggregate_mean_var (nClusters g : Nat) (nameToRow : List (Nat × Nat))
    (files : List (Nat × List CellRec)) (rows nProc : Nat)
    (hrows : 1 ≤ rows) (hproc : 1 ≤ nProc) (hntr : ∀ p ∈ nameToRow, p.2 < nClusters)
    (hw : ∃ f ∈ files, wanted nameToRow f.2 = true)
    (hg : ∀ f ∈ files, ∀ cell ∈ f.2, cell.vals.length = g)
    (clusterToRow : List (Nat × Nat)) (leaves : List Nat)
    (hlook : ∀ l ∈ leaves, ∃ i, clusterToRow.lookup l = some i ∧ i < nClusters) :
    ∃ buf a, precompute nClusters g nameToRow files rows nProc = .ok buf ∧
      aggregateStats g buf clusterToRow leaves = .ok a ∧
      ∀ j : Nat, j < g → ∃ (xs : List Rat) (m v : Rat),
        xs = (leaves.flatMap (fun l =>
          cellsOfRow nameToRow ((clusterToRow.lookup l).getD 0) (files.flatMap (·.2)))).map
            (fun cell => cell.vals.getD j 0) ∧
        a.n = xs.length ∧ a.mean[j]? = some m ∧ a.var[j]? = some v ∧
        (1 ≤ xs.length → m * (xs.length : Rat) = xs.sum) ∧
        (2 ≤ xs.length → v * ((xs.length : Rat) - 1) = (xs.map (fun x => (x - m) ^ 2)).sum) :=
  precompute_aggregate_mean_var nClusters g nameToRow files rows nProc hrows hproc hntr hw hg
    clusterToRow leaves hlook

/- values 1, 6 (cluster 0) and 2 (cluster 1): mean 3, sample variance ((−2)² + 3² + (−1)²)/2 = 7 -/
example : (3 : Rat) * 3 = [1, 6, 2].sum ∧
    (7 : Rat) * (3 - 1) = ([1, 6, 2].map (fun x => (x - 3) ^ 2)).sum := by
  norm_num


/-- "merging per-dataset files keeps, per cluster, the row of the dataset with
the most cells" - the exact tie rule of `merge_precompute_files`: the merge
starts from the FIRST file (sorted-path order) with the largest total number
of cells; the other files are then visited in order and replace a row only if
they hold STRICTLY more cells.  So with `seq` = the start file followed by the
other files in order, output row `r` is row `r` of the first file of `seq`
that attains the largest `n_cells[r]`. -/
theorem merge_tie_rule (nC : Nat) (files : List Buffer) (hne : files ≠ [])
    (hlen : ∀ f ∈ files, f.length = nC) :
    ∃ (k : Nat) (start out : Buffer), files[k]? = some start ∧
      (∀ f ∈ files, totalCells f ≤ totalCells start) ∧
      (∀ (i : Nat) (fi : Buffer), i < k → files[i]? = some fi →
        totalCells fi < totalCells start) ∧
      mergeMax files = .ok out ∧
      ∀ r : Nat, r < nC → ∃ (p : Nat) (fp : Buffer) (row : Row),
        (start :: files.eraseIdx k)[p]? = some fp ∧ fp[r]? = some row ∧ out[r]? = some row ∧
        ∀ (q : Nat) (fq : Buffer) (row' : Row), (start :: files.eraseIdx k)[q]? = some fq →
          fq[r]? = some row' → row'.n ≤ row.n ∧ (q < p → row'.n < row.n) :=
  mergeMax_tie_rule nC files hne hlen

/- totals 8, 9, 9: the merge starts from the second file (first of the two with 9); in row 2
the start file's row wins the tie 2 = 2 against the first file; in row 1 the third file (9)
replaces the first file's 5, which had replaced the start's 4 -/
example : mergeMax [[⟨1, []⟩, ⟨5, []⟩, ⟨2, []⟩], [⟨3, []⟩, ⟨4, []⟩, ⟨2, [GStat.zero]⟩],
      [⟨0, []⟩, ⟨9, []⟩, ⟨0, []⟩]]
    = .ok [⟨3, []⟩, ⟨9, []⟩, ⟨2, [GStat.zero]⟩] ∧
    mostIdx [[⟨3, []⟩, ⟨4, []⟩, ⟨2, [GStat.zero]⟩], [⟨0, []⟩, ⟨9, []⟩, ⟨0, []⟩]] 1 0 8 = 1 := by
  decide +kernel


/-- "the reference-statistics file holds the number of member cells ... and the
numbers of member cells with CPM above 0, above 1, and at least 1" also when
the per-worker results are added up in integer accumulators of finite width:
if the exact totals (the arrays `precompute` writes) all lie below `2^bits`,
the reduction with accumulators of `bits` value bits (`precomputeW`, in-place
adds modulo `2^bits`) writes exactly the same arrays - no partial sum can
wrap, because every partial sum is entrywise at most the final one. -/
theorem no_wrap (bits nClusters g : Nat) (nameToRow : List (Nat × Nat))
    (files : List (Nat × List CellRec)) (rows nProc : Nat) (buf : Buffer)
    (h : precompute nClusters g nameToRow files rows nProc = .ok buf)
    (hfit : fitsBits bits buf = true) :
    precomputeW bits nClusters g nameToRow files rows nProc = .ok buf :=
  precomputeW_eq bits nClusters g nameToRow files rows nProc buf h hfit

/- 4 + 2 cells of one cluster over two workers: the totals (6) fit 3 bits -/
example : precomputeW 3 1 1 [(0, 0), (1, 0), (2, 0), (3, 0), (4, 0), (5, 0)]
      [(0, [⟨0, [1]⟩, ⟨1, [1]⟩, ⟨2, [1]⟩]), (1, [⟨3, [1]⟩, ⟨4, [1]⟩, ⟨5, [1]⟩])] 1 2
    = .ok [⟨6, [⟨6, 6, 6, 0, 6⟩]⟩] ∧
    fitsBits 3 [⟨6, [⟨6, 6, 6, 0, 6⟩]⟩] = true := by
  decide +kernel

/-- `no_wrap` for the width the CURRENT source gives the accumulators
(`Generated.statsBufferIntBits`, regenerated from `precompute_from_anndata.py`:
the scratch buffers are `np.zeros(.., dtype=int)` and the accumulators take the
dtype of the first buffer): whenever the exact totals fit that width, the
written arrays are the exact ones, so `direct`, `partition_indep`, ... apply
to the real reduction. -/
theorem no_wrap_int64 (nClusters g : Nat) (nameToRow : List (Nat × Nat))
    (files : List (Nat × List CellRec)) (rows nProc : Nat) (buf : Buffer)
    (h : precompute nClusters g nameToRow files rows nProc = .ok buf)
    (hfit : fitsBits Generated.statsBufferIntBits buf = true) :
    precomputeW Generated.statsBufferIntBits nClusters g nameToRow files rows nProc
      = precompute nClusters g nameToRow files rows nProc := by
  rw [h]
  exact precomputeW_eq _ nClusters g nameToRow files rows nProc buf h hfit

example : Generated.statsBufferIntBits = 63 ∧
    fitsBits Generated.statsBufferIntBits [⟨6, [⟨6, 6, 6, 0, 6⟩]⟩] = true := by
  decide +kernel

/-- A sufficient condition for `no_wrap`: every integer entry of the written
arrays is at most the total number of cells in the files (a row counts only
its member cells, and each count is at most the row's number of cells), so
under the hypotheses of `direct` fewer than `2^bits` cells in total means that
everything fits - in particular fewer than `2^63` cells for the current source. -/
theorem fits_of_few_cells (bits nClusters g : Nat) (nameToRow : List (Nat × Nat))
    (files : List (Nat × List CellRec)) (rows nProc : Nat)
    (hrows : 1 ≤ rows) (hproc : 1 ≤ nProc) (hntr : ∀ p ∈ nameToRow, p.2 < nClusters)
    (hw : ∃ f ∈ files, wanted nameToRow f.2 = true)
    (hfew : (files.flatMap (·.2)).length < 2 ^ bits) :
    ∃ buf, precompute nClusters g nameToRow files rows nProc = .ok buf ∧
      fitsBits bits buf = true ∧
      precomputeW bits nClusters g nameToRow files rows nProc = .ok buf := by
  obtain ⟨buf, e, hfit⟩ :=
    precompute_fits bits nClusters g nameToRow files rows nProc hrows hproc hntr hw hfew
  exact ⟨buf, e, hfit, precomputeW_eq bits nClusters g nameToRow files rows nProc buf e hfit⟩

example : ((([(0, [⟨0, [1]⟩, ⟨1, [1]⟩, ⟨2, [1]⟩]), (1, [⟨3, [1]⟩, ⟨4, [1]⟩, ⟨5, [1]⟩])] :
      List (Nat × List CellRec)).flatMap (·.2)).length) < 2 ^ 3 := by
  decide

/-- The width matters: with accumulators too narrow for the totals the
reduction wraps.  Four and two cells of one cluster handled by two workers,
accumulators of 2 value bits: the exact writer gives `n_cells = 6`, the
narrow reduction `6 mod 4 = 2` (and likewise for the three counts).  (This is
what a change that stores each worker's integer arrays in the smallest dtype
holding its own maximum does to the totals.) -/
theorem wrap_is_real :
    precompute 1 1 [(0, 0), (1, 0), (2, 0), (3, 0), (4, 0), (5, 0)]
      [(0, [⟨0, [1]⟩, ⟨1, [1]⟩, ⟨2, [1]⟩]), (1, [⟨3, [1]⟩, ⟨4, [1]⟩, ⟨5, [1]⟩])] 1 2
      = .ok [⟨6, [⟨6, 6, 6, 0, 6⟩]⟩] ∧
    precomputeW 2 1 1 [(0, 0), (1, 0), (2, 0), (3, 0), (4, 0), (5, 0)]
      [(0, [⟨0, [1]⟩, ⟨1, [1]⟩, ⟨2, [1]⟩]), (1, [⟨3, [1]⟩, ⟨4, [1]⟩, ⟨5, [1]⟩])] 1 2
      = .ok [⟨2, [⟨6, 6, 2, 0, 2⟩]⟩] := by
  decide +kernel

/- the same with 200 + 200 cells (all carrying the one name the table knows), three
processors, and 8-bit accumulators: 400 mod 256 = 144 -/
example : (precomputeW 8 1 0 [(0, 0)]
      [(0, List.replicate 200 ⟨0, []⟩), (1, List.replicate 200 ⟨0, []⟩)] 200 3).toOption.map
        (fun buf => buf.map (·.n)) = some [144] ∧
    (precompute 1 0 [(0, 0)]
      [(0, List.replicate 200 ⟨0, []⟩), (1, List.replicate 200 ⟨0, []⟩)] 200 3).toOption.map
        (fun buf => buf.map (·.n)) = some [400] := by
  decide +kernel

/-- "The values ... do not depend on how cells are spread over files": the
arrays are accumulated column by column under the FIRST file's `col_names`, so
a list of files is only worked on when every file lists the same genes in the
same order; a file whose ordered gene list differs from the first one's (even
if it holds the same genes in another column order) is refused before any work
(`geneMismatch`, the source's "has gene_names ... which does not match"), and
when the census passes the result is that of `precompute` (hence `direct`). -/
theorem var_order_checked (geneLists : List (List Nat)) (nClusters g : Nat)
    (nameToRow : List (Nat × Nat)) (files : List (Nat × List CellRec)) (rows nProc : Nat) :
    ((∃ g0 rest, geneLists = g0 :: rest ∧ ∃ x ∈ rest, x ≠ g0) →
      precomputeChecked geneLists nClusters g nameToRow files rows nProc = .error .geneMismatch) ∧
    ((∀ g0 rest, geneLists = g0 :: rest → ∀ x ∈ rest, x = g0) →
      precomputeChecked geneLists nClusters g nameToRow files rows nProc
        = precompute nClusters g nameToRow files rows nProc) := by
  constructor
  · rintro ⟨g0, rest, rfl, x, hx, hne⟩
    have : genesAgree (g0 :: rest) = false := by
      simp only [genesAgree, List.all_eq_false]
      exact ⟨x, hx, by simpa using hne⟩
    simp [precomputeChecked, this]
  · intro h
    have : genesAgree geneLists = true := by
      cases geneLists with
      | nil => rfl
      | cons g0 rest =>
        simp only [genesAgree, List.all_eq_true]
        intro x hx
        simpa using h g0 rest rfl x hx
    simp [precomputeChecked, this]

/- same genes, other column order in the second file: refused; same order: worked on -/
example : precomputeChecked [[7, 5], [5, 7]] 1 2 [(10, 0)] [(0, [⟨10, [1, 2]⟩]), (1, [⟨10, [2, 1]⟩])] 1 1
      = .error .geneMismatch ∧
    precomputeChecked [[7, 5], [7, 5]] 1 2 [(10, 0)] [(0, [⟨10, [1, 2]⟩]), (1, [⟨11, [2, 1]⟩])] 1 1
      = .ok [⟨1, [⟨1, 1, 1, 0, 1⟩, ⟨2, 4, 1, 1, 1⟩]⟩] := by
  decide +kernel


/-- The writer is "deal the chunks to the workers with `workSplit`, then run
the workers and add up their buffers" (`precomputeLoads` on that assignment). -/
theorem precompute_is_loads (nClusters g : Nat) (nameToRow : List (Nat × Nat))
    (files : List (Nat × List CellRec)) (rows nProc : Nat) :
    precompute nClusters g nameToRow files rows nProc
      = (match workSplit (files.filter (fun f => wanted nameToRow f.2)) rows nProc with
          | .error e => .error e
          | .ok loads => precomputeLoads nClusters g nameToRow loads) := rfl

example : precompute 2 1 [(10, 0), (11, 1), (12, 0)]
      [(0, [⟨10, [1]⟩, ⟨99, [7]⟩]), (2, [⟨11, [2]⟩, ⟨12, [3]⟩])] 1 2
    = precomputeLoads 2 1 [(10, 0), (11, 1), (12, 0)]
      [[⟨0, 0, 1, [⟨10, [1]⟩]⟩, ⟨0, 1, 2, [⟨99, [7]⟩]⟩, ⟨2, 0, 1, [⟨11, [2]⟩]⟩],
       [⟨2, 1, 2, [⟨12, [3]⟩]⟩]] := by
  decide +kernel

/-- "The values (counts exactly, sums to rounding) do not depend on how cells
are spread over files, encodings, chunks or workers": ANY assignment `loads`
of the chunks to workers that deals every chunk `(data_path, r0, r1)` of the
wanted files out exactly once - in any order, to any number of workers, empty
work loads allowed (`loads.flatten` is a permutation of `allChunks`) - gives
the arrays of `direct`: row `c` is the zero row plus the sum of `cellStat`
over exactly the cells of all files named for `c`.  (Contiguous blocks, as
`workSplit` deals them, or round-robin, or anything else.) -/
theorem split_independent (nClusters g : Nat) (nameToRow : List (Nat × Nat))
    (files : List (Nat × List CellRec)) (rows : Nat) (loads : List (List Chunk))
    (hrows : 1 ≤ rows) (hntr : ∀ p ∈ nameToRow, p.2 < nClusters) (hne : loads ≠ [])
    (hperm : loads.flatten.Perm (allChunks nameToRow files rows)) :
    ∃ buf, precomputeLoads nClusters g nameToRow loads = .ok buf ∧
      buf.length = nClusters ∧
      ∀ c : Nat, c < nClusters → buf[c]? = some ((Row.zero g).add (rowSum
        (((files.flatMap (·.2)).filter (fun cell => rowOf nameToRow cell == some c)).map
          (fun cell => cellStat cell.vals)))) :=
  precomputeLoads_perm_spec nClusters g nameToRow files rows loads hrows hntr hne hperm

/- five chunks of one row dealt round-robin to two workers (chunks 0, 2, 4 and 1, 3), with an
idle third worker: the hypothesis holds and the result is the direct one -/
example :
    let ntr := [(10, 0), (11, 1), (12, 0), (13, 1)]
    let files : List (Nat × List CellRec) :=
      [(0, [⟨10, [1]⟩, ⟨99, [7]⟩, ⟨11, [2]⟩]), (1, [⟨98, [5]⟩]), (2, [⟨12, [3]⟩, ⟨13, [4]⟩])]
    let chunks := allChunks ntr files 1
    let loads := [(chunks.zipIdx.filter (fun p => p.2 % 2 == 0)).map (·.1), [],
      (chunks.zipIdx.filter (fun p => p.2 % 2 == 1)).map (·.1)]
    loads.map (fun l => l.map (fun c => (c.file, c.r0))) = [[(0, 0), (0, 2), (2, 1)], [], [(0, 1), (2, 0)]] ∧
    loads.flatten.Perm chunks ∧
    precomputeLoads 2 1 ntr loads = .ok [⟨2, [⟨4, 10, 2, 1, 2⟩]⟩, ⟨2, [⟨6, 20, 2, 2, 2⟩]⟩] := by
  decide +kernel

/-- "... do not depend on how cells are spread over ... chunks or workers":
under the hypotheses of `direct`, any such assignment writes exactly what the
writer with its own (contiguous) assignment writes. -/
theorem split_independent_eq (nClusters g : Nat) (nameToRow : List (Nat × Nat))
    (files : List (Nat × List CellRec)) (rows nProc : Nat) (loads : List (List Chunk))
    (hrows : 1 ≤ rows) (hproc : 1 ≤ nProc) (hntr : ∀ p ∈ nameToRow, p.2 < nClusters)
    (hw : ∃ f ∈ files, wanted nameToRow f.2 = true) (hne : loads ≠ [])
    (hperm : loads.flatten.Perm (allChunks nameToRow files rows)) :
    precomputeLoads nClusters g nameToRow loads
      = precompute nClusters g nameToRow files rows nProc :=
  precomputeLoads_eq_precompute nClusters g nameToRow files rows nProc loads hrows hproc hntr hw
    hne hperm

example :
    let ntr := [(10, 0), (11, 1), (12, 0), (13, 1)]
    let files : List (Nat × List CellRec) :=
      [(0, [⟨10, [1]⟩, ⟨99, [7]⟩, ⟨11, [2]⟩]), (1, [⟨98, [5]⟩]), (2, [⟨12, [3]⟩, ⟨13, [4]⟩])]
    let chunks := allChunks ntr files 1
    let loads := [(chunks.zipIdx.filter (fun p => p.2 % 2 == 0)).map (·.1),
      (chunks.zipIdx.filter (fun p => p.2 % 2 == 1)).map (·.1)]
    precomputeLoads 2 1 ntr loads = precompute 2 1 ntr files 1 2 := by
  decide +kernel

end CTM.C09
