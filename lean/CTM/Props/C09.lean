import CTM.Model.Stats
namespace CTM.C09
theorem placeholder_true : True := trivial
end CTM.C09
