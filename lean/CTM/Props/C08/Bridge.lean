/-
  C08 — bridge to the tree validator (and to the level loop's run tree).

  The theorems of `CTM/Props/C08.lean` take the marker model's own hypothesis
  `TreeWF t` (and `Populated t` for the stage).  Here they are restated with the
  acceptance of the taxonomy by the model of `validate_taxonomy_tree`
  (`RawTree.validate`, C10) as the hypothesis:

    `t.validate = .ok ()`, `DictOK t`   (= C10's `WF t`, `C10.wf_iff_validate`)

  `stage_succeeds_of_validate` covers every `drop_level` / `flatten`
  configuration: the marker stage runs on the same tree as the level loop
  (`Bridge.stage_eq_stage_runTree`), and that tree is validator-accepted again
  (`Bridge.WF_runTree`).
-/
import CTM.Props.C08
import CTM.Lemmas.BridgeWF

namespace CTM.C08
open CTM CTM.Markers CTM.RawTree CTM.Bridge

/-- (non-vacuity, used by the examples below) the example taxonomy `t0` of
`Props/C08.lean` is accepted by the validator and has distinct dict keys -/
example : t0.validate = .ok () ∧ DictOK t0 := ⟨by rfl, dictOK_of_b (by decide)⟩

/-- "The genes used at a parent node, which are also the genes the output
reports for it, are the parent's listed markers that occur in the query; if
fewer than the configured minimum remain, the lists of its ancestors are added
nearest first, and finally the root's, until the minimum is reached, always
restricted to genes present in the query" — for every taxonomy the tree
validator accepts. -/
theorem spec_of_validate (t : RawTree) (hval : t.validate = .ok ())
    (hd : DictOK t) (lk : Lookup) (R Q : List Gene) (m : Nat) (c : Cache)
    (h : createCache (some t) lk R Q m = .ok c) (p : PKey) (hp : p ∈ t.allParents)
    (hc : Consulted t p) :
    ∃ rows names, c.groups.lookup p = some rows ∧ RowsFor R Q rows names ∧
      rows.Pairwise (fun a b => a.1 ≤ b.1) ∧
      reportedGroup c p = .ok names ∧ assemble c p = .ok names ∧
      (∀ g, g ∈ names ↔ g ∈ specGenes t lk Q m p) ∧ names.Nodup :=
  spec t (treeWF_of_WF (WF.of_validate hval hd)) lk R Q m c h p hp hc

example : ∀ c, createCache (some t0) lk0 [1, 2, 3, 4, 7, 9] [4, 3, 2, 1] 2 = .ok c →
    ∃ rows names, c.groups.lookup (some (1, 20)) = some rows ∧
      RowsFor [1, 2, 3, 4, 7, 9] [4, 3, 2, 1] rows names ∧
      rows.Pairwise (fun a b => a.1 ≤ b.1) ∧
      reportedGroup c (some (1, 20)) = .ok names ∧ assemble c (some (1, 20)) = .ok names ∧
      (∀ g, g ∈ names ↔ g ∈ specGenes t0 lk0 [4, 3, 2, 1] 2 (some (1, 20))) ∧ names.Nodup :=
  fun c h => spec_of_validate t0 (by rfl) (dictOK_of_b (by decide)) lk0 _ _ 2 c h _
    (by decide) ⟨[30, 31], rfl, by decide⟩

/-- "deepest parents first; union with ancestors' ORIGINAL lists" — on every
validator-accepted taxonomy the loop over the mutated table equals the loop
that reads the original table. -/
theorem original_lists_of_validate (t : RawTree) (hval : t.validate = .ok ())
    (hd : DictOK t) (Q : List Gene) (m : Nat) (lk : Lookup) :
    foldSteps (validateStep t Q m) t.allParents.reverse { lookup := lk } =
      foldSteps (validateStepWith t Q m (fun _ => lk)) t.allParents.reverse { lookup := lk } :=
  original_lists t (treeWF_of_WF (WF.of_validate hval hd)) Q m lk

example : foldSteps (validateStep t0 [4, 3, 2, 1] 2) t0.allParents.reverse { lookup := lk0 } =
    foldSteps (validateStepWith t0 [4, 3, 2, 1] 2 (fun _ => lk0)) t0.allParents.reverse
      { lookup := lk0 } :=
  original_lists_of_validate t0 (by rfl) (dictOK_of_b (by decide)) _ _ _

/-- the validated table on a validator-accepted taxonomy: consulted parents hold
(within the query) `specGenes` of the original table ("the parent's listed
markers that occur in the query; if fewer than the configured minimum remain
..."); every other key is left exactly as it was ("parents with a single child
need no markers"). -/
theorem validated_table_of_validate (t : RawTree) (hval : t.validate = .ok ())
    (hd : DictOK t) (Q : List Gene) (m : Nat) (lk lk' : Lookup)
    (h : validateLookup t Q m lk = .ok lk') :
    (∀ p ∈ t.allParents, Consulted t p →
        ∀ g, (g ∈ (get? lk' p).getD [] ∧ g ∈ Q) ↔ g ∈ specGenes t lk Q m p) ∧
    (∀ k, ¬ (k ∈ t.allParents ∧ Consulted t k) → get? lk' k = get? lk k) :=
  validated_table t (treeWF_of_WF (WF.of_validate hval hd)) Q m lk lk' h

example : ∀ lk', validateLookup t0 [4, 3, 2, 1] 2 lk0 = .ok lk' →
    (∀ k, ¬ (k ∈ t0.allParents ∧ Consulted t0 k) → get? lk' k = get? lk0 k) :=
  fun lk' h => (validated_table_of_validate t0 (by rfl) (dictOK_of_b (by decide))
    _ _ lk0 lk' h).2

/-- "Query and reference values are paired by gene name regardless of column
order": on a validator-accepted taxonomy the verdict depends on the query and
reference gene lists only as sets. -/
theorem verdict_order_invariant_of_validate (t : RawTree) (hval : t.validate = .ok ())
    (hd : DictOK t) (lk : Lookup) {R R' Q Q' : List Gene}
    (m : Nat) (hQ : ∀ g, g ∈ Q ↔ g ∈ Q') (hR : ∀ g, g ∈ R ↔ g ∈ R') (e : MErr) :
    createCache (some t) lk R Q m = .error e ↔ createCache (some t) lk R' Q' m = .error e :=
  verdict_order_invariant t (treeWF_of_WF (WF.of_validate hval hd)) lk m hQ hR e

example : ∀ e, createCache (some t0) lk0 [1, 2, 3, 4, 7, 9] [8] 1 = .error e ↔
    createCache (some t0) lk0 [9, 7, 4, 3, 2, 1] [8, 8] 1 = .error e :=
  fun e => verdict_order_invariant_of_validate t0 (by rfl) (dictOK_of_b (by decide))
    lk0 1 (by simp)
    (fun g => (by decide : [1, 2, 3, 4, 7, 9].Perm [9, 7, 4, 3, 2, 1]).mem_iff) e

/-- ... and so do the genes used at every consulted parent. -/
theorem genes_order_invariant_of_validate (t : RawTree) (hval : t.validate = .ok ())
    (hd : DictOK t) (lk : Lookup) {R R' Q Q' : List Gene}
    (m : Nat) (hQ : ∀ g, g ∈ Q ↔ g ∈ Q') (c c' : Cache)
    (h : createCache (some t) lk R Q m = .ok c) (h' : createCache (some t) lk R' Q' m = .ok c')
    (p : PKey) (hp : p ∈ t.allParents) (hc : Consulted t p) :
    ∃ names names', assemble c p = .ok names ∧ assemble c' p = .ok names' ∧
      ∀ g, g ∈ names ↔ g ∈ names' :=
  genes_order_invariant t (treeWF_of_WF (WF.of_validate hval hd)) lk m hQ c c' h h' p hp hc

example : ∀ c c', createCache (some t0) lk0 [1, 2, 3, 4, 7, 9] [4, 3, 2, 1] 2 = .ok c →
    createCache (some t0) lk0 [9, 7, 4, 3, 2, 1] [1, 2, 3, 4] 2 = .ok c' →
    ∃ names names', assemble c none = .ok names ∧ assemble c' none = .ok names' ∧
      ∀ g, g ∈ names ↔ g ∈ names' :=
  fun c c' h h' => genes_order_invariant_of_validate t0 (by rfl) (dictOK_of_b (by decide)) lk0 2
    (fun g => (by decide : [4, 3, 2, 1].Perm [1, 2, 3, 4]).mem_iff) c c' h h' none (by decide)
    ⟨[10, 11], rfl, by decide⟩

/-- `validate_marker_lookup` accepts the table of a validator-accepted taxonomy
exactly when no consulted parent is in the error condition ("A root without
usable markers ... a query sharing no marker with the table ends the run with an
error instead of a mapping"). -/
theorem lookup_ok_iff_of_validate (t : RawTree) (hval : t.validate = .ok ())
    (hd : DictOK t) (Q : List Gene) (m : Nat) (lk : Lookup) :
    (∃ lk', validateLookup t Q m lk = .ok lk') ↔
      ∀ p ∈ t.allParents, Consulted t p → ¬ errAt t lk Q m p :=
  validate_ok_iff t (treeWF_of_WF (WF.of_validate hval hd)) Q m lk

example : (∃ lk', validateLookup t0 [4, 3, 2, 1] 2 lk0 = .ok lk') ↔
    ∀ p ∈ t0.allParents, Consulted t0 p → ¬ errAt t0 lk0 [4, 3, 2, 1] 2 p :=
  lookup_ok_iff_of_validate t0 (by rfl) (dictOK_of_b (by decide)) _ _ _

/-- "A root without usable markers ... ends the run with an error instead of a
mapping" — on every validator-accepted taxonomy. -/
theorem root_without_markers_rejected_of_validate (t : RawTree) (hval : t.validate = .ok ())
    (hd : DictOK t) (lk : Lookup) (R Q : List Gene)
    (m : Nat) (hc : Consulted t none) (h0 : interQ Q ((get? lk none).getD []) = []) :
    ∃ e, createCache (some t) lk R Q m = .error e :=
  root_without_markers_rejected t (treeWF_of_WF (WF.of_validate hval hd)) lk R Q m hc h0

example : ∃ e, createCache (some t0) lk0 [1, 2, 3, 4, 7, 9] [8] 1 = .error e :=
  root_without_markers_rejected_of_validate t0 (by rfl) (dictOK_of_b (by decide)) lk0
    _ [8] 1 ⟨[10, 11], rfl, by decide⟩ (by decide)

/-- "a marker unknown to the reference ... ends the run with an error" — on
every validator-accepted taxonomy. -/
theorem unknown_marker_rejected_of_validate (t : RawTree) (hval : t.validate = .ok ())
    (hd : DictOK t) (lk : Lookup) (R Q : List Gene) (m : Nat)
    (hk : KeysNodup lk) (k : PKey) (l : List Gene) (hkl : (k, l) ∈ lk) (g : Gene) (hg : g ∈ l)
    (hq : g ∈ Q) (hr : g ∉ R) :
    ∃ e, createCache (some t) lk R Q m = .error e :=
  unknown_marker_rejected t (treeWF_of_WF (WF.of_validate hval hd)) lk R Q m hk k l hkl g hg
    hq hr

example : ∃ e, createCache (some t0) lk0 [1, 2, 3, 4, 9] [4, 3, 2, 1, 7] 2 = .error e :=
  unknown_marker_rejected_of_validate t0 (by rfl) (dictOK_of_b (by decide)) lk0 _ _ 2
    (by unfold KeysNodup; decide) (some (0, 11)) [7] (by decide) 7 (by decide) (by decide)
    (by decide)

/-- "a query sharing no marker with the table ends the run with an error" — on
every validator-accepted taxonomy, for every `min_markers`. -/
theorem no_shared_marker_rejected_of_validate (t : RawTree) (hval : t.validate = .ok ())
    (hd : DictOK t) (lk : Lookup) (R Q : List Gene) (m : Nat)
    (p : PKey) (hp : p ∈ t.allParents) (hc : Consulted t p)
    (h0 : specGenes t lk Q m p = []) :
    ∃ e, createCache (some t) lk R Q m = .error e :=
  no_shared_marker_rejected t (treeWF_of_WF (WF.of_validate hval hd)) lk R Q m p hp hc h0

example : ∃ e, createCache (some t0) lk0 [1, 2, 3, 4, 7, 9] [8] 1 = .error e :=
  no_shared_marker_rejected_of_validate t0 (by rfl) (dictOK_of_b (by decide)) lk0 _ [8]
    1 (some (1, 20)) (by decide) ⟨[30, 31], rfl, by decide⟩ (by decide)

/-- "... and conversely none of these ⇒ a mapping": on a validator-accepted
taxonomy a dict-like table all of whose listed genes are reference genes is
accepted as soon as no consulted parent is in the error condition. -/
theorem accepted_otherwise_of_validate (t : RawTree) (hval : t.validate = .ok ())
    (hd : DictOK t) (lk : Lookup) (R Q : List Gene) (m : Nat)
    (hk : KeysNodup lk)
    (hvl : ∀ p ∈ t.allParents, Consulted t p → ¬ errAt t lk Q m p)
    (hR : ∀ e ∈ lk, ∀ g ∈ e.2, g ∈ R) :
    ∃ c, createCache (some t) lk R Q m = .ok c :=
  accepted_otherwise t (treeWF_of_WF (WF.of_validate hval hd)) lk R Q m hk hvl hR

example : ∃ c, createCache (some t0) lk0 [1, 2, 3, 4, 7, 9] [4, 3, 2, 1] 2 = .ok c :=
  accepted_otherwise_of_validate t0 (by rfl) (dictOK_of_b (by decide)) lk0 _ _ 2
    (by unfold KeysNodup; decide)
    ((lookup_ok_iff_of_validate t0 (by rfl) (dictOK_of_b (by decide)) _ _ _).1 (by
      have hb : (validateLookup t0 [4, 3, 2, 1] 2 lk0).toBool = true := by decide
      cases h : validateLookup t0 [4, 3, 2, 1] 2 lk0 with
      | ok lk' => exact ⟨lk', rfl⟩
      | error e => simp [h, Except.toBool] at hb))
    (by decide)

/-- on a validator-accepted taxonomy the cache writer's own "No markers at parent
node … were present in query set" can no longer be what ends the run. -/
theorem overlap_error_unreachable_of_validate (t : RawTree) (hval : t.validate = .ok ())
    (hd : DictOK t) (lk : Lookup) (R Q : List Gene) (m : Nat)
    (hk : KeysNodup lk) : createCache (some t) lk R Q m ≠ .error .noQueryOverlap :=
  overlap_error_unreachable t (treeWF_of_WF (WF.of_validate hval hd)) lk R Q m hk

example : createCache (some t0) lk0 [1, 2, 3, 4, 7, 9] [8] 1 ≠ .error .noQueryOverlap :=
  overlap_error_unreachable_of_validate t0 (by rfl) (dictOK_of_b (by decide)) lk0 _ _ 1
    (by unfold KeysNodup; decide)

/-- on a validator-accepted taxonomy the only errors of the cache creation are
the four documented messages ("... ends the run with an error instead of a
mapping": never an unplanned `KeyError` / `IndexError`). -/
theorem only_documented_errors_of_validate (t : RawTree) (hval : t.validate = .ok ())
    (hd : DictOK t) (lk : Lookup) (R Q : List Gene) (m : Nat)
    (e : MErr) (h : createCache (some t) lk R Q m = .error e) :
    e = .noMarkersAnyLevel ∨ e = .validating ∨ e = .noQueryOverlap ∨ e = .notInReference :=
  only_documented_errors t (treeWF_of_WF (WF.of_validate hval hd)) lk R Q m e h

example : ∀ e, createCache (some t0) lk0 [1, 2, 3, 4, 7, 9] [8] 1 = .error e →
    e = .noMarkersAnyLevel ∨ e = .validating ∨ e = .noQueryOverlap ∨ e = .notInReference :=
  fun e h => only_documented_errors_of_validate t0 (by rfl) (dictOK_of_b (by decide))
    lk0 _ _ 1 e h

/-- "flattening unions every list into the root's" — end to end, with the
validator's acceptance of the STORED (unflattened) taxonomy as the hypothesis:
the flattened taxonomy is accepted again (C10 `flatten_preserves`). -/
theorem flatten_spec_of_validate (t : RawTree) (hval : t.validate = .ok ())
    (hd : DictOK t) (lk : Lookup) (R Q : List Gene) (m : Nat)
    (c : Cache) (h : createCache (some t.flatten) (flattenLookup lk) R Q m = .ok c)
    (hc : Consulted t.flatten none) :
    ∃ names, assemble c none = .ok names ∧ reportedGroup c none = .ok names ∧
      ∀ g, g ∈ names ↔ g ∈ Q ∧ ∃ e ∈ lk, g ∈ e.2 :=
  flatten_spec t (treeWF_of_WF (flatten_wf (WF.of_validate hval hd))) lk R Q m c h hc

example : ∀ c, createCache (some t0.flatten) (flattenLookup lk0) [1, 2, 3, 4, 7, 9] [4, 3, 2, 1] 2
      = .ok c →
    ∃ names, assemble c none = .ok names ∧ reportedGroup c none = .ok names ∧
      ∀ g, g ∈ names ↔ g ∈ [4, 3, 2, 1] ∧ ∃ e ∈ lk0, g ∈ e.2 :=
  fun c h => flatten_spec_of_validate t0 (by rfl) (dictOK_of_b (by decide)) lk0 _ _ 2
    c h ⟨[30, 31, 32, 33], by rfl, by decide⟩

/-- "Every taxonomy the tree validator accepts ... is mapped without error" (the
marker side; C01 has the level-loop side): for a validator-accepted stored
taxonomy with a node and EVERY `drop_level` / `flatten` configuration whose run
tree `t` exists (`LevelLoop.runTree`, the tree the level loop votes on), once
the cache for `t` is written the rest of the marker stage cannot fail, and for
every consulted parent of `t` the genes used are the genes reported. -/
theorem stage_succeeds_of_validate (t0 t : RawTree) (cfg : LevelLoop.Config)
    (hval : t0.validate = .ok ()) (hd : DictOK t0)
    (hrun : LevelLoop.runTree t0 cfg = .ok t)
    (lk : Lookup) (R Q : List Gene) (m : Nat) (c : Cache)
    (h : createCache (some t) (if cfg.flatten then flattenLookup lk else lk) R Q m = .ok c) :
    ∃ out, stage t0 lk R Q m cfg.dropLevel cfg.flatten = .ok out ∧
      (∀ e ∈ out.used, e.1 ∈ t.allParents ∧ Consulted t e.1 ∧ assemble c e.1 = .ok e.2 ∧
        reportedGroup c e.1 = .ok e.2) ∧
      (∀ e ∈ out.reported, ReportedEntry t c e.1 e.2) := by
  have w0 := WF.of_validate hval hd
  have w := WF_runTree w0 hrun
  rw [stage_eq_stage_runTree hrun]
  exact stage_succeeds t (treeWF_of_WF w) (populated_of_WF w) _ R Q m c h

example : ∀ c, createCache (some t0) lk0 [1, 2, 3, 4, 7, 9] [4, 3, 2, 1] 2 = .ok c →
    ∃ out, stage t0 lk0 [1, 2, 3, 4, 7, 9] [4, 3, 2, 1] 2 none false = .ok out ∧
      (∀ e ∈ out.used, e.1 ∈ t0.allParents ∧ Consulted t0 e.1 ∧ assemble c e.1 = .ok e.2 ∧
        reportedGroup c e.1 = .ok e.2) ∧
      (∀ e ∈ out.reported, ReportedEntry t0 c e.1 e.2) :=
  fun c h => stage_succeeds_of_validate t0 t0 {} (by rfl) (dictOK_of_b (by decide))
    rfl lk0 _ _ 2 c h

/-- (non-vacuity of the `drop_level` case) dropping the middle level of `t0` -/
example : ∃ t, LevelLoop.runTree t0 { dropLevel := some 1 } = .ok t ∧ t.hierarchy = [0, 2] :=
  ⟨_, by rfl, by decide⟩

end CTM.C08
