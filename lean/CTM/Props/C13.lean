import CTM.Model.Sparse
namespace CTM.C13
theorem placeholder_true : True := trivial
end CTM.C13
