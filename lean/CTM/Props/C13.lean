/-
  C13 — on-disk sparse transposition and reshaping preserve the matrix.

  Theorems about the executable model `CTM/Model/Sparse.lean` (tied to
  `utils/csc_to_csr.py`, `utils/csc_to_csr_parallel.py`, `utils/anndata_utils.py`,
  `utils/h5_utils.py` by the correspondence suite `harness/props/c13.py`).
  All of them hold for every matrix, every load-chunk size `≥ 1`, every element
  budget, every index sub-range, every worker count: there is no size bound.

  Vocabulary: `Mat α = (indptr, indices, data)`; `WFptr ip n nnz` — `ip` has
  `n + 1` entries, is non-decreasing, starts at 0 and ends at `nnz`;
  `SlicesNodup M n` — indices are unique within each of the `n` major slices;
  `toDense zero M nMajor nMinor` — the dense matrix the arrays stand for
  (`rowSpec`: scatter of slice `i`); `transposeDense` — its transpose.
-/
import CTM.Lemmas.SparseV2
import CTM.Lemmas.SparseFlat
import CTM.Generated.SparseConsts

namespace CTM.C13
open CTM.Chunking CTM.Sparse

/-- the running example of the non-vacuity checks: the 3×3 matrix
`[[1,0,2],[0,3,0],[4,0,5]]` in compressed form -/
def M0 : Mat Nat := ⟨[0, 2, 3, 5], [0, 2, 1, 0, 2], [1, 2, 3, 4, 5]⟩

/-! ## "for any memory budget": the loops that cut the work -/

/-- *"the loop nests that cut the work by element budget"* — the blocks
`[r0, r1)` of minor indices written per pass of `transpose_sparse_matrix_on_disk`
partition `[0, nMinor)` in order, whatever the pointer array and whatever the
element budget `el` (also `el = 0`). -/
theorem blocks_partition (csrIndptr : List Nat) (el : Nat) :
    (blockCuts csrIndptr el).flatMap rangeOf = List.range (csrIndptr.length - 1) :=
  blockCuts_cover csrIndptr el

example : blockCuts [0, 2, 3, 5] 2 = [(0, 1), (1, 3)] := by decide

/-- every block is a non-empty range of minor indices; every block but the
last holds at least `el` stored entries and no proper prefix of a block does
(the budget is overshot by at most one slice). -/
theorem blocks_respect_budget (csrIndptr : List Nat) (el : Nat) :
    ∀ p ∈ blockCuts csrIndptr el,
      p.1 < p.2 ∧ p.2 ≤ csrIndptr.length - 1 ∧
      (p.2 < csrIndptr.length - 1 → el ≤ ptr csrIndptr p.2 - ptr csrIndptr p.1) ∧
      (∀ c, p.1 < c → c < p.2 → ptr csrIndptr c - ptr csrIndptr p.1 < el) := by
  intro p hp
  have := blockCutsAux_bounds csrIndptr el _ _ p hp
  exact ⟨this.2.1, this.2.2.1, this.2.2.2.1, this.2.2.2.2⟩

example : (0, 1) ∈ blockCuts [0, 2, 3, 5] 2 := by decide

/-- the load chunks `indices[i0:i1]`, `i0 in range(0, n, lo)`, concatenate to
the whole array for every chunk size `lo ≥ 1` (fill pass and counting pass). -/
theorem load_chunks_cover {β} (l : List β) (lo : Nat) (h : 1 ≤ lo) :
    (sliceChunks lo l).flatten = l :=
  sliceChunks_flatten l lo h

example : sliceChunks 2 [10, 11, 12, 13, 14] = [[10, 11], [12, 13], [14]] := by decide

/-- the enforced minimum chunk sizes: whatever `max_gb` (also 0 or negative),
whatever the dtypes and whatever the constants `K` of the source, the three
chunk sizes derived from the memory budget are at least the source's minimum
sizes — hence `≥ 1` as the theorems below need whenever those are. -/
theorem budget_floor_consts (K : BudgetConsts) (countGb loadGb elGb : Rat)
    (dataBytes indptrBytes indicesBytes : Nat) :
    K.minCount ≤ (Budget.ofConsts K countGb loadGb elGb dataBytes indptrBytes indicesBytes).loCount ∧
    K.minLoad ≤ (Budget.ofConsts K countGb loadGb elGb dataBytes indptrBytes indicesBytes).lo ∧
    K.minEl ≤ (Budget.ofConsts K countGb loadGb elGb dataBytes indptrBytes indicesBytes).el := by
  unfold Budget.ofConsts
  exact ⟨Nat.le_max_left _ _, Nat.le_max_left _ _, Nat.le_max_left _ _⟩

/-- the same at the constants of the tree the model was first written against
(minimum 100 three times); quoted by other groups' theorems. -/
theorem budget_floor (countGb loadGb elGb : Rat) (dataBytes indptrBytes indicesBytes : Nat) :
    100 ≤ (Budget.of countGb loadGb elGb dataBytes indptrBytes indicesBytes).loCount ∧
    100 ≤ (Budget.of countGb loadGb elGb dataBytes indptrBytes indicesBytes).lo ∧
    100 ≤ (Budget.of countGb loadGb elGb dataBytes indptrBytes indicesBytes).el :=
  budget_floor_consts pinnedConsts countGb loadGb elGb dataBytes indptrBytes indicesBytes

/-- **source constants** (translation tie): the minimum block sizes of the
counting and the fill pass, the budget split and the block size of the joining
loop are re-extracted from the current `utils/csc_to_csr.py` /
`csc_to_csr_parallel.py` on every run (`CTM/Generated/SparseConsts.lean`,
written by `harness/ctmverif/sparse_translate.py`; the driver instantiates the
model with them).  The theorems of this file hold for *every* value of these
constants that satisfies the preconditions below — which is all that is
demanded of the regenerated values (decided by kernel evaluation at build
time): every minimum size and the join block `≥ 1` (a block size 0 would make
`range(0, n, 0)` raise), the budget is split by a positive divisor. -/
theorem source_constants :
    1 ≤ CTM.Generated.SparseConsts.countMinLoadChunk ∧
    1 ≤ CTM.Generated.SparseConsts.transposeMinLoadChunk ∧
    1 ≤ CTM.Generated.SparseConsts.transposeMinElements ∧
    1 ≤ CTM.Generated.SparseConsts.joinBlock ∧
    1 ≤ CTM.Generated.SparseConsts.loadSplitDen := by decide

/-- the constants of the current source, as the driver uses them -/
def sourceConsts : BudgetConsts :=
  { minCount := CTM.Generated.SparseConsts.countMinLoadChunk
    minLoad := CTM.Generated.SparseConsts.transposeMinLoadChunk
    minEl := CTM.Generated.SparseConsts.transposeMinElements
    dexBytes := CTM.Generated.SparseConsts.dexBytes }

/-- with the constants of the current source every budget has chunk sizes
`≥ 1`, whatever `max_gb`. -/
theorem source_budget_ok (countGb loadGb elGb : Rat) (dataBytes indptrBytes indicesBytes : Nat) :
    1 ≤ (Budget.ofConsts sourceConsts countGb loadGb elGb dataBytes indptrBytes indicesBytes).loCount ∧
    1 ≤ (Budget.ofConsts sourceConsts countGb loadGb elGb dataBytes indptrBytes indicesBytes).lo ∧
    1 ≤ (Budget.ofConsts sourceConsts countGb loadGb elGb dataBytes indptrBytes indicesBytes).el := by
  have h := budget_floor_consts sourceConsts countGb loadGb elGb dataBytes indptrBytes indicesBytes
  have s := source_constants
  exact ⟨Nat.le_trans s.1 h.1, Nat.le_trans s.2.1 h.2.1, Nat.le_trans s.2.2.1 h.2.2⟩

/-! ## the transposition at bucket level -/

/-- **bucket level** (DESIGN §5 C13, level 1).  For every load-chunk size
`lo ≥ 1`, every element budget `el` and every index sub-range `sl`, the fill
pass writes, for minor index `v = 0, 1, …`, the entries with (slice-shifted)
minor index `v` in storage order — the stable bucketing of the entries by minor
index.  `entriesOf M` is the list of stored entries tagged with their major
index exactly as the code computes it (`searchsorted(indptr, ·, 'right') - 1`). -/
theorem transpose_buckets {α} (M : Mat α) (sl : Option (Nat × Nat)) (csrIndptr : List Nat)
    (lo el : Nat) (hlo : 1 ≤ lo) :
    transposeEntries (entriesOf M) sl csrIndptr lo el
      = (List.range (csrIndptr.length - 1)).flatMap fun v =>
          (sliceEntries sl (entriesOf M)).filter (·.minor == v) :=
  transposeEntries_eq_bucketSpec _ sl csrIndptr lo el hlo (entriesOf_majorsSorted M)

example : (transposeEntries (entriesOf M0) none [0, 2, 3, 5] 2 1).map (·.val)
    = [1, 4, 3, 2, 5] := by decide

/-- **flat-array level** (DESIGN §5 C13, level 2) — *"fill pass writes bounded
blocks of major slices using a running next-free-slot table"*: the same loops
with the code's addressing — per block a zeroed buffer of `d1 - d0` cells, the
group of one load chunk for minor index `v` written at `next_idx[v] - d0`, then
`next_idx[v] += ct`, the buffer written to the output at `[d0, d1)` — produce,
for every load-chunk size `≥ 1`, every element budget and every index
sub-range, exactly the arrays of the bucket-level model `transposeOnDisk`
(the counting-sort invariant `next_idx[v] = indptr[v] + #written(v)`, groups
never overlap, every output cell is written exactly once).  Everything proved
below for `transposeOnDisk` therefore holds for the flat-array version. -/
theorem transpose_flat {α} (zero : α) (M : Mat α) (indicesMax : Nat)
    (sl : Option (Nat × Nat)) (B : Budget)
    (hlo : 1 ≤ B.lo) (hc : 1 ≤ B.loCount) (hlen : M.data.length = M.indices.length)
    (hr : ∀ x ∈ sliceMinors sl M.indices, x < nMinorOf indicesMax sl) :
    transposeOnDiskFlat zero M indicesMax sl B = transposeOnDisk M indicesMax sl B :=
  transposeOnDiskFlat_eq zero M indicesMax sl B hlo hc hlen hr

example : transposeOnDiskFlat 0 M0 3 none ⟨2, 2, 1⟩
    = .ok ⟨[0, 2, 3, 5], [0, 2, 1, 0, 2], [1, 4, 3, 2, 5]⟩ := rfl

/-- **counting pass** (`_calculate_csr_indptr`): for every load-chunk size
`≥ 1` and every index sub-range the pointer array is
`k ↦ #{entries whose (slice-shifted) minor index is < k}` and `n_non_zero` is
the number of entries inside the sub-range. -/
theorem count_pass (indices : List Nat) (indicesMax : Nat) (sl : Option (Nat × Nat))
    (loCount : Nat) (h : 1 ≤ loCount)
    (hr : ∀ x ∈ sliceMinors sl indices, x < nMinorOf indicesMax sl) :
    calcIndptr indices indicesMax sl loCount =
      .ok ((List.range (nMinorOf indicesMax sl + 1)).map
            (fun k => (sliceMinors sl indices).countP (· < k)),
           (sliceMinors sl indices).length) :=
  calcIndptr_ok indices indicesMax sl loCount h hr

example : calcIndptr [0, 2, 1, 0, 2] 3 (some (1, 3)) 2 = .ok ([0, 1, 3], 3) := rfl

/-- a minor index outside `[0, indices_max)` makes the counting pass fail
(`IndexError`), it is never silently dropped or wrapped. -/
theorem count_pass_rejects (indices : List Nat) (indicesMax loCount : Nat) (h : 1 ≤ loCount)
    (x : Nat) (hx : x ∈ indices) (hbig : indicesMax ≤ x) :
    calcIndptr indices indicesMax none loCount = .error .indexOutOfRange := by
  unfold calcIndptr
  have hflat : ((sliceChunks loCount indices).map (sliceMinors none)).flatten = indices := by
    rw [sliceMinors_flatten, sliceChunks_flatten indices loCount h]; rfl
  have : ((sliceChunks loCount indices).map (sliceMinors none)).any
      (·.any (· ≥ nMinorOf indicesMax none)) = true := by
    rw [any_any_flatten, hflat, List.any_eq_true]
    exact ⟨x, hx, by simp [nMinorOf]; omega⟩
  simp only [this, if_true]

example : calcIndptr [0, 3, 1] 3 none 2 = .error .indexOutOfRange := rfl

/-! ## "yields exactly the transpose" -/

/-- **`transpose_correct`** — *"a monotone pointer array ending at the number
of stored entries, minor indices sorted and unique within each major slice,
and every stored value at its transposed position, for any memory budget"*.

For every well-formed input (`WFptr`; input indices need not be sorted), every
budget with chunk sizes `≥ 1` (any element budget), the serial transposition
succeeds and its output `out`
* has a pointer array with `nMinor + 1` entries, starting at 0,
  non-decreasing, ending at the number of stored entries, and `indices` /
  `data` of that length;
* cuts, for every `v`, exactly the major indices / values of the entries with
  minor index `v` in storage order;
* has all its indices `< nMajor`;
* has strictly increasing indices in every slice if the input's indices are
  unique within each major slice;
* denotes the transposed dense matrix. -/
theorem transpose_correct {α} (zero : α) (M : Mat α) (nMajor nMinor : Nat) (B : Budget)
    (hlo : 1 ≤ B.lo) (hc : 1 ≤ B.loCount)
    (w : WFptr M.indptr nMajor M.indices.length) (hlen : M.data.length = M.indices.length)
    (hr : ∀ x ∈ M.indices, x < nMinor) :
    ∃ out, transposeOnDisk M nMinor none B = .ok out ∧
      WFptr out.indptr nMinor M.indices.length ∧
      out.indices.length = M.indices.length ∧ out.data.length = M.indices.length ∧
      (∀ x ∈ out.indices, x < nMajor) ∧
      (∀ v, v < nMinor →
        slice out.indices (ptr out.indptr v) (ptr out.indptr (v + 1))
          = ((entriesOf M).filter (·.minor == v)).map (·.major) ∧
        slice out.data (ptr out.indptr v) (ptr out.indptr (v + 1))
          = ((entriesOf M).filter (·.minor == v)).map (·.val)) ∧
      (SlicesNodup M nMajor → ∀ v, v < nMinor →
        (slice out.indices (ptr out.indptr v) (ptr out.indptr (v + 1))).Pairwise (· < ·)) ∧
      toDense zero out nMinor nMajor
        = transposeDense zero (toDense zero M nMajor nMinor) nMinor := by
  have hE : ∀ e ∈ entriesOf M, e.minor < nMinor := by
    intro e he
    apply hr
    rw [← entriesOf_map_minor M hlen]
    exact List.mem_map_of_mem he
  refine ⟨canonOut (entriesOf M) nMinor, ?_, ?_, ?_, ?_, ?_, ?_, ?_, ?_⟩
  · exact transposeOnDisk_eq M nMinor none B hlo hc hlen hr
  · rw [← entriesOf_length M hlen]; exact canonOut_wfptr _ _ hE
  · rw [← entriesOf_length M hlen]; exact (canonOut_lengths _ _ hE).1
  · rw [← entriesOf_length M hlen]; exact (canonOut_lengths _ _ hE).2
  · exact canonOut_indices_lt M nMajor nMinor w
  · intro v hv; exact canonOut_slice _ _ _ hv
  · intro hn v hv
    rw [(canonOut_slice _ _ _ hv).1]
    exact bucket_strictly_increasing _ (entriesOf_majorsSorted M)
      (entriesOf_uniqueCoords M nMajor w hlen hn) v
  · exact canonOut_toDense zero M nMajor nMinor w

/- non-vacuity: the hypotheses hold for `M0` and the conclusion is what the
model computes -/
example : WFptr M0.indptr 3 5 := ⟨rfl, by decide, rfl, rfl⟩
example : SlicesNodup M0 3 := by
  intro i hi
  have : i = 0 ∨ i = 1 ∨ i = 2 := by omega
  rcases this with h | h | h <;> subst h <;> decide
example : transposeOnDisk M0 3 none ⟨2, 2, 1⟩
    = .ok ⟨[0, 2, 3, 5], [0, 2, 1, 0, 2], [1, 4, 3, 2, 5]⟩ := rfl
example : toDense 0 M0 3 3 = [[1, 0, 2], [0, 3, 0], [4, 0, 5]] := by decide

/-- **`involution`** — transposing twice (CSC → CSR → CSC, any two budgets)
gives arrays that denote the original matrix again, now in canonical form:
indices strictly increasing within every slice (whatever their order in the
input), pointer array monotone from 0 to the number of stored entries. -/
theorem involution {α} (zero : α) (M : Mat α) (nMajor nMinor : Nat) (B1 B2 : Budget)
    (hlo1 : 1 ≤ B1.lo) (hc1 : 1 ≤ B1.loCount) (hlo2 : 1 ≤ B2.lo) (hc2 : 1 ≤ B2.loCount)
    (w : WFptr M.indptr nMajor M.indices.length) (hlen : M.data.length = M.indices.length)
    (hr : ∀ x ∈ M.indices, x < nMinor) (hn : SlicesNodup M nMajor) :
    ∃ out1 out2, transposeOnDisk M nMinor none B1 = .ok out1 ∧
      transposeOnDisk out1 nMajor none B2 = .ok out2 ∧
      toDense zero out2 nMajor nMinor = toDense zero M nMajor nMinor ∧
      WFptr out2.indptr nMajor M.indices.length ∧
      (∀ i, i < nMajor →
        (slice out2.indices (ptr out2.indptr i) (ptr out2.indptr (i + 1))).Pairwise (· < ·)) := by
  obtain ⟨out1, e1, w1, l1, d1, r1, _, s1, t1⟩ :=
    transpose_correct zero M nMajor nMinor B1 hlo1 hc1 w hlen hr
  have w1' : WFptr out1.indptr nMinor out1.indices.length := by rw [l1]; exact w1
  have hn1 : SlicesNodup out1 nMinor := by
    intro v hv
    have := s1 hn v hv
    exact this.imp (fun h => Nat.ne_of_lt h)
  obtain ⟨out2, e2, w2, l2, _, _, _, s2, t2⟩ :=
    transpose_correct zero out1 nMinor nMajor B2 hlo2 hc2 w1' (by omega) r1
  refine ⟨out1, out2, e1, e2, ?_, ?_, ?_⟩
  · rw [t2, t1]
    exact transposeDense_involutive zero _ nMajor nMinor (toDense_length _ _ _ _)
      (toDense_rows_length zero M nMajor nMinor)
  · rw [← l1]; exact w2
  · exact s2 hn1

example : (transposeOnDisk (⟨[0, 2, 3, 5], [2, 0, 1, 2, 0], [2, 1, 3, 5, 4]⟩ : Mat Nat)
              3 none ⟨1, 1, 1⟩ >>= fun o => transposeOnDisk o 3 none ⟨2, 3, 1⟩)
    = .ok ⟨[0, 2, 3, 5], [0, 2, 1, 0, 2], [1, 2, 3, 4, 5]⟩ := rfl

/-- **`transpose_slice`** — *"for any sub-range of the minor axis"*: with
`indices_slice = (a, b)`, `a ≤ b ≤ nMinor`, the serial transposition succeeds
for every budget and its output denotes rows `a ..< b` of the transposed
matrix. -/
theorem transpose_slice {α} (zero : α) (M : Mat α) (nMajor nMinor : Nat) (B : Budget)
    (hlo : 1 ≤ B.lo) (hc : 1 ≤ B.loCount)
    (w : WFptr M.indptr nMajor M.indices.length) (hlen : M.data.length = M.indices.length)
    (a b : Nat) (hab : a ≤ b) (hb : b ≤ nMinor) :
    ∃ out, transposeOnDisk M nMinor (some (a, b)) B = .ok out ∧
      toDense zero out (b - a) nMajor
        = slice (transposeDense zero (toDense zero M nMajor nMinor) nMinor) a b := by
  have hr2 : ∀ x ∈ sliceMinors (some (a, b)) M.indices, x < nMinorOf nMinor (some (a, b)) := by
    intro x hx
    unfold sliceMinors at hx
    simp only [List.mem_map, List.mem_filter, Bool.and_eq_true, decide_eq_true_eq] at hx
    obtain ⟨y, ⟨_, hy⟩, rfl⟩ := hx
    simp only [nMinorOf]; omega
  exact ⟨_, transposeOnDisk_eq M nMinor (some (a, b)) B hlo hc hlen hr2,
    transposeSlice_toDense zero M nMajor nMinor w a b hab hb⟩

example : transposeOnDisk M0 3 (some (1, 3)) ⟨2, 2, 1⟩
    = .ok ⟨[0, 1, 3], [1, 0, 2], [3, 2, 5]⟩ := rfl

/-- **`v2_eq`** — *"serially or with parallel workers"*: for every worker
count `≥ 1` (also more workers than minor indices) and every pair of budgets,
cutting the minor range into `ceil(indices_max / n_processors)`-wide
sub-ranges, transposing each on its own and joining the pieces in range order
with shifted pointers produces exactly the arrays of the serial transposition
(hence everything `transpose_correct` says holds for the parallel version). -/
theorem v2_eq {α} (M : Mat α) (indicesMax nProc : Nat) (B B' : Budget)
    (himax : 1 ≤ indicesMax) (hp : 1 ≤ nProc)
    (hlo : 1 ≤ B.lo) (hc : 1 ≤ B.loCount) (hlo' : 1 ≤ B'.lo) (hc' : 1 ≤ B'.loCount)
    (hlen : M.data.length = M.indices.length) (hr : ∀ x ∈ M.indices, x < indicesMax) :
    transposeV2 M indicesMax nProc B = transposeOnDisk M indicesMax none B' :=
  transposeV2_eq M indicesMax nProc B B' himax hp hlo hc hlo' hc' hlen hr

example : transposeV2 M0 3 2 ⟨1, 1, 1⟩ = transposeOnDisk M0 3 none ⟨5, 5, 5⟩ := rfl
example : chunks 3 (ceilDiv 3 2) = [(0, 2), (2, 3)] := by decide

/-- **`v2_join_blocks`** — the joining loop of
`_transpose_sparse_matrix_on_disk_v2` copies every worker's `indices` (and
`data`, when there is one) into the final arrays in blocks of `chunk_size`
entries at a running destination offset (`dst1 = dst0 + (src1-src0)`,
`dst[dst0:dst1] = src[src0:src1]`, `dst0 = dst1`).  For **every block size
`≥ 1`** (the source's literal is only required to be `≥ 1`, `source_constants`) this blockwise
copy is the whole copy: the parallel transposition with the blockwise join
equals `transposeV2` — for every matrix, budget and worker count, with a value
array (`α` arbitrary) and without (`α := Unit`). -/
theorem v2_join_blocks {α} (zero : α) (M : Mat α) (indicesMax nProc : Nat) (B : Budget)
    (blk : Nat) (hblk : 1 ≤ blk) :
    transposeV2Blocked zero M indicesMax nProc B blk = transposeV2 M indicesMax nProc B ∧
    (∀ (dst : List Nat) (dst0 : Nat) (src : List Nat), dst0 + src.length ≤ dst.length →
      blockCopyInto blk dst dst0 src = (writeAt dst dst0 src, dst0 + src.length)) :=
  ⟨transposeV2Blocked_eq zero M indicesMax nProc B blk hblk,
   fun dst dst0 src h => blockCopyInto_eq blk hblk dst dst0 src h⟩

example : transposeV2Blocked 0 M0 3 2 ⟨1, 1, 1⟩ 2
    = .ok ⟨[0, 2, 3, 5], [0, 2, 1, 0, 2], [1, 4, 3, 2, 5]⟩ := rfl
example : blockCopyInto 2 [0, 0, 0, 0, 0, 0, 0] 1 [7, 8, 9, 10, 11]
    = ([0, 7, 8, 9, 10, 11, 0], 6) := by decide
example : transposeV2Blocked () (⟨[0, 2, 3, 5], [0, 2, 1, 0, 2], [(), (), (), (), ()]⟩ : Mat Unit)
    3 1 ⟨1, 1, 1⟩ 2 = .ok ⟨[0, 2, 3, 5], [0, 2, 1, 0, 2], [(), (), (), (), ()]⟩ := rfl

/-- the sub-ranges handed to the workers partition `[0, indices_max)` in
order, for every worker count `≥ 1`. -/
theorem v2_slices_partition (indicesMax nProc : Nat) (himax : 1 ≤ indicesMax) (hp : 1 ≤ nProc) :
    (chunks indicesMax (ceilDiv indicesMax nProc)).flatMap rangeOf = List.range indicesMax := by
  unfold chunks
  rw [chunksAux_cover indicesMax _ (ceilDiv_pos indicesMax nProc himax hp) indicesMax 0
    (by omega) (by omega), List.range_eq_range']
  rfl

/-! ## the file-level operations equal the in-memory operation -/

/-- **CSR → CSC pivot** (`pivot_csr_h5ad`): parallel transposition of `X`
followed by a chunked copy of the three arrays (any chunk length `delta ≥ 1`)
gives exactly the serial transposition's arrays, i.e. (by `transpose_correct`)
the CSC encoding of the same matrix. -/
theorem pivot {α} (M : Mat α) (nCols nProc : Nat) (B B' : Budget) (delta : Nat)
    (hd : 1 ≤ delta) (hcols : 1 ≤ nCols) (hp : 1 ≤ nProc)
    (hlo : 1 ≤ B.lo) (hc : 1 ≤ B.loCount) (hlo' : 1 ≤ B'.lo) (hc' : 1 ≤ B'.loCount)
    (hlen : M.data.length = M.indices.length) (hr : ∀ x ∈ M.indices, x < nCols) :
    pivotCsr M nCols nProc B delta = transposeOnDisk M nCols none B' := by
  unfold pivotCsr
  rw [transposeV2_eq M nCols nProc B B' hcols hp hlo hc hlo' hc' hlen hr]
  cases h : transposeOnDisk M nCols none B' with
  | error e => rfl
  | ok t =>
    simp only [bind, Except.bind, pure, Except.pure]
    rw [chunkCopy_id delta _ hd, chunkCopy_id delta _ hd, chunkCopy_id delta _ hd]

example : pivotCsr M0 3 2 ⟨1, 1, 1⟩ 2 = .ok ⟨[0, 2, 3, 5], [0, 2, 1, 0, 2], [1, 4, 3, 2, 5]⟩ := rfl

/-- **row shuffling** (`shuffle_csr_h5ad_rows`): for every permutation
`order` of the rows, the written arrays denote the matrix whose row `k` is row
`order[k]` of the input. -/
theorem shuffle_rows {α} (zero : α) (M : Mat α) (nRows nCols : Nat)
    (w : WFptr M.indptr nRows M.indices.length) (hlen : M.data.length = M.indices.length)
    (order : List Nat) (hp : order.Perm (List.range nRows)) :
    toDense zero (shuffleRows M order) nRows nCols
      = order.map fun o => (toDense zero M nRows nCols).getD o [] :=
  shuffleRows_toDense zero M nRows nCols w hlen order hp

example : toDense 0 (shuffleRows M0 [2, 0, 1]) 3 3 = [[4, 0, 5], [1, 0, 2], [0, 3, 0]] := by decide

/-- **column sub-setting** (`subset_csc_h5ad_columns`): for every list of
chosen columns (any order, repeats allowed) the written CSC arrays denote the
chosen columns of the input in increasing order (`isort`), column by column
(`rowSpec` of a CSC matrix is one column). -/
theorem subset_columns {α} (zero : α) (M : Mat α) (nCols nRows : Nat)
    (w : WFptr M.indptr nCols M.indices.length) (hlen : M.data.length = M.indices.length)
    (chosen : List Nat) (hc : ∀ c ∈ chosen, c < nCols) :
    toDense zero (subsetColumns M chosen) chosen.length nRows
      = (isort (fun a b => decide (a ≤ b)) chosen).map (rowSpec zero M nRows) :=
  subsetColumns_toDense zero M nCols nRows w hlen chosen hc

example : toDense 0 (subsetColumns M0 [2, 0]) 2 3 = [[1, 0, 2], [4, 0, 5]] := by decide

/-- **stacking row selections** — *"pointer arithmetic when concatenating CSR
pieces"*: for well-formed pieces `(Pₖ, nₖ)` the arrays produced by
`merge_csr`, by `amalgamate_csr_to_x` and by the joining loop of the parallel
transposition all denote the pieces' matrices stacked in order.  (The pieces
`amalgamate_h5ad` stacks are `get_batch(rows, sparse=True)` results, which are
exactly the requested rows by `C05.load_disjoint`.) -/
theorem stack_pieces {α} (zero : α) (parts : List (Mat α × Nat)) (nCols : Nat)
    (hwf : ∀ P ∈ parts, WFptr P.1.indptr P.2 P.1.indices.length ∧
      P.1.data.length = P.1.indices.length) :
    toDense zero (mergeCsr (parts.map (·.1))) ((parts.map (·.2)).sum) nCols
        = parts.flatMap (fun P => toDense zero P.1 P.2 nCols) ∧
    toDense zero (amalgamateCsr (parts.map (·.1))) ((parts.map (·.2)).sum) nCols
        = parts.flatMap (fun P => toDense zero P.1 P.2 nCols) ∧
    toDense zero (joinParts (parts.map (·.1))) ((parts.map (·.2)).sum) nCols
        = parts.flatMap (fun P => toDense zero P.1 P.2 nCols) :=
  ⟨concat_toDense zero mergeCsr mergeCsr_ofSegs parts nCols hwf,
   concat_toDense zero amalgamateCsr amalgamateCsr_ofSegs parts nCols hwf,
   concat_toDense zero joinParts joinParts_ofSegs parts nCols hwf⟩

example : toDense 0 (amalgamateCsr [M0, ⟨[0, 1], [1], [7]⟩]) 4 3
    = [[1, 0, 2], [0, 3, 0], [4, 0, 5], [0, 7, 0]] := by decide

/-- **copying a layer into X / element-wise HDF5 copy in bounded hyperslabs**:
a chunked 1-d copy with any chunk length `≥ 1` and a tiled 2-d copy over any
grid of chunk lists (`_copy_layer_to_x_sparse`, `_copy_layer_to_x_dense`,
`copy_h5_excluding_data`) reproduce the array. -/
theorem chunked_copies {β} :
    (∀ (c : Nat) (l : List β), 1 ≤ c → chunkCopy c l = l) ∧
    (∀ (D : List (List β)) (m a b : Nat), 1 ≤ a → 1 ≤ b → (∀ row ∈ D, row.length = m) →
      tileCopy (chunks D.length a) (chunks m b) D = D) :=
  ⟨fun c l h => chunkCopy_id c l h, fun D m a b ha hb hr => tileCopy_id D m a b ha hb hr⟩

example : tileCopy (chunks 3 2) (chunks 3 2) [[1, 0, 2], [0, 3, 0], [4, 0, 5]]
    = [[1, 0, 2], [0, 3, 0], [4, 0, 5]] := by decide

/-- `_copy_layer_to_x_dense`: whatever the HDF5 chunk shape of the source
(`none` = contiguous: the function then copies in tiles of
`(min(10000, n // 10) or n, m)`), the copy reproduces the matrix. -/
theorem copy_dense_layer {β} (h5chunks : Option (Nat × Nat)) (D : List (List β)) (m : Nat)
    (hn : 1 ≤ D.length) (hm : 1 ≤ m) (hrows : ∀ row ∈ D, row.length = m)
    (hch : ∀ c, h5chunks = some c → 1 ≤ c.1 ∧ 1 ≤ c.2) :
    copyDenseLayer h5chunks D m = D :=
  copyDenseLayer_id h5chunks D m hn hm hrows hch

example : copyDenseLayer none [[1, 0, 2], [0, 3, 0], [4, 0, 5]] 3
    = [[1, 0, 2], [0, 3, 0], [4, 0, 5]] := by decide

/-- the hyperslabs chosen by `_get_slices_for_copy` tile every dimension
exactly (in order, without overlap), whatever `max_elements` — also 0 — and
whatever the shape. -/
theorem copy_slices_tile (perDim : Nat) (shape : List Nat) :
    (copySlices perDim shape).map (·.flatMap rangeOf) = shape.map List.range := by
  unfold copySlices
  rw [List.map_map]
  apply List.map_congr_left
  intro n _
  exact copySlices1_cover perDim n

example : copySlices 2 [5, 3] = [[(0, 2), (2, 4), (4, 5)], [(0, 2), (2, 3)]] := by decide

end CTM.C13
