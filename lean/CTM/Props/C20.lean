/-
  C20 -- cloud-safe outputs reveal no absolute path of the host.

  Model: `CTM/Model/Sanitize.lean` (`sanitize_paths`, `is_exposed`, `_word_to_path`, the use
  `run_mapping` / `write_log` make of them); the host (`existsOnHost`, `resolve`, the package
  location) is a parameter every theorem quantifies over.  Lemmas: `CTM/Lemmas/Sanitize.lean`.

  The sanitiser works on whitespace-delimited words, so the property in its substring sense
  is NOT a theorem about it (`leading_punct_leaks`, `top_level_trailing_punct_leaks`,
  `infix_key_leaks` below are kernel-checked counterexamples on the model, confirmed on the
  real function by the unit suite).  What is proved is the word-level guarantee; whether a
  reachable run produces a message outside it is decided on the implementation
  (`harness/props/c20.py`, substring scan of real outputs).
-/
import CTM.Lemmas.SanitizeWords

namespace CTM.C20
open CTM.Sanitize

/-- a host for the examples: `/abs`, `/abs/existing`, `/tmp`, `/home`, `/home/u` exist -/
def demoHost : Host :=
  { ex := fun p => ["/abs".toList, "/abs/existing".toList, "/tmp".toList, "/home".toList,
                    "/home/u".toList].contains p.toStr,
    resolve := fun p => p.toStr,
    mapperRoot := "/opt/pkg/src".toList }

/-- "paths appear by file name only, or relative to the package": whatever replaces an
exposed word never starts with '/' -- replacements cannot introduce a leading slash.
(`p = wordToPath w` for every word the sanitiser looks at, hence well-formed.) -/
theorem replacement_not_absolute (h : Host) (w v : Str)
    (hv : safeName h (wordToPath w) = .ok v) : v.head? ≠ some '/' :=
  safeName_head h (wordToPath w) (parsePath_wf _) v hv

/-- ... and when the word is outside the package the replacement is the bare file name:
no '/' anywhere in it -/
theorem replacement_is_file_name (h : Host) (w v : Str)
    (hout : h.mapperRoot.isPrefixOf (h.resolve (wordToPath w)) = false)
    (hv : safeName h (wordToPath w) = .ok v) : '/' ∉ v := by
  unfold safeName at hv
  simp only [hout, Bool.false_eq_true, if_false, Except.ok.injEq] at hv
  subst hv
  exact name_no_slash _ (parsePath_wf _)

example : safeName demoHost (wordToPath "'/abs/existing/q.h5ad',".toList) = .ok "q.h5ad,".toList := by
  decide

/-- the word-level guarantee for a message that is one word: if the word (a non-empty
string without whitespace) is exposed -- it or any ancestor exists on the host --
`sanitize_paths` returns exactly its replacement, which does not start with '/'. -/
theorem exposed_word_replaced (h : Host) (w v : Str) (hne : w ≠ [])
    (hws : ∀ c ∈ w, isWs c = false)
    (hex : isExposed h.ex (wordToPath w) = true)
    (hv : safeName h (wordToPath w) = .ok v) :
    sanitizeStr h w = .ok v ∧ v.head? ≠ some '/' := by
  refine ⟨?_, replacement_not_absolute h w v hv⟩
  unfold sanitizeStr
  rw [splitWs_word w hne hws]
  simp only [buildSubs, hex, if_true, hv, assocSet]
  simp [substituteAll, replace_self w v hne]

example : sanitizeStr demoHost "/abs/existing/sub/q.h5ad".toList = .ok "q.h5ad".toList := by decide

/-- a word that is not exposed is returned unchanged (nothing is lost from a message that
mentions no host path) -/
theorem unexposed_word_unchanged (h : Host) (w : Str) (hne : w ≠ [])
    (hws : ∀ c ∈ w, isWs c = false)
    (hex : isExposed h.ex (wordToPath w) = false) :
    sanitizeStr h w = .ok w := by
  unfold sanitizeStr
  rw [splitWs_word w hne hws]
  simp [buildSubs, hex]

example : sanitizeStr demoHost "/nonexistent/q.h5ad".toList = .ok "/nonexistent/q.h5ad".toList := by
  decide

/-- "a path followed by `,` `:` `)` `'` is still caught when it begins the word": the parent
walk of `is_exposed` finds the existing directory whatever trails the last component --
provided the existing ancestor is not the root itself (`dir ≠ []`). -/
theorem trailing_punct_ok (ex : Path → Bool) (root : Nat) (dir : List Str) (last : Str)
    (hdir : dir ≠ []) (hex : ex ⟨root, dir⟩ = true) :
    isExposed ex ⟨root, dir ++ [last]⟩ = true :=
  isExposed_of_ancestor ex root dir (dir ++ [last]) hdir (List.prefix_append _ _) hex

example : sanitizeStr demoHost "/abs/existing,".toList = .ok "existing,".toList ∧
    sanitizeStr demoHost "/abs/existing:".toList = .ok "existing:".toList ∧
    sanitizeStr demoHost "/abs/existing)".toList = .ok "existing)".toList ∧
    sanitizeStr demoHost "'/abs/existing',".toList = .ok "existing,".toList ∧
    sanitizeStr demoHost "\"/abs/existing/q.h5\"".toList = .ok "q.h5".toList := by
  decide

/-- WITNESS (not a guarantee): a top-level directory followed by punctuation is returned
unchanged -- its only ancestor is `/`, which `is_exposed` never reports. -/
theorem top_level_trailing_punct_leaks :
    sanitizeStr demoHost "/tmp,".toList = .ok "/tmp,".toList := by decide

/-- WITNESS: a path preceded by `(`, `['` or `key=` inside the same word is returned
unchanged, so the property in the substring sense is not a theorem of the sanitiser. -/
theorem leading_punct_leaks :
    sanitizeStr demoHost "(/abs/existing)".toList = .ok "(/abs/existing)".toList ∧
    sanitizeStr demoHost "['/abs/existing',".toList = .ok "['/abs/existing',".toList ∧
    sanitizeStr demoHost "key=/abs/existing".toList = .ok "key=/abs/existing".toList := by
  decide

/-- WITNESS: substitution is a global substring replacement, so an exposed word that occurs
*inside* another word damages it before its own turn comes: `/home/u/tmp/q` keeps its
existing prefix `/home` (it becomes `/home/utmp/q`). -/
theorem infix_key_leaks :
    sanitizeStr demoHost "/tmp /home/u/tmp/q".toList = .ok "tmp /home/utmp/q".toList := by
  decide

/-- what the sanitiser is meant to turn a word into: an exposed word becomes its file name /
package-relative path, any other word stays -/
def wordImage (h : Host) (w : Str) : Str :=
  if isExposed h.ex (wordToPath w) = true then
    match safeName h (wordToPath w) with
    | .ok v => v
    | .error _ => w
  else w

/-- the hypothesis under which substring replacement is safe: no exposed word of the message
occurs inside a *different* word of it, nor inside what a different word is replaced by
(`infix_key_leaks` shows what happens otherwise) -/
def Independent (h : Host) (ws : List Str) : Prop :=
  ∀ k ∈ ws, isExposed h.ex (wordToPath k) = true → ∀ w ∈ ws, k ≠ w →
    ¬ k <:+: w ∧ ¬ k <:+: wordImage h w

/-- the general word-level statement, for messages of any number of words and any
whitespace: under `Independent`, the words of the sanitised message are exactly the words
of the message with every exposed one replaced by its file name / package-relative path
(a replacement that is empty -- the word `//` -- vanishes). -/
theorem words_spec (h : Host) (s out : Str) (hres : ∀ p, WsFree (h.resolve p))
    (hind : Independent h (splitWs s)) (hout : sanitizeStr h s = .ok out) :
    splitWs out = ((splitWs s).map (wordImage h)).filter nonEmpty ∧
    ∀ w ∈ splitWs s, isExposed h.ex (wordToPath w) = true →
      safeName h (wordToPath w) = .ok (wordImage h w) := by
  unfold sanitizeStr at hout
  cases hb : buildSubs h (splitWs s) [] with
  | error e => rw [hb] at hout; cases hout
  | ok subs =>
    rw [hb] at hout
    simp only [Except.ok.injEq] at hout
    have hout' : out = substituteAll subs s := by
      rw [← hout]
      cases subs with
      | nil => rfl
      | cons a b => rfl
    obtain ⟨inv, hkeys, _, hfrom⟩ :=
      buildSubs_spec h (splitWs s) [] subs ⟨by simp [keysOf], by simp⟩ hb
    have hws := splitWs_words s
    have hkw : ∀ kv ∈ subs, kv.1 ∈ splitWs s := by
      intro kv hkv
      rcases hfrom kv.1 (List.mem_map.mpr ⟨kv, hkv, rfl⟩) with h1 | h1
      · simp [keysOf] at h1
      · exact h1
    have himg : ∀ w ∈ splitWs s, isExposed h.ex (wordToPath w) = true →
        (w, wordImage h w) ∈ subs ∧ safeName h (wordToPath w) = .ok (wordImage h w) := by
      intro w hw hex
      obtain ⟨kv, hkv, hk⟩ := List.mem_map.mp (hkeys w hw hex)
      have hsub := inv.2 kv hkv
      have hk : kv.1 = w := hk
      rw [hk] at hsub
      have hi : wordImage h w = kv.2 := by
        unfold wordImage
        simp [hex, hsub.2]
      rw [hi]
      refine ⟨?_, hsub.2⟩
      rw [← hk]
      exact hkv
    have hpoint : ∀ w ∈ splitWs s, substituteAll subs w = wordImage h w := by
      intro w hw
      by_cases hex : isExposed h.ex (wordToPath w) = true
      · apply substituteAll_key subs w _ (hws w hw).1 inv.1 (himg w hw hex).1
        intro kv hkv hne
        exact hind kv.1 (hkw kv hkv) (inv.2 kv hkv).1 w hw hne
      · have hi : wordImage h w = w := by simp [wordImage, hex]
        rw [hi]
        apply substituteAll_not_infix
        intro kv hkv
        have hne : kv.1 ≠ w := by
          intro he
          apply hex
          rw [← he]
          exact (inv.2 kv hkv).1
        exact (hind kv.1 (hkw kv hkv) (inv.2 kv hkv).1 w hw hne).1
    refine ⟨?_, fun w hw hex => (himg w hw hex).2⟩
    rw [hout', splitWs_substituteAll subs ?_ s]
    · rw [List.map_congr_left hpoint]
    · intro kv hkv
      have hw := hws kv.1 (hkw kv hkv)
      exact ⟨hw.1, hw.2, safeName_wsFree h hres kv.1 kv.2 hw.2 (inv.2 kv hkv).2⟩

/-- "after sanitising, no whitespace-delimited word whose quote-stripped form starts with '/'
is exposed": under `Independent` (and resolved paths free of whitespace and quote characters)
every word of a sanitised message is either a word of the original message that is not
exposed, or the replacement of an exposed one -- and a replacement, quotes stripped or not,
does not start with '/'. -/
theorem words_clean (h : Host) (s out : Str) (hres : ∀ p, WsFree (h.resolve p))
    (hresq : ∀ p, QuoteFree (h.resolve p))
    (hind : Independent h (splitWs s)) (hout : sanitizeStr h s = .ok out) :
    ∀ w' ∈ splitWs out, (stripQuotes w').head? = some '/' →
      w' ∈ splitWs s ∧ isExposed h.ex (wordToPath w') = false := by
  intro w' hw' hhead
  obtain ⟨hspec, hsafe⟩ := words_spec h s out hres hind hout
  rw [hspec] at hw'
  obtain ⟨w, hw, hi⟩ := List.mem_map.mp (List.mem_filter.mp hw').1
  by_cases hex : isExposed h.ex (wordToPath w) = true
  · exfalso
    have hs := hsafe w hw hex
    rw [hi] at hs
    have hq := safeName_quoteFree h hresq w w' hs
    rw [stripQuotes_of_quoteFree w' hq] at hhead
    exact replacement_not_absolute h w w' hs hhead
  · have : wordImage h w = w := by simp [wordImage, hex]
    rw [this] at hi
    subst hi
    exact ⟨hw, by simpa using hex⟩

/-- non-vacuity: a three-word message with two exposed words (one nested under the other's
directory, which `Independent` allows only if neither occurs inside the other -- here they
are apart), separated by a newline and a tab -/
example : sanitizeStr demoHost "copied /abs/existing/q.h5ad\n\tto '/tmp/x',".toList
    = .ok "copied q.h5ad\n\tto x,".toList := by decide

/-- whatever whitespace characters separate them -- blank, tab, newline, carriage return,
non-breaking space, ... (`isWs` = Python's `str.isspace`) -- three words are three words -/
theorem splitWs_three (u w v : Str) (c1 c2 : Char) (hc1 : isWs c1 = true) (hc2 : isWs c2 = true)
    (hu : u ≠ [] ∧ WsFree u) (hw : w ≠ [] ∧ WsFree w) (hv : v ≠ [] ∧ WsFree v) :
    splitWs (u ++ c1 :: (w ++ c2 :: v)) = [u, w, v] := by
  unfold splitWs
  rw [splitWsGo_append_word u [] _ hu.2]
  simp only [splitWsGo, hc1, if_true, List.nil_append]
  rw [splitWsGo_append_word w [] _ hw.2]
  simp only [splitWsGo, hc2, if_true, List.nil_append]
  rw [splitWsGo_nil_word v hv.2]
  simp [hu.1, hw.1, hv.1]

/-- `words_clean` does not care which whitespace separates the words: a path that stands
between two NEWLINES (the package's own "The file\n{path}\ncontains ..." messages), tabs,
carriage returns or any other `str.isspace` character is a word of its own and is treated
exactly as between blanks -- the words of the sanitised message are the images of the three
words, and if the middle word is exposed it is replaced by something not starting with '/'. -/
theorem words_clean_any_whitespace (h : Host) (u w v out : Str) (c1 c2 : Char)
    (hc1 : isWs c1 = true) (hc2 : isWs c2 = true)
    (hu : u ≠ [] ∧ WsFree u) (hw : w ≠ [] ∧ WsFree w) (hv : v ≠ [] ∧ WsFree v)
    (hres : ∀ p, WsFree (h.resolve p)) (hind : Independent h [u, w, v])
    (hout : sanitizeStr h (u ++ c1 :: (w ++ c2 :: v)) = .ok out) :
    splitWs out = ([u, w, v].map (wordImage h)).filter nonEmpty ∧
    (isExposed h.ex (wordToPath w) = true → (wordImage h w).head? ≠ some '/') := by
  have hs := splitWs_three u w v c1 c2 hc1 hc2 hu hw hv
  have hspec := words_spec h _ out hres (by rw [hs]; exact hind) hout
  rw [hs] at hspec
  refine ⟨hspec.1, fun hex => ?_⟩
  exact replacement_not_absolute h w _ (hspec.2 w (by simp) hex)

example : sanitizeStr demoHost "must be in file. The file\n/abs/existing/stats_x.h5\ncontains keys".toList
    = .ok "must be in file. The file\nstats_x.h5\ncontains keys".toList ∧
    sanitizeStr demoHost "file\t/abs/existing/q.h5\r\nis not a file".toList
    = .ok "file\tq.h5\r\nis not a file".toList := by decide
/-- "nested keys (`/a` and `/a/b/c`) cannot leave an absolute remainder": when an exposed
word `k` is a *prefix* of another word (the case `Independent` excludes), replacing `k`
rewrites the beginning of that word to `k`'s replacement, so what is left of it no longer
starts with '/' (replacements never do, `replacement_not_absolute`; an empty replacement --
only the word `//` has one -- is excluded). -/
theorem nested_key_remainder (k v rest : Str) (hk : k ≠ []) (hv : v ≠ [])
    (hvh : v.head? ≠ some '/') : (replace k v (k ++ rest)).head? ≠ some '/' := by
  cases hkr : k ++ rest with
  | nil => simp [List.append_eq_nil_iff] at hkr; exact absurd hkr.1 hk
  | cons c cs =>
    rw [replace_cons k v c cs hk, ← hkr]
    have : k.isPrefixOf (k ++ rest) = true :=
      List.isPrefixOf_iff_prefix.mpr (List.prefix_append k rest)
    simp only [this, if_true]
    cases v with
    | nil => exact absurd rfl hv
    | cons a as => simpa using hvh

example : sanitizeStr demoHost "/abs /abs/existing/q.h5".toList = .ok "abs abs/existing/q.h5".toList := by
  decide
/-- "configuration sanitised up front and scratch/output directory keys removed": in a
cloud-safe run the recorded configuration has neither `extended_result_dir` nor `tmp_dir`,
every remaining entry is an entry of the given configuration whose value went through
`sanitize_paths`, and nothing else was dropped. -/
theorem config_keys (h : Host) (config safe : List (Str × Val))
    (hs : safeConfig h true config = .ok safe) :
    (∀ kv ∈ safe, kv.1 ≠ keyExtDir ∧ kv.1 ≠ keyTmpDir) ∧
    (∀ kv ∈ safe, ∃ v0, (kv.1, v0) ∈ config ∧ sanitizeVal h v0 = .ok kv.2) ∧
    (∀ kv ∈ config, kv.1 ≠ keyExtDir → kv.1 ≠ keyTmpDir → kv.1 ∈ safe.map (·.1)) := by
  unfold safeConfig at hs
  simp only [if_true] at hs
  split at hs
  · cases hs
  · rename_i c hc
    split at hs
    · cases hs
    · rename_i c1 hc1
      obtain ⟨a1, b1, _⟩ := popKey_spec keyExtDir c c1 hc1
      obtain ⟨a2, b2, _⟩ := popKey_spec keyTmpDir c1 safe hs
      refine ⟨?_, ?_, ?_⟩
      · intro kv hkv
        exact ⟨(a1 kv (a2 kv hkv).1).2, (a2 kv hkv).2⟩
      · intro kv hkv
        exact sanitizeKvs_pointwise h config c hc kv (a1 kv (a2 kv hkv).1).1
      · intro kv hkv h1 h2
        have hk : kv.1 ∈ c.map (·.1) := by
          rw [sanitizeKvs_keys h config c hc]
          exact List.mem_map.mpr ⟨kv, hkv, rfl⟩
        obtain ⟨kv', hkv', he⟩ := List.mem_map.mp hk
        have m1 := b1 kv' hkv' (by rw [he]; exact h1)
        have m2 := b2 kv' m1 (by rw [he]; exact h2)
        exact List.mem_map.mpr ⟨kv', m2, he⟩

example : (match safeConfig demoHost true
    [("query_path".toList, .str "/abs/existing/q.h5ad".toList),
     ("tmp_dir".toList, .str "/tmp".toList),
     ("extended_result_dir".toList, .str "/abs".toList),
     ("precomputed_stats".toList, .dict [("path".toList, .str "/abs/existing".toList)]),
     ("max_gb".toList, .other 0)] with
    | .ok safe => safe.map (·.1) == ["query_path".toList, "precomputed_stats".toList, "max_gb".toList]
    | .error _ => false) = true := by
  decide

/-- a configuration without the two directory keys makes `run_mapping` fail (KeyError)
rather than record them -/
example : ∃ e, safeConfig demoHost true [("query_path".toList, .str "q".toList)] = .error e :=
  ⟨_, rfl⟩

/-- "log sanitised before it is embedded or written": in a cloud-safe run every recorded
log line is `sanitize_paths` of the line that was logged -/
theorem log_lines_sanitised (h : Host) (log out : List Str)
    (ho : outputLog h true log = .ok out) :
    out.length = log.length ∧
    ∀ i (hi : i < out.length) (hi' : i < log.length), sanitizeStr h log[i] = .ok out[i] := by
  unfold outputLog at ho
  simp only [if_true] at ho
  induction log generalizing out with
  | nil =>
    simp only [List.mapM_nil, pure, Except.pure, Except.ok.injEq] at ho
    subst ho
    exact ⟨rfl, fun i hi => absurd hi (by simp)⟩
  | cons l rest ih =>
    rw [List.mapM_cons] at ho
    cases hl : sanitizeStr h l with
    | error e => simp [hl, bind, Except.bind] at ho
    | ok v =>
      cases hr : List.mapM (sanitizeStr h) rest with
      | error e => simp [hl, hr, bind, Except.bind] at ho
      | ok vs =>
        simp only [hl, hr, bind, Except.bind, pure, Except.pure, Except.ok.injEq] at ho
        subst ho
        obtain ⟨ih1, ih2⟩ := ih vs hr
        refine ⟨by simp [ih1], ?_⟩
        intro i hi hi'
        cases i with
        | zero => simpa using hl
        | succ j =>
          simp only [List.getElem_cons_succ]
          exact ih2 j (by simpa using hi) (by simpa using hi')

example : outputLog demoHost true ["copied /abs/existing/q.h5ad to /tmp/x".toList] =
    .ok ["copied q.h5ad to x".toList] := by decide

end CTM.C20
