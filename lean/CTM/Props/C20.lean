import CTM.Model.Sanitize
namespace CTM.C20
theorem placeholder_true : True := trivial
end CTM.C20
