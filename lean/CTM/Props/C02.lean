import CTM.Model.Election
namespace CTM.C02
theorem placeholder_true : True := trivial
end CTM.C02
