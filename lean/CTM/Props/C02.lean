/-
  C02 — assignments are the plurality of bootstrapped nearest-centroid votes.

  Theorems about the executable model (CTM/Model/Numeric.lean,
  CTM/Model/Election.lean) for ALL inputs.  Helper lemmas live in
  CTM/Lemmas/Election.lean.  What ties the model to /repo is the
  correspondence suite harness/props/c02.py.
-/
import CTM.Lemmas.Election

namespace CTM.C02
open CTM.Numeric CTM.Election

/-- "each bootstrap iteration uses a ... subset, of size max(1, round(factor x n)),
    of the n marker genes": the model's size is `max 1 (roundHalfEven p)` where
    `roundHalfEven p` is a nearest integer to the (float) product `p`, the even one
    on a tie (numpy rounds half to even). -/
theorem bootstrap_size (p : Rat) (n : Nat) (hn : 0 < n) :
    bootstrapSize p n = max (roundHalfEven p) 1 ∧
    |((roundHalfEven p : Int) : Rat) - p| ≤ 1 / 2 ∧
    (|((roundHalfEven p : Int) : Rat) - p| = 1 / 2 → roundHalfEven p % 2 = 0) := by
  refine ⟨by simp [bootstrapSize, hn], roundHalfEven_spec p⟩

example : bootstrapSize (5 / 2) 5 = 2 ∧ bootstrapSize (7 / 2) 7 = 4 ∧ bootstrapSize (1 / 100) 9 = 1 := by
  decide +kernel

/-- "all bootstrap factors in (0,1]": when the product does not exceed the
    number of markers, `rng.choice` does not raise and every subset has between 1
    and n elements. -/
theorem draw_size_ok (p : Rat) (n : Nat) (hn : 0 < n) (hp : p ≤ (n : Rat)) :
    ∃ k : Nat, drawSize p n = .ok k ∧ 1 ≤ k ∧ k ≤ n ∧ (k : Int) = bootstrapSize p n := by
  have h1 : bootstrapSize p n = max (roundHalfEven p) 1 := by simp [bootstrapSize, hn]
  have h2 := roundHalfEven_le_of_le_nat p n hp
  have hge : 1 ≤ bootstrapSize p n := by rw [h1]; exact le_max_right _ _
  have hle : bootstrapSize p n ≤ (n : Int) := by rw [h1]; exact max_le h2 (by omega)
  refine ⟨(bootstrapSize p n).toNat, ?_, by omega, by omega, by omega⟩
  unfold drawSize
  simp only
  rw [if_neg (by omega), if_neg (by omega)]

example : drawSize (9 / 2) 9 = .ok 4 := by decide +kernel

/-- "casts one vote for the child that contains the leaf cluster whose mean
    ... profile has the highest Pearson correlation with the cell's ... profile
    over that subset, considering only leaves below the node": an iteration that
    does not raise returns the index `i` of a reference row (the rows are the
    leaves below the node) whose signed squared correlation with the cell over the
    subset is maximal, the first such (numpy.argmax); the vote goes to `types[i]`
    through `tallyCell` / `aggregateVotes`. -/
theorem vote_is_argmax (refs : List (List Rat)) (x : List Rat) (s : List Nat) (i : Nat) (q : Rat)
    (h : tallyIter refs x s = .ok (i, q)) :
    ∃ hi : i < refs.length,
      q = corrSsq (pick s refs[i]) (pick s x) ∧
      (∀ (j : Nat) (hj : j < refs.length), corrSsq (pick s refs[j]) (pick s x) ≤ q) ∧
      (∀ (j : Nat) (hj : j < refs.length), j < i → corrSsq (pick s refs[j]) (pick s x) < q) :=
  tallyIter_spec refs x s i q h

example : tallyIter [[1, 2, 4], [3, 1, 2], [1, 1, 1]] [1, 2, 5] [0, 1, 2] = .ok (0, 361 / 364) := by
  decide +kernel

/-- the arg-max is "decided without square roots": for numbers `r`, `r'` whose
    signed squares are the two scores (i.e. the Pearson correlations themselves),
    comparing the scores compares the correlations. -/
theorem signed_square_decides (r r' s s' : Rat) (hr : r * |r| = s) (hr' : r' * |r'| = s') :
    (s < s' ↔ r < r') ∧ (s ≤ s' ↔ r ≤ r') := by
  subst hr hr'
  refine ⟨signed_square_lt_iff r r', ?_⟩
  rw [← not_lt, ← not_lt, signed_square_lt_iff]

example : ((1 : Rat) / 2) * |(1 : Rat) / 2| = 1 / 4 := by norm_num [abs_of_pos]

/-- "considering only leaves below the node" and "the child that contains the
    leaf cluster": the reference rows `assemble_query_data` hands to the vote are
    exactly the leaves of the node's children (sorted, each once), the type
    recorded for a row is a child of the node containing that leaf, and in a
    strict tree (leaf sets of distinct children disjoint, C10) it is THE child
    containing it.  `kids` / `leavesOf` are the tree's `children` / `as_leaves`. -/
theorem reference_rows (kids : List Nat) (leavesOf : Nat → List Nat) :
    (assembleRows kids leavesOf).1.Pairwise (· < ·) ∧
    (∀ x, x ∈ (assembleRows kids leavesOf).1 ↔ ∃ c ∈ kids, x ∈ leavesOf c) ∧
    (assembleRows kids leavesOf).2.length = (assembleRows kids leavesOf).1.length ∧
    (∀ (i : Nat) (hi : i < (assembleRows kids leavesOf).1.length),
      (assembleRows kids leavesOf).2.getD i 0 ∈ kids ∧
      (assembleRows kids leavesOf).1[i] ∈ leavesOf ((assembleRows kids leavesOf).2.getD i 0)) ∧
    ((∀ c ∈ kids, ∀ c' ∈ kids, ∀ x, x ∈ leavesOf c → x ∈ leavesOf c' → c = c') →
      ∀ (i : Nat) (hi : i < (assembleRows kids leavesOf).1.length) (c : Nat), c ∈ kids →
        (assembleRows kids leavesOf).1[i] ∈ leavesOf c →
        (assembleRows kids leavesOf).2.getD i 0 = c) := by
  obtain ⟨h1, h2, h3, h4⟩ := assembleRows_spec kids leavesOf
  exact ⟨h1, h2, h3, h4, fun hd i hi c hc hx => assembleRows_unique kids leavesOf hd i hi c hc hx⟩

example : assembleRows [7, 5] (fun c => if c = 7 then [3, 0] else [2, 1]) =
    ([0, 1, 2, 3], [7, 5, 5, 7]) := by decide +kernel

/-- constant rows ("norm := 1"): a row that is constant over the subset has
    correlation 0 with every row. -/
theorem constant_row_scores_zero (m x : List Rat) :
    (var x = 0 → corrSsq m x = 0) ∧ (var m = 0 → corrSsq m x = 0) :=
  ⟨corrSsq_const_right m x, corrSsq_const_left m x⟩

example : var [2, 2, 2] = 0 ∧ corrSsq [1, 2, 3] [2, 2, 2] = 0 := by decide +kernel

/-- `tally_votes`: the vote array counts, per leaf, the iterations whose nearest
    neighbour was that leaf; the correlation array sums the winning correlations
    of exactly those iterations; every iteration casts exactly one vote. -/
theorem tally_counts (n : Nat) (rows : List (Nat × Rat)) :
    (tallyCell n rows).1 = (List.range n).map (countLeaf rows) ∧
    (tallyCell n rows).2 = (List.range n).map (corrOfLeaf rows) ∧
    ((∀ r ∈ rows, r.1 < n) → (tallyCell n rows).1.sum = rows.length) :=
  ⟨tallyCell_votes n rows, tallyCell_corr n rows, tallyCell_sum n rows⟩

example : tallyCell 3 [(0, 1 / 2), (2, 1 / 4), (0, 1)] = ([2, 0, 1], [3 / 2, 0, 1 / 4]) := by
  decide +kernel

/-- "leaf votes summed into the child that owns the leaf": the aggregated types
    are the distinct children in increasing order; the entry of a child is the sum
    over exactly its leaves; no vote (and no correlation) is lost or counted
    twice.  For any leaf -> child map `types`. -/
theorem aggregate_sound (types votes : List Nat) (corr : List Rat) :
    (aggregateVotes types votes corr).2.2.Pairwise (· < ·) ∧
    (∀ t, t ∈ (aggregateVotes types votes corr).2.2 ↔ t ∈ types) ∧
    (aggregateVotes types votes corr).1 = (uniqSorted types).map (fun t =>
      (((List.range types.length).filter (fun i => types.getD i 0 == t)).map
        (fun i => votes.getD i 0)).sum) ∧
    (votes.length = types.length → (aggregateVotes types votes corr).1.sum = votes.sum) ∧
    (corr.length = types.length → (aggregateVotes types votes corr).2.1.sum = corr.sum) :=
  ⟨sorted_uniqSorted types, fun t => mem_uniqSorted t types, rfl,
   aggregateVotes_sum types votes corr, aggregateVotes_corr_sum types votes corr⟩

example : aggregateVotes [7, 5, 7] [2, 0, 1] [3 / 2, 0, 1 / 4] = ([0, 3], [0, 7 / 4], [5, 7]) := by
  decide +kernel

/-- "casts one vote for the child that contains the leaf": tally followed by the
    (optional) aggregation — every column `choose_node` works on holds exactly the
    number of iterations whose nearest leaf belongs to that column's child (and,
    when aggregated, the correlation sum of exactly those iterations). -/
theorem child_votes_are_iterations (types : List Nat) (rows : List (Nat × Rat))
    (h : ∀ r ∈ rows, r.1 < types.length) :
    (∀ k, k < (columns types (tallyCell types.length rows).1
        (tallyCell types.length rows).2).1.length →
      (columns types (tallyCell types.length rows).1 (tallyCell types.length rows).2).1.getD k 0 =
        (rows.filter (fun r => types.getD r.1 0 ==
          (columns types (tallyCell types.length rows).1
            (tallyCell types.length rows).2).2.2.getD k 0)).length) ∧
    (aggregateVotes types (tallyCell types.length rows).1 (tallyCell types.length rows).2).2.1 =
      (uniqSorted types).map
        (fun t => ((rows.filter (fun r => types.getD r.1 0 == t)).map (·.2)).sum) :=
  ⟨fun k hk => columns_tally types rows h k hk, (aggregate_tally types rows h).2⟩

example : columns [7, 5, 7] (tallyCell 3 [(0, 1), (2, 1 / 2), (1, 1)]).1
    (tallyCell 3 [(0, 1), (2, 1 / 2), (1, 1)]).2 = ([1, 2], [1, 3 / 2], [5, 7]) := by
  decide +kernel

/-- "The reported assignment is a child with the most votes, its bootstrapping
    probability is its share of the votes, its average correlation is the mean
    winning correlation over the iterations that voted for it" — for ANY tie
    order numpy's argsort may have produced. `cols` are the columns `choose_node`
    works on (aggregated iff a type repeats). -/
theorem plurality (types votes : List Nat) (corr : List Rat) (iters nAssign : Nat)
    (order : List Nat) (ch : Choice)
    (hv : ValidOrder (columns types votes corr).1 order)
    (h : chooseCell types votes corr iters nAssign order = .ok ch) :
    ∃ w, w < (columns types votes corr).1.length ∧
      ch.winner = (columns types votes corr).2.2.getD w 0 ∧
      (∀ i, i < (columns types votes corr).1.length →
        (columns types votes corr).1.getD i 0 ≤ (columns types votes corr).1.getD w 0) ∧
      ch.prob = ((columns types votes corr).1.getD w 0 : Rat) / (iters : Rat) ∧
      (0 < (columns types votes corr).1.getD w 0 →
        ch.avgCorr = (columns types votes corr).2.1.getD w 0 /
          ((columns types votes corr).1.getD w 0 : Rat)) :=
  chooseCols_winner hv h

/-- `ValidOrder` — the only assumption made about numpy's unstable argsort — is
    never vacuous: for every vote row some valid order exists. -/
theorem tie_order_exists (types votes : List Nat) (corr : List Rat) :
    ∃ order, ValidOrder (columns types votes corr).1 order :=
  validOrder_exists _

/-- the hypotheses are satisfiable: `[1, 0]` is a valid tie order of the
    aggregated votes `[0, 3]` -/
example : ValidOrder (columns [7, 5, 7] [2, 0, 1] [3 / 2, 0, 1 / 4]).1 [1, 0] := by
  decide +kernel

example : chooseCell [7, 5, 7] [2, 0, 1] [3 / 2, 0, 1 / 4] 3 3 [1, 0] =
    .ok { winner := 7, prob := 1, avgCorr := 7 / 12,
          runners := [{ type := 5, valid := false, avgCorr := 0, prob := 0 }] } := by
  decide +kernel

/-- "the runners-up are the remaining vote-getting children in order of
    decreasing share": every other child that received votes is listed, unless
    the list was truncated to `nAssign - 1` entries, in which case it has no more
    votes than any listed runner-up (order and positivity of the listed ones:
    `C03.runners`). -/
theorem runners_are_the_rest (types votes : List Nat) (corr : List Rat) (iters nAssign : Nat)
    (order : List Nat) (ch : Choice)
    (hv : ValidOrder (columns types votes corr).1 order)
    (h : chooseCell types votes corr iters nAssign order = .ok ch)
    (i : Nat) (hi : i < (columns types votes corr).1.length)
    (hne : (columns types votes corr).2.2.getD i 0 ≠ ch.winner)
    (hpos : 0 < (columns types votes corr).1.getD i 0) :
    (columns types votes corr).2.2.getD i 0 ∈ (keepRunners ch.runners).1 ∨
    (nAssign < (columns types votes corr).1.length ∧
      ∀ p ∈ (keepRunners ch.runners).2.2,
        ((columns types votes corr).1.getD i 0 : Rat) / (iters : Rat) ≤ p) :=
  chooseCols_runners_complete hv h i hi hne hpos

example : keepRunners [{ type := 5, valid := false, avgCorr := 0, prob := 0 },
    { type := 6, valid := true, avgCorr := 1 / 2, prob := 1 / 3 }] = ([6], [1 / 2], [1 / 3]) := by
  decide +kernel

/-- the runner-up fields: every listed runner-up is a column other than the
    winner's that received votes; its probability is its share of the votes and its
    correlation the mean winning correlation over the iterations that voted for
    it (any tie order). -/
theorem runner_fields (types votes : List Nat) (corr : List Rat) (iters nAssign : Nat)
    (order : List Nat) (ch : Choice)
    (hv : ValidOrder (columns types votes corr).1 order)
    (h : chooseCell types votes corr iters nAssign order = .ok ch) :
    ∃ (w : Nat) (idxs : List Nat),
      ch.winner = (columns types votes corr).2.2.getD w 0 ∧ idxs.Nodup ∧ w ∉ idxs ∧
      (∀ i ∈ idxs, i < (columns types votes corr).1.length ∧
        0 < (columns types votes corr).1.getD i 0) ∧
      (keepRunners ch.runners).1 = idxs.map (fun i => (columns types votes corr).2.2.getD i 0) ∧
      (keepRunners ch.runners).2.1 = idxs.map (fun i =>
        (columns types votes corr).2.1.getD i 0 / ((columns types votes corr).1.getD i 0 : Rat)) ∧
      (keepRunners ch.runners).2.2 = idxs.map (fun i =>
        ((columns types votes corr).1.getD i 0 : Rat) / (iters : Rat)) :=
  chooseCols_runner_fields hv h

example : (chooseCell [7, 5, 9] [2, 3, 1] [1, 2, 1 / 2] 6 3 [1, 0, 2]).toOption.map
    (fun c => keepRunners c.runners) = some ([7, 9], [1 / 2, 1 / 2], [1 / 3, 1 / 6]) := by
  decide +kernel

/-- "Recomputing these quantities directly from the input files and the subsets
    that were drawn reproduces the output", for one cell at one node: whatever
    subsets were drawn, whatever tie order argsort produced and however many
    runners-up were requested, the reported child is a child with the largest
    number of iterations whose arg-max leaf (`vote_is_argmax`) it owns, and the
    reported probability is that number over the iteration count.  `near` is the
    list of per-iteration (arg-max leaf, score) the recomputation produces. -/
theorem recompute (refs : List (List Rat)) (x : List Rat) (types : List Nat)
    (subsets : List (List Nat)) (corrOf : Nat → Nat → Rat) (nAssign : Nat) (order : List Nat)
    (ch : Choice) (tally : List Nat × List Rat) (hlen : types.length = refs.length)
    (htally : tallyVotes refs x subsets corrOf = .ok tally)
    (hv : ValidOrder (columns types tally.1 tally.2).1 order)
    (hch : chooseCell types tally.1 tally.2 subsets.length nAssign order = .ok ch) :
    ∃ near : List (Nat × Rat), subsets.mapM (tallyIter refs x) = .ok near ∧
      near.length = subsets.length ∧
      ch.winner ∈ types ∧
      (∀ t ∈ types, (near.filter (fun r => types.getD r.1 0 == t)).length ≤
        (near.filter (fun r => types.getD r.1 0 == ch.winner)).length) ∧
      ch.prob = ((near.filter (fun r => types.getD r.1 0 == ch.winner)).length : Rat) /
        (subsets.length : Rat) :=
  node_recompute refs x types subsets corrOf nAssign order ch tally hlen htally hv hch

example : ∃ tally, tallyVotes [[1, 2, 4], [3, 1, 2], [2, 2, 9]] [1, 2, 5] [[0, 1], [0, 2], [0, 1, 2]]
      (fun _ _ => 1 / 2) = .ok tally ∧
    (chooseCell [8, 6, 8] tally.1 tally.2 3 2 [1, 0]).toOption.map (fun c => (c.winner, c.prob)) =
      some (8, 1) := by
  refine ⟨([3, 0, 0], [3 / 2, 0, 0]), ?_, ?_⟩ <;> decide +kernel

end CTM.C02
