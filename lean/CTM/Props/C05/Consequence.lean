/-
  C05, last sentence — "Consequently the mapping of a query file and the
  statistics of a reference file are identical for all encodings of the same
  matrix."

  Composition of the row-access theorems (`CTM/Props/C05.lean`) with the
  consumers' models:
    group F  `Stats.precompute`          (C09.direct / C09.partition_indep),
    group E  `Normalize.prepareChunk`    (per-chunk CPM / log2 / marker columns),
    group D  `LevelLoop.mapPipeline`     (C06.chunking).
  Adapter lemmas: `CTM/Lemmas/EncodingCompose.lean`.

  Setting of every theorem (`Enc`): a CSR encoding `R`, a CSC encoding `C` and
  a dense array `D` that store the same `nRows × nCols` matrix of rationals
  (`toDense R = D`, `transposeDense (toDense C) = D`), both compressed encodings
  well formed (pointer array monotone from 0 to nnz, indices in range, not
  necessarily sorted).  Chunk sizes `≥ 1` may differ per encoding; the CSC
  budget `B` is arbitrary (chunk sizes `≥ 1`, any element budget).

  X versus a named layer: the model does not distinguish them — the layer name
  only selects which arrays are read, and every function here is a function of
  those arrays (`layer_indep`).
-/
import CTM.Props.C05
import CTM.Props.C06
import CTM.Props.C09
import CTM.Lemmas.EncodingCompose

namespace CTM.C05
open CTM.Chunking CTM.Sparse CTM.EncodingCompose

/-- three encodings of one matrix -/
structure Enc (R C : Mat Rat) (D : Dense Rat) (nRows nCols : Nat) : Prop where
  wR : WFptr R.indptr nRows R.indices.length
  hrR : ∀ x ∈ R.indices, x < nCols
  wC : WFptr C.indptr nCols C.indices.length
  hlenC : C.data.length = C.indices.length
  hrC : ∀ x ∈ C.indices, x < nRows
  hR : toDense 0 R nRows nCols = D
  hC : transposeDense 0 (toDense 0 C nCols nRows) nRows = D

theorem Enc.length {R C : Mat Rat} {D : Dense Rat} {nRows nCols : Nat}
    (e : Enc R C D nRows nCols) : D.length = nRows := by
  rw [← e.hR, toDense_length]

/-- running example: `[[1,0,2],[0,3,0],[4,0,5]]` in the three encodings -/
def R0 : Mat Rat := ⟨[0, 2, 3, 5], [0, 2, 1, 0, 2], [1, 2, 3, 4, 5]⟩
def C0 : Mat Rat := ⟨[0, 2, 3, 5], [0, 2, 1, 0, 2], [1, 4, 3, 2, 5]⟩
def D0 : Dense Rat := [[1, 0, 2], [0, 3, 0], [4, 0, 5]]

theorem enc0 : Enc R0 C0 D0 3 3 :=
  ⟨⟨rfl, by decide, rfl, rfl⟩, by decide, ⟨rfl, by decide, rfl, rfl⟩, rfl, by decide,
   by decide +kernel, by decide +kernel⟩

/-! ## what every consumer receives -/

/-- for every chunk size and budget the three iterators succeed and hand over
the same rows in the same order: the blocks of each iteration, concatenated,
are `D` (so anything computed from the concatenated rows is the same). -/
theorem rows_encoding_indep {R C : Mat Rat} {D : Dense Rat} {nRows nCols : Nat}
    (e : Enc R C D nRows nCols) (csR csC csD : Nat) (B : Budget)
    (hR : 1 ≤ csR) (hC : 1 ≤ csC) (hD : 1 ≤ csD) (hlo : 1 ≤ B.lo) (hc : 1 ≤ B.loCount) :
    csrIter 0 R nRows nCols csR = .ok (denseIter D csR) ∧
    cscIter 0 C nRows nCols csC B = .ok (denseIter D csC) ∧
    ((denseIter D csR).map (·.1)).flatten = D ∧
    ((denseIter D csC).map (·.1)).flatten = D ∧
    ((denseIter D csD).map (·.1)).flatten = D :=
  ⟨(encoding_indep 0 R C D nRows nCols csR B hR hlo hc e.wR e.hrR e.wC e.hlenC e.hrC e.hR e.hC).1,
   (encoding_indep 0 R C D nRows nCols csC B hC hlo hc e.wR e.hrR e.wC e.hlenC e.hrC e.hR e.hC).2,
   denseIter_rows D csR hR, denseIter_rows D csC hC, denseIter_rows D csD hD⟩

/-! ## reference statistics -/

/-- **adapter (group F)** — `Stats.precompute` slices every file with its own
`chunkRanges` / `slice` and takes `Chunk.cells` as "the rows
`iterator.get_chunk(r0, r1)` returns".  For every chunk `c` of the file holding
our matrix (any `rows ≥ 1`), `c.cells` is exactly what `get_chunk(c.r0, c.r1)`
of **each** of the three encodings returns (CSC: after the transposition with
any budget), paired with the obs names `names[c.r0:c.r1]` and normalised row
by row. -/
theorem stats_chunks_are_iterator_chunks {R C : Mat Rat} {D : Dense Rat} {nRows nCols : Nat}
    (e : Enc R C D nRows nCols) (B : Budget) (hlo : 1 ≤ B.lo) (hc : 1 ≤ B.loCount)
    (names : List Nat) (norm : List Rat → List Rat) (hnames : names.length = nRows)
    (rows fid : Nat) (hrows : 1 ≤ rows) :
    ∀ c ∈ Stats.fileChunks rows fid (recsOf names norm D),
      c.cells = recsOf (slice names c.r0 c.r1) norm (slice D c.r0 c.r1) ∧
      csrGetChunk 0 R nCols c.r0 c.r1 = .ok (slice D c.r0 c.r1, c.r0, c.r1) ∧
      cscGetChunk 0 C nRows nCols c.r0 c.r1 B = .ok (slice D c.r0 c.r1, c.r0, c.r1) ∧
      denseGetChunk D c.r0 c.r1 = (slice D c.r0 c.r1, c.r0, c.r1) := by
  intro c hc'
  unfold Stats.fileChunks at hc'
  rw [List.mem_map] at hc'
  obtain ⟨p, hp, rfl⟩ := hc'
  have hlenrecs : (recsOf names norm D).length = nRows := by
    simp [recsOf, hnames, e.length]
  rw [hlenrecs, stats_chunkRanges_eq] at hp
  have hb := chunksAux_bounds nRows rows hrows _ _ p hp
  refine ⟨recsOf_slice names norm D p.1 p.2, ?_, ?_, rfl⟩
  · have := get_chunk 0 R nRows nCols e.wR e.hrR p.1 p.2 (by omega) (by omega)
    rw [e.hR] at this
    exact this
  · have := cscGetChunk_ok 0 C nRows nCols B hlo hc e.wC e.hlenC e.hrC p.1 p.2
      (by omega) (by omega)
    rw [e.hC] at this
    exact this

/-- **`stats_encoding_indep`** — *"the statistics of a reference file are
identical for all encodings of the same matrix"*.  Feed group F's
`Stats.precompute` a reference consisting of our matrix (file `fid`, obs names
`names`, any per-row normalisation `norm`, e.g. log2(CPM+1)) and any other
files `others`.  Whether the file's rows come from iterating the CSR, the CSC
(any budget) or the dense encoding — each with its own iterator chunk size — and
whatever `rows_at_a_time` / worker count each run uses, the written statistics
arrays are identical (hypotheses of `C09.partition_indep`: name table inside the
output, some file holds a named cell). -/
theorem stats_encoding_indep {R C : Mat Rat} {D : Dense Rat} {nRows nCols : Nat}
    (e : Enc R C D nRows nCols) (csR csC csD : Nat) (B : Budget)
    (hcsR : 1 ≤ csR) (hcsC : 1 ≤ csC) (hcsD : 1 ≤ csD) (hlo : 1 ≤ B.lo) (hc : 1 ≤ B.loCount)
    (names : List Nat) (norm : List Rat → List Rat) (fid : Nat)
    (others : List (Nat × List Stats.CellRec))
    (nClusters g : Nat) (nameToRow : List (Nat × Nat))
    (rows₁ nProc₁ rows₂ nProc₂ rows₃ nProc₃ : Nat)
    (h₁ : 1 ≤ rows₁) (p₁ : 1 ≤ nProc₁) (h₂ : 1 ≤ rows₂) (p₂ : 1 ≤ nProc₂)
    (h₃ : 1 ≤ rows₃) (p₃ : 1 ≤ nProc₃)
    (hntr : ∀ p ∈ nameToRow, p.2 < nClusters)
    (hw : ∃ f ∈ (fid, recsOf names norm D) :: others, Stats.wanted nameToRow f.2 = true) :
    ∃ bR bC, csrIter 0 R nRows nCols csR = .ok bR ∧ cscIter 0 C nRows nCols csC B = .ok bC ∧
      Stats.precompute nClusters g nameToRow
          ((fid, recsOf names norm ((bR.map (·.1)).flatten)) :: others) rows₁ nProc₁
        = Stats.precompute nClusters g nameToRow
          ((fid, recsOf names norm ((bC.map (·.1)).flatten)) :: others) rows₂ nProc₂ ∧
      Stats.precompute nClusters g nameToRow
          ((fid, recsOf names norm ((bC.map (·.1)).flatten)) :: others) rows₂ nProc₂
        = Stats.precompute nClusters g nameToRow
          ((fid, recsOf names norm (((denseIter D csD).map (·.1)).flatten)) :: others)
          rows₃ nProc₃ := by
  obtain ⟨iR, iC, fR, fC, fD⟩ := rows_encoding_indep e csR csC csD B hcsR hcsC hcsD hlo hc
  refine ⟨_, _, iR, iC, ?_, ?_⟩
  · rw [fR, fC]
    exact C09.partition_indep nClusters g nameToRow _ _ rows₁ nProc₁ rows₂ nProc₂ h₁ p₁ h₂ p₂
      hntr hw hw (List.Perm.refl _)
  · rw [fC, fD]
    exact C09.partition_indep nClusters g nameToRow _ _ rows₂ nProc₂ rows₃ nProc₃ h₂ p₂ h₃ p₃
      hntr hw hw (List.Perm.refl _)

/- non-vacuity: the three encodings of `D0`, iterated with chunk sizes 1, 2, 5,
statistics over two clusters computed with different `rows` / worker counts -/
example : Stats.precompute 2 3 [(10, 0), (11, 1), (12, 0)]
      [(0, recsOf [10, 11, 12] id (((denseIter D0 1).map (·.1)).flatten))] 1 2
    = Stats.precompute 2 3 [(10, 0), (11, 1), (12, 0)]
      [(0, recsOf [10, 11, 12] id (((denseIter D0 5).map (·.1)).flatten))] 2 1 := by
  decide +kernel
example : ∃ f ∈ [((0 : Nat), recsOf [10, 11, 12] id D0)],
    Stats.wanted [(10, 0), (11, 1), (12, 0)] f.2 = true :=
  ⟨(0, recsOf [10, 11, 12] id D0), by simp, by decide +kernel⟩
example : csrIter 0 R0 3 3 2 = .ok (denseIter D0 2) ∧ cscIter 0 C0 3 3 2 ⟨1, 1, 1⟩
    = .ok (denseIter D0 2) := ⟨by decide +kernel, by decide +kernel⟩

/-! ## mapping -/

/-- **adapter (groups E, D)** — the mapper's chunk loop (`LevelLoop.chunks` /
`effChunk` / `slice` inside `mapPipeline`) is the iterator's chunk loop, and the
chunk of cell vectors it cuts from the prepared query, `cells[r0:r1]` with
`cells = D.map g`, is the iterator's block for `(r0, r1)` prepared row by row.
`g` is the row function of `Normalize.prepareChunk` for the given gene lists
and normalisation (`EncodingCompose.prepareChunk_rowwise`). -/
theorem mapper_chunks_are_iterator_chunks (D : Dense Rat) (g : List Rat → List Rat)
    (nProc chunkSize : Nat) :
    LevelLoop.chunks (D.map g).length
        (LevelLoop.effChunk (D.map g).length nProc chunkSize)
      = chunks D.length (effChunk D.length nProc chunkSize) ∧
    ∀ p : Nat × Nat, LevelLoop.slice (D.map g) p.1 p.2 = (denseGetChunk D p.1 p.2).1.map g := by
  constructor
  · rw [levelLoop_chunks_eq, levelLoop_effChunk_eq, List.length_map]
  · intro p
    rw [levelLoop_slice_eq, slice_map]
    rfl

/-- **the cell vectors the mapper receives are the same for the three
encodings** — iterator → `prepareChunk` per block → concatenation.  For every
normalisation function `f`, gene lists and declared normalisation, every chunk
size per encoding and every CSC budget, the three lists of prepared cell
vectors are equal, and equal to the rows of `D` mapped by one row function `g`
(or all three fail with the same `prepareChunk` error, which depends on the gene
lists only). -/
theorem mapping_cells_encoding_indep {R C : Mat Rat} {D : Dense Rat} {nRows nCols : Nat}
    (e : Enc R C D nRows nCols) (hn : 1 ≤ nRows) (csR csC csD : Nat) (B : Budget)
    (hcsR : 1 ≤ csR) (hcsC : 1 ≤ csC) (hcsD : 1 ≤ csD) (hlo : 1 ≤ B.lo) (hc : 1 ≤ B.loCount)
    (f : Rat → Rat) (width : Nat) (genes : List Markers.Gene) (norm : Normalize.Norm)
    (allMarkers : List Markers.Gene) :
    ∃ (g : List Rat → List Rat) (bR bC : List (Dense Rat × Nat × Nat)),
      csrIter 0 R nRows nCols csR = .ok bR ∧ cscIter 0 C nRows nCols csC B = .ok bC ∧
      mapperCells f width genes norm allMarkers bR
        = (Normalize.prepareChunk f [] width genes norm allMarkers).map (fun _ => D.map g) ∧
      mapperCells f width genes norm allMarkers bC
        = (Normalize.prepareChunk f [] width genes norm allMarkers).map (fun _ => D.map g) ∧
      mapperCells f width genes norm allMarkers (denseIter D csD)
        = (Normalize.prepareChunk f [] width genes norm allMarkers).map (fun _ => D.map g) := by
  obtain ⟨g, hg⟩ := mapperCells_eq f width genes norm allMarkers
  obtain ⟨iR, iC, fR, fC, fD⟩ := rows_encoding_indep e csR csC csD B hcsR hcsC hcsD hlo hc
  have hD : D ≠ [] := by
    intro h
    have := e.length
    rw [h] at this
    simp at this
    omega
  exact ⟨g, _, _, iR, iC,
    hg _ D (denseIter_ne_nil D csR hcsR hD) fR,
    hg _ D (denseIter_ne_nil D csC hcsC hD) fC,
    hg _ D (denseIter_ne_nil D csD hcsD hD) fD⟩

/-- **`mapping_encoding_indep`** — *"the mapping of a query file is identical
for all encodings of the same matrix"*.  Let `cellsR`, `cellsC`, `cellsD` be the
prepared cell vectors obtained from the CSR, CSC and dense encodings (each with
its own iterator chunk size, any CSC budget).  Then for **every oracle** `vote`
(group D's abstraction of the per-node election), every taxonomy accepted by
the level loop, and any two mapper configurations (chunk size, worker count,
gathering order — hypotheses of `C06.chunking`), `mapPipeline` returns the same
output for the three encodings (model equality). -/
theorem mapping_encoding_indep {R C : Mat Rat} {D : Dense Rat} {nRows nCols : Nat}
    (e : Enc R C D nRows nCols) (hn : 1 ≤ nRows) (csR csC csD : Nat) (B : Budget)
    (hcsR : 1 ≤ csR) (hcsC : 1 ≤ csC) (hcsD : 1 ≤ csD) (hlo : 1 ≤ B.lo) (hc : 1 ≤ B.loCount)
    (f : Rat → Rat) (width : Nat) (genes : List Markers.Gene) (norm : Normalize.Norm)
    (allMarkers : List Markers.Gene)
    (bR bC : List (Dense Rat × Nat × Nat)) (cellsR cellsC cellsD : List (List Rat))
    (iR : csrIter 0 R nRows nCols csR = .ok bR) (iC : cscIter 0 C nRows nCols csC B = .ok bC)
    (mR : mapperCells f width genes norm allMarkers bR = .ok cellsR)
    (mC : mapperCells f width genes norm allMarkers bC = .ok cellsC)
    (mD : mapperCells f width genes norm allMarkers (denseIter D csD) = .ok cellsD)
    (t0 t : RawTree) (vote : LevelLoop.Oracle (List Rat))
    (cfg cfg' : LevelLoop.Config) (ids : List LevelLoop.CellId) (order order' : List Nat)
    (hrun : LevelLoop.runTree t0 cfg = .ok t) (hrun' : LevelLoop.runTree t0 cfg' = .ok t)
    (hwf : LevelLoop.wfb t = true) (hv : LevelLoop.VoteOK t vote)
    (hlen : ids.length = cellsR.length) (hnd : ids.Nodup)
    (hproc : 1 ≤ cfg.nProc) (hproc' : 1 ≤ cfg'.nProc)
    (hcs : 1 ≤ cfg.chunkSize) (hcs' : 1 ≤ cfg'.chunkSize)
    (horder : order.Perm (List.range (LevelLoop.chunks cellsR.length
      (LevelLoop.effChunk cellsR.length cfg.nProc cfg.chunkSize)).length))
    (horder' : order'.Perm (List.range (LevelLoop.chunks cellsR.length
      (LevelLoop.effChunk cellsR.length cfg'.nProc cfg'.chunkSize)).length)) :
    cellsR = cellsC ∧ cellsC = cellsD ∧
    LevelLoop.mapPipeline t0 cfg vote ids cellsR order
      = LevelLoop.mapPipeline t0 cfg' vote ids cellsC order' ∧
    LevelLoop.mapPipeline t0 cfg vote ids cellsR order
      = LevelLoop.mapPipeline t0 cfg' vote ids cellsD order' := by
  obtain ⟨g, bR', bC', iR', iC', eR, eC, eD⟩ :=
    mapping_cells_encoding_indep e hn csR csC csD B hcsR hcsC hcsD hlo hc f width genes norm
      allMarkers
  rw [iR] at iR'
  rw [iC] at iC'
  cases iR'
  cases iC'
  have h1 : cellsR = cellsC := by
    have := eR.trans eC.symm
    rw [mR, mC] at this
    exact Except.ok.inj this
  have h2 : cellsC = cellsD := by
    have := eC.trans eD.symm
    rw [mC, mD] at this
    exact Except.ok.inj this
  have key := C06.chunking t0 t vote cfg cfg' ids cellsR order order' hrun hrun' hwf hv hlen hnd
    hproc hproc' hcs hcs' horder horder'
  refine ⟨h1, h2, ?_, ?_⟩
  · rw [← h1]; exact key
  · rw [← h2, ← h1]; exact key

/- non-vacuity: the prepared cells of the three encodings of `D0` (raw counts,
two marker genes), and a mapping of them with group D's example tree / oracle -/
example : mapperCells id 3 [0, 1, 2] .log2CPM [2, 0] (denseIter D0 2)
    = .ok [[2, 1], [0, 0], [5, 4]] := by decide +kernel
example : mapperCells id 3 [0, 1, 2] .log2CPM [2, 0] (denseIter D0 1)
    = mapperCells id 3 [0, 1, 2] .log2CPM [2, 0] (denseIter D0 3) := by decide +kernel

/-! ## X versus a named layer -/

/-- **`layer_indep`** — the model has no notion of "X" or "layer": the layer
argument of `AnnDataRowIterator` only selects the HDF5 group whose arrays are
read, and iteration, `get_chunk`, `get_batch` are functions of those arrays
alone.  So two groups holding the same arrays (and, by `rows_encoding_indep`,
two groups holding *any* encodings of the same matrix, e.g. X in CSR and the
layer in CSC) give the same rows, hence the same statistics and mapping by the
theorems above. -/
theorem layer_indep {R C : Mat Rat} {D : Dense Rat} {nRows nCols : Nat}
    (e : Enc R C D nRows nCols) (cs : Nat) (B : Budget)
    (hcs : 1 ≤ cs) (hlo : 1 ≤ B.lo) (hc : 1 ≤ B.loCount)
    (xArrays layerArrays : Mat Rat) (hsame : xArrays = layerArrays) :
    csrIter 0 xArrays nRows nCols cs = csrIter 0 layerArrays nRows nCols cs ∧
    csrIter 0 R nRows nCols cs = cscIter 0 C nRows nCols cs B := by
  obtain ⟨iR, iC, _⟩ := rows_encoding_indep e cs cs cs B hcs hcs hcs hlo hc
  exact ⟨by rw [hsame], by rw [iR, iC]⟩

end CTM.C05
