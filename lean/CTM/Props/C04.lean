/-
  C04 — results depend only on inputs and seed, never on scheduling.

  "For fixed input files and configuration (including the random seed) every
  pipeline stage - reference statistics, reference markers, query marker
  selection, cell type mapping - produces the same result on every run, for
  every interleaving and completion order of its worker processes and under
  any Python hash seed.  The number of worker processes changes the result
  only through the documented chunking of cells, so two worker counts that
  induce the same chunks give bitwise identical mappings."

  Model: CTM/Model/Procs.lean, section "merging worker results".  A worker is
  a pure function of its work item (and seed); the *completion order* is any
  permutation of the dispatch-order list of the workers' records and the
  theorems quantify over all of them (the orders the poll loop can actually
  produce are a subset).  Keys (cell ids, scratch paths, first pair index,
  parents) are distinct: `Nodup` hypotheses, as `range(0, n, step)`,
  `mkstemp` and `started_parents` provide.
-/
import CTM.Lemmas.Procs
import CTM.Lemmas.ProcsMerge
import CTM.Generated.Skeleton

namespace CTM.C04
open CTM.Procs

/-! ## schedule independence of the four merge disciplines -/

/-- "worker results gathered under a lock or in per-chunk files, then
re-ordered by cell id" (mapping): whatever order the chunks' records were
appended in (`done₁`, `done₂`: two permutations of the same per-chunk record
lists), `re_order_blob` returns the same list - provided every cell id is
reported once. -/
theorem schedule_indep_append_rekey {ν} (done₁ done₂ : List (List (Nat × ν)))
    (hp : done₁.Perm done₂) (hn : (done₁.flatten.map (·.1)).Nodup) (cellOrder : List Nat) :
    mergeAppendRekey done₁ cellOrder = mergeAppendRekey done₂ cellOrder := by
  simp only [mergeAppendRekey, reorderBlob]
  have : ∀ c, dictGet (dictOfList done₁.flatten) c = dictGet (dictOfList done₂.flatten) c :=
    fun c => dictGet_perm hp.flatten hn c
  simp only [this]

/-- … and that list is the query's cell order with each cell's own record:
with the chunks in dispatch order `perChunk`, distinct cell ids and
`cellOrder` = the ids in file order, the result is exactly the dispatch-order
concatenation (so nothing of the completion order survives). -/
theorem append_rekey_exact {ν} (perChunk done : List (List (Nat × ν)))
    (hp : done.Perm perChunk) (hn : (perChunk.flatten.map (·.1)).Nodup) :
    mergeAppendRekey done (perChunk.flatten.map (·.1)) = some perChunk.flatten := by
  rw [schedule_indep_append_rekey done perChunk hp ((hp.flatten.map _).symm.nodup hn)]
  simp only [mergeAppendRekey, reorderBlob]
  rw [dictOfList_nodup _ hn]
  have : (perChunk.flatten.map (·.1)).map
      (fun c => (dictGet perChunk.flatten c).map (fun v => (c, v))) =
      perChunk.flatten.map (fun e => some e) := by
    rw [List.map_map]
    apply List.map_congr_left
    intro e he
    simp only [Function.comp, dictGet]
    rw [lookup_of_mem hn (k := e.1) (v := e.2) he]
    rfl
  rw [this]
  simpa using collect_map_some perChunk.flatten id

example : mergeAppendRekey [[(7, "b"), (3, "a")], [(5, "c")]] [3, 5, 7]
    = mergeAppendRekey [[(5, "c")], [(7, "b"), (3, "a")]] [3, 5, 7] := by decide
/-- why the key hypothesis matters: a cell reported twice makes the answer
depend on which record was appended last -/
example : mergeAppendRekey [[(3, "a")], [(3, "x")]] [3] ≠ mergeAppendRekey [[(3, "x")], [(3, "a")]] [3] := by
  decide

/-- "per-worker partial sums written to files that are merged in creation
order, not completion order" (reference statistics): the buffers are read
back by path in creation order, so the completion order (`done₁`, `done₂`)
does not enter the sum - not even its association order. -/
theorem schedule_indep_sum {β} (add : β → β → β) (zero : β) (paths : List Nat)
    (done₁ done₂ : List (Nat × β)) (hp : done₁.Perm done₂) (hn : (done₁.map (·.1)).Nodup) :
    mergeSumCreationOrder add zero paths done₁ = mergeSumCreationOrder add zero paths done₂ := by
  unfold mergeSumCreationOrder
  have : dictGet (dictOfList done₁) = dictGet (dictOfList done₂) :=
    funext (fun c => dictGet_perm hp hn c)
  rw [this]

/-- the sum is the left fold over the buffers in creation order, whatever the
completion order -/
theorem sum_exact {β} (add : β → β → β) (zero : β) (jobs done : List (Nat × β))
    (hp : done.Perm jobs) (hn : (jobs.map (·.1)).Nodup) :
    mergeSumCreationOrder add zero (jobs.map (·.1)) done
      = some ((jobs.map (·.2)).foldl add zero) := by
  rw [schedule_indep_sum add zero _ done jobs hp ((hp.map _).symm.nodup hn)]
  unfold mergeSumCreationOrder
  rw [dictOfList_nodup _ hn, collect_lookup_self jobs hn]
  rfl

/-- non-vacuity, with a non-associative, non-commutative `add` -/
example : mergeSumCreationOrder (fun a b => 2 * a + b) 0 [10, 11, 12] [(12, 5), (10, 1), (11, 3)]
    = some ((([1, 3, 5] : List Nat)).foldl (fun a b => 2 * a + b) 0) := by decide

/-- "per-chunk marker files keyed by first pair index and merged in sorted key
order" (reference markers, p-value mask): the merged sequence of chunks does
not depend on the completion order. -/
theorem schedule_indep_sorted_keys {ρ} (done₁ done₂ : List (Nat × ρ)) (hp : done₁.Perm done₂)
    (hn : (done₁.map (·.1)).Nodup) : mergeSortedKeys done₁ = mergeSortedKeys done₂ := by
  have hn₂ : (done₂.map (·.1)).Nodup := (hp.map _).nodup hn
  simp only [mergeSortedKeys, dictOfList_nodup _ hn, dictOfList_nodup _ hn₂]
  rw [sortKeys_perm (hp.map _)]
  congr 1
  apply List.map_congr_left
  intro k _
  exact lookup_perm hp hn k

/-- when the keys grow with the dispatch index (`range(0, n_pairs, n_per)`),
sorted key order *is* dispatch order: the merge sees the chunks exactly as
dispatched -/
theorem sorted_keys_exact {ρ} (jobs done : List (Nat × ρ)) (hp : done.Perm jobs)
    (hs : (jobs.map (·.1)).Pairwise (· < ·)) :
    mergeSortedKeys done = some (jobs.map (·.2)) := by
  have hn : (jobs.map (·.1)).Nodup := hs.imp (fun h => Nat.ne_of_lt h)
  rw [schedule_indep_sorted_keys done jobs hp ((hp.map _).symm.nodup hn)]
  simp only [mergeSortedKeys, dictOfList_nodup _ hn]
  rw [sortKeys_of_sorted (hs.imp (fun h => Nat.le_of_lt h))]
  exact collect_lookup_self jobs hn

example : mergeSortedKeys [(16, "c"), (0, "a"), (8, "b")] = some ["a", "b", "c"] := by decide

/-- parallel transposition: chunk files in a list filled at dispatch,
concatenated in that order -/
theorem schedule_indep_concat {ρ} (paths : List Nat) (done₁ done₂ : List (Nat × ρ))
    (hp : done₁.Perm done₂) (hn : (done₁.map (·.1)).Nodup) :
    mergeConcatCreationOrder paths done₁ = mergeConcatCreationOrder paths done₂ := by
  unfold mergeConcatCreationOrder
  have : dictGet (dictOfList done₁) = dictGet (dictOfList done₂) :=
    funext (fun c => dictGet_perm hp hn c)
  rw [this]

example : mergeConcatCreationOrder [4, 9] [(9, "y"), (4, "x")] = some ["x", "y"] := by decide

/-- "per-parent results stored in a dict keyed by parent" (query marker
selection): the mapping parent ↦ markers does not depend on the completion
order (the dict's *iteration* order does - callers must not rely on it) -/
theorem schedule_indep_dict {ρ} (done₁ done₂ : List (Nat × ρ)) (hp : done₁.Perm done₂)
    (hn : (done₁.map (·.1)).Nodup) (ask : List Nat) :
    mergeDictByKey done₁ ask = mergeDictByKey done₂ ask := by
  unfold mergeDictByKey
  apply List.map_congr_left
  intro k _
  exact dictGet_perm hp hn k

example : mergeDictByKey [(2, "m2"), (1, "m1")] [1, 2, 3] = [some "m1", some "m2", none] := by decide

/-- the completion orders the harness forces on the real stages (enumerated by
`completionOrders nWorkers nProc`: what the start / poll loop can produce with
`nProc` slots) are permutations of the workers, and gathering the workers'
records in such an order is a permutation of the dispatch-order list - so
every forced schedule is an instance of the theorems above -/
theorem forced_orders_are_instances {ρ} (results : List ρ) (nProc : Nat) :
    ∀ o ∈ completionOrders results.length nProc, (gather results o).Perm results :=
  fun o ho => gather_perm results o (completionOrders_perm _ _ o ho)

example : completionOrders 3 2 = [[0, 1, 2], [1, 0, 2], [1, 2, 0], [0, 2, 1]] := by decide
example : gather ["a", "b", "c"] [1, 2, 0] = ["b", "c", "a"] := by decide

/-! ## seeds -/

/-- "one child generator per chunk, seeded from the parent generator in
dispatch order before the worker starts": chunk `k`'s seed is the `k`-th draw
of the parent generator -/
theorem seed_by_dispatch {σ} (cs : List (Nat × Nat)) (draws : Nat → σ) (k : Nat) :
    (dispatchSeeds cs draws)[k]? = cs[k]?.map (fun c => (c, draws k)) :=
  dispatchSeeds_getElem? cs draws k

example : dispatchSeeds [(0, 4), (4, 8), (8, 9)] (fun k => 100 + k)
    = [((0, 4), 100), ((4, 8), 101), ((8, 9), 102)] := by decide

/-- the same on the stage machine, for the skeleton the translator extracts
from `run_type_assignment_on_h5ad_cpu`: for every number of chunks, every
`n_processors`, every schedule and every exit-code assignment - whether the
stage succeeds, fails or spins - worker `k` was seeded with draw `k`,
irrespective of who completed when -/
theorem seed_by_dispatch_machine (env : Env) (sched : List Poll) :
    let s := (exec CTM.Generated.mapping.container env CTM.Generated.mapping.prog
      { sched := sched }).state
    s.seeds = (List.range s.started).map (fun k => (k, k)) := by
  have hprog : CTM.Generated.mapping.prog = [.dispatch seededBody, .drain] := by decide
  simp only [hprog]
  exact (seededProg_inv _ env sched).2

example : (exec .list { nItems := 3, nProc := 2, keyOf := id, exit := fun _ => 0 }
    CTM.Generated.mapping.prog { sched := [[1], [0], [2]] }).state.seeds = [(0, 0), (1, 1), (2, 2)] := by
  decide

/-! ## number of processes -/

/-- "The number of worker processes changes the result only through the
documented chunking of cells, so two worker counts that induce the same chunks
give bitwise identical mappings": if `n_processors = p₁` and `p₂` give the
same effective chunk size, then for any completion orders of the two runs the
merged, re-ordered results are equal -/
theorem nproc_only_via_chunks {σ ν} (nRows p₁ p₂ chunkSize : Nat) (draws : Nat → σ)
    (worker : (Nat × Nat) → σ → List (Nat × ν))
    (h : effChunk nRows p₁ chunkSize = effChunk nRows p₂ chunkSize)
    (done₁ done₂ : List (List (Nat × ν)))
    (h₁ : done₁.Perm (mapStageResults nRows p₁ chunkSize draws worker))
    (h₂ : done₂.Perm (mapStageResults nRows p₂ chunkSize draws worker))
    (hn : ((mapStageResults nRows p₁ chunkSize draws worker).flatten.map (·.1)).Nodup)
    (cellOrder : List Nat) :
    mergeAppendRekey done₁ cellOrder = mergeAppendRekey done₂ cellOrder := by
  have heq : mapStageResults nRows p₁ chunkSize draws worker
      = mapStageResults nRows p₂ chunkSize draws worker := by
    unfold mapStageResults
    rw [h]
  apply schedule_indep_append_rekey
  · exact h₁.trans (heq ▸ h₂.symm)
  · exact (h₁.flatten.map _).symm.nodup hn

/-- the documented chunking: as long as `chunk_size ≤ ceil(n_rows/p)` the
number of processes `p` does not enter the chunk size at all -/
theorem chunk_size_indep_of_nproc (nRows p₁ p₂ chunkSize : Nat) (hp₁ : 0 < p₁) (hp₂ : 0 < p₂)
    (h₁ : chunkSize * p₁ ≤ nRows + p₁ - 1) (h₂ : chunkSize * p₂ ≤ nRows + p₂ - 1) :
    effChunk nRows p₁ chunkSize = effChunk nRows p₂ chunkSize := by
  rw [effChunk_eq_chunkSize hp₁ h₁, effChunk_eq_chunkSize hp₂ h₂]

example : effChunk 20 2 5 = effChunk 20 4 5 ∧ effChunk 20 4 5 ≠ effChunk 20 5 5 := by decide
example : chunks 10 (effChunk 10 3 100) = [(0, 4), (4, 8), (8, 10)] := by decide

/-! ## hash seed (set enumeration order) -/

/-- "marker lists sorted by reference gene index before use" / sets sorted
before they are written: whatever order a `set` is enumerated in
(`enum₁`, `enum₂`: two enumerations of the same elements), the sorted array
is the same.

This is the lemma every `set → list` site relies on; the sites themselves
(marker cache, taxonomy child lists, `set(assignment)`, `aggregate_votes`,
`clean_for_json`) are treated one by one on the owning groups' model functions
in `CTM/Props/C04/Enum.lean` (`enum_indep_markers`, `enum_indep_tree_children`,
`enum_indep_tree_leaves`, `enum_indep_tree_pairs`, `enum_indep_assignment_set`,
`enum_indep_aggregate`, `enum_indep_clean_for_json`) and composed for the
mapping stage in `enum_indep_mapping`. -/
theorem enum_indep_sorted (enum₁ enum₂ : List Nat) (hp : enum₁.Perm enum₂) :
    sortKeys enum₁ = sortKeys enum₂ :=
  sortKeys_perm hp

example : sortKeys [5, 1, 3] = sortKeys [3, 5, 1] := by decide

/-! ## the regenerated skeletons -/

/-- every parallel stage found in the source merges its workers' results by
one of the disciplines above (the translator re-derives this on every run) -/
theorem generated_merge_disciplines :
    CTM.Generated.stages.map (fun s => (s.name, s.merge)) =
      [("mapping", .appendRekey), ("stats", .sumCreationOrder), ("refMarkers", .sortedKeys),
       ("pMask", .sortedKeys), ("pMarkers", .sortedKeys), ("selection", .dictByKey),
       ("transpose", .concatCreationOrder)] := by
  decide

/-! ## record-level interleavings and file order -/

/-- stronger than chunk-wise: *any* interleaving of the workers' appends (any
permutation of the individual cell records, as if there were no lock at all)
is neutralised by `re_order_blob`, as long as every cell id is reported once -/
theorem interleaving_indep_rekey {ν} (blob₁ blob₂ : List (Nat × ν)) (hp : blob₁.Perm blob₂)
    (hn : (blob₁.map (·.1)).Nodup) (cellOrder : List Nat) :
    reorderBlob blob₁ cellOrder = reorderBlob blob₂ cellOrder := by
  simp only [reorderBlob]
  have : ∀ c, dictGet (dictOfList blob₁) c = dictGet (dictOfList blob₂) c :=
    fun c => dictGet_perm hp hn c
  simp only [this]

example : reorderBlob [(7, "b"), (5, "c"), (3, "a")] [3, 5, 7]
    = reorderBlob [(3, "a"), (7, "b"), (5, "c")] [3, 5, 7] := by decide

/-- whatever the workers delivered and in whatever order: if `re_order_blob`
returns at all, it returns exactly one record per cell of the query file, in
file order (a missing cell is a `KeyError`, never a silently shorter list) -/
theorem rekey_follows_file_order {ν} (blob : List (Nat × ν)) (cellOrder : List Nat)
    (r : List (Nat × ν)) (h : reorderBlob blob cellOrder = some r) :
    r.map (·.1) = cellOrder :=
  collect_map_fst cellOrder (dictGet (dictOfList blob)) r (by simpa [reorderBlob] using h)

example : reorderBlob [(3, "a")] [3, 5] = none := by decide

end CTM.C04
