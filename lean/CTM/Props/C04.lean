import CTM.Model.Procs
namespace CTM.C04
theorem placeholder_true : True := trivial
end CTM.C04
