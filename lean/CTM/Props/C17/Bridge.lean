/-
  C17 — bridge to the tree validator and to C10's `drop_commutes_build`.

  (a) The theorems of `CTM/Props/C17.lean` restated with the acceptance of the
      stored taxonomy by the model of `validate_taxonomy_tree` as the
      only hypothesis on the taxonomy, besides the modelling convention
      `DictOK` (see `CTM/Lemmas/BridgeWF.lean`).
  (b) `drop_eq_reference_without_level`: C17 `drop_eq` ∘ C10
      `drop_commutes_build`.  "A reference whose taxonomy never had that
      level" is made literal: the taxonomy `get_taxonomy_tree` builds from the
      label columns with column `l` erased.  The tree C10 relates it to (the
      dropped tree) is equal to it only UP TO THE ORDER of child / row lists
      (`TreeEquiv`), so the combined statement needs an oracle that does not
      look at that order (`Bridge.OrderBlind`); the level loop itself only
      passes the order on (`Bridge.mapPipeline_equiv`).
-/
import CTM.Props.C17
import CTM.Lemmas.BridgeWF

namespace CTM.C17
open CTM CTM.LevelLoop CTM.RawTree CTM.Bridge

/-- "Mapping with a level dropped gives, at all other levels, exactly the result
of mapping against a reference whose taxonomy never had that level, and the
dropped level is the ancestor of the finer assignment" — for every stored
taxonomy the validator accepts (run B's stored taxonomy is `drop_level`'s result
`t'`). -/
theorem drop_eq_of_validate {κ} (t0 t' : RawTree) (cfg : Config) (vote : Oracle κ) (l cl : Level)
    (pre post : List Level) (ids : List CellId) (cells : List κ) (order : List Nat)
    (hdrop : t0.dropLevel l = .ok t') (hs : t0.hierarchy = pre ++ l :: cl :: post)
    (hval : t0.validate = .ok ()) (hd : DictOK t0)
    (hv : VoteOK t' vote)
    (hlen : ids.length = cells.length) (hnd : ids.Nodup)
    (hproc : 1 ≤ cfg.nProc) (hcs : 1 ≤ cfg.chunkSize)
    (horder : order.Perm (List.range
      (chunks cells.length (effChunk cells.length cfg.nProc cfg.chunkSize)).length))
    (outA outB : List Record)
    (hA : mapPipeline t0 { cfg with dropLevel := some l, flatten := false } vote ids cells order
      = .ok outA)
    (hB : mapPipeline t' { cfg with dropLevel := none, flatten := false } vote ids cells order
      = .ok outB)
    (i : Nat) (id : CellId) (c : κ) (hid : ids[i]? = some id) (hc : cells[i]? = some c) :
    ∃ a b, outA[i]? = some a ∧ outB[i]? = some b ∧ a.cellId = b.cellId ∧
      (∀ l', l' ≠ l → a.levels.lookup l' = b.levels.lookup l') ∧
      b.levels.lookup l = none ∧
      ∃ ec pn, b.levels.lookup cl = some ec ∧
        t0.childToParent cl ec.assignment = some pn ∧
        a.levels.lookup l = some (inferred ec pn) :=
  drop_eq t0 t' cfg vote l cl pre post ids cells order hdrop hs (wfb_of_validate hval hd)
    hv hlen hnd hproc hcs horder outA outB hA hB i id c hid hc

example : ∀ outA outB,
    mapPipeline exTree { dropLevel := some 1, flatten := false, chunkSize := 2, nProc := 2 } exVote
      [7, 3, 9] [0, 1, 2] [1, 0] = .ok outA →
    mapPipeline exDropped { dropLevel := none, flatten := false, chunkSize := 2, nProc := 2 } exVote
      [7, 3, 9] [0, 1, 2] [1, 0] = .ok outB →
    ∃ a b, outA[1]? = some a ∧ outB[1]? = some b ∧ a.cellId = b.cellId ∧
      (∀ l', l' ≠ 1 → a.levels.lookup l' = b.levels.lookup l') ∧
      b.levels.lookup 1 = none ∧
      ∃ ec pn, b.levels.lookup 2 = some ec ∧
        exTree.childToParent 2 ec.assignment = some pn ∧
        a.levels.lookup 1 = some (inferred ec pn) :=
  fun outA outB hA hB =>
    drop_eq_of_validate exTree exDropped { chunkSize := 2, nProc := 2 } exVote 1 2 [0] [] [7, 3, 9]
      [0, 1, 2] [1, 0] (by rfl) rfl exTree_accepted.1 exTree_accepted.2 (exVote_ok _) rfl (by decide) (by decide)
      (by decide) (by decide) outA outB hA hB 1 3 1 rfl rfl

/-- "Mapping with flattening gives at the leaf level exactly the result of
mapping against a one-level taxonomy of the leaves ..., and every coarser level
is the leaf's ancestor" — for every stored taxonomy the validator accepts. -/
theorem flatten_eq_of_validate {κ} (t0 : RawTree) (cfg : Config) (vote : Oracle κ) (ll : Level)
    (ids : List CellId) (cells : List κ) (order : List Nat)
    (hleaf : t0.leafLevel = some ll)
    (hval : t0.validate = .ok ()) (hd : DictOK t0)
    (hv : VoteOK t0.flatten vote)
    (hlen : ids.length = cells.length) (hnd : ids.Nodup)
    (hproc : 1 ≤ cfg.nProc) (hcs : 1 ≤ cfg.chunkSize)
    (horder : order.Perm (List.range
      (chunks cells.length (effChunk cells.length cfg.nProc cfg.chunkSize)).length))
    (outA outB : List Record)
    (hA : mapPipeline t0 { cfg with dropLevel := none, flatten := true } vote ids cells order
      = .ok outA)
    (hB : mapPipeline t0.flatten { cfg with dropLevel := none, flatten := false } vote ids cells order
      = .ok outB)
    (i : Nat) (id : CellId) (c : κ) (hid : ids[i]? = some id) (hc : cells[i]? = some c) :
    ∃ a b, outA[i]? = some a ∧ outB[i]? = some b ∧ a.cellId = b.cellId ∧
      a.levels.lookup ll = b.levels.lookup ll ∧ (b.levels.lookup ll).isSome ∧
      ∀ cp ∈ pairsOf t0.hierarchy.reverse,
        ∃ ec pn, a.levels.lookup cp.1 = some ec ∧
          t0.childToParent cp.1 ec.assignment = some pn ∧
          a.levels.lookup cp.2 = some (inferred ec pn) :=
  flatten_eq t0 cfg vote ll ids cells order hleaf (wfb_of_validate hval hd) hv hlen hnd
    hproc hcs horder outA outB hA hB i id c hid hc

example : ∀ outA outB,
    mapPipeline exTree { dropLevel := none, flatten := true, chunkSize := 2, nProc := 2 } exVote
      [7, 3, 9] [0, 1, 2] [1, 0] = .ok outA →
    mapPipeline exTree.flatten { dropLevel := none, flatten := false, chunkSize := 2, nProc := 2 } exVote
      [7, 3, 9] [0, 1, 2] [1, 0] = .ok outB →
    ∃ a b, outA[2]? = some a ∧ outB[2]? = some b ∧ a.cellId = b.cellId ∧
      a.levels.lookup 2 = b.levels.lookup 2 ∧ (b.levels.lookup 2).isSome ∧
      ∀ cp ∈ pairsOf exTree.hierarchy.reverse,
        ∃ ec pn, a.levels.lookup cp.1 = some ec ∧
          exTree.childToParent cp.1 ec.assignment = some pn ∧
          a.levels.lookup cp.2 = some (inferred ec pn) :=
  fun outA outB hA hB =>
    flatten_eq_of_validate exTree { chunkSize := 2, nProc := 2 } exVote 2 [7, 3, 9] [0, 1, 2] [1, 0]
      (by decide) exTree_accepted.1 exTree_accepted.2
      (exVote_ok _) rfl (by decide) (by decide)
      (by decide) (by decide) outA outB hA hB 2 9 2 rfl rfl

/-- both runs of `drop_eq_of_validate` succeed on every validator-accepted
stored taxonomy (so the statement is not vacuous); the split of the hierarchy
around `l` is derived from the success of `drop_level`. -/
theorem drop_both_succeed_of_validate {κ} (t0 t' : RawTree) (cfg : Config) (vote : Oracle κ)
    (l : Level) (ids : List CellId) (cells : List κ) (order : List Nat)
    (hdrop : t0.dropLevel l = .ok t')
    (hval : t0.validate = .ok ()) (hd : DictOK t0)
    (hv : VoteOK t' vote)
    (hlen : ids.length = cells.length) (hnd : ids.Nodup)
    (hproc : 1 ≤ cfg.nProc) (hcs : 1 ≤ cfg.chunkSize)
    (horder : order.Perm (List.range
      (chunks cells.length (effChunk cells.length cfg.nProc cfg.chunkSize)).length)) :
    (∃ outA, mapPipeline t0 { cfg with dropLevel := some l, flatten := false } vote ids cells order
      = .ok outA) ∧
    (∃ outB, mapPipeline t' { cfg with dropLevel := none, flatten := false } vote ids cells order
      = .ok outB) := by
  obtain ⟨hm, _⟩ := dropLevel_hierarchy hdrop
  obtain ⟨pre, cl, post, hs⟩ := split_of_mem_ne_getLast hm (dropLevel_not_leaf hdrop)
  exact drop_both_succeed t0 t' cfg vote l cl pre post ids cells order hdrop hs
    (wfb_of_validate hval hd) hv hlen hnd hproc hcs horder

example : (∃ outA, mapPipeline exTree { dropLevel := some 1, flatten := false, chunkSize := 2, nProc := 2 }
      exVote [7, 3, 9] [0, 1, 2] [1, 0] = .ok outA) ∧
    (∃ outB, mapPipeline exDropped { dropLevel := none, flatten := false, chunkSize := 2, nProc := 2 }
      exVote [7, 3, 9] [0, 1, 2] [1, 0] = .ok outB) :=
  drop_both_succeed_of_validate exTree exDropped { chunkSize := 2, nProc := 2 } exVote 1 [7, 3, 9]
    [0, 1, 2] [1, 0] (by rfl) exTree_accepted.1 exTree_accepted.2 (exVote_ok _) rfl (by decide) (by decide) (by decide) (by decide)

/-- both runs of `flatten_eq_of_validate` succeed on every validator-accepted
stored taxonomy -/
theorem flatten_both_succeed_of_validate {κ} (t0 : RawTree) (cfg : Config) (vote : Oracle κ)
    (ll : Level) (ids : List CellId) (cells : List κ) (order : List Nat)
    (hleaf : t0.leafLevel = some ll)
    (hval : t0.validate = .ok ()) (hd : DictOK t0)
    (hv : VoteOK t0.flatten vote)
    (hlen : ids.length = cells.length) (hnd : ids.Nodup)
    (hproc : 1 ≤ cfg.nProc) (hcs : 1 ≤ cfg.chunkSize)
    (horder : order.Perm (List.range
      (chunks cells.length (effChunk cells.length cfg.nProc cfg.chunkSize)).length)) :
    (∃ outA, mapPipeline t0 { cfg with dropLevel := none, flatten := true } vote ids cells order
      = .ok outA) ∧
    (∃ outB, mapPipeline t0.flatten { cfg with dropLevel := none, flatten := false } vote ids cells
      order = .ok outB) :=
  flatten_both_succeed t0 cfg vote ll ids cells order hleaf (wfb_of_validate hval hd) hv
    hlen hnd hproc hcs horder

example : (∃ outA, mapPipeline exTree { dropLevel := none, flatten := true, chunkSize := 2, nProc := 2 }
      exVote [7, 3, 9] [0, 1, 2] [1, 0] = .ok outA) ∧
    (∃ outB, mapPipeline exTree.flatten { dropLevel := none, flatten := false, chunkSize := 2, nProc := 2 }
      exVote [7, 3, 9] [0, 1, 2] [1, 0] = .ok outB) :=
  flatten_both_succeed_of_validate exTree { chunkSize := 2, nProc := 2 } exVote 2 [7, 3, 9]
    [0, 1, 2] [1, 0] (by decide) exTree_accepted.1 exTree_accepted.2 (exVote_ok _) rfl (by decide) (by decide) (by decide) (by decide)

/-! ### C17 `drop_eq` ∘ C10 `drop_commutes_build` -/

/-- "Mapping with a level dropped gives, at all other levels, exactly the result
of mapping against A REFERENCE WHOSE TAXONOMY NEVER HAD THAT LEVEL, and the
dropped level is the ancestor of the finer assignment."

Reference A: the taxonomy built (`get_taxonomy_tree`) from the per-cell label
columns `cols` (nested, ≥ 1 cell), mapped with `drop_level = cols[i]` (any
non-leaf column).  Reference B: the taxonomy built from the same cells with
column `i` erased — it never had the level — mapped without `drop_level`.
Both runs SUCCEED, return the same cells in the same order, every level other
than `cols[i]` carries the identical dict, run B has no level `cols[i]`, and in
run A level `cols[i]` is the copy of the level below it whose assignment is the
parent (in taxonomy A) of the finer assignment, flagged not directly assigned.

Hypotheses on the oracle: `VoteChild` (it returns one of the children it is
given; tree independent form of `VoteOK`) and `OrderBlind` (it reads the
children and their leaves as sets): the dropped tree and tree B have the same
nodes and edges but list children in different orders (C10's `TreeEquiv`; see
the example in `Props/C10.lean`: `[30, 33, 31]` against `[30, 31, 33]`). -/
theorem drop_eq_reference_without_level {κ} (cols : List Level) (recs : List (List Node))
    (cfg : Config) (vote : Oracle κ) (i : Nat) (ids : List CellId) (cells : List κ)
    (order : List Nat)
    (hc : cols.Nodup) (hr : RecsOK cols recs) (hn : Nested cols recs) (hrec : recs ≠ [])
    (hi1 : i + 1 < cols.length)
    (hvc : VoteChild vote) (hob : OrderBlind vote)
    (hlen : ids.length = cells.length) (hnd : ids.Nodup)
    (hproc : 1 ≤ cfg.nProc) (hcs : 1 ≤ cfg.chunkSize)
    (horder : order.Perm (List.range
      (chunks cells.length (effChunk cells.length cfg.nProc cfg.chunkSize)).length)) :
    ∃ outA outB,
      mapPipeline (fromRecordsRaw cols recs)
        { cfg with dropLevel := some (cols[i]'(by omega)), flatten := false } vote ids cells order
        = .ok outA ∧
      mapPipeline (fromRecordsRaw (cols.eraseIdx i) (recs.map (·.eraseIdx i)))
        { cfg with dropLevel := none, flatten := false } vote ids cells order = .ok outB ∧
      ∀ (j : Nat) (id : CellId) (c : κ), ids[j]? = some id → cells[j]? = some c →
        ∃ a b, outA[j]? = some a ∧ outB[j]? = some b ∧ a.cellId = b.cellId ∧
          (∀ l', l' ≠ cols[i]'(by omega) → a.levels.lookup l' = b.levels.lookup l') ∧
          b.levels.lookup (cols[i]'(by omega)) = none ∧
          ∃ ec pn, b.levels.lookup cols[i+1] = some ec ∧
            (fromRecordsRaw cols recs).childToParent cols[i+1] ec.assignment = some pn ∧
            a.levels.lookup (cols[i]'(by omega)) = some (inferred ec pn) := by
  have hi : i < cols.length := by omega
  have hne : cols ≠ [] := by intro h; rw [h] at hi; cases hi
  have w0 : WF (fromRecordsRaw cols recs) := fromRecordsRaw_wf hc hne hr hn hrec
  obtain ⟨t', hd, hraw, w'⟩ := dropLevel_eq_ok w0 (i := i) (allowLeaf := false) hi
    (by show 2 ≤ cols.length; omega) (Or.inr hi1)
  have hd' : (fromRecordsRaw cols recs).dropLevel (cols[i]'hi) = .ok t' := hd
  have e : TreeEquiv t' (fromRecordsRaw (cols.eraseIdx i) (recs.map (·.eraseIdx i))) :=
    drop_build_equiv hc hr hn hi hraw w'
  have hcE : (cols.eraseIdx i).Nodup := hc.sublist (List.eraseIdx_sublist _ _)
  have hneE : cols.eraseIdx i ≠ [] := by
    intro h
    have := congrArg List.length h
    rw [List.length_eraseIdx, if_pos hi] at this
    simp at this; omega
  have wE : WF (fromRecordsRaw (cols.eraseIdx i) (recs.map (·.eraseIdx i))) :=
    fromRecordsRaw_wf hcE hneE (recsOK_eraseIdx hr i) (nested_eraseIdx hr hn i)
      (by simpa using hrec)
  have hwf0 := WF_wfb w0
  have hs : (fromRecordsRaw cols recs).hierarchy =
      cols.take i ++ cols[i] :: cols[i+1] :: cols.drop (i+2) := split_at_idx cols hi1
  have hwf' := wfb_dropLevel hwf0 hd' hs
  have hv' := voteOK_of_voteChild hvc t'
  obtain ⟨⟨outA, hA⟩, ⟨outB, hB⟩⟩ := drop_both_succeed _ t' cfg vote _ _ _ _ ids cells order hd' hs
    hwf0 hv' hlen hnd hproc hcs horder
  have hBE : mapPipeline (fromRecordsRaw (cols.eraseIdx i) (recs.map (·.eraseIdx i)))
      { cfg with dropLevel := none, flatten := false } vote ids cells order = .ok outB := by
    rw [← mapPipeline_equiv_wf e w' wE hob hv' (voteOK_of_voteChild hvc _)
      { cfg with dropLevel := none, flatten := false } rfl rfl ids cells order hlen hnd hproc hcs
      horder]
    exact hB
  refine ⟨outA, outB, hA, hBE, ?_⟩
  intro j id c hid hcell
  exact drop_eq _ t' cfg vote _ _ _ _ ids cells order hd' hs hwf0 hv' hlen hnd hproc hcs horder
    outA outB hA hB j id c hid hcell

/-- (non-vacuity) three label columns, four reference cells, the middle column
dropped; `exVote` is not order blind, so the oracle of the example is the
order-blind "smallest child" (`Bridge.minVote`) -/
example : ∃ outA outB,
    mapPipeline (fromRecordsRaw [0, 1, 2] [[10, 20, 30], [10, 21, 31], [11, 22, 32], [10, 20, 33]])
      { dropLevel := some 1, flatten := false, chunkSize := 2, nProc := 2 } minVote [7, 3] [0, 1] [1, 0]
      = .ok outA ∧
    mapPipeline (fromRecordsRaw [0, 2] [[10, 30], [10, 31], [11, 32], [10, 33]])
      { dropLevel := none, flatten := false, chunkSize := 2, nProc := 2 } minVote [7, 3] [0, 1] [1, 0]
      = .ok outB ∧
    ∀ (j : Nat) (id : CellId) (c : Nat), [7, 3][j]? = some id → [0, 1][j]? = some c →
      ∃ a b, outA[j]? = some a ∧ outB[j]? = some b ∧ a.cellId = b.cellId ∧
        (∀ l', l' ≠ 1 → a.levels.lookup l' = b.levels.lookup l') ∧
        b.levels.lookup 1 = none ∧
        ∃ ec pn, b.levels.lookup 2 = some ec ∧
          (fromRecordsRaw [0, 1, 2] [[10, 20, 30], [10, 21, 31], [11, 22, 32], [10, 20, 33]]).childToParent
            2 ec.assignment = some pn ∧
          a.levels.lookup 1 = some (inferred ec pn) :=
  drop_eq_reference_without_level [0, 1, 2] [[10, 20, 30], [10, 21, 31], [11, 22, 32], [10, 20, 33]]
    { chunkSize := 2, nProc := 2 } minVote 1 [7, 3] [0, 1] [1, 0] (by decide)
    (by intro r hr; simp at hr; rcases hr with rfl | rfl | rfl | rfl <;> rfl)
    (by
      intro j hj r hr r' hr' h
      simp only [List.mem_cons, List.not_mem_nil, or_false] at hr hr'
      have hj' : j = 0 ∨ j = 1 := by simp at hj; omega
      rcases hj' with rfl | rfl <;> rcases hr with rfl | rfl | rfl | rfl <;>
        rcases hr' with rfl | rfl | rfl | rfl <;> simp_all)
    (by simp) (by decide) minVote_child minVote_orderBlind rfl (by decide) (by decide) (by decide)
    (by decide)

/-! ### C17 `flatten_eq` ∘ C10 "flatten = build from the leaf column" -/

/-- "Mapping with flattening gives at the leaf level exactly the result of
mapping against A ONE-LEVEL TAXONOMY OF THE LEAVES ..., and every coarser level
is the leaf's ancestor."

Reference A: the taxonomy built (`get_taxonomy_tree`) from the per-cell label
columns `cols` (nested, ≥ 1 cell), mapped with `flatten = True`.  Reference B:
the one-level taxonomy built from the LEAF COLUMN ALONE (same cells, all other
columns removed), mapped without flattening.  `flatten()` of taxonomy A IS
taxonomy B (`Bridge.flatten_fromRecords_eq`: equal, not only up to order — so,
unlike `drop_eq_reference_without_level`, no hypothesis on the order
sensitivity of the oracle is needed).  Both runs SUCCEED, return the same cells
in the same order with the identical leaf-level dict, and in run A every coarser
level is the copy of the level below whose assignment is its parent in taxonomy
A, flagged not directly assigned. -/
theorem flatten_eq_reference_leaf_column {κ} (cols : List Level) (recs : List (List Node))
    (cfg : Config) (vote : Oracle κ) (ids : List CellId) (cells : List κ) (order : List Nat)
    (hc : cols.Nodup) (hne : cols ≠ []) (hr : RecsOK cols recs) (hn : Nested cols recs)
    (hrec : recs ≠ [])
    (hv : VoteOK (fromRecordsRaw [cols.getLast hne] (recs.map (fun r => [r.getLastD 0]))) vote)
    (hlen : ids.length = cells.length) (hnd : ids.Nodup)
    (hproc : 1 ≤ cfg.nProc) (hcs : 1 ≤ cfg.chunkSize)
    (horder : order.Perm (List.range
      (chunks cells.length (effChunk cells.length cfg.nProc cfg.chunkSize)).length)) :
    ∃ outA outB,
      mapPipeline (fromRecordsRaw cols recs) { cfg with dropLevel := none, flatten := true } vote
        ids cells order = .ok outA ∧
      mapPipeline (fromRecordsRaw [cols.getLast hne] (recs.map (fun r => [r.getLastD 0])))
        { cfg with dropLevel := none, flatten := false } vote ids cells order = .ok outB ∧
      ∀ (j : Nat) (id : CellId) (c : κ), ids[j]? = some id → cells[j]? = some c →
        ∃ a b, outA[j]? = some a ∧ outB[j]? = some b ∧ a.cellId = b.cellId ∧
          a.levels.lookup (cols.getLast hne) = b.levels.lookup (cols.getLast hne) ∧
          (b.levels.lookup (cols.getLast hne)).isSome ∧
          ∀ cp ∈ pairsOf cols.reverse,
            ∃ ec pn, a.levels.lookup cp.1 = some ec ∧
              (fromRecordsRaw cols recs).childToParent cp.1 ec.assignment = some pn ∧
              a.levels.lookup cp.2 = some (inferred ec pn) := by
  have w0 : WF (fromRecordsRaw cols recs) := fromRecordsRaw_wf hc hne hr hn hrec
  have hwf0 := WF_wfb w0
  have hleaf : (fromRecordsRaw cols recs).leafLevel = some (cols.getLast hne) :=
    List.getLast?_eq_some_getLast hne
  have e := flatten_fromRecords_eq hc hne hr (recs := recs)
  rw [← e] at hv ⊢
  obtain ⟨⟨outA, hA⟩, ⟨outB, hB⟩⟩ := flatten_both_succeed _ cfg vote _ ids cells order hleaf hwf0 hv
    hlen hnd hproc hcs horder
  refine ⟨outA, outB, hA, hB, ?_⟩
  intro j id c hid hcell
  exact flatten_eq _ cfg vote _ ids cells order hleaf hwf0 hv hlen hnd hproc hcs horder outA outB
    hA hB j id c hid hcell

example : ∃ outA outB,
    mapPipeline (fromRecordsRaw [0, 1, 2] [[10, 20, 30], [10, 21, 31], [11, 22, 32], [10, 20, 33]])
      { dropLevel := none, flatten := true, chunkSize := 2, nProc := 2 } exVote [7, 3] [0, 1] [1, 0]
      = .ok outA ∧
    mapPipeline (fromRecordsRaw [2] [[30], [31], [32], [33]])
      { dropLevel := none, flatten := false, chunkSize := 2, nProc := 2 } exVote [7, 3] [0, 1] [1, 0]
      = .ok outB ∧
    ∀ (j : Nat) (id : CellId) (c : Nat), [7, 3][j]? = some id → [0, 1][j]? = some c →
      ∃ a b, outA[j]? = some a ∧ outB[j]? = some b ∧ a.cellId = b.cellId ∧
        a.levels.lookup 2 = b.levels.lookup 2 ∧ (b.levels.lookup 2).isSome ∧
        ∀ cp ∈ pairsOf [0, 1, 2].reverse,
          ∃ ec pn, a.levels.lookup cp.1 = some ec ∧
            (fromRecordsRaw [0, 1, 2] [[10, 20, 30], [10, 21, 31], [11, 22, 32],
              [10, 20, 33]]).childToParent cp.1 ec.assignment = some pn ∧
            a.levels.lookup cp.2 = some (inferred ec pn) :=
  flatten_eq_reference_leaf_column [0, 1, 2] [[10, 20, 30], [10, 21, 31], [11, 22, 32], [10, 20, 33]]
    { chunkSize := 2, nProc := 2 } exVote [7, 3] [0, 1] [1, 0] (by decide) (by decide)
    (by intro r hr; simp at hr; rcases hr with rfl | rfl | rfl | rfl <;> rfl)
    (by
      intro j hj r hr r' hr' h
      simp only [List.mem_cons, List.not_mem_nil, or_false] at hr hr'
      have hj' : j = 0 ∨ j = 1 := by simp at hj; omega
      rcases hj' with rfl | rfl <;> rcases hr with rfl | rfl | rfl | rfl <;>
        rcases hr' with rfl | rfl | rfl | rfl <;> simp_all)
    (by simp) (exVote_ok _) rfl (by decide) (by decide) (by decide) (by decide)

/-! ### flatten together with drop_level (D's `flatten_ignores_drop`, `flatten_drop_eq`) -/

/-- flatten TOGETHER with drop_level on a validator-accepted stored taxonomy:
the whole output equals that of the run with flatten alone ("flattening ...
equals mapping on the reduced taxonomy": the reduced taxonomy is the one-level
taxonomy of the leaves either way). -/
theorem flatten_ignores_drop_of_validate {κ} (t0 t' : RawTree) (cfg : Config) (vote : Oracle κ)
    (l : Level) (ids : List CellId) (cells : List κ) (order : List Nat)
    (hdrop : t0.dropLevel l = .ok t')
    (hval : t0.validate = .ok ()) (hd : DictOK t0) (hv : VoteOK t0.flatten vote)
    (hlen : ids.length = cells.length) (hnd : ids.Nodup)
    (hproc : 1 ≤ cfg.nProc) (hcs : 1 ≤ cfg.chunkSize)
    (horder : order.Perm (List.range
      (chunks cells.length (effChunk cells.length cfg.nProc cfg.chunkSize)).length)) :
    mapPipeline t0 { cfg with dropLevel := some l, flatten := true } vote ids cells order =
      mapPipeline t0 { cfg with dropLevel := none, flatten := true } vote ids cells order := by
  obtain ⟨hm, _⟩ := dropLevel_hierarchy hdrop
  obtain ⟨pre, cl, post, hs⟩ := split_of_mem_ne_getLast hm (dropLevel_not_leaf hdrop)
  exact flatten_ignores_drop t0 t' cfg vote l cl pre post ids cells order hdrop hs
    (wfb_of_validate hval hd) hv hlen hnd hproc hcs horder

example : mapPipeline exTree { dropLevel := some 1, flatten := true, chunkSize := 2, nProc := 2 } exVote
      [7, 3, 9] [0, 1, 2] [1, 0] =
    mapPipeline exTree { dropLevel := none, flatten := true, chunkSize := 2, nProc := 2 } exVote
      [7, 3, 9] [0, 1, 2] [1, 0] :=
  flatten_ignores_drop_of_validate exTree exDropped { chunkSize := 2, nProc := 2 } exVote 1 [7, 3, 9]
    [0, 1, 2] [1, 0] (by rfl) exTree_accepted.1 exTree_accepted.2 (exVote_ok _) rfl (by decide)
    (by decide) (by decide) (by decide)

/-- the C17 statement for flatten AND drop_level on a validator-accepted stored
taxonomy: "at the leaf level exactly the result of mapping against a one-level
taxonomy of the leaves, and every coarser level is the leaf's ancestor" — the
dropped level included. -/
theorem flatten_drop_eq_of_validate {κ} (t0 t' : RawTree) (cfg : Config) (vote : Oracle κ)
    (l ll : Level) (ids : List CellId) (cells : List κ) (order : List Nat)
    (hdrop : t0.dropLevel l = .ok t') (hleaf : t0.leafLevel = some ll)
    (hval : t0.validate = .ok ()) (hd : DictOK t0) (hv : VoteOK t0.flatten vote)
    (hlen : ids.length = cells.length) (hnd : ids.Nodup)
    (hproc : 1 ≤ cfg.nProc) (hcs : 1 ≤ cfg.chunkSize)
    (horder : order.Perm (List.range
      (chunks cells.length (effChunk cells.length cfg.nProc cfg.chunkSize)).length))
    (outA outB : List Record)
    (hA : mapPipeline t0 { cfg with dropLevel := some l, flatten := true } vote ids cells order
      = .ok outA)
    (hB : mapPipeline t0.flatten { cfg with dropLevel := none, flatten := false } vote ids cells order
      = .ok outB)
    (i : Nat) (id : CellId) (c : κ) (hid : ids[i]? = some id) (hc : cells[i]? = some c) :
    ∃ a b, outA[i]? = some a ∧ outB[i]? = some b ∧ a.cellId = b.cellId ∧
      a.levels.lookup ll = b.levels.lookup ll ∧ (b.levels.lookup ll).isSome ∧
      ∀ cp ∈ pairsOf t0.hierarchy.reverse,
        ∃ ec pn, a.levels.lookup cp.1 = some ec ∧
          t0.childToParent cp.1 ec.assignment = some pn ∧
          a.levels.lookup cp.2 = some (inferred ec pn) := by
  obtain ⟨hm, _⟩ := dropLevel_hierarchy hdrop
  obtain ⟨pre, cl, post, hs⟩ := split_of_mem_ne_getLast hm (dropLevel_not_leaf hdrop)
  exact flatten_drop_eq t0 t' cfg vote l cl ll pre post ids cells order hdrop hs hleaf
    (wfb_of_validate hval hd) hv hlen hnd hproc hcs horder outA outB hA hB i id c hid hc

/-- both runs of `flatten_drop_eq_of_validate` succeed (non-vacuity of the
statement above, for every validator-accepted stored taxonomy) -/
theorem flatten_drop_both_succeed_of_validate {κ} (t0 t' : RawTree) (cfg : Config)
    (vote : Oracle κ) (l ll : Level) (ids : List CellId) (cells : List κ) (order : List Nat)
    (hdrop : t0.dropLevel l = .ok t') (hleaf : t0.leafLevel = some ll)
    (hval : t0.validate = .ok ()) (hd : DictOK t0) (hv : VoteOK t0.flatten vote)
    (hlen : ids.length = cells.length) (hnd : ids.Nodup)
    (hproc : 1 ≤ cfg.nProc) (hcs : 1 ≤ cfg.chunkSize)
    (horder : order.Perm (List.range
      (chunks cells.length (effChunk cells.length cfg.nProc cfg.chunkSize)).length)) :
    (∃ outA, mapPipeline t0 { cfg with dropLevel := some l, flatten := true } vote ids cells order
      = .ok outA) ∧
    (∃ outB, mapPipeline t0.flatten { cfg with dropLevel := none, flatten := false } vote ids cells
      order = .ok outB) := by
  obtain ⟨hm, _⟩ := dropLevel_hierarchy hdrop
  obtain ⟨pre, cl, post, hs⟩ := split_of_mem_ne_getLast hm (dropLevel_not_leaf hdrop)
  exact flatten_drop_both_succeed t0 t' cfg vote l cl ll pre post ids cells order hdrop hs hleaf
    (wfb_of_validate hval hd) hv hlen hnd hproc hcs horder

example : (∃ outA, mapPipeline exTree { dropLevel := some 1, flatten := true, chunkSize := 2, nProc := 2 }
      exVote [7, 3, 9] [0, 1, 2] [1, 0] = .ok outA) ∧
    (∃ outB, mapPipeline exTree.flatten { dropLevel := none, flatten := false, chunkSize := 2, nProc := 2 }
      exVote [7, 3, 9] [0, 1, 2] [1, 0] = .ok outB) :=
  flatten_drop_both_succeed_of_validate exTree exDropped { chunkSize := 2, nProc := 2 } exVote 1 2
    [7, 3, 9] [0, 1, 2] [1, 0] (by rfl) (by decide) exTree_accepted.1 exTree_accepted.2 (exVote_ok _)
    rfl (by decide) (by decide) (by decide) (by decide)

example : ∀ outA outB,
    mapPipeline exTree { dropLevel := some 1, flatten := true, chunkSize := 2, nProc := 2 } exVote
      [7, 3, 9] [0, 1, 2] [1, 0] = .ok outA →
    mapPipeline exTree.flatten { dropLevel := none, flatten := false, chunkSize := 2, nProc := 2 } exVote
      [7, 3, 9] [0, 1, 2] [1, 0] = .ok outB →
    ∃ a b, outA[2]? = some a ∧ outB[2]? = some b ∧ a.cellId = b.cellId ∧
      a.levels.lookup 2 = b.levels.lookup 2 ∧ (b.levels.lookup 2).isSome ∧
      ∀ cp ∈ pairsOf exTree.hierarchy.reverse,
        ∃ ec pn, a.levels.lookup cp.1 = some ec ∧
          exTree.childToParent cp.1 ec.assignment = some pn ∧
          a.levels.lookup cp.2 = some (inferred ec pn) :=
  fun outA outB hA hB =>
    flatten_drop_eq_of_validate exTree exDropped { chunkSize := 2, nProc := 2 } exVote 1 2 [7, 3, 9]
      [0, 1, 2] [1, 0] (by rfl) (by decide) exTree_accepted.1 exTree_accepted.2 (exVote_ok _) rfl
      (by decide) (by decide) (by decide) (by decide) outA outB hA hB 2 9 2 rfl rfl

end CTM.C17
