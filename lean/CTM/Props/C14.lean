/-
  C14 — a failed worker fails the run; no partial result passes as success.

  "If any worker process of any parallel stage terminates abnormally - killed,
  exiting non-zero, or raising, before, during or after its work - the call
  that started it raises an error.  A mapping run in that situation writes no
  result records, no CSV and no success message, though it still writes its
  log, and the other stages leave no file at the requested output location that
  a later stage would accept as complete."

  Model: CTM/Model/Procs.lean.  The operating system is a parameter: `exit w`
  (the code worker `w` ends with: non-zero for a kill, `os._exit(3)`, an
  uncaught exception - before, during or after its work makes no difference to
  the code the parent sees) and the schedule (which exit codes each poll sees).
  `CTM/Generated/Skeleton.lean` is re-extracted from the source on every run.
-/
import CTM.Lemmas.Procs
import CTM.Generated.Skeleton

namespace CTM.C14
open CTM.Procs

/-! ## `winnow_process_list` / `winnow_process_dict` (exact models) -/

/-- "exit codes inspected whenever the pool is drained; non-zero raises":
`winnow_process_list` raises iff some finished process has a non-zero exit
code, and then reports the code of the *last* such process in the list;
otherwise it returns exactly the processes still running, in order.
(`lastBad ps` = first finished non-zero code of `ps.reverse`.) -/
theorem winnow_list_exact {α} (ps : List (α × ExitCode)) :
    winnowList ps =
      match lastBad ps with
      | some c => .error c
      | none => .ok (ps.filter (fun p => p.2.isNone)) :=
  winnowList_eq ps

example : winnowList [(10, some 0), (11, none), (12, some 0), (13, none)]
    = .ok [(11, none), (13, none)] := by rfl
example : winnowList [(10, some 1), (11, none), (12, some (-9))] = .error (-9) := by rfl

/-- `winnow_process_list` succeeds iff every finished process exited with 0,
and then keeps exactly the running ones -/
theorem winnow_list_ok_iff {α} (ps r : List (α × ExitCode)) :
    winnowList ps = .ok r ↔
      (∀ p ∈ ps, p.2 = none ∨ p.2 = some 0) ∧ r = ps.filter (fun p => p.2.isNone) := by
  rw [winnowList_eq]
  constructor
  · intro h
    cases hb : lastBad ps with
    | some c => simp [hb] at h
    | none =>
      simp only [hb, Except.ok.injEq] at h
      refine ⟨fun p hp => ?_, h.symm⟩
      exact (badCode_none_iff _).mp ((lastBad_none_iff ps).mp hb p hp)
  · rintro ⟨h1, h2⟩
    have : lastBad ps = none :=
      (lastBad_none_iff ps).mpr (fun p hp => (badCode_none_iff _).mpr (h1 p hp))
    simp [this, h2]

example : winnowList [((), some 0), ((), none)] = .ok [((), none)] := by rfl

/-- `winnow_process_dict`: raises iff some finished process has a non-zero exit
code, reporting the *first* such key in dict order; otherwise returns exactly
the entries still running, in order -/
theorem winnow_dict_exact {κ} (ps : List (κ × ExitCode)) :
    winnowDict ps =
      match firstBadKey ps with
      | some e => .error e
      | none => .ok (ps.filter (fun p => p.2.isNone)) :=
  winnowDict_eq ps

example : winnowDict [(8, some 0), (0, none), (16, some 3), (24, some 1)] = .error (16, 3) := by
  rfl
example : winnowDict [(8, some 0), (0, none), (16, some 0)] = .ok [(0, none)] := by rfl

theorem winnow_dict_ok_iff {κ} (ps r : List (κ × ExitCode)) :
    winnowDict ps = .ok r ↔
      (∀ p ∈ ps, p.2 = none ∨ p.2 = some 0) ∧ r = ps.filter (fun p => p.2.isNone) := by
  rw [winnowDict_eq]
  constructor
  · intro h
    cases hb : firstBadKey ps with
    | some c => simp [hb] at h
    | none =>
      simp only [hb, Except.ok.injEq] at h
      refine ⟨fun p hp => ?_, h.symm⟩
      exact (badCode_none_iff _).mp ((firstBadKey_none_iff ps).mp hb p hp)
  · rintro ⟨h1, h2⟩
    have : firstBadKey ps = none :=
      (firstBadKey_none_iff ps).mpr (fun p hp => (badCode_none_iff _).mpr (h1 p hp))
    simp [this, h2]

example : winnowDict [(3, some 0), (5, none)] = .ok [(5, none)] := by rfl

/-! ## the start / poll / drain loop -/

/-- "If any worker process … terminates abnormally … the call that started it
raises an error" - contrapositive, for the common loop: for every number of
work items, every `n_processors`, **every schedule** of exit-code visibility
(no fairness, no monotonicity assumed: a worker that never shows an exit code
makes the loop spin, never succeed) and every assignment of exit codes, if the
loop returns normally then it started every item and every worker exited with
code 0.  (`KeysOK` is vacuous for list stages; for dict stages it says that
distinct workers are registered under distinct keys.) -/
theorem success_all_zero (kind : Container) (nItems nProc : Nat) (keyOf : Nat → Nat)
    (hk : KeysOK kind keyOf) (sched : List Poll) (exit : Nat → Int) (s : St)
    (h : pollLoop kind nItems nProc keyOf sched exit = .ok s) :
    s.started = nItems ∧ ∀ w, w < nItems → exit w = 0 := by
  have hst := pollLoop_ok_started h
  refine ⟨hst, ?_⟩
  have := exec_ok (env := { nItems, nProc, keyOf, exit }) hk canonicalProg (by decide) false
    (by decide) (good_init _ sched) (fun _ => rfl) h
  intro w hw
  rcases this.1.tracked w (hst ▸ hw) with ⟨k, hk'⟩ | h0
  · rw [this.2] at hk'; cases hk'
  · exact h0

/-- non-vacuity: 3 items on 2 slots, everybody exits 0, succeeds -/
example : (pollLoop .list 3 2 id [[0], [1, 2], [1, 2]] (fun _ => 0)).outcome = .ok := by decide
/-- … and with worker 1 killed the very same schedule raises with its code -/
example : (pollLoop .list 3 2 id [[0], [1, 2], [1, 2]] (fun w => if w = 1 then -9 else 0)).outcome
    = .failed (-9) := by decide
/-- a worker whose exit code never becomes visible: the loop spins -/
example : (pollLoop .dict 2 2 id [[0], [0], [0]] (fun _ => 0)).outcome = .spin := by decide
/-- why dict stages need distinct keys: two workers registered under the same
key, the first one fails and nobody notices -/
example : (pollLoop .dict 2 4 (fun _ => 7) [[0, 1]] (fun w => if w = 0 then 1 else 0)).outcome
    = .ok := by decide

/-- the converse direction of soundness: an error raised by the loop is never
spurious - the reported code is the non-zero exit code of a started worker -/
theorem failure_is_real (kind : Container) (nItems nProc : Nat) (keyOf : Nat → Nat)
    (hk : KeysOK kind keyOf) (sched : List Poll) (exit : Nat → Int) (code : Int) (s : St)
    (h : pollLoop kind nItems nProc keyOf sched exit = .failed code s) :
    code ≠ 0 ∧ ∃ w, w < s.started ∧ exit w = code :=
  exec_failed (env := { nItems, nProc, keyOf, exit }) hk canonicalProg (by decide)
    (good_init _ sched) h

example : (pollLoop .list 2 1 id [[0]] (fun _ => 3)).outcome = .failed 3 := by decide

/-- completeness - the model raises no false alarm: with `n_processors ≥ 1`, if
every worker exits with code 0 and the schedule offers at least `nItems + 1`
polls that see every worker's exit code, the loop returns normally.  (So
`success_all_zero` is not satisfied by a loop that never succeeds.) -/
theorem all_zero_succeeds (kind : Container) (nItems nProc : Nat) (keyOf : Nat → Nat)
    (hk : KeysOK kind keyOf) (hproc : 0 < nProc) (sched : List Poll) (exit : Nat → Int)
    (hz : ∀ w, w < nItems → exit w = 0) (hs : SeesAll nItems sched)
    (hlen : nItems < sched.length) :
    ∃ s, pollLoop kind nItems nProc keyOf sched exit = .ok s := by
  obtain ⟨s1, h1, hg1, hst1, hl1, hs1⟩ :=
    canonical_dispatch_all_done (kind := kind) (env := { nItems, nProc, keyOf, exit }) hk hproc hz
      nItems { sched := sched } (good_init _ sched) (by simp) hs hlen
  simp only [Nat.zero_add] at hst1 hl1
  have hne : s1.sched ≠ [] := by
    intro hc
    rw [hc] at hl1
    simp only [List.length_nil, Nat.zero_add] at hl1
    omega
  have hp1 : ∀ e ∈ s1.procs, e.2 < nItems := by
    intro e he
    have := (hg1.keyed e he).2
    omega
  obtain ⟨p', sc', hw, _, _, _⟩ :=
    waitBelow_all_done (kind := kind) (exit := exit) (limit := 1) (by decide) s1.procs s1.sched
      hs1 hne hp1 hz
  refine ⟨{ s1 with procs := p', sched := sc' }, ?_⟩
  simp only [pollLoop, canonicalProg, exec, execStmt, h1, hw]

example : SeesAll 3 [[0, 1, 2], [0, 1, 2], [0, 1, 2], [0, 1, 2]] := by
  intro poll hp w hw
  simp only [List.mem_cons, List.not_mem_nil, or_false, or_self] at hp
  subst hp
  have : w = 0 ∨ w = 1 ∨ w = 2 := by omega
  rcases this with rfl | rfl | rfl <;> simp

/-! ## generic soundness of a stage skeleton (the translator's IR) -/

/-- `skeleton_sound`, part 1: for **every** stage skeleton in which each
`p.start()` is followed by the registration of `p` in the polled container
and each dispatch loop is followed by a drain (`wellFormed`, a decidable
syntactic check), for every environment (items, `n_processors`, keys, exit
codes) and every schedule: if the stage returns normally, every worker it
started exited with code 0. -/
theorem skeleton_sound (kind : Container) (prog : List Stmt) (hwf : wellFormed prog = true)
    (env : Env) (hk : KeysOK kind env.keyOf) (sched : List Poll) (s : St)
    (h : exec kind env prog { sched := sched } = .ok s) :
    ∀ w, w < s.started → env.exit w = 0 := by
  simp only [wellFormed, Bool.and_eq_true] at hwf
  have := exec_ok hk prog hwf.1 false hwf.2 (good_init env sched) (fun _ => rfl) h
  intro w hw
  rcases this.1.tracked w hw with ⟨k, hk'⟩ | h0
  · rw [this.2] at hk'; cases hk'
  · exact h0

example : wellFormed CTM.Generated.pMask.prog = true := by decide
/-- an unregistered start breaks it (so the hypothesis is not idle) -/
example : (exec .list { nItems := 1, nProc := 2, keyOf := id, exit := fun _ => 1 }
    [.dispatch [.start false, .pollWhileFull], .drain] { sched := [] }).outcome = .ok := by decide

/-- `skeleton_sound`, part 2: a stage that does not return normally (a worker
failed, or it waits for ever) has written at the requested output location
only what precedes one of its dispatch loops / drains (`failureFiles`); a
stage that returns normally has written everything (`writes`). -/
theorem skeleton_failure_output (kind : Container) (prog : List Stmt) (env : Env)
    (sched : List Poll) :
    match exec kind env prog { sched := sched } with
    | .ok s => s.file = writes prog
    | .failed _ s => s.file ∈ failureFiles prog
    | .spin s => s.file ∈ failureFiles prog := by
  have := exec_file kind env prog { sched := sched }
  cases h : exec kind env prog { sched := sched } with
  | ok s => rw [h] at this; simpa using this
  | failed c s =>
    rw [h] at this
    obtain ⟨f, hf, he⟩ := this
    simp only [List.nil_append] at he
    simpa [he] using hf
  | spin s =>
    rw [h] at this
    obtain ⟨f, hf, he⟩ := this
    simp only [List.nil_append] at he
    simpa [he] using hf

example : failureFiles CTM.Generated.pMask.prog = [["_prep_output_file"], ["_prep_output_file"]] := by
  decide

/-- a failure reported by a well-formed stage is the non-zero exit code of one
of its workers -/
theorem skeleton_failure_is_real (kind : Container) (prog : List Stmt)
    (hwf : wellFormed prog = true) (env : Env) (hk : KeysOK kind env.keyOf) (sched : List Poll)
    (code : Int) (s : St) (h : exec kind env prog { sched := sched } = .failed code s) :
    code ≠ 0 ∧ ∃ w, w < s.started ∧ env.exit w = code := by
  simp only [wellFormed, Bool.and_eq_true] at hwf
  exact exec_failed hk prog hwf.1 (good_init env sched) h

example : (exec .dict { nItems := 2, nProc := 2, keyOf := id, exit := fun _ => 3 }
    CTM.Generated.refMarkers.prog { sched := [[1]] }).outcome = .failed 3 := by decide

/-! ## per-stage obligations on the regenerated skeletons (closed, by `decide`) -/

/-- the translator still finds all seven parallel stages -/
theorem generated_stage_names :
    CTM.Generated.stages.map (·.name) =
      ["mapping", "stats", "refMarkers", "pMask", "pMarkers", "selection", "transpose"] := by
  decide

/-- the seven stages are all there is: the only functions of the package that
create a `multiprocessing.Process` are the dispatch functions of those stages
(and the two in `corr/`, which no property covers) -/
theorem generated_process_sites :
    CTM.Generated.processSites =
      ["corr/correlate_cells.py:correlate_cells",
       "corr/correlate_cells.py:corrmap_cells",
       "diff_exp/markers.py:create_sparse_by_pair_marker_file",
       "diff_exp/p_value_markers.py:create_sparse_by_pair_marker_file_from_p_mask",
       "diff_exp/p_value_mask.py:_create_p_value_mask_file",
       "diff_exp/precompute_from_anndata.py:_precompute_summary_stats_from_h5ad_and_lookup",
       "marker_selection/selection_pipeline.py:select_all_markers",
       "type_assignment/election.py:run_type_assignment_on_h5ad_cpu",
       "utils/csc_to_csr_parallel.py:_transpose_sparse_matrix_on_disk_v2"] := by
  decide

/-- every regenerated stage: has a dispatch loop, registers every started
process in the container it polls (with the matching winnow function), drains
after the loop, merges by a recognised discipline, and (dict stages) registers
its workers under keys that are distinct by construction -/
theorem generated_stages_ok : ∀ s ∈ CTM.Generated.stages, s.ok = true := by decide

/-- "the other stages leave no file at the requested output location that a
later stage would accept as complete": in every regenerated stage that writes
at a requested location, whatever can be there after a failure lacks at least
the last write of a complete run -/
theorem generated_failure_incomplete :
    ∀ s ∈ CTM.Generated.stages,
      writes s.prog = [] ∨ ∀ f ∈ failureFiles s.prog, f.length < (writes s.prog).length := by
  decide

/-- "marker file assembled in scratch space and moved into place last" /
"statistics file receives its taxonomy dataset only after all numeric data":
for the statistics, reference-marker (both routes) and transposition stages
nothing at all is written at the requested location before the drain -/
theorem generated_nothing_before_drain :
    ∀ s ∈ CTM.Generated.stages, s.name ∈ ["stats", "refMarkers", "pMarkers", "transpose"] →
      ∀ f ∈ failureFiles s.prog, f = [] := by
  decide

/-- the two theorems above instantiated: every regenerated stage, every
environment with distinct keys, every schedule - success means all workers
exited 0; otherwise the output location holds an incomplete prefix -/
theorem generated_stage_sound (st : Stage) (hst : st ∈ CTM.Generated.stages) (env : Env)
    (hk : KeysOK st.container env.keyOf) (sched : List Poll) :
    match exec st.container env st.prog { sched := sched } with
    | .ok s => ∀ w, w < s.started → env.exit w = 0
    | .failed c s => c ≠ 0 ∧ (writes st.prog = [] ∨ s.file.length < (writes st.prog).length)
    | .spin s => writes st.prog = [] ∨ s.file.length < (writes st.prog).length := by
  have hok := generated_stages_ok st hst
  simp only [Stage.ok, Bool.and_eq_true] at hok
  replace hok := hok.1
  have hinc := generated_failure_incomplete st hst
  have hout := skeleton_failure_output st.container st.prog env sched
  cases h : exec st.container env st.prog { sched := sched } with
  | ok s => exact skeleton_sound _ _ hok.1.1 env hk sched s h
  | failed c s =>
    rw [h] at hout
    refine ⟨(skeleton_failure_is_real _ _ hok.1.1 env hk sched c s h).1, ?_⟩
    rcases hinc with h0 | h1
    · exact Or.inl h0
    · exact Or.inr (h1 _ hout)
  | spin s =>
    rw [h] at hout
    rcases hinc with h0 | h1
    · exact Or.inl h0
    · exact Or.inr (h1 _ hout)

example : CTM.Generated.stats ∈ CTM.Generated.stages := by decide
/-- the selection stage's in-loop poll (`… or not have_chosen_parent`): after
worker 0 no further item can be chosen (`blocked 1`), so the loop keeps polling
until worker 0 is gone although only one of four slots is in use -/
example : (exec .dict
    { nItems := 2, nProc := 4, keyOf := id, exit := (fun _ => 0), blocked := (fun w => w == 1) }
    CTM.Generated.selection.prog { sched := [[], [], [0], [1]] }).outcome = .ok := by decide
example : (exec .dict
    { nItems := 2, nProc := 4, keyOf := id, exit := (fun _ => 0), blocked := (fun w => w == 1) }
    CTM.Generated.selection.prog { sched := [[], [], []] }).outcome = .spin := by decide

/-! ## `run_mapping` -/

/-- the shape of `run_mapping` / `_run_mapping` / `blob_to_hdf5` that the model
`runMapping` transcribes is the one the translator finds in the source -/
theorem mapping_shape_matches : CTM.Generated.runMappingShape = expectedMappingShape := by decide

/-- "A mapping run in that situation writes no result records, no CSV and no
success message, though it still writes its log": if the type assignment
raises (a worker failed) then `run_mapping` raises; the JSON it writes has no
`results`; the HDF5 file holds the `metadata` dataset only, without `results`
in it; no CSV is written; the log file is written (when a log path is given),
contains the traceback and not the success line. -/
theorem mapping_failure_output (r : InnerRun) (h : r.assignRaises = true) :
    let w := runMapping r
    w.raised = true ∧ w.csv = false ∧
    (∀ ks, w.json = some ks → "results" ∉ ks) ∧
    (∀ m ds, w.hdf5 = some (m, ds) → ds = ["metadata"] ∧ "results" ∉ m) ∧
    (r.jsonRequested = true → w.json.isSome) ∧
    (r.logRequested = true → ∃ l, w.logFile = some l ∧ LogLine.success ∉ l ∧ LogLine.traceback ∈ l) := by
  obtain ⟨a, b, c, d, e, f, g⟩ := r
  simp only at h
  subst h
  cases e <;> cases f <;> cases g <;> simp [runMapping, innerRun, blobToHdf5]

example : (runMapping { assignRaises := true, csvRequested := true }).raised = true := by decide

/-- the same holds for any failure inside `_run_mapping` except that a CSV may
exist if the failure came after it was written; and a failure can never be
reported as success: the success line is logged iff the call does not raise -/
theorem mapping_success_line_iff (r : InnerRun) :
    let w := runMapping r
    (∀ l, w.logFile = some l → (LogLine.success ∈ l ↔ w.raised = false)) ∧
    (∀ ks, w.json = some ks → "results" ∈ ks → r.assignRaises = false ∧ r.lateRaises = false) := by
  obtain ⟨a, b, c, d, e, f, g⟩ := r
  cases a <;> cases c <;> cases d <;> cases e <;> cases f <;> simp [runMapping, innerRun]

/-- non-vacuity of the model: a run in which nothing raises writes results,
the CSV and the success line -/
example : let w := runMapping { assignRaises := false, csvRequested := true }
    w.raised = false ∧ w.csv = true ∧ (∃ ks, w.json = some ks ∧ "results" ∈ ks) := by decide

/-- "HDF5 result writer emits only metadata when results are absent":
`blob_to_hdf5` of a blob without `results` creates the `metadata` dataset and
nothing else, and the metadata never contains `results` -/
theorem hdf5_metadata_only (keys : Keys) :
    "results" ∉ (blobToHdf5 keys).1 ∧
    ("results" ∉ keys → blobToHdf5 keys = (keys, ["metadata"])) := by
  constructor
  · simp [blobToHdf5]
  · intro h
    have h1 : keys.filter (· != "results") = keys := by
      rw [List.filter_eq_self]
      intro k hk
      simp only [bne_iff_ne, ne_eq]
      intro hc
      exact h (hc ▸ hk)
    have h2 : keys.contains "results" = false := by simpa using h
    simp only [blobToHdf5, h1, h2, Bool.and_false]
    rfl

example : blobToHdf5 ["config", "log", "metadata"] = (["config", "log", "metadata"], ["metadata"]) := by
  decide
example : (blobToHdf5 ["results", "taxonomy_tree", "config"]).2.length > 1 := by decide

/-! ## the property in its direct form, and the mapping end to end -/

/-- the property in its direct form: in a well-formed stage, if some started
worker ends with a non-zero exit code, the stage does not return normally
(it raises, or - if that worker's exit code never becomes visible - waits) -/
theorem failed_worker_never_ok (kind : Container) (prog : List Stmt) (hwf : wellFormed prog = true)
    (env : Env) (hk : KeysOK kind env.keyOf) (sched : List Poll)
    (hbad : ∃ w, w < (exec kind env prog { sched := sched }).state.started ∧ env.exit w ≠ 0) :
    (exec kind env prog { sched := sched }).outcome ≠ .ok := by
  intro hok
  cases h : exec kind env prog { sched := sched } with
  | ok s =>
    rw [h] at hbad
    obtain ⟨w, hw, hne⟩ := hbad
    exact hne (skeleton_sound kind prog hwf env hk sched s h w hw)
  | failed c s => rw [h] at hok; cases hok
  | spin s => rw [h] at hok; cases hok

/-- `run_mapping` on top of the regenerated mapping stage: the type assignment
raises exactly when the stage machine fails -/
def mappingRun (env : Env) (sched : List Poll) (csvRequested : Bool) : MappingWorld :=
  runMapping
    { assignRaises :=
        match exec CTM.Generated.mapping.container env CTM.Generated.mapping.prog { sched := sched } with
        | .failed _ _ => true
        | _ => false
      csvRequested := csvRequested }

/-- end to end for the mapping: for every number of chunks, `n_processors`,
schedule and exit-code assignment, if the poll loop of
`run_type_assignment_on_h5ad_cpu` (as re-extracted from the source) raises
because of a worker, then `run_mapping` raises, its JSON has no `results`, no
CSV exists, the log is written without the success line; and the loop cannot
return normally if a started worker has a non-zero exit code -/
theorem mapping_end_to_end (env : Env) (sched : List Poll) (csv : Bool) :
    let r := exec CTM.Generated.mapping.container env CTM.Generated.mapping.prog { sched := sched }
    ((∃ w, w < r.state.started ∧ env.exit w ≠ 0) → r.outcome ≠ .ok) ∧
    (∀ c s, r = .failed c s →
      let w := mappingRun env sched csv
      w.raised = true ∧ w.csv = false ∧ (∀ ks, w.json = some ks → "results" ∉ ks) ∧
      (∃ l, w.logFile = some l ∧ LogLine.success ∉ l)) := by
  constructor
  · intro hbad
    have hwf : wellFormed CTM.Generated.mapping.prog = true := by decide
    have hk : KeysOK CTM.Generated.mapping.container env.keyOf := by
      intro h; exact absurd h (by decide)
    exact failed_worker_never_ok _ _ hwf env hk sched hbad
  · intro c s hr
    have hm := mapping_failure_output
      { assignRaises := true, csvRequested := csv } rfl
    simp only [mappingRun, hr]
    obtain ⟨h1, h2, h3, _, _, h6⟩ := hm
    exact ⟨h1, h2, h3, by
      obtain ⟨l, hl, hs, _⟩ := h6 rfl
      exact ⟨l, hl, hs⟩⟩

example : (mappingRun { nItems := 3, nProc := 2, keyOf := id, exit := fun w => if w = 2 then -9 else 0 }
    [[0], [1, 2], [1, 2]] true).raised = true := by decide

end CTM.C14
