import CTM.Model.Procs
namespace CTM.C14
theorem placeholder_true : True := trivial
end CTM.C14
