import CTM.Model.Tree
