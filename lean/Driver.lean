/-
  Line-protocol driver: one JSON object per input line
    {"id": .., "op": "tree.validate", "in": {...}}
  one JSON object per output line
    {"id": .., "out": {...}}   or   {"id": .., "error": "..."}
-/
import CTM.Drive.Util
import CTM.Drive.Tree
import CTM.Drive.Sparse
import CTM.Drive.Election
import CTM.Drive.LevelLoop
import CTM.Drive.Markers
import CTM.Drive.Stats
import CTM.Drive.Validate
import CTM.Drive.RefMarkers
import CTM.Drive.Selection
import CTM.Drive.Procs
import CTM.Drive.Scratch
import CTM.Drive.Sanitize
import CTM.Drive.Output
open Lean CTM.Drive

def handlers : List Handler := [
  CTM.Drive.Tree.handle,
  CTM.Drive.Sparse.handle,
  CTM.Drive.Election.handle,
  CTM.Drive.LevelLoop.handle,
  CTM.Drive.Markers.handle,
  CTM.Drive.Stats.handle,
  CTM.Drive.Validate.handle,
  CTM.Drive.RefMarkers.handle,
  CTM.Drive.Selection.handle,
  CTM.Drive.Procs.handle,
  CTM.Drive.Scratch.handle,
  CTM.Drive.Sanitize.handle,
  CTM.Drive.Output.handle]

def dispatch (op : String) (inp : Json) : R Json :=
  let rec go : List Handler → R Json
    | [] => .error s!"unknown op {op}"
    | h :: hs => match h op inp with
      | some r => r
      | none => go hs
  go handlers

def processLine (line : String) : String :=
  match Json.parse line with
  | .error e => (jObj [("error", jStr s!"parse: {e}")]).compress
  | .ok j =>
    let id := fieldD j "id" Json.null
    match (do let op ← asStr (← field j "op"); dispatch op (fieldD j "in" (Json.mkObj []))) with
    | .ok out => (jObj [("id", id), ("out", out)]).compress
    | .error e => (jObj [("id", id), ("error", jStr e)]).compress

partial def loop (hin hout : IO.FS.Stream) : IO Unit := do
  let line ← hin.getLine
  if line.isEmpty then return ()
  let l := line.trimAscii.toString
  if !l.isEmpty then
    hout.putStrLn (processLine l)
    hout.flush
  loop hin hout

def main : IO Unit := do
  loop (← IO.getStdin) (← IO.getStdout)
