"""
Shared helpers of the election suites (C02, C03, C18): exact rationals on the
wire, a recording RNG, independent (obviously correct) recomputations used as
predicates on the implementation, trace parsing and the per-record C03
predicate.

Nothing in here calls the code under test except `run_traced_mapping`, which
runs the real `run_mapping`.
"""
import glob
import json
import math
import os
from fractions import Fraction

import numpy as np

REL = 1e-9
ABS = 1e-12


# ---------------------------------------------------------------------------
# numbers
# ---------------------------------------------------------------------------

def rat(x):
    """float/int -> exact JSON rational ([num, den] or a bare int)"""
    if isinstance(x, (int, np.integer)):
        return int(x)
    if isinstance(x, Fraction):
        return [x.numerator, x.denominator] if x.denominator != 1 \
            else x.numerator
    n, d = float(x).as_integer_ratio()
    return [n, d] if d != 1 else n


def rats(xs):
    return [rat(x) for x in xs]


def frac(j):
    if isinstance(j, list):
        return Fraction(int(j[0]), int(j[1]))
    return Fraction(int(j))


def ssq_to_r(s):
    """signed squared correlation (Fraction) -> correlation as a float"""
    f = float(s)
    return math.copysign(math.sqrt(abs(f)), f) if f != 0 else 0.0


def near(a, b, rel=REL, ab=ABS):
    return abs(a - b) <= max(ab, rel * max(abs(a), abs(b)))


def round_half_even(q):
    """independent statement of numpy.round on an exact value"""
    q = Fraction(q)
    lo = q.numerator // q.denominator
    r = q - lo
    if r < Fraction(1, 2):
        return lo
    if r > Fraction(1, 2):
        return lo + 1
    return lo if lo % 2 == 0 else lo + 1


def expected_subset_size(factor, n_markers):
    """max(1, round(factor x n)); the product is the float64 product"""
    if n_markers == 0:
        return 0
    return max(1, round_half_even(Fraction(float(factor) * n_markers)))


def whole_votes(p, iters):
    """bootstrapping probability -> vote count, or None if not whole"""
    v = p * iters
    k = int(round(v))
    if abs(v - k) > 1e-9:
        return None
    return k


# ---------------------------------------------------------------------------
# recording rng
# ---------------------------------------------------------------------------

class RecordingRng(object):
    """wraps a numpy Generator and keeps every array `choice` returned"""

    def __init__(self, seed):
        self._rng = np.random.default_rng(seed)
        self.draws = []

    def choice(self, *args, **kwargs):
        out = self._rng.choice(*args, **kwargs)
        self.draws.append(np.array(out).tolist())
        return out

    def __getattr__(self, name):
        return getattr(self._rng, name)


# ---------------------------------------------------------------------------
# independent recomputation (exact and float)
# ---------------------------------------------------------------------------

def exact_ssq(x, y):
    """sign(r) r^2 of the Pearson correlation of two equally long sequences of
    floats, in exact arithmetic; 0 when either is constant"""
    n = len(x)
    if n == 0:
        return Fraction(0)
    fx = [Fraction(v) for v in x]
    fy = [Fraction(v) for v in y]
    mx = sum(fx) / n
    my = sum(fy) / n
    c = sum((a - mx) * (b - my) for a, b in zip(fx, fy))
    vx = sum((a - mx) ** 2 for a in fx)
    vy = sum((b - my) ** 2 for b in fy)
    if vx == 0 or vy == 0:
        return Fraction(0)
    s = c * c / (vx * vy)
    return s if c >= 0 else -s


def float_corr(refs, x):
    """Pearson correlation of the row x with every row of refs (float64,
    written from the definition; constant rows -> 0)"""
    refs = np.asarray(refs, dtype=float)
    x = np.asarray(x, dtype=float)
    out = np.zeros(refs.shape[0])
    if x.size == 0:
        return out
    xc = x - x.mean()
    nx = math.sqrt(float((xc * xc).sum()))
    if np.ptp(x) == 0:
        nx = 0.0          # a constant row, whatever its float mean
    for i in range(refs.shape[0]):
        yc = refs[i] - refs[i].mean()
        ny = math.sqrt(float((yc * yc).sum()))
        if np.ptp(refs[i]) == 0:
            ny = 0.0
        if nx == 0.0 or ny == 0.0:
            out[i] = 0.0
        else:
            out[i] = float((xc * yc).sum()) / (nx * ny)
    return out


def fragile_constant(rows):
    """True if some row is constant but its float mean is not that constant
    (e.g. [0.1, 0.1, 0.1]): the code's centred row is then rounding noise
    instead of zeros and its correlation is numerically meaningless (the exact
    value is 0, Pearson being undefined). Such an iteration is treated as a
    tie between all leaves."""
    for r in np.atleast_2d(np.asarray(rows, dtype=float)):
        if r.size and np.ptp(r) == 0 and r.mean() != r[0]:
            return True
    return False


def subset_problems(subset, n_markers, size):
    """the C02 clause on one drawn subset"""
    probs = []
    if len(set(subset)) != len(subset):
        probs.append('duplicate')
    if any((not 0 <= int(i) < n_markers) for i in subset):
        probs.append('out-of-range')
    if len(subset) != size:
        probs.append('size %d != %d' % (len(subset), size))
    return probs


def tally_by_child(types, leaf_votes, leaf_corr):
    """leaf votes -> child votes, by a dict"""
    v = {}
    c = {}
    for t, a, b in zip(types, leaf_votes, leaf_corr):
        v[t] = v.get(t, 0) + int(a)
        c[t] = c.get(t, 0.0) + b
    return v, c


def check_choice(children_votes, children_corr, iters, n_runners,
                 winner, prob, avg_corr, r_names, r_corr, r_prob,
                 corr_tol=REL):
    """C02's last clauses on one (cell, node): returns list of problems.
    children_votes/corr: dict child -> votes / correlation sum recomputed
    independently. r_* : the three runner-up lists (votes > 0 only)."""
    probs = []
    best = max(children_votes.values())
    if winner not in children_votes:
        return [('winner-not-child', 'winner %r is not a child' % (winner,))]
    if children_votes[winner] != best:
        probs.append(('winner-not-plurality', 'winner %r has %d votes, maximum is %d'
                     % (winner, children_votes[winner], best)))
    want_p = children_votes[winner] / iters
    if prob != want_p:
        probs.append(('probability', 'probability %r != votes/iterations = %d/%d'
                     % (prob, children_votes[winner], iters)))
    if children_votes[winner] > 0 and avg_corr is not None:
        want_c = children_corr[winner] / children_votes[winner]
        if not near(avg_corr, want_c, rel=corr_tol, ab=corr_tol):
            probs.append(('avg-correlation', 'avg_correlation %r != %r' % (avg_corr, want_c)))
    others = sorted(((v, k) for k, v in children_votes.items()
                     if k != winner and v > 0), key=lambda t: -t[0])
    n_listed = min(n_runners, len(children_votes) - 1)
    # what may be listed: the top n_listed of the other children by votes
    # (ties in any order), of which only those with votes > 0 are kept
    if not (len(r_names) == len(r_corr) == len(r_prob)):
        probs.append(('runner-length', 'runner-up lists of different length'))
        return probs
    if len(set(r_names)) != len(r_names) or winner in r_names:
        probs.append(('runner-names', 'runner-up names repeat / contain the winner'))
    want_len = min(n_listed, len(others))
    if len(r_names) != want_len:
        probs.append(('runner-count', '%d runners-up listed, %d expected'
                     % (len(r_names), want_len)))
    got_votes = []
    for nm, cc, pp in zip(r_names, r_corr, r_prob):
        if nm not in children_votes:
            probs.append(('runner-not-child', 'runner-up %r is not a child' % (nm,)))
            continue
        if pp != children_votes[nm] / iters:
            probs.append(('runner-probability', 'runner-up %r probability %r != %d/%d'
                         % (nm, pp, children_votes[nm], iters)))
        if children_votes[nm] > 0 and not near(
                cc, children_corr[nm] / children_votes[nm],
                rel=corr_tol, ab=corr_tol):
            probs.append(('runner-correlation', 'runner-up %r correlation %r != %r'
                         % (nm, cc, children_corr[nm] / children_votes[nm])))
        got_votes.append(children_votes[nm])
    if got_votes != sorted(got_votes, reverse=True):
        probs.append(('runner-order', 'runners-up not in order of decreasing share'))
    if got_votes and got_votes != [v for v, _ in others[:len(got_votes)]]:
        probs.append(('runner-not-top', 'runners-up are not the top vote getters: %r vs %r'
                     % (got_votes, [v for v, _ in others[:len(got_votes)]])))
    return probs


def order_from_output(col_types, col_votes, listed):
    """an `argsort(...)[::-1]` row consistent with what the code listed:
    the listed types first (winner, runners-up in order), the rest by
    non-increasing votes"""
    idx_of = {}
    for i, t in enumerate(col_types):
        idx_of.setdefault(t, i)
    head = []
    for t in listed:
        if t in idx_of and idx_of[t] not in head:
            head.append(idx_of[t])
    rest = [i for i in range(len(col_types)) if i not in head]
    rest.sort(key=lambda i: -col_votes[i])
    # unlisted columns with more votes than the last listed one would make
    # the order invalid; the model says so (validOrder = false)
    return head + rest


# ---------------------------------------------------------------------------
# a small tree census (independent of TaxonomyTree)
# ---------------------------------------------------------------------------

class TreeView(object):
    """leaf -> ancestor at each level, from the tree dict alone"""

    def __init__(self, tree):
        self.hierarchy = list(tree['hierarchy'])
        h = self.hierarchy
        self.leaves = list(tree[h[-1]].keys())
        parent = {}
        for pl, cl in zip(h[:-1], h[1:]):
            for p, kids in tree[pl].items():
                for k in kids:
                    parent[(cl, k)] = p
        self.parent = parent
        self.anc = {}
        for leaf in self.leaves:
            d = {h[-1]: leaf}
            cur = leaf
            for pl, cl in zip(h[-2::-1], h[-1:0:-1]):
                cur = parent[(cl, cur)]
                d[pl] = cur
            self.anc[leaf] = d

    def run_hierarchy(self, flatten=False, drop_level=None):
        h = list(self.hierarchy)
        if drop_level is not None and drop_level in h:
            h = [l for l in h if l != drop_level]
        if flatten:
            h = [h[-1]]
        return h

    def leaves_under(self, level, node):
        if level is None:
            return sorted(self.leaves)
        return sorted(l for l in self.leaves if self.anc[l][level] == node)

    def children(self, run_h, level, node):
        """children of (level,node) in the run tree, and the child level"""
        if level is None:
            cl = run_h[0]
        else:
            cl = run_h[run_h.index(level) + 1]
        return cl, sorted(set(self.anc[l][cl]
                              for l in self.leaves_under(level, node)))

    def ancestor_of_node(self, level, node, up_level):
        for l in self.leaves:
            if self.anc[l][level] == node:
                return self.anc[l][up_level]
        return None


# ---------------------------------------------------------------------------
# files and trace
# ---------------------------------------------------------------------------

def read_stats_means(stats_path):
    """leaf means straight from the statistics file"""
    import h5py
    with h5py.File(stats_path, 'r') as src:
        genes = json.loads(src['col_names'][()].decode('utf-8'))
        c2r = json.loads(src['cluster_to_row'][()].decode('utf-8'))
        n = src['n_cells'][()]
        s = src['sum'][()]
        tree = json.loads(src['taxonomy_tree'][()].decode('utf-8'))
    means = {}
    for leaf, row in c2r.items():
        means[leaf] = s[row, :] / max(1, n[row])
    return genes, means, tree


def read_query(query_path, normalization):
    """query matrix as log2(CPM+1), computed with numpy directly"""
    import anndata
    a = anndata.read_h5ad(query_path)
    X = a.X
    if hasattr(X, 'toarray'):
        X = X.toarray()
    X = np.asarray(X, dtype=float)
    if normalization == 'raw':
        rs = X.sum(axis=1)
        den = np.where(rs > 0, rs, 1.0)
        X = np.log2(1.0 + 1.0e6 * (X.T / den)).T
    return list(a.obs.index.values), list(a.var.index.values), X


def parse_trace(prefix):
    """-> list of chunks: {'r0','r1','cell_ids','nodes':[{parent,...,
    'subsets':[...]}]}"""
    chunks = []
    for f in sorted(glob.glob(str(prefix) + '.*')):
        nodes = []
        cur = None
        for line in open(f):
            line = line.strip()
            if not line:
                continue
            ev = json.loads(line)
            if ev['kind'] == 'node':
                cur = dict(ev)
                cur['subsets'] = []
                cur['n_markers_seen'] = []
                nodes.append(cur)
            elif ev['kind'] == 'subset':
                if cur is None:
                    raise ValueError('subset event before any node event')
                cur['subsets'].append(list(ev['chosen_idx']))
                cur['n_markers_seen'].append(ev['n_markers'])
            elif ev['kind'] == 'chunk':
                chunks.append({'r0': ev['r0'], 'r1': ev['r1'],
                               'cell_ids': list(ev['cell_ids']),
                               'nodes': nodes})
                nodes = []
                cur = None
        if nodes:
            chunks.append({'r0': None, 'r1': None, 'cell_ids': None,
                           'nodes': nodes, 'unterminated': True})
    chunks.sort(key=lambda c: (c['r0'] is None, c['r0']))
    return chunks


def run_traced_mapping(d, config):
    from ctmverif import pipeline
    prefix = os.path.join(str(d), 'trace')
    old = os.environ.get('CELL_TYPE_MAPPER_VERIF_TRACE')
    os.environ['CELL_TYPE_MAPPER_VERIF_TRACE'] = prefix
    os.environ['CELL_TYPE_MAPPER_VERIF'] = '1'
    try:
        res = pipeline.run_mapping(config)
    finally:
        if old is None:
            os.environ.pop('CELL_TYPE_MAPPER_VERIF_TRACE', None)
        else:
            os.environ['CELL_TYPE_MAPPER_VERIF_TRACE'] = old
    res['chunks'] = parse_trace(prefix)
    return res


# ---------------------------------------------------------------------------
# C03: the arithmetic contract of one result record
# ---------------------------------------------------------------------------

RUNNER_KEYS = ('runner_up_assignment', 'runner_up_correlation',
               'runner_up_probability')


def c03_record_problems(cell, tv, run_h, iters, n_runners):
    """problems of one cell's record (dict level -> fields) against the
    contract; tv = TreeView of the full tree; run_h = hierarchy of the tree
    the run used.  Returns [(class, message)]"""
    out = []
    full_h = tv.hierarchy

    def bad(cls, msg):
        out.append((cls, msg))

    for lv in full_h:
        if lv not in cell or not isinstance(cell[lv], dict):
            bad('missing-level', 'level %r missing' % lv)
            return out
    leaf = cell[full_h[-1]]['assignment']
    if leaf not in tv.anc:
        bad('leaf-unknown', 'leaf %r not in the tree' % (leaf,))
        return out
    # --- directly assigned levels
    agg = 1.0
    parent_level = None
    chosen_corr = {}      # run level -> avg_corr where a real choice was made
    single = []
    for lv in run_h:
        r = cell[lv]
        if r.get('directly_assigned') is not True:
            bad('direct-flag', 'level %r not marked directly_assigned' % lv)
        for k in RUNNER_KEYS + ('bootstrapping_probability',
                                'avg_correlation', 'aggregate_probability'):
            if k not in r:
                bad('missing-field', 'level %r lacks %s' % (lv, k))
                return out
        if r['assignment'] != tv.anc[leaf][lv]:
            bad('tree-consistency', 'level %r assignment is not the '
                'ancestor of the leaf' % lv)
        p = r['bootstrapping_probability']
        votes = whole_votes(p, iters)
        if votes is None:
            bad('prob-not-whole', 'level %r probability %r is not a whole '
                'number of votes out of %d' % (lv, p, iters))
            votes = 0
        if not (0 < p <= 1):
            bad('prob-range', 'level %r probability %r outside (0,1]'
                % (lv, p))
        pnode = None if parent_level is None else cell[parent_level][
            'assignment']
        _, sibs = tv.children(run_h, parent_level, pnode)
        ra, rc, rp = (r[k] for k in RUNNER_KEYS)
        if not (len(ra) == len(rc) == len(rp)):
            bad('runner-length', 'level %r runner-up lists differ in length'
                % lv)
        elif len(ra) > n_runners:
            bad('runner-too-many', 'level %r lists %d runners-up, %d '
                'requested' % (lv, len(ra), n_runners))
        else:
            if len(set(ra)) != len(ra) or r['assignment'] in ra:
                bad('runner-names', 'level %r runner-up names repeat or '
                    'contain the winner' % lv)
            if any(a not in sibs for a in ra):
                bad('runner-not-sibling', 'level %r runner-up is not a '
                    'sibling of the winner' % lv)
            rv = []
            for pp in rp:
                k = whole_votes(pp, iters)
                if k is None or pp <= 0:
                    bad('runner-prob', 'level %r runner-up probability %r '
                        'not a positive whole number of votes' % (lv, pp))
                    k = 0
                rv.append(k)
            if rv != sorted(rv, reverse=True):
                bad('runner-order', 'level %r runner-up probabilities '
                    'increase' % lv)
            if rv and rv[0] > votes:
                bad('runner-exceeds-winner', 'level %r runner-up has more '
                    'votes than the winner' % lv)
            tot = votes + sum(rv)
            if tot > iters:
                bad('sum-gt-one', 'level %r winner+runners-up = %d votes '
                    'of %d' % (lv, tot, iters))
            if (n_runners + 1 >= len(sibs) or len(ra) < n_runners) and \
                    tot != iters and \
                    not any(c == 'prob-not-whole' for c, _ in out):
                bad('sum-ne-one', 'level %r: the runner-up list is not full '
                    '(%d of %d) / all siblings could be listed, but winner + '
                    'runners-up hold %d of %d votes'
                    % (lv, len(ra), n_runners, tot, iters))
            for cc in rc:
                if cc is None or not (-1 - REL <= cc <= 1 + REL):
                    bad('corr-range', 'level %r runner-up correlation %r'
                        % (lv, cc))
        c = r['avg_correlation']
        if c is not None and not (-1 - REL <= c <= 1 + REL):
            bad('corr-range', 'level %r avg_correlation %r' % (lv, c))
        agg *= p
        if not near(r['aggregate_probability'], agg):
            bad('aggregate', 'level %r aggregate_probability %r != running '
                'product %r' % (lv, r['aggregate_probability'], agg))
        if len(sibs) == 1:
            single.append(lv)
            if p != 1.0:
                bad('single-child-prob', 'level %r: single child but '
                    'probability %r' % (lv, p))
            if len(ra) or len(rc) or len(rp):
                bad('single-child-runners', 'level %r: single child but '
                    'runners-up listed' % lv)
        else:
            chosen_corr[lv] = c
            if c is None:
                bad('corr-missing', 'level %r: a choice was made but '
                    'avg_correlation is null' % lv)
        parent_level = lv
    # single-child levels: correlation of the nearest level where a real
    # choice was made (above if there is one, else below; null if none)
    for lv in single:
        i = run_h.index(lv)
        above = [l for l in run_h[:i] if l in chosen_corr]
        below = [l for l in run_h[i + 1:] if l in chosen_corr]
        if above:
            want = chosen_corr[above[-1]]
        elif below:
            want = chosen_corr[below[0]]
        else:
            want = None
        got = cell[lv]['avg_correlation']
        if (want is None) != (got is None) or \
                (want is not None and got != want):
            bad('single-child-corr', 'level %r: single child, correlation '
                '%r, nearest real choice has %r' % (lv, got, want))
    # --- inferred levels
    for i, lv in enumerate(full_h):
        if lv in run_h:
            continue
        r = cell[lv]
        below = [l for l in full_h[i + 1:] if l in run_h]
        if not below:
            bad('inferred-no-descendant', 'level %r has no voted '
                'descendant' % lv)
            continue
        src = cell[below[0]]
        if r.get('directly_assigned') is not False:
            bad('inferred-flag', 'inferred level %r not marked' % lv)
        if any(k.startswith('runner_up') for k in r):
            bad('inferred-runners', 'inferred level %r carries runner_up '
                'fields' % lv)
        if r['assignment'] != tv.anc[leaf][lv]:
            bad('inferred-assignment', 'inferred level %r is not the '
                'ancestor of the leaf' % lv)
        for k in ('bootstrapping_probability', 'avg_correlation',
                  'aggregate_probability'):
            if r.get(k) != src.get(k):
                bad('inferred-numbers', 'inferred level %r %s %r != %r of '
                    'the voted descendant' % (lv, k, r.get(k), src.get(k)))
    return out
