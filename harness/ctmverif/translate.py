"""
Translator: re-extracts, with Python's `ast`, the orchestration skeleton of
every parallel stage of cell_type_mapper from the *current* source and writes
it as a value of the Lean IR `CTM.Procs.Stage` into
lean/CTM/Generated/Skeleton.lean (rewritten only when its content changes).

For each stage (a chain of functions, outermost first) the skeleton records,
in source order:
  * every statement that writes at the requested output location
    (`writeOut <callee>`), `shutil.move(..., dst=<requested output>)`
    (`moveIntoPlace`);
  * the dispatch loop: for each `p.start()` whether `p` is then registered in
    the polled container (`start true|false`), whether a child seed is drawn
    from the parent generator in the `Process(...)` call (`draw`), the in-loop
    poll `while len(c) >= n_processors: c = winnow(c)` (`pollWhileFull`; with
    the extra disjunct `or not have_chosen_parent` of select_all_markers:
    `pollWhileFullOrBlocked`);
  * the post-loop drain `while len(c) > 0: c = winnow(c)` (`drain`);
  * whether some function of the chain removes its scratch directory in a
    `finally`; the container kind (list / dict, and that the winnow function
    matches it); the merge discipline.
Calls to the next function of the chain are inlined.

If a shape is not recognised the stage is emitted with `prog := []` /
`merge := .unknown` and a comment saying why; the per-stage obligation in
CTM/Props/C14.lean (`by decide`) then fails to build, which ./check reports
as a broken tie (fault injection is the failing-input search).

Also extracted: `MappingShape` of cli/from_specified_markers.py:run_mapping,
_run_mapping and utils/output_utils.py:blob_to_hdf5.
"""
import ast
import pathlib

PKG = 'src/cell_type_mapper'

STAGES = [
    dict(name='mapping', merge='appendRekey', chain=[
        ('type_assignment/election.py',
         'run_type_assignment_on_h5ad_cpu', None)]),
    dict(name='stats', merge='sumCreationOrder', chain=[
        ('diff_exp/precompute_from_anndata.py',
         'precompute_summary_stats_from_h5ad_and_tree', 'output_path'),
        ('diff_exp/precompute_from_anndata.py',
         'precompute_summary_stats_from_h5ad_and_lookup', 'output_path'),
        ('diff_exp/precompute_from_anndata.py',
         '_precompute_summary_stats_from_h5ad_and_lookup', 'output_path')]),
    dict(name='refMarkers', merge='sortedKeys', chain=[
        ('diff_exp/markers.py',
         'find_markers_for_all_taxonomy_pairs', 'output_path'),
        ('diff_exp/markers.py',
         'create_sparse_by_pair_marker_file', None)]),
    dict(name='pMask', merge='sortedKeys', chain=[
        ('diff_exp/p_value_mask.py', 'create_p_value_mask_file', 'dst_path'),
        ('diff_exp/p_value_mask.py', '_create_p_value_mask_file',
         'dst_path')]),
    dict(name='pMarkers', merge='sortedKeys', chain=[
        ('diff_exp/p_value_markers.py',
         'find_markers_for_all_taxonomy_pairs_from_p_mask', 'output_path'),
        ('diff_exp/p_value_markers.py',
         '_find_markers_for_all_taxonomy_pairs_from_p_mask', 'output_path'),
        ('diff_exp/p_value_markers.py',
         'create_sparse_by_pair_marker_file_from_p_mask', None)]),
    dict(name='selection', merge='dictByKey', chain=[
        ('marker_selection/selection_pipeline.py',
         'select_all_markers', None)]),
    dict(name='transpose', merge='concatCreationOrder', chain=[
        ('utils/csc_to_csr_parallel.py',
         'transpose_sparse_matrix_on_disk_v2', 'output_path'),
        ('utils/csc_to_csr_parallel.py',
         '_transpose_sparse_matrix_on_disk_v2', 'output_path')]),
]

# callees that mention the output path without writing there
NON_WRITING = {'print', 'Path', 'str', 'info', 'warn', 'format', 'resolve',
               'absolute', 'is_relative_to', 'exists', 'is_file', 'debug'}
WINNOW = {'winnow_process_list': 'list', 'winnow_process_dict': 'dict'}


class Unrecognised(Exception):
    pass


_cache = {}


def load(repo, rel):
    p = pathlib.Path(repo) / PKG / rel
    key = str(p)
    if key not in _cache:
        _cache[key] = ast.parse(p.read_text())
    return _cache[key]


def find_func(mod, name):
    for n in mod.body:
        if isinstance(n, ast.FunctionDef) and n.name == name:
            return n
    raise Unrecognised('function %s not found' % name)


# same-module helpers that are *not* inlined: the extractor looks for calls
# to them by name (chain functions are added per stage)
NO_INLINE = {'_run_mapping', '_blob_to_hdf5_results', '_create_empty_stats_file',
             '_prep_output_file', '_merge_masks',
             '_merge_sparse_by_pair_files', '_prep_chunk', '_clean_up'}


def _chain_names():
    return set(f for st in STAGES for _, f, _ in st['chain'])


def _worker_targets(mod):
    """functions handed to Process(target=...) in this module"""
    out = set()
    for n in ast.walk(mod):
        if isinstance(n, ast.Call):
            for k in n.keywords:
                if k.arg == 'target' and isinstance(k.value, ast.Name):
                    out.add(k.value.id)
    return out


def _inline_body(stmts, funcs, skip, depth):
    """replace `helper(...)` / `x = helper(...)` statements by the helper's
    body (a private function of the same module, no early return), parameters
    bound by plain assignments unless the argument is the same name"""
    import copy
    out = []
    for s in stmts:
        call = None
        target = None
        if isinstance(s, ast.Expr) and isinstance(s.value, ast.Call):
            call = s.value
        elif isinstance(s, ast.Assign) and isinstance(s.value, ast.Call) \
                and len(s.targets) == 1:
            call, target = s.value, s.targets[0]
        helper = None
        if call is not None and isinstance(call.func, ast.Name) \
                and call.func.id in funcs and call.func.id.startswith('_') \
                and call.func.id not in skip and depth > 0:
            helper = funcs[call.func.id]
        if helper is not None:
            body = list(helper.body)
            if body and isinstance(body[0], ast.Expr) and isinstance(
                    getattr(body[0], 'value', None), ast.Constant) \
                    and isinstance(body[0].value.value, str):
                body = body[1:]            # docstring
            rets = [n for b in body for n in ast.walk(b)
                    if isinstance(n, ast.Return)]
            tail_ret = body and isinstance(body[-1], ast.Return)
            simple_args = not call.args or len(call.args) <= len(
                helper.args.args)
            if (len(rets) == 0 or (len(rets) == 1 and tail_ret)) \
                    and simple_args and not helper.args.vararg \
                    and not helper.args.kwarg:
                new = []
                params = [a.arg for a in helper.args.args]
                binds = list(zip(params, call.args)) + [
                    (k.arg, k.value) for k in call.keywords if k.arg]
                for name, val in binds:
                    if isinstance(val, ast.Name) and val.id == name:
                        continue
                    a = ast.Assign(targets=[ast.Name(id=name, ctx=ast.Store())],
                                   value=copy.deepcopy(val))
                    ast.copy_location(a, s)
                    ast.fix_missing_locations(a)
                    new.append(a)
                inner = copy.deepcopy(body[:-1] if tail_ret else body)
                inner = _inline_body(inner, funcs, skip | {helper.name},
                                     depth - 1)
                new.extend(inner)
                if tail_ret and target is not None \
                        and body[-1].value is not None:
                    a = ast.Assign(targets=[copy.deepcopy(target)],
                                   value=copy.deepcopy(body[-1].value))
                    ast.copy_location(a, s)
                    ast.fix_missing_locations(a)
                    new.append(a)
                out.extend(new)
                continue
        # recurse into compound statements
        for f in ('body', 'orelse', 'finalbody'):
            b = getattr(s, f, None)
            if isinstance(b, list) and b and isinstance(b[0], ast.stmt):
                setattr(s, f, _inline_body(b, funcs, skip, depth))
        if isinstance(s, ast.Try):
            for h in s.handlers:
                h.body = _inline_body(h.body, funcs, skip, depth)
        out.append(s)
    return out


def find_func_inlined(mod, name, depth=2):
    """the function with calls to private helpers of the same module inlined
    (one or two levels), so that a block moved into a helper is still seen"""
    import copy
    fn = copy.deepcopy(find_func(mod, name))
    funcs = {n.name: n for n in mod.body if isinstance(n, ast.FunctionDef)}
    skip = NO_INLINE | _chain_names() | _worker_targets(mod) | {name}
    fn.body = _inline_body(fn.body, funcs, skip, depth)
    return fn


def callee(call):
    f = call.func
    if isinstance(f, ast.Attribute):
        return f.attr
    if isinstance(f, ast.Name):
        return f.id
    return '?'


def dotted(call):
    f = call.func
    parts = []
    while isinstance(f, ast.Attribute):
        parts.append(f.attr)
        f = f.value
    if isinstance(f, ast.Name):
        parts.append(f.id)
    return '.'.join(reversed(parts))


def calls(node):
    return [n for n in ast.walk(node) if isinstance(n, ast.Call)]


def is_name(node, ident):
    return isinstance(node, ast.Name) and node.id == ident


def len_of(node):
    """`len(X)` -> 'X'"""
    if isinstance(node, ast.Call) and is_name(node.func, 'len') \
            and len(node.args) == 1 and isinstance(node.args[0], ast.Name):
        return node.args[0].id
    return None


def winnow_assign(stmt):
    """`C = winnow_process_x(C)` -> (C, kind)"""
    if isinstance(stmt, ast.Assign) and len(stmt.targets) == 1 \
            and isinstance(stmt.targets[0], ast.Name) \
            and isinstance(stmt.value, ast.Call) \
            and callee(stmt.value) in WINNOW \
            and len(stmt.value.args) == 1 \
            and is_name(stmt.value.args[0], stmt.targets[0].id):
        return stmt.targets[0].id, WINNOW[callee(stmt.value)]
    return None


def while_poll(stmt):
    """a `while` whose body re-binds C by winnow: returns (C, kind, test
    class) with test class 'full' (`len(C) >= n_processors [or ...]`),
    'nonempty' (`len(C) > 0`) or None"""
    if not isinstance(stmt, ast.While):
        return None
    found = None
    for s in ast.walk(stmt):
        w = winnow_assign(s)
        if w:
            found = w
    if not found:
        return None
    c, kind = found
    tests = [stmt.test]
    if isinstance(stmt.test, ast.BoolOp) and isinstance(stmt.test.op, ast.Or):
        tests = list(stmt.test.values)
    cls = None
    extra = []
    for t in tests:
        if isinstance(t, ast.Compare) and len(t.ops) == 1 \
                and len_of(t.left) == c:
            if isinstance(t.ops[0], ast.GtE) and \
                    is_name(t.comparators[0], 'n_processors'):
                cls = 'full'
                continue
            elif isinstance(t.ops[0], ast.Gt) and \
                    isinstance(t.comparators[0], ast.Constant) and \
                    t.comparators[0].value == 0 and len(tests) == 1:
                cls = 'nonempty'
                continue
        extra.append(t)
    if extra:
        # the only extra disjunct understood: `not <flag>` where the loop
        # body sets `<flag> = True` when the poll removed a process
        # (`if len(k1) < len(k0): ...; <flag> = True`)
        ok = False
        if cls == 'full' and len(extra) == 1 \
                and isinstance(extra[0], ast.UnaryOp) \
                and isinstance(extra[0].op, ast.Not) \
                and isinstance(extra[0].operand, ast.Name):
            flag = extra[0].operand.id
            for n in ast.walk(stmt):
                if isinstance(n, ast.If) and isinstance(n.test, ast.Compare) \
                        and len(n.test.ops) == 1 \
                        and isinstance(n.test.ops[0], ast.Lt) \
                        and any(isinstance(a, ast.Assign)
                                and is_name(a.targets[0], flag)
                                and isinstance(a.value, ast.Constant)
                                and a.value.value is True for a in n.body):
                    ok = True
            # nothing else in the loop may clear or set the flag
            for n in ast.walk(stmt):
                if isinstance(n, ast.Assign) and is_name(n.targets[0], flag) \
                        and not (isinstance(n.value, ast.Constant)
                                 and n.value.value is True):
                    ok = False
        cls = 'full_or_blocked' if ok else None
    # a `break` / `return` inside would leave the loop early
    for s in ast.walk(stmt):
        if isinstance(s, (ast.Break, ast.Return)):
            cls = None
    return c, kind, cls


def has_start(node):
    for c in calls(node):
        if isinstance(c.func, ast.Attribute) and c.func.attr == 'start' \
                and not c.args and isinstance(c.func.value, ast.Name):
            return True
    return False


def block_lists(stmt):
    """the statement lists nested directly in a compound statement"""
    out = []
    for f in ('body', 'orelse', 'finalbody'):
        b = getattr(stmt, f, None)
        if isinstance(b, list) and b and isinstance(b[0], ast.stmt):
            out.append(b)
    if isinstance(stmt, ast.Try):
        for h in stmt.handlers:
            out.append(h.body)
    return out


class StageExtractor(object):
    def __init__(self, repo, spec):
        self.repo = repo
        self.spec = spec
        self.container = None     # (name, kind)
        self.try_finally = False
        self.notes = []

    # -- dispatch loop ----------------------------------------------------
    def loop_body(self, stmts, proc_vars, out, depth=0):
        for i, s in enumerate(stmts):
            # a draw from the parent generator in a simple statement of the
            # loop body (hoisted out of the Process(...) call)
            if isinstance(s, (ast.Assign, ast.Expr, ast.AugAssign)) \
                    and not (isinstance(s, ast.Assign)
                             and isinstance(s.value, ast.Call)
                             and dotted(s.value).endswith('Process')) \
                    and any(callee(c) == 'integers' for c in calls(s)):
                if depth > 0:
                    raise Unrecognised(
                        'conditional draw from the parent generator '
                        '(line %d)' % s.lineno)
                out.append('.draw')
                continue
            # p = multiprocessing.Process(...)
            if isinstance(s, ast.Assign) and isinstance(s.value, ast.Call) \
                    and dotted(s.value).endswith('Process') \
                    and isinstance(s.targets[0], ast.Name):
                proc_vars.add(s.targets[0].id)
                if any(callee(c) == 'integers' for c in calls(s.value)):
                    out.append('.draw')
                continue
            # p.start()
            if isinstance(s, ast.Expr) and isinstance(s.value, ast.Call) \
                    and isinstance(s.value.func, ast.Attribute) \
                    and s.value.func.attr == 'start' \
                    and isinstance(s.value.func.value, ast.Name) \
                    and s.value.func.value.id in proc_vars:
                p = s.value.func.value.id
                out.append('.start %s' % (
                    'true' if self.registered(p, stmts[i + 1:]) else 'false'))
                continue
            wp = while_poll(s)
            if wp is not None:
                c, kind, cls = wp
                self.note_container(c, kind)
                if cls == 'full':
                    out.append('.pollWhileFull')
                elif cls == 'full_or_blocked':
                    out.append('.pollWhileFullOrBlocked')
                else:
                    raise Unrecognised(
                        'poll loop inside the dispatch loop with an '
                        'unexpected test (line %d)' % s.lineno)
                continue
            if isinstance(s, (ast.If, ast.With, ast.Try)):
                for b in block_lists(s):
                    self.loop_body(b, proc_vars, out, depth + 1)
                continue
            if isinstance(s, (ast.For, ast.While)) and has_start(s):
                raise Unrecognised('nested dispatch loop (line %d)' % s.lineno)

    def registered(self, p, following):
        """the statements after `p.start()` in the same block put `p` into a
        container: `C.append(p)` or `C[key] = p`"""
        for s in following:
            if isinstance(s, ast.Expr) and isinstance(s.value, ast.Call) \
                    and isinstance(s.value.func, ast.Attribute) \
                    and s.value.func.attr == 'append' \
                    and isinstance(s.value.func.value, ast.Name) \
                    and len(s.value.args) == 1 \
                    and is_name(s.value.args[0], p):
                self.note_container(s.value.func.value.id, 'list')
                return True
            if isinstance(s, ast.Assign) and len(s.targets) == 1 \
                    and isinstance(s.targets[0], ast.Subscript) \
                    and isinstance(s.targets[0].value, ast.Name) \
                    and is_name(s.value, p):
                self.note_container(s.targets[0].value.id, 'dict')
                return True
            if isinstance(s, (ast.While, ast.For)):
                break
        return False

    def keys_distinct(self, loop):
        """dict stages: is the registration key distinct per worker by
        construction?"""
        if self.container is None or self.container[1] != 'dict':
            return True
        c = self.container[0]
        key = None
        for n in ast.walk(loop):
            if isinstance(n, ast.Assign) and len(n.targets) == 1 \
                    and isinstance(n.targets[0], ast.Subscript) \
                    and is_name(n.targets[0].value, c):
                sl = n.targets[0].slice
                if not isinstance(sl, ast.Name):
                    return False
                if key is not None and key != sl.id:
                    return False
                key = sl.id
        if key is None:
            return False
        # (a) the loop variable of `for key in range(...)`
        if isinstance(loop, ast.For) and is_name(loop.target, key) \
                and isinstance(loop.iter, ast.Call) \
                and is_name(loop.iter.func, 'range'):
            # nothing else re-binds it inside the loop
            return not any(isinstance(n, ast.Assign) and any(
                is_name(t, key) for t in n.targets) for n in ast.walk(loop))
        # (b) chosen under `if x not in S:` and added to S before registering
        added = [n.func.value.id for n in ast.walk(loop)
                 if isinstance(n, ast.Call)
                 and isinstance(n.func, ast.Attribute) and n.func.attr == 'add'
                 and isinstance(n.func.value, ast.Name)
                 and len(n.args) == 1 and is_name(n.args[0], key)]
        guards = set(
            n.test.comparators[0].id for n in ast.walk(loop)
            if isinstance(n, ast.If) and isinstance(n.test, ast.Compare)
            and len(n.test.ops) == 1
            and isinstance(n.test.ops[0], ast.NotIn)
            and isinstance(n.test.comparators[0], ast.Name))
        cands = set(added) & guards
        if len(cands) != 1:
            return False
        started = cands.pop()
        guarded = set()
        for n in ast.walk(loop):
            if isinstance(n, ast.If) and isinstance(n.test, ast.Compare) \
                    and len(n.test.ops) == 1 \
                    and isinstance(n.test.ops[0], ast.NotIn) \
                    and isinstance(n.test.left, ast.Name) \
                    and is_name(n.test.comparators[0], started):
                for m in n.body:
                    for a in ast.walk(m):
                        if isinstance(a, ast.Assign) and any(
                                is_name(t, key) for t in a.targets) \
                                and is_name(a.value, n.test.left.id):
                            guarded.add(id(a))
        assigns = [a for a in ast.walk(loop) if isinstance(a, ast.Assign)
                   and any(is_name(t, key) for t in a.targets)]
        if not assigns or any(id(a) not in guarded for a in assigns):
            return False
        # the add precedes the registration in source order
        add_line = min(n.lineno for n in ast.walk(loop)
                       if isinstance(n, ast.Call)
                       and isinstance(n.func, ast.Attribute)
                       and n.func.attr == 'add'
                       and is_name(n.func.value, started))
        reg_line = min(n.lineno for n in ast.walk(loop)
                       if isinstance(n, ast.Assign)
                       and isinstance(n.targets[0], ast.Subscript)
                       and is_name(n.targets[0].value, c))
        # and the set only ever grows
        shrinks = any(isinstance(n, ast.Call)
                      and isinstance(n.func, ast.Attribute)
                      and n.func.attr in ('remove', 'discard', 'pop',
                                          'clear')
                      and is_name(n.func.value, started)
                      for n in ast.walk(loop))
        return add_line < reg_line and not shrinks

    def note_container(self, name, kind):
        if self.container is None:
            self.container = (name, kind)
        elif self.container != (name, kind):
            raise Unrecognised(
                'container mismatch: %r registered, %r polled'
                % (self.container, (name, kind)))

    # -- function body ----------------------------------------------------
    def func_prog(self, idx):
        rel, fname, outparam = self.spec['chain'][idx]
        fn = find_func_inlined(load(self.repo, rel), fname)
        for c in calls(fn):
            if dotted(c) == 'signal.signal':
                raise Unrecognised(
                    '%s installs a signal handler (inherited by the forked '
                    'workers: their exit codes may change)' % fname)
        nxt = self.spec['chain'][idx + 1][1] \
            if idx + 1 < len(self.spec['chain']) else None
        out = []
        self.walk(fn.body, idx, outparam, nxt, out)
        self.check_container_discipline(fn)
        return out

    def walk(self, stmts, idx, outparam, nxt, out):
        for s in stmts:
            if isinstance(s, (ast.For, ast.While)) and has_start(s):
                body = []
                self.loop_body(s.body, set(), body)
                out.append('.dispatch [%s]' % ', '.join(body))
                continue
            wp = while_poll(s)
            if wp is not None:
                c, kind, cls = wp
                self.note_container(c, kind)
                if cls == 'nonempty':
                    out.append('.drain')
                else:
                    raise Unrecognised(
                        'poll loop outside the dispatch loop with an '
                        'unexpected test (line %d)' % s.lineno)
                continue
            if isinstance(s, ast.Try):
                if s.finalbody and any(callee(c) == '_clean_up'
                                       for b in s.finalbody for c in calls(b)):
                    self.try_finally = True
                self.walk(s.body, idx, outparam, nxt, out)
                for h in s.handlers:
                    self.walk(h.body, idx, outparam, nxt, out)
                self.walk(s.finalbody, idx, outparam, nxt, out)
                continue
            if isinstance(s, ast.With):
                w = self.write_tag(s.items[0].context_expr, outparam) \
                    if s.items else None
                if w:
                    out.append(w)
                    continue
                self.walk(s.body, idx, outparam, nxt, out)
                continue
            if isinstance(s, ast.If):
                self.walk(s.body, idx, outparam, nxt, out)
                self.walk(s.orelse, idx, outparam, nxt, out)
                continue
            if isinstance(s, ast.For):
                self.walk(s.body, idx, outparam, nxt, out)
                continue
            # simple statement
            cs = calls(s)
            if nxt is not None and any(callee(c) == nxt for c in cs):
                out.extend(self.func_prog(idx + 1))
                continue
            for c in cs:
                w = self.write_tag(c, outparam)
                if w:
                    out.append(w)
                    break

    def write_tag(self, call, outparam):
        if outparam is None or not isinstance(call, ast.Call):
            return None
        name = callee(call)
        args = list(call.args) + [k.value for k in call.keywords]
        if not any(is_name(a, outparam) for a in args):
            return None
        if name in NON_WRITING:
            return None
        if name == 'move':
            dst = [k.value for k in call.keywords if k.arg == 'dst'] or \
                call.args[1:2]
            if dst and is_name(dst[0], outparam):
                return '.moveIntoPlace'
            return None
        if name == 'File':
            mode = [k.value for k in call.keywords if k.arg == 'mode'] or \
                call.args[1:2]
            if not mode:
                m = 'r'
            elif isinstance(mode[0], ast.Constant):
                m = mode[0].value
            else:
                m = 'var'      # mode chosen by the caller: may write
            if m == 'r':
                return None
            return '.writeOut "h5py.File:%s"' % m
        return '.writeOut "%s"' % name

    def check_container_discipline(self, fn):
        """the polled container is only ever re-bound by winnow (besides its
        initialisation) and never popped / cleared by the stage itself"""
        if self.container is None:
            return
        c = self.container[0]
        n_init = 0
        for s in ast.walk(fn):
            if isinstance(s, ast.Assign) and any(
                    is_name(t, c) for t in s.targets):
                if winnow_assign(s):
                    continue
                v = s.value
                empty = (isinstance(v, (ast.List, ast.Dict)) and
                         not getattr(v, 'elts', getattr(v, 'keys', []))) or \
                    (isinstance(v, ast.Call) and callee(v) in ('dict', 'list')
                     and not v.args and not v.keywords)
                if empty:
                    n_init += 1
                    continue
                raise Unrecognised(
                    'container %s re-bound at line %d' % (c, s.lineno))
            if isinstance(s, ast.Call) and isinstance(s.func, ast.Attribute) \
                    and is_name(s.func.value, c) \
                    and s.func.attr in ('pop', 'clear', 'remove', 'popitem'):
                raise Unrecognised(
                    'container %s.%s() at line %d'
                    % (c, s.func.attr, s.lineno))
            if isinstance(s, ast.Delete):
                for t in s.targets:
                    if is_name(t, c) or (isinstance(t, ast.Subscript)
                                         and is_name(t.value, c)):
                        raise Unrecognised(
                            'del on container %s at line %d' % (c, s.lineno))
        if n_init > 1:
            raise Unrecognised('container %s initialised %d times'
                               % (c, n_init))

    # -- merge discipline -------------------------------------------------
    def merge(self):
        want = self.spec['merge']
        ok = getattr(self, 'merge_' + want)()
        return want if ok else 'unknown'

    def _loop_and_after(self):
        """(dispatch loop node, statements after it) of the innermost chain
        function"""
        rel, fname, _ = self.spec['chain'][-1]
        fn = find_func_inlined(load(self.repo, rel), fname)

        def find(stmts):
            for i, s in enumerate(stmts):
                if isinstance(s, (ast.For, ast.While)) and has_start(s):
                    return s, stmts[i + 1:]
                for b in block_lists(s):
                    r = find(b)
                    if r:
                        return r[0], r[1] + stmts[i + 1:]
            return None
        r = find(fn.body)
        if not r:
            raise Unrecognised('no dispatch loop')
        return fn, r[0], r[1]

    @staticmethod
    def _appended_in(loop):
        names = set()
        for c in calls(loop):
            if isinstance(c.func, ast.Attribute) and c.func.attr == 'append' \
                    and isinstance(c.func.value, ast.Name):
                names.add(c.func.value.id)
        return names

    def _iterates_after(self, after, names):
        for s in after:
            for n in ast.walk(s):
                if isinstance(n, ast.For) and isinstance(n.iter, ast.Name) \
                        and n.iter.id in names:
                    return n.iter.id
        return None

    def merge_sumCreationOrder(self):
        fn, loop, after = self._loop_and_after()
        names = self._appended_in(loop) - {self.container[0]}
        it = self._iterates_after(after, names)
        if not it:
            return False
        # nothing re-orders that list
        for c in calls(fn):
            if isinstance(c.func, ast.Attribute) and \
                    c.func.attr in ('sort', 'reverse') and \
                    is_name(c.func.value, it):
                return False
        # accumulation by `+=`
        return any(isinstance(n, ast.AugAssign) and isinstance(n.op, ast.Add)
                   for s in after for n in ast.walk(s))

    def merge_concatCreationOrder(self):
        fn, loop, after = self._loop_and_after()
        names = self._appended_in(loop) - {self.container[0]}
        it = self._iterates_after(after, names)
        if not it:
            return False
        for c in calls(fn):
            if isinstance(c.func, ast.Attribute) and \
                    c.func.attr in ('sort', 'reverse') and \
                    is_name(c.func.value, it):
                return False
        return True

    @staticmethod
    def _sorted_then_iterated(fn):
        """`X.sort()` followed by `for … in X`"""
        sorted_names = []
        for s in ast.walk(fn):
            if isinstance(s, ast.Expr) and isinstance(s.value, ast.Call) \
                    and isinstance(s.value.func, ast.Attribute) \
                    and s.value.func.attr == 'sort' \
                    and isinstance(s.value.func.value, ast.Name) \
                    and not s.value.keywords:
                sorted_names.append((s.value.func.value.id, s.lineno))
        for name, line in sorted_names:
            for s in ast.walk(fn):
                if isinstance(s, ast.For) and is_name(s.iter, name) \
                        and s.lineno > line:
                    return True
        return False

    def merge_sortedKeys(self):
        fn, loop, after = self._loop_and_after()
        merger = None
        for s in after:
            for c in calls(s):
                if callee(c) in ('_merge_sparse_by_pair_files',
                                 '_merge_masks'):
                    merger = callee(c)
        if merger is None:
            return False
        rel = self.spec['chain'][-1][0]
        if merger == '_merge_sparse_by_pair_files':
            rel = 'diff_exp/markers.py'
        mfn = find_func_inlined(load(self.repo, rel), merger)
        return self._sorted_then_iterated(mfn)

    def merge_dictByKey(self):
        fn, loop, after = self._loop_and_after()
        # the worker stores its result under its own key …
        wfn = find_func(load(self.repo, self.spec['chain'][-1][0]),
                        '_marker_selection_worker')
        stores = [s for s in ast.walk(wfn) if isinstance(s, ast.Assign)
                  and isinstance(s.targets[0], ast.Subscript)
                  and is_name(s.targets[0].value, 'output_dict')
                  and is_name(s.targets[0].slice, 'parent_node')]
        if not stores:
            return False
        # … and the stage returns the dict as a dict
        for s in after:
            if isinstance(s, ast.Assign) and is_name(s.targets[0],
                                                     'output_dict') \
                    and isinstance(s.value, ast.Call) \
                    and callee(s.value) == 'dict':
                return True
        return False

    def merge_appendRekey(self):
        # election_runner.run_type_assignment_on_h5ad re-keys what the stage
        # returns: result = re_order_blob(results_blob=result, ...)
        rfn = find_func(load(self.repo, 'type_assignment/election_runner.py'),
                        'run_type_assignment_on_h5ad')
        line_cpu = line_re = None
        for s in ast.walk(rfn):
            if isinstance(s, ast.Assign) and isinstance(s.value, ast.Call):
                if callee(s.value) == 'run_type_assignment_on_h5ad_cpu':
                    line_cpu = s.lineno
                if callee(s.value) == 're_order_blob' and \
                        is_name(s.targets[0], 'result'):
                    line_re = s.lineno
        if line_cpu is None or line_re is None or line_re < line_cpu:
            return False
        # the function returns that value
        rets = [s for s in ast.walk(rfn) if isinstance(s, ast.Return)]
        if len(rets) != 1 or not is_name(rets[0].value, 'result') \
                or rets[0].lineno < line_re:
            return False
        ofn = find_func(load(self.repo, 'utils/output_utils.py'),
                        're_order_blob')
        has_dict = any(
            isinstance(n, ast.DictComp) and isinstance(n.key, ast.Subscript)
            and isinstance(n.key.slice, ast.Constant)
            and n.key.slice.value == 'cell_id' for n in ast.walk(ofn))
        has_list = any(
            isinstance(n, ast.ListComp) and
            is_name(n.generators[0].iter, 'cell_order')
            for n in ast.walk(ofn))
        return has_dict and has_list

    # -- all together -----------------------------------------------------
    def extract(self):
        why = None
        prog = []
        merge = 'unknown'
        keys_distinct = False
        try:
            prog = self.func_prog(0)
            if self.container is None:
                raise Unrecognised('no polled container found')
            merge = self.merge()
            keys_distinct = self.keys_distinct(self._loop_and_after()[1])
        except Unrecognised as e:
            why = str(e)
            prog = []
        except (SyntaxError, FileNotFoundError) as e:
            why = 'cannot parse: %r' % (e,)
            prog = []
        kind = self.container[1] if self.container else 'list'
        return dict(name=self.spec['name'], container=kind, prog=prog,
                    try_finally=self.try_finally, merge=merge, why=why,
                    keys_distinct=keys_distinct)


# ---------------------------------------------------------------------------
# run_mapping shape
# ---------------------------------------------------------------------------

def mapping_shape(repo):
    sh = dict(outputInitEmpty=False, outputAssignedFromInner=False,
              successLoggedLastInTry=False, exceptReraises=False,
              finallyWritesLog=False, finallyWritesJson=False,
              finallyWritesHdf5=False, finallyHasNoReturn=False,
              finallyCleanupGuarded=False,
              csvAfterAssignment=False, resultsAfterAssignment=False,
              hdf5SkipsResults=False, hdf5ResultsGuarded=False)
    try:
        mod = load(repo, 'cli/from_specified_markers.py')
        fn = find_func_inlined(mod, 'run_mapping')
        tries = [s for s in fn.body if isinstance(s, ast.Try)]
        # the try that calls _run_mapping
        tr = None
        for t in tries:
            if any(callee(c) == '_run_mapping' for c in calls(t)):
                tr = t
        if tr is not None:
            before = fn.body[:fn.body.index(tr)]
            inits = [s for s in before if isinstance(s, ast.Assign)
                     and is_name(s.targets[0], 'output')]
            sh['outputInitEmpty'] = bool(inits) and all(
                (isinstance(s.value, ast.Call) and callee(s.value) == 'dict'
                 and not s.value.args and not s.value.keywords)
                or (isinstance(s.value, ast.Dict) and not s.value.keys)
                for s in inits)
            # first statement of the try touching `output`
            first = None
            for s in tr.body:
                if any(is_name(n, 'output') for n in ast.walk(s)):
                    first = s
                    break
            sh['outputAssignedFromInner'] = (
                isinstance(first, ast.Assign)
                and is_name(first.targets[0], 'output')
                and isinstance(first.value, ast.Call)
                and callee(first.value) == '_run_mapping')
            last = tr.body[-1]
            # the last statement of the try is `log.info(<text>)` and that
            # text is logged nowhere else in the function (whatever it says)
            def _const_text(call):
                return [str(a.value) for a in call.args
                        if isinstance(a, ast.Constant)
                        and isinstance(a.value, str)]
            ok_last = (isinstance(last, ast.Expr)
                       and isinstance(last.value, ast.Call)
                       and callee(last.value) == 'info'
                       and len(_const_text(last.value)) == 1)
            if ok_last:
                text = _const_text(last.value)[0]
                ok_last = sum(
                    1 for n in ast.walk(fn) if isinstance(n, ast.Constant)
                    and isinstance(n.value, str) and n.value == text) == 1
            sh['successLoggedLastInTry'] = bool(
                ok_last and first is not None
                and last.lineno > first.lineno)
            sh['exceptReraises'] = (
                len(tr.handlers) == 1
                and isinstance(tr.handlers[0].body[-1], ast.Raise)
                and tr.handlers[0].body[-1].exc is None
                and not tr.orelse)
            fin = tr.finalbody
            fcalls = [c for s in fin for c in calls(s)]
            sh['finallyWritesLog'] = any(
                callee(c) == 'write_log' and c.args
                and is_name(c.args[0], 'log_path') for c in fcalls)
            sh['finallyWritesJson'] = any(
                isinstance(s, ast.With) and any(
                    isinstance(it.context_expr, ast.Call)
                    and callee(it.context_expr) == 'open'
                    and it.context_expr.args
                    and is_name(it.context_expr.args[0], 'output_path')
                    for it in s.items)
                and any(callee(c) == 'dumps' for c in calls(s))
                for f in fin for s in ast.walk(f))
            sh['finallyWritesHdf5'] = any(
                callee(c) == 'blob_to_hdf5' and any(
                    k.arg == 'dst_path' and is_name(k.value,
                                                    'hdf5_output_path')
                    for k in c.keywords)
                and any(k.arg == 'output_blob' and is_name(k.value, 'output')
                        for k in c.keywords)
                for c in fcalls)
            sh['finallyHasNoReturn'] = not any(
                isinstance(n, (ast.Return, ast.Break, ast.Continue))
                for f in fin for n in ast.walk(f))
            # clean-up calls that come before the first write of the finally
            # block must be guarded by try/except OSError
            first_write = None
            for i, f in enumerate(fin):
                if any(callee(c) in ('write_log', 'blob_to_hdf5', 'dumps')
                       for c in calls(f)):
                    first_write = i
                    break
            guarded = first_write is not None

            def unguarded_cleanup(node, in_guard):
                if isinstance(node, ast.Try):
                    g = in_guard or any(
                        h.type is not None and (
                            (isinstance(h.type, ast.Name)
                             and h.type.id in ('OSError', 'Exception'))
                            or (isinstance(h.type, ast.Tuple) and any(
                                isinstance(e, ast.Name)
                                and e.id in ('OSError', 'Exception')
                                for e in h.type.elts)))
                        and not any(isinstance(n, ast.Raise)
                                    for b in h.body for n in ast.walk(b))
                        for h in node.handlers)
                    bad = any(unguarded_cleanup(b, g) for b in node.body)
                    bad = bad or any(unguarded_cleanup(b, in_guard)
                                     for h in node.handlers for b in h.body)
                    bad = bad or any(unguarded_cleanup(b, in_guard)
                                     for b in node.orelse + node.finalbody)
                    return bad
                if isinstance(node, ast.Call) and callee(node) == '_clean_up':
                    return not in_guard
                return any(unguarded_cleanup(ch, in_guard)
                           for ch in ast.iter_child_nodes(node))
            if guarded:
                for f in fin[:first_write]:
                    if unguarded_cleanup(f, False):
                        guarded = False
            sh['finallyCleanupGuarded'] = guarded
        inner = find_func(mod, '_run_mapping')
        line_assign = line_csv = line_results = None
        for s in ast.walk(inner):
            if isinstance(s, ast.Assign) and isinstance(s.value, ast.Call) \
                    and callee(s.value) == 'run_type_assignment_on_h5ad':
                line_assign = s.lineno
            if isinstance(s, ast.Call) and callee(s) == 'blob_to_csv':
                line_csv = s.lineno if line_csv is None \
                    else min(line_csv, s.lineno)
            if isinstance(s, ast.Assign) and \
                    isinstance(s.targets[0], ast.Subscript) and \
                    is_name(s.targets[0].value, 'output') and \
                    isinstance(s.targets[0].slice, ast.Constant) and \
                    s.targets[0].slice.value == 'results':
                line_results = s.lineno
        if line_assign is not None:
            sh['csvAfterAssignment'] = (line_csv is not None
                                        and line_csv > line_assign)
            sh['resultsAfterAssignment'] = (line_results is not None
                                            and line_results > line_assign)
        b2h = find_func(load(repo, 'utils/output_utils.py'), 'blob_to_hdf5')
        # for k in output_blob: if k == 'results': continue
        sh['hdf5SkipsResults'] = any(
            isinstance(n, ast.If) and isinstance(n.test, ast.Compare)
            and isinstance(n.test.ops[0], ast.Eq)
            and isinstance(n.test.comparators[0], ast.Constant)
            and n.test.comparators[0].value == 'results'
            and isinstance(n.body[0], ast.Continue)
            for n in ast.walk(b2h)) or any(
            # metadata = {k: blob[k] for k in blob if k != 'results'}
            isinstance(n, ast.Assign) and is_name(n.targets[0], 'metadata')
            and isinstance(n.value, ast.DictComp)
            and any(isinstance(t, ast.Compare) and len(t.ops) == 1
                    and isinstance(t.ops[0], ast.NotEq)
                    and isinstance(t.comparators[0], ast.Constant)
                    and t.comparators[0].value == 'results'
                    for g in n.value.generators for t in g.ifs)
            for n in ast.walk(b2h))
        # _blob_to_hdf5_results only under `if run_succeeded:` and
        # run_succeeded = False when 'results' not in output_blob
        guarded = False
        for n in ast.walk(b2h):
            if isinstance(n, ast.If) and is_name(n.test, 'run_succeeded') \
                    and any(callee(c) == '_blob_to_hdf5_results'
                            for c in calls(n)):
                guarded = True
        outside = [c for c in calls(b2h)
                   if callee(c) == '_blob_to_hdf5_results']
        neg = any(
            isinstance(n, ast.If) and isinstance(n.test, ast.Compare)
            and isinstance(n.test.ops[0], ast.NotIn)
            and isinstance(n.test.left, ast.Constant)
            and n.test.left.value == 'results'
            and any(isinstance(a, ast.Assign)
                    and is_name(a.targets[0], 'run_succeeded')
                    and isinstance(a.value, ast.Constant)
                    and a.value.value is False for a in n.body)
            for n in ast.walk(b2h))
        # or: run_succeeded = (... and 'results' in output_blob)
        pos = any(
            isinstance(n, ast.Assign) and is_name(n.targets[0],
                                                  'run_succeeded')
            and isinstance(n.value, ast.BoolOp)
            and isinstance(n.value.op, ast.And)
            and any(isinstance(t, ast.Compare) and len(t.ops) == 1
                    and isinstance(t.ops[0], ast.In)
                    and isinstance(t.left, ast.Constant)
                    and t.left.value == 'results' for t in n.value.values)
            for n in ast.walk(b2h))
        others = [n for n in ast.walk(b2h) if isinstance(n, ast.Assign)
                  and is_name(n.targets[0], 'run_succeeded')]
        if pos and len(others) != 1:
            pos = False
        sh['hdf5ResultsGuarded'] = guarded and (neg or pos) \
            and len(outside) == 1
    except (Unrecognised, SyntaxError, FileNotFoundError, IndexError,
            AttributeError):
        pass
    return sh


# ---------------------------------------------------------------------------
# Lean output
# ---------------------------------------------------------------------------

def lean_bool(b):
    return 'true' if b else 'false'


def render(stages, shape, sites=()):
    lines = [
        '/-',
        '  GENERATED by harness/ctmverif/translate.py from the source tree of',
        '  cell_type_mapper (Python `ast`); rewritten by ./check C14 / C04 when',
        '  the extracted skeleton changes.  Do not edit by hand.',
        '-/',
        'import CTM.Model.Procs',
        'namespace CTM.Generated',
        'open CTM.Procs',
        '']
    for st in stages:
        chain = ' -> '.join(f for _, f, _ in next(
            s for s in STAGES if s['name'] == st['name'])['chain'])
        lines.append('/-- %s -/' % chain)
        if st['why']:
            lines.append('-- NOT RECOGNISED: %s' % st['why'].replace(
                '\n', ' '))
        lines.append('def %s : Stage :=' % st['name'])
        lines.append('  { name := "%s"' % st['name'])
        lines.append('    container := .%s' % st['container'])
        if st['prog']:
            lines.append('    prog := [')
            lines.append(',\n'.join('      ' + p for p in st['prog']) + ']')
        else:
            lines.append('    prog := []')
        lines.append('    tryFinally := %s' % lean_bool(st['try_finally']))
        lines.append('    merge := .%s' % st['merge'])
        lines.append('    keysDistinct := %s }'
                     % lean_bool(st['keys_distinct']))
        lines.append('')
    lines.append('def stages : List Stage := [%s]' % ', '.join(
        st['name'] for st in stages))
    lines.append('')
    lines.append('/-- every function in src/cell_type_mapper that creates a '
                 '`multiprocessing.Process` -/')
    lines.append('def processSites : List String := [')
    lines.append(',\n'.join('  "%s"' % x for x in sites) + ']')
    lines.append('')
    lines.append('/-- cli/from_specified_markers.py: run_mapping, _run_mapping; '
                 'utils/output_utils.py: blob_to_hdf5 -/')
    lines.append('def runMappingShape : MappingShape :=')
    items = list(shape.items())
    for i, (k, v) in enumerate(items):
        lines.append('  %s %s := %s%s' % ('{' if i == 0 else ' ', k,
                                          lean_bool(v),
                                          ' }' if i == len(items) - 1 else ''))
    lines.append('')
    lines.append('end CTM.Generated')
    return '\n'.join(lines) + '\n'


def process_sites(repo):
    """every function of the package that creates a multiprocessing.Process:
    'relative/path.py:function' (sorted) - so that a new parallel stage cannot
    appear without the obligation `generated_process_sites` noticing"""
    root = pathlib.Path(repo) / PKG
    sites = set()
    for f in sorted(root.rglob('*.py')):
        try:
            mod = ast.parse(f.read_text())
        except SyntaxError:
            sites.add('%s:<unparseable>' % f.relative_to(root))
            continue
        for fn in ast.walk(mod):
            if not isinstance(fn, (ast.FunctionDef, ast.AsyncFunctionDef)):
                continue
            for c in calls(fn):
                d = dotted(c)
                if d.endswith('Process') and ('multiprocessing' in d
                                              or d == 'Process'):
                    sites.add('%s:%s' % (f.relative_to(root), fn.name))
    return sorted(sites)


def extract_all(repo):
    _cache.clear()
    stages = [StageExtractor(repo, spec).extract() for spec in STAGES]
    return stages, mapping_shape(repo)


def regenerate(repo, lean_dir):
    """returns (changed, stages, shape)"""
    stages, shape = extract_all(repo)
    text = render(stages, shape, process_sites(repo))
    path = pathlib.Path(lean_dir) / 'CTM' / 'Generated' / 'Skeleton.lean'
    old = path.read_text() if path.is_file() else None
    changed = old != text
    if changed:
        # atomically: another ./check may be building at the same moment
        import os
        path.parent.mkdir(parents=True, exist_ok=True)
        tmp = path.with_name('.%s.%d.tmp' % (path.name, os.getpid()))
        tmp.write_text(text)
        os.replace(tmp, path)
    return changed, stages, shape


if __name__ == '__main__':
    import sys
    repo = sys.argv[1] if len(sys.argv) > 1 else '/repo'
    stages, shape = extract_all(repo)
    sys.stdout.write(render(stages, shape, process_sites(repo)))
