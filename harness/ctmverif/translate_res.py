"""
Translator for the source-derived Lean values of C19/C20
(lean/CTM/Generated/Resources.lean), regenerated from the current source of
cell_type_mapper on every run:

* C20: the characters `_word_to_path` strips from a word (`quoteChars`);
* C19: the *resource skeleton* of every stage function that creates scratch
  space: which `tempfile.mkdtemp` / `mkstemp_clean` sites exist, under which
  directory variable, where `_clean_up` is called, and which of those calls
  are in a `finally` (see `skeleton_of`).

The output is small and human-readable; a golden copy for the pinned tree is
committed.  A function whose shape the translator does not recognise raises
`TranslateError` (the suite records a broken tie, never an infra error).
"""
import ast
import pathlib


class TranslateError(Exception):
    pass


def _src(repo, rel):
    p = pathlib.Path(repo) / 'src' / 'cell_type_mapper' / rel
    return p.read_text()


def _find_func(tree, name, cls=None):
    scope = tree.body
    if cls is not None:
        for n in tree.body:
            if isinstance(n, ast.ClassDef) and n.name == cls:
                scope = n.body
                break
        else:
            raise TranslateError('class %s not found' % cls)
    for n in scope:
        if isinstance(n, ast.FunctionDef) and n.name == name:
            return n
    raise TranslateError('function %s not found' % name)


# --------------------------------------------------------------------------
# C20: quote characters
# --------------------------------------------------------------------------

def quote_chars(repo):
    tree = ast.parse(_src(repo, 'utils/cloud_utils.py'))
    fn = _find_func(tree, '_word_to_path')
    loops = [n for n in ast.walk(fn) if isinstance(n, ast.For)]
    if len(loops) != 1:
        raise TranslateError('_word_to_path: expected exactly one for loop')
    loop = loops[0]
    if not (isinstance(loop.target, ast.Name)
            and isinstance(loop.iter, (ast.Tuple, ast.List))):
        raise TranslateError('_word_to_path: loop shape not recognised')
    chars = []
    for e in loop.iter.elts:
        if not (isinstance(e, ast.Constant) and isinstance(e.value, str)
                and len(e.value) == 1):
            raise TranslateError('_word_to_path: strips %s, not a single '
                                 'character' % ast.dump(e))
        chars.append(e.value)
    # body must be  word = word.replace(char, '')
    ok = False
    if len(loop.body) == 1 and isinstance(loop.body[0], ast.Assign):
        v = loop.body[0].value
        if (isinstance(v, ast.Call) and isinstance(v.func, ast.Attribute)
                and v.func.attr == 'replace' and len(v.args) == 2
                and isinstance(v.args[0], ast.Name)
                and v.args[0].id == loop.target.id
                and isinstance(v.args[1], ast.Constant)
                and v.args[1].value == ''):
            ok = True
    if not ok:
        raise TranslateError('_word_to_path: loop body is not '
                             'word = word.replace(char, "")')
    # the function must return pathlib.Path(word) of the stripped word
    return chars


def lean_char(c):
    if c == "'":
        return "'\\''"
    if c == '\\':
        return "'\\\\'"
    if c == '"':
        return "'\"'"
    if 32 <= ord(c) < 127:
        return "'%s'" % c
    return 'Char.ofNat %d' % ord(c)


# --------------------------------------------------------------------------
# C19: resource skeletons
# --------------------------------------------------------------------------
#
# IR (mirrors CTM.Scratch.Stmt in lean/CTM/Model/Scratch.lean):
#   mk v d      v = tempfile.mkdtemp(dir=d, ...) / mkstemp_clean(dir=d, ...);
#               d is a *slot* : 0 = the scratch directory the caller handed in,
#               1 = an output directory, k+2 = the local created by the k-th
#               mk site of this function
#   clean v     _clean_up(v)
#   call        any other statement that may raise (and creates nothing this
#               function is responsible for)
#   tryFinally body fin
#   tryExcept body handlers_reraise   (handler re-raises: modelled as body)
#   ite a b     if/else: either branch
#   loop body   for/while: zero or more times
#   ret         return

SKELETON_TARGETS = [
    # (lean name, file, function, class, names of scratch params)
    ('runMapping', 'cli/from_specified_markers.py', 'run_mapping', None),
    ('precompute', 'diff_exp/precompute_from_anndata.py',
     'precompute_summary_stats_from_h5ad_and_lookup', None),
    ('validateH5ad', 'validation/validate_h5ad.py', 'validate_h5ad', None),
    ('findMarkers', 'diff_exp/markers.py',
     'find_markers_for_all_taxonomy_pairs', None),
    ('typeAssignment', 'type_assignment/election.py',
     'run_type_assignment_on_h5ad_cpu', None),
    # helpers called inside the stages that own a scratch directory
    ('findMarkersFromPMask', 'diff_exp/p_value_markers.py',
     'find_markers_for_all_taxonomy_pairs_from_p_mask', None),
    ('createPValueMask', 'diff_exp/p_value_mask.py',
     'create_p_value_mask_file', None),
    ('amalgamateH5ad', 'utils/anndata_utils.py', 'amalgamate_h5ad', None),
    ('pivotCsrH5ad', 'utils/anndata_utils.py', 'pivot_csr_h5ad', None),
    ('transposeByWayOfDisk', 'utils/csc_to_csr.py',
     'transpose_by_way_of_disk', None),
    ('transposeOnDiskV2', 'utils/csc_to_csr_parallel.py',
     'transpose_sparse_matrix_on_disk_v2', None),
    ('addSparseByGene', 'diff_exp/markers.py',
     'add_sparse_by_gene_markers_to_file', None),
    ('roundXToIntegers', 'validation/utils.py', 'round_x_to_integers', None),
]


def _is_mk_call(node):
    """tempfile.mkdtemp(...) / mkstemp_clean(...), possibly wrapped in
    pathlib.Path(...)"""
    if not isinstance(node, ast.Call):
        return None
    f = node.func
    if isinstance(f, ast.Attribute) and f.attr == 'mkdtemp':
        return node
    if isinstance(f, ast.Name) and f.id in ('mkstemp_clean', 'mkdtemp'):
        return node
    if (isinstance(f, ast.Attribute) and f.attr == 'Path'
            or isinstance(f, ast.Name) and f.id == 'Path') \
            and len(node.args) == 1:
        return _is_mk_call(node.args[0])
    return None


def _dir_expr(call):
    for kw in call.keywords:
        if kw.arg == 'dir':
            return kw.value
    return None


def _rename_locals(helper):
    import copy
    helper = copy.deepcopy(helper)
    local = set(a.arg for a in helper.args.args)
    for n in ast.walk(helper):
        if isinstance(n, ast.Name) and isinstance(n.ctx, ast.Store):
            local.add(n.id)
    pre = helper.name + '$'

    class R(ast.NodeTransformer):
        def visit_Name(self, node):
            if node.id in local:
                return ast.copy_location(
                    ast.Name(id=pre + node.id, ctx=node.ctx), node)
            return node

    R().visit(helper)
    for a in helper.args.args:
        a.arg = pre + a.arg
    return helper


HARM_SLOT = 1000   # "something of the caller's has been removed" (never cleaned)


class _Skel(object):
    def __init__(self, fn, scratch_params, output_exprs, module_funcs=None):
        self.fn = fn
        self.module_funcs = module_funcs or {}
        self.depth = 0
        self.unsafe_cleans = set()   # id() of _clean_up calls that may hit
                                     # the caller's directory
        self.slots = {}          # variable name -> slot number
        self.n_mk = 0
        self.cleaned = set()
        self.alias = {}          # loop variable -> the name it stands for
        self.scratch_params = scratch_params
        self.output_exprs = output_exprs

    def slot_of_dir(self, e):
        """slot of a `dir=` expression"""
        if e is None:
            raise TranslateError('%s: mk site without dir=' % self.fn.name)
        e = self.resolve(e)
        src = ast.unparse(e)
        if src in self.scratch_params:
            return 0
        if src in self.output_exprs:
            return 1
        if isinstance(e, ast.Name) and e.id in self.slots:
            return self.slots[e.id]
        raise TranslateError('%s: dir=%s is neither the scratch parameter, '
                             'an output directory nor a local scratch '
                             'directory' % (self.fn.name, src))

    def resolve(self, e):
        """follow parameter / loop-variable aliases"""
        seen = 0
        while isinstance(e, ast.Name) and e.id in self.alias and seen < 8:
            e = self.alias[e.id]
            seen += 1
        return e

    def stmts(self, body):
        out = []
        for s in body:
            out += self.stmt(s)
        return out

    def helper_of(self, call):
        """a call to a plain function defined in the same module"""
        if isinstance(call, ast.Call) and isinstance(call.func, ast.Name) \
                and call.func.id in self.module_funcs \
                and call.func.id != self.fn.name and self.depth < 2:
            return self.module_funcs[call.func.id]
        return None

    def inline(self, call, helper, bind_to=None):
        """the helper's body, translated as if written at the call site
        (parameters stand for the argument expressions); None if the helper
        handles no scratch resources (then the call is an ordinary call)"""
        # the helper's own names (parameters, assigned names) get a prefix so
        # that they cannot be mistaken for the caller's
        helper = _rename_locals(helper)
        params = [a.arg for a in helper.args.args]
        saved = dict(self.alias)
        amap = {}
        for prm, arg in zip(params, call.args):
            amap[prm] = self.resolve(arg)
        for kw in call.keywords:
            if kw.arg is not None and helper.name + '$' + kw.arg in params:
                amap[helper.name + '$' + kw.arg] = self.resolve(kw.value)
        # only names / tuples of names are worth aliasing
        amap = {k: v for k, v in amap.items()
                if isinstance(v, (ast.Name, ast.Tuple, ast.List,
                                  ast.Subscript))}
        slots_before = dict(self.slots)
        n_before = self.n_mk
        self.alias.update(amap)
        self.depth += 1
        cleaned_before = set(self.cleaned)
        sp_before = list(self.scratch_params)
        try:
            body = self.stmts(helper.body)
        except TranslateError:
            # a helper the translator cannot follow is an ordinary call (as
            # before helpers were followed at all): whatever it cleans is
            # then not credited to the caller
            self.slots = slots_before
            self.n_mk = n_before
            self.cleaned = cleaned_before
            self.scratch_params = sp_before
            return None
        finally:
            self.depth -= 1
            self.alias = saved
        flat = list(_flat(body))
        if not any(x[0] in ('mk', 'clean', 'iflive') for x in flat):
            # nothing of interest inside: forget what the walk did
            self.slots = slots_before
            self.n_mk = n_before
            return None
        # a return at the very end of the helper just ends it
        ret_name = None
        last = helper.body[-1] if helper.body else None
        if body and body[-1][0] == 'ret':
            body = body[:-1]
            if body and body[-1][0] == 'call' and isinstance(
                    last, ast.Return) and not isinstance(
                    last.value, (ast.Name, ast.Constant, type(None))):
                pass
            if isinstance(last, ast.Return) and isinstance(last.value,
                                                           ast.Name):
                ret_name = last.value.id
        if any(x[0] == 'ret' for x in _flat(body)):
            raise TranslateError('%s: helper %s returns early while '
                                 'handling scratch resources'
                                 % (self.fn.name, helper.name))
        if bind_to is not None and ret_name in self.slots:
            self.slots[bind_to] = self.slots[ret_name]
        return body


    def stmt(self, s):
        out = self._stmt(s)
        if isinstance(s, ast.Assign):
            for t in s.targets:
                if isinstance(t, ast.Name):
                    self.alias.pop(t.id, None)   # re-bound: no longer the
                                                 # caller's expression
        return out

    def _stmt(self, s):
        if isinstance(s, ast.Assign) and len(s.targets) == 1:
            call = _is_mk_call(s.value)
            if call is not None:
                tgt = s.targets[0]
                if not isinstance(tgt, ast.Name):
                    raise TranslateError('%s: mk result not bound to a name'
                                         % self.fn.name)
                d = self.slot_of_dir(_dir_expr(call))
                # re-assignment of the scratch parameter itself
                # (tmp_dir = tempfile.mkdtemp(dir=tmp_dir)) : dir evaluated
                # before the binding changes
                if tgt.id in self.slots:
                    v = self.slots[tgt.id]
                else:
                    v = self.n_mk + 2
                    self.n_mk += 1
                    self.slots[tgt.id] = v
                    if tgt.id in self.scratch_params:
                        # from now on the name denotes the local directory
                        self.scratch_params = [
                            p for p in self.scratch_params if p != tgt.id]
                return [('mk', v, d)]
            h = self.helper_of(s.value)
            if h is not None and isinstance(s.targets[0], ast.Name):
                body = self.inline(s.value, h, bind_to=s.targets[0].id)
                if body is not None:
                    return body
            if self._may_raise(s.value):
                return [('call',)]
            # rebinding of a tracked name to something else loses track
            tgt = s.targets[0]
            if isinstance(tgt, ast.Name) and tgt.id in self.slots \
                    and not self._is_path_wrap(s.value, tgt.id) \
                    and not (isinstance(s.value, ast.Constant)
                             and s.value.value is None
                             and self.n_mk == 0):
                if not (isinstance(s.value, ast.Constant)
                        and s.value.value is None):
                    raise TranslateError(
                        '%s: scratch variable %s is rebound'
                        % (self.fn.name, tgt.id))
            return []
        if isinstance(s, ast.Expr):
            c = s.value
            if isinstance(c, ast.Call) and isinstance(c.func, ast.Name) \
                    and c.func.id == '_clean_up' \
                    and len(c.args) + len(c.keywords) == 1:
                a = self.resolve(c.args[0] if c.args else
                                 c.keywords[0].value)
                pre = [('mk', HARM_SLOT, 0)] \
                    if id(c) in self.unsafe_cleans else []
                if pre:
                    return pre + ([('clean', self.slots[a.id])]
                                  if isinstance(a, ast.Name)
                                  and a.id in self.slots else [])
                if isinstance(a, ast.Name) and a.id in self.slots:
                    self.cleaned.add(self.slots[a.id])
                    return [('clean', self.slots[a.id])]
                if isinstance(a, ast.Name):
                    # clean-up of something this function did not create
                    return [('call',)]
                raise TranslateError('%s: _clean_up of a non-name'
                                     % self.fn.name)
            h = self.helper_of(c)
            if h is not None:
                body = self.inline(c, h)
                if body is not None:
                    return body
            if _contains_mk(c):
                raise TranslateError('%s: unbound mk call' % self.fn.name)
            return [('call',)] if self._may_raise(c) else []
        if isinstance(s, ast.Try):
            body = self.stmts(s.body)
            only_cleans = bool(body) and all(x[0] == 'clean' for x in body)
            for h in s.handlers:
                if only_cleans:
                    # `_clean_up` does not raise in the model (documented
                    # assumption): a handler around clean-ups alone is dead
                    # code, whatever it does -- as long as it handles no
                    # resources itself
                    hb = self.stmts(h.body)
                    if any(x[0] in ('mk', 'clean') for x in _flat(hb)):
                        raise TranslateError('%s: resources handled in an '
                                             'except clause' % self.fn.name)
                    continue
                hb = self.stmts(h.body)
                if any(x[0] in ('mk', 'clean') for x in _flat(hb)):
                    raise TranslateError('%s: resources handled in an '
                                         'except clause' % self.fn.name)
                if not (h.body and isinstance(h.body[-1], ast.Raise)):
                    raise TranslateError('%s: except clause that does not '
                                         're-raise' % self.fn.name)
            if s.orelse:
                body += self.stmts(s.orelse)
            if s.finalbody:
                return [('try', body, self.stmts(s.finalbody))]
            return body
        if isinstance(s, ast.If):
            live = self._live_test(s.test)
            a = self.stmts(s.body)
            b = self.stmts(s.orelse)
            if live is not None:
                v, positive = live
                if not positive:
                    a, b = b, a
                if not a and not b:
                    return []
                return [('iflive', v, a, b)]
            if not a and not b:
                return [('call',)] if self._may_raise(s.test) else []
            return [('ite', a, b)]
        it = self.resolve(s.iter) if isinstance(s, ast.For) else None
        if isinstance(s, ast.For) and isinstance(s.target, ast.Name) \
                and isinstance(it, (ast.Tuple, ast.List)) \
                and it.elts \
                and all(isinstance(self.resolve(e), ast.Name)
                        for e in it.elts) \
                and any(self.resolve(e).id in self.slots for e in it.elts) \
                and not s.orelse:
            # `for d in (tmp_a, tmp_b): ...` over scratch variables: unrolled
            out = []
            for e in it.elts:
                self.alias[s.target.id] = self.resolve(e)
                out += self.stmts(s.body)
            self.alias.pop(s.target.id, None)
            return out
        if isinstance(s, (ast.For, ast.While)):
            b = self.stmts(s.body)
            if s.orelse:
                raise TranslateError('%s: loop else' % self.fn.name)
            if not b:
                return []
            return [('loop', b)]
        if isinstance(s, ast.With):
            return [('call',)] + self.stmts(s.body)
        if isinstance(s, ast.Return):
            pre = [('call',)] if (s.value is not None
                                  and self._may_raise(s.value)) else []
            return pre + [('ret',)]
        if isinstance(s, ast.Raise):
            return [('raise',)]
        if isinstance(s, (ast.Pass, ast.Import, ast.ImportFrom,
                          ast.Global, ast.Nonlocal)):
            return []
        if isinstance(s, (ast.AugAssign, ast.AnnAssign, ast.Delete,
                          ast.Assert, ast.Assign)):
            if _contains_mk(s):
                raise TranslateError('%s: mk call in an unsupported '
                                     'statement' % self.fn.name)
            return [('call',)]
        if isinstance(s, (ast.FunctionDef, ast.ClassDef)):
            return []
        raise TranslateError('%s: statement %s not supported'
                             % (self.fn.name, type(s).__name__))

    def _live_test(self, t):
        """`<slot variable> is not None` / `is None` -> (slot, positive)"""
        if isinstance(t, ast.Compare) and len(t.ops) == 1:
            t = ast.Compare(left=self.resolve(t.left), ops=t.ops,
                            comparators=t.comparators)
        if isinstance(t, ast.Compare) and len(t.ops) == 1 \
                and isinstance(t.left, ast.Name) \
                and t.left.id in self.slots \
                and isinstance(t.comparators[0], ast.Constant) \
                and t.comparators[0].value is None \
                and isinstance(t.ops[0], (ast.IsNot, ast.Is)):
            v = self.slots[t.left.id]
            if v in self.cleaned:
                raise TranslateError(
                    '%s: liveness test of %s after its clean-up'
                    % (self.fn.name, t.left.id))
            return v, isinstance(t.ops[0], ast.IsNot)
        return None

    @staticmethod
    def _is_path_wrap(v, name):
        return (isinstance(v, ast.Call) and len(v.args) == 1
                and isinstance(v.args[0], ast.Name) and v.args[0].id == name
                and ast.unparse(v.func) in ('pathlib.Path', 'Path', 'str'))

    @staticmethod
    def _may_raise(e):
        """conservative: anything containing a call, subscript, attribute
        access or arithmetic may raise"""
        for n in ast.walk(e):
            if isinstance(n, (ast.Call, ast.Subscript, ast.BinOp,
                              ast.Attribute, ast.Compare)):
                return True
        return False


def _contains_mk(node):
    for n in ast.walk(node):
        if isinstance(n, ast.Call) and _is_mk_call(n) is n:
            return True
    return False


def _flat(stmts):
    for s in stmts:
        yield s
        if s[0] == 'try':
            yield from _flat(s[1])
            yield from _flat(s[2])
        elif s[0] == 'ite':
            yield from _flat(s[1])
            yield from _flat(s[2])
        elif s[0] == 'iflive':
            yield from _flat(s[2])
            yield from _flat(s[3])
        elif s[0] == 'loop':
            yield from _flat(s[1])


def _squash(stmts):
    """merge runs of `call` (one raise point is as good as several)"""
    out = []
    for s in stmts:
        if s[0] == 'try':
            s = ('try', _squash(s[1]), _squash(s[2]))
        elif s[0] == 'ite':
            s = ('ite', _squash(s[1]), _squash(s[2]))
        elif s[0] == 'loop':
            s = ('loop', _squash(s[1]))
        elif s[0] == 'iflive':
            s = ('iflive', s[1], _squash(s[2]), _squash(s[3]))
        if s[0] == 'call' and out and out[-1][0] == 'call':
            continue
        out.append(s)
    return out


SCRATCH_PARAMS = {
    'run_mapping': (["config['tmp_dir']"], ["config['extended_result_dir']"]),
    'precompute_summary_stats_from_h5ad_and_lookup': (['tmp_dir'], []),
    'validate_h5ad': (['tmp_dir'], []),
    'find_markers_for_all_taxonomy_pairs': (['tmp_dir'], []),
    'run_type_assignment_on_h5ad_cpu': (['results_output_path'], []),
}


def skeleton_of(repo, rel, func, cls=None):
    tree = ast.parse(_src(repo, rel))
    fn = _find_func(tree, func, cls)
    sp, op = SCRATCH_PARAMS.get(func, (['tmp_dir'], []))
    module_funcs = {n.name: n for n in tree.body
                    if isinstance(n, ast.FunctionDef)}
    sk = _Skel(fn, list(sp), list(op), module_funcs)
    sk.unsafe_cleans = unsafe_cleans(fn, list(sp))
    body = _squash(sk.stmts(fn.body))
    return body, sk.n_mk


def unsafe_cleans(fn, scratch_params):
    """`P = mkdtemp(dir=P)` re-binds a scratch *parameter* to the private
    sub-directory.  A `_clean_up(P)` is safe only if that assignment is an
    unconditional top-level statement of the function that comes before the
    top-level statement containing the clean-up: otherwise there is a path
    (mkdtemp raised inside the `try`, or was skipped) on which P still names
    the CALLER's directory when it is removed.  Returns the ids of the unsafe
    `_clean_up` calls."""
    rebind_at = {}      # param -> index of the top-level rebinding, or -1
    for i, top in enumerate(fn.body):
        for n in ast.walk(top):
            if isinstance(n, ast.Assign) and len(n.targets) == 1 \
                    and isinstance(n.targets[0], ast.Name) \
                    and n.targets[0].id in scratch_params:
                call = _is_mk_call(n.value)
                d = _dir_expr(call) if call is not None else None
                if call is not None and isinstance(d, ast.Name) \
                        and d.id == n.targets[0].id:
                    nm = n.targets[0].id
                    if n is top and nm not in rebind_at:
                        rebind_at[nm] = i
                    elif n is not top:
                        rebind_at[nm] = -1      # conditional / inside a try
    bad = set()
    for i, top in enumerate(fn.body):
        for n in ast.walk(top):
            if isinstance(n, ast.Call) and isinstance(n.func, ast.Name) \
                    and n.func.id == '_clean_up' and n.args \
                    and isinstance(n.args[0], ast.Name) \
                    and n.args[0].id in rebind_at:
                at = rebind_at[n.args[0].id]
                if at < 0 or at >= i:
                    bad.add(id(n))
    return bad


def lean_stmts(stmts, indent):
    pad = ' ' * indent
    if not stmts:
        return '[]'
    parts = []
    for s in stmts:
        if s[0] == 'mk':
            parts.append('.mk %d %d' % (s[1], s[2]))
        elif s[0] == 'clean':
            parts.append('.clean %d' % s[1])
        elif s[0] == 'call':
            parts.append('.call')
        elif s[0] == 'ret':
            parts.append('.ret')
        elif s[0] == 'raise':
            parts.append('.raise')
        elif s[0] == 'try':
            parts.append('.tryFinally\n%s  %s\n%s  %s' % (
                pad, lean_stmts(s[1], indent + 2),
                pad, lean_stmts(s[2], indent + 2)))
        elif s[0] == 'ite':
            parts.append('.ite\n%s  %s\n%s  %s' % (
                pad, lean_stmts(s[1], indent + 2),
                pad, lean_stmts(s[2], indent + 2)))
        elif s[0] == 'iflive':
            parts.append('.ifLive %d\n%s  %s\n%s  %s' % (
                s[1], pad, lean_stmts(s[2], indent + 2),
                pad, lean_stmts(s[3], indent + 2)))
        elif s[0] == 'loop':
            parts.append('.loop\n%s  %s' % (
                pad, lean_stmts(s[1], indent + 2)))
    return '[' + (',\n' + pad + ' ').join(parts) + ']'


# --------------------------------------------------------------------------

def generate(repo, with_skeletons=True):
    """returns (lean text, list of problems)"""
    problems = []
    lines = [
        '/-',
        '  GENERATED by harness/ctmverif/translate_res.py from the current '
        'source of',
        '  cell_type_mapper -- do not edit.  A golden copy for the pinned '
        'tree is committed.',
        '-/',
        'import CTM.Model.Skeleton',
        '',
        'namespace CTM.Generated',
        'open CTM.Skeleton',
        '',
    ]
    try:
        qc = quote_chars(repo)
        qtxt = '[' + ', '.join(lean_char(c) for c in qc) + ']'
    except (TranslateError, SyntaxError, OSError) as e:
        problems.append('quoteChars: %s' % e)
        qtxt = '[]'
    lines += [
        '/-- `_word_to_path`: the characters removed from a word before it '
        'is read as a path -/',
        'def quoteChars : List Char := ' + qtxt,
        '',
    ]
    if with_skeletons:
        for lean_name, rel, func, cls in SKELETON_TARGETS:
            try:
                body, n_mk = skeleton_of(repo, rel, func, cls)
                txt = lean_stmts(body, 2)
            except (TranslateError, SyntaxError, OSError) as e:
                problems.append('%s: %s' % (lean_name, e))
                # an unrecognised function gets a skeleton that fails the
                # obligation: it creates scratch and never cleans it
                txt = '[.mk 2 0]'
            lines += [
                '/-- resource skeleton of `%s` (%s) -/' % (func, rel),
                'def %s : List Stmt :=\n  %s' % (lean_name, txt),
                '',
            ]
    lines += ['end CTM.Generated', '']
    return '\n'.join(lines), problems


def write_if_changed(path, text):
    path = pathlib.Path(path)
    if path.is_file() and path.read_text() == text:
        return False
    path.parent.mkdir(parents=True, exist_ok=True)
    tmp = path.with_suffix('.lean.tmp%d' % __import__('os').getpid())
    tmp.write_text(text)
    tmp.replace(path)
    return True


def translate(ctx):
    """called by props/c19.py and props/c20.py"""
    from ctmverif import core
    text, problems = generate(core.REPO)
    changed = write_if_changed(
        core.LEAN / 'CTM' / 'Generated' / 'Resources.lean', text)
    if changed:
        ctx.log('Generated/Resources.lean rewritten')
    for p in problems:
        ctx.broken.append('translate_res: ' + p)
    return problems


if __name__ == '__main__':
    import sys
    t, p = generate(sys.argv[1] if len(sys.argv) > 1 else '/repo')
    print(t)
    for x in p:
        print('PROBLEM', x, file=sys.stderr)
