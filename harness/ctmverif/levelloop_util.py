"""
Shared helpers of the level-loop group (C01, C06, C17):

* canonical forms (names -> order preserving ids, floats -> exact [num, den])
  for the Lean ops `levelloop.*` (lean/CTM/Drive/LevelLoop.lean);
* independent (harness-side, never calling the code under test) tree census:
  parent maps, reduced trees built from label columns, children counts;
* the real `run_type_assignment` driven with a scripted `_run_type_assignment`
  (bookkeeping compared for arbitrary oracles), real `backfill_assignments`,
  real `re_order_blob`;
* generated end-to-end mapping problems (tree + stats file + marker table +
  query + configuration) that can be serialised into a replay file, the real
  `run_mapping` on them, extraction of the oracle from the real output and the
  comparison with the model's `mapPipeline`;
* the C01 predicate on a real output.
"""
import copy
import json
import os
import pathlib
import warnings
from fractions import Fraction

import numpy as np

from ctmverif import gen, pipeline, treeio

ENTRY_KEYS = {'assignment', 'bootstrapping_probability', 'avg_correlation',
              'runner_up_assignment', 'runner_up_correlation',
              'runner_up_probability', 'aggregate_probability',
              'directly_assigned'}


# --------------------------------------------------------------------------
# numbers
# --------------------------------------------------------------------------

def frac(x):
    """exact [num, den] of a float/int; None stays None"""
    if x is None:
        return None
    if isinstance(x, bool):
        raise TypeError('bool is not a number here')
    if isinstance(x, (int, np.integer)):
        return [int(x), 1]
    n, d = float(x).as_integer_ratio()
    return [n, d]


def to_fraction(j):
    if j is None:
        return None
    return Fraction(int(j[0]), int(j[1]))


def close(a, b, rel=1e-9, abs_=1e-12):
    """tolerance policy of DESIGN 3.3 for values"""
    if a is None or b is None:
        return a is None and b is None
    a = float(a)
    b = float(b)
    return abs(a - b) <= max(abs_, rel * max(abs(a), abs(b)))


# --------------------------------------------------------------------------
# independent tree census (works on the plain dict; never calls /repo)
# --------------------------------------------------------------------------

def strip_tree(tree):
    return {k: (list(v) if k == 'hierarchy' else
                {n: list(c) for n, c in v.items()})
            for k, v in tree.items() if k not in treeio.IGNORABLE}


def parent_map(tree):
    """{child_level: {child: parent}} from the raw dict"""
    h = tree['hierarchy']
    out = {}
    for pl, cl in zip(h[:-1], h[1:]):
        out[cl] = {}
        for p, kids in tree[pl].items():
            for c in kids:
                out[cl][c] = p
    return out


def leaf_paths(tree):
    """[(leaf, {level: ancestor-or-self})] in the leaf level's dict order:
    the 'label columns' of the taxonomy"""
    h = tree['hierarchy']
    pm = parent_map(tree)
    out = []
    for leaf in tree[h[-1]]:
        d = {h[-1]: leaf}
        cur = leaf
        for i in range(len(h) - 1, 0, -1):
            cur = pm[h[i]][cur]
            d[h[i - 1]] = cur
        out.append((leaf, d))
    return out


def tree_from_columns(levels, paths, leaf_rows=None):
    """taxonomy dict with hierarchy `levels` built from label columns (one
    dict level->label per leaf), first-seen order everywhere.  Independent of
    TaxonomyTree.drop_level / get_taxonomy_tree."""
    tree = {'hierarchy': list(levels)}
    for l in levels:
        tree[l] = {}
    for leaf, d in paths:
        for pl, cl in zip(levels[:-1], levels[1:]):
            kids = tree[pl].setdefault(d[pl], [])
            if d[cl] not in kids:
                kids.append(d[cl])
        tree[levels[-1]].setdefault(
            leaf, list(leaf_rows[leaf]) if leaf_rows else [])
    return tree


def reduced_tree(tree, drop=None, flatten=False):
    """the taxonomy 'that never had level `drop`' / the one-level taxonomy of
    the leaves, rebuilt from the label columns"""
    h = [l for l in tree['hierarchy'] if l != drop]
    if flatten:
        h = h[-1:]
    return tree_from_columns(h, leaf_paths(tree))


def shuffle_tree(rng, tree):
    """the same taxonomy with the node dicts and the child lists in another
    order (a taxonomy is a set of nodes with a parent relation; no order of
    siblings belongs to it)"""
    out = {'hierarchy': list(tree['hierarchy'])}
    for l in tree['hierarchy']:
        keys = list(tree[l].keys())
        rng.shuffle(keys)
        out[l] = {}
        for k in keys:
            kids = list(tree[l][k])
            rng.shuffle(kids)
            out[l][k] = kids
    return out


def all_parent_keys(tree):
    out = [None]
    h = tree['hierarchy']
    for l in h[:-1]:
        for n in tree[l]:
            out.append((l, n))
    return out


def children_of(tree, parent):
    h = tree['hierarchy']
    if parent is None:
        return h[0], list(tree[h[0]].keys())
    l, n = parent
    return h[h.index(l) + 1], list(tree[l][n])


def marker_key(parent):
    return 'None' if parent is None else '%s/%s' % parent


def has_choice(tree):
    return any(len(children_of(tree, p)[1]) > 1
               for p in all_parent_keys(tree))


# --------------------------------------------------------------------------
# canonical forms for the Lean driver
# --------------------------------------------------------------------------

class Canon(object):
    """name tables of one tree (+ extra names) and converters"""

    def __init__(self, tree, extra_nodes=(), extra_levels=()):
        self.tc = treeio.TreeCanon(tree, extra_nodes=extra_nodes,
                                   extra_levels=extra_levels)
        self.tree = tree
        self.node_id = self.tc.node_id
        self.level_id = self.tc.level_id

    def tree_json(self, tree=None):
        return self.tc.tree_json(self.tree if tree is None else tree)

    def parent_json(self, parent):
        if parent is None:
            return None
        return [self.level_id[parent[0]], self.node_id[parent[1]]]

    def vote_json(self, v):
        ru = v.get('ru')
        return {'a': self.node_id[v['a']], 'p': frac(v['p']),
                'c': frac(v.get('c')),
                'ru': None if ru is None else
                [[self.node_id[r[0]], bool(r[1]), frac(r[2]), frac(r[3])]
                 for r in ru]}

    def oracle_json(self, script):
        """script: {(parent, kappa): vote dict}"""
        return [[self.parent_json(p), int(k), self.vote_json(v)]
                for (p, k), v in script.items()]

    def entry_json(self, d):
        """python per-level dict -> model entry"""
        if 'runner_up_assignment' in d:
            ru = [[self.node_id[x] for x in d['runner_up_assignment']],
                  [frac(x) for x in d['runner_up_correlation']],
                  [frac(x) for x in d['runner_up_probability']]]
        else:
            ru = None
        return {'a': self.node_id[d['assignment']],
                'p': frac(d['bootstrapping_probability']),
                'c': frac(d.get('avg_correlation')),
                'ru': ru,
                'agg': frac(d['aggregate_probability'])
                if 'aggregate_probability' in d else None,
                'd': d.get('directly_assigned')}

    def levels_json(self, cell):
        """python cell dict (key order kept, 'cell_id' skipped)"""
        return [[self.level_id[k], self.entry_json(v)]
                for k, v in cell.items() if k != 'cell_id']


def norm_entry(e):
    """model/impl entry JSON -> comparable tuple with exact Fractions"""
    ru = e.get('ru')
    return (e['a'], to_fraction(e['p']), to_fraction(e.get('c')),
            None if ru is None else (
                tuple(ru[0]), tuple(to_fraction(x) for x in ru[1]),
                tuple(to_fraction(x) for x in ru[2])),
            to_fraction(e.get('agg')), e.get('d'))


def norm_levels(ls):
    return [(l, norm_entry(e)) for l, e in ls]


def levels_equal(a, b, agg_tol=False):
    """exact comparison of two [[level, entry]] lists; with agg_tol the
    aggregate probability (a product of floats rounded by the code, exact in
    the model) is compared to 1e-9"""
    a = norm_levels(a)
    b = norm_levels(b)
    if len(a) != len(b):
        return False
    for (la, ea), (lb, eb) in zip(a, b):
        if la != lb:
            return False
        if agg_tol:
            if ea[:4] != eb[:4] or ea[5] != eb[5]:
                return False
            if not close(ea[4], eb[4]):
                return False
        elif ea != eb:
            return False
    return True


# --------------------------------------------------------------------------
# error classes
# --------------------------------------------------------------------------

def classify_loop_error(exc):
    msg = str(exc)
    if isinstance(exc, TypeError) and 'NoneType' in msg:
        return 'unassigned'
    if 'Not sure how to proceed' in msg:
        return 'noChildren'
    if 'not a valid node' in msg:
        return 'tree:badNode'
    if 'is not a valid level' in msg:
        return 'tree:badLevel'
    if isinstance(exc, IndexError):
        return 'badIndex'
    if isinstance(exc, KeyError):
        return 'keyError'
    return 'other:%s:%s' % (type(exc).__name__, msg[:80])


# --------------------------------------------------------------------------
# unit level: real run_type_assignment with a scripted _run_type_assignment
# --------------------------------------------------------------------------

def dyadic(rng, lo=0, hi=16, den=16):
    return rng.randint(lo, hi) / float(den)


def gen_script(rng, tree, kappas, mode='valid', n_runners=2):
    """a vote for every (parent, kappa).  mode 'valid': always a child of the
    parent; 'wild': now and then a node of the child level that belongs to
    another parent, a node of another level, or an unknown name."""
    h = tree['hierarchy']
    script = {}
    all_nodes = sorted({n for l in h for n in tree[l]})
    for parent in all_parent_keys(tree):
        cl, kids = children_of(tree, parent)
        for k in sorted(set(kappas)):
            r = rng.random()
            if mode == 'wild' and r < 0.12:
                others = [n for n in tree[cl] if n not in kids]
                a = rng.choice(others) if others else 'ghost_node'
            elif mode == 'wild' and r < 0.18:
                a = rng.choice(all_nodes + ['ghost_node'])
            elif kids:
                a = rng.choice(kids)
            else:
                a = 'ghost_node'
            if rng.random() < 0.15:
                ru = None
            else:
                pool = [x for x in (kids or all_nodes) if x != a] or [a]
                ru = [(rng.choice(pool), rng.random() < 0.7,
                       dyadic(rng, -16, 16), dyadic(rng))
                      for _ in range(rng.randint(0, n_runners))]
            script[(parent, k)] = {
                'a': a, 'p': dyadic(rng, 1, 16),
                'c': None if rng.random() < 0.1 else dyadic(rng, -16, 16),
                'ru': ru}
    return script


def impl_unit_loop(tree, kappas, script):
    """real run_type_assignment; `_run_type_assignment` replaced by the
    script (the cell's kappa travels in column 0 of the data).  Returns
    ('ok', [cell dict, ...]) or ('err', class)"""
    import cell_type_mapper.type_assignment.election as el
    from cell_type_mapper.cell_by_gene.cell_by_gene import CellByGeneMatrix
    from cell_type_mapper.taxonomy.taxonomy_tree import TaxonomyTree
    with warnings.catch_warnings():
        warnings.simplefilter('ignore')
        tt = TaxonomyTree(data=copy.deepcopy(tree))
    data = np.array([[float(k), 1.0] for k in kappas],
                    dtype=float).reshape(len(kappas), 2)
    cbg = CellByGeneMatrix(data=data, gene_identifiers=['g0', 'g1'],
                           normalization='log2CPM')
    calls = []

    def stub(full_query_gene_data=None, parent_node=None, **kw):
        ks = [int(x) for x in full_query_gene_data.data[:, 0]]
        calls.append((parent_node, ks))
        votes = [script[(parent_node, k)] for k in ks]
        return (np.array([v['a'] for v in votes]),
                np.array([v['p'] for v in votes]),
                [v['c'] for v in votes],
                [None if v['ru'] is None else [tuple(r) for r in v['ru']]
                 for v in votes])

    lookup = {str(l): 1.0 for l in tree['hierarchy']}
    lookup['None'] = 1.0
    saved = el._run_type_assignment
    el._run_type_assignment = stub
    try:
        with warnings.catch_warnings():
            warnings.simplefilter('ignore')
            res = el.run_type_assignment(
                full_query_gene_data=cbg, leaf_node_matrix=None,
                marker_gene_cache_path=None, taxonomy_tree=tt,
                bootstrap_factor_lookup=lookup, bootstrap_iteration=1,
                rng=np.random.default_rng(0), n_assignments=3)
        return 'ok', clean_result(res), calls
    except Exception as e:   # noqa
        return 'err', classify_loop_error(e), calls
    finally:
        el._run_type_assignment = saved


def clean_result(res):
    """numpy scalars -> python"""
    out = []
    for cell in res:
        c = {}
        for k, v in cell.items():
            if isinstance(v, dict):
                d = {}
                for kk, vv in v.items():
                    if isinstance(vv, (list, tuple)):
                        d[kk] = [x.item() if hasattr(x, 'item') else x
                                 for x in vv]
                    elif hasattr(vv, 'item'):
                        d[kk] = vv.item()
                    else:
                        d[kk] = vv
                c[k] = d
            else:
                c[k] = v.item() if hasattr(v, 'item') else v
        out.append(c)
    return out


def script_names(script):
    names = set()
    for v in script.values():
        names.add(v['a'])
        for r in (v['ru'] or []):
            names.add(r[0])
    return names


def indep_walk(tree, script, kappa):
    """one cell, from the root: take the single child or ask the script.
    Raw per-level votes (no backfill); None if the walk leaves the tree."""
    h = tree['hierarchy']
    parent = None
    out = []
    for cl in h:
        if parent is None:
            kids = list(tree[h[0]].keys())
        else:
            if parent[1] not in tree[parent[0]]:
                return None
            kids = list(tree[parent[0]][parent[1]])
        if not kids:
            return None
        if len(kids) == 1:
            v = {'a': kids[0], 'p': 1.0, 'c': None, 'ru': None}
        else:
            v = script[(parent, kappa)]
            if v['a'] not in kids:
                return None
        out.append((cl, v))
        parent = (cl, v['a'])
    return out


def indep_finish(walked):
    """independent version of the tail of run_type_assignment for one cell:
    correlation backfill (from above, else from below), running product,
    runner-up filtering"""
    corr = [v['c'] for _, v in walked]
    n = len(corr)
    for i in range(1, n):
        if corr[i] is None:
            corr[i] = corr[i - 1]
    for i in range(n - 2, -1, -1):
        if corr[i] is None:
            corr[i] = corr[i + 1]
    out = {}
    prob = 1.0
    for (lvl, v), c in zip(walked, corr):
        prob *= v['p']
        ru = [r for r in (v['ru'] or []) if r[1]]
        out[lvl] = {
            'assignment': v['a'], 'bootstrapping_probability': v['p'],
            'avg_correlation': c,
            'runner_up_assignment': [r[0] for r in ru],
            'runner_up_correlation': [r[2] for r in ru],
            'runner_up_probability': [r[3] for r in ru],
            'aggregate_probability': prob}
    return out


# --------------------------------------------------------------------------
# real backfill_assignments / re_order_blob
# --------------------------------------------------------------------------

def impl_backfill(tree, records):
    from cell_type_mapper.taxonomy.taxonomy_tree import TaxonomyTree
    with warnings.catch_warnings():
        warnings.simplefilter('ignore')
        tt = TaxonomyTree(data=copy.deepcopy(tree))
    recs = copy.deepcopy(records)
    try:
        out = tt.backfill_assignments(recs)
        return 'ok', out
    except KeyError:
        return 'err', 'noParent'
    except Exception as e:   # noqa
        return 'err', classify_loop_error(e)


def impl_reorder(obs_names, blob):
    from cell_type_mapper.utils.output_utils import re_order_blob
    with pipeline.workdir('ctmverif_ll_') as d:
        p = d / 'q.h5ad'
        pipeline.write_h5ad(p, np.zeros((len(obs_names), 1), dtype=np.float32),
                            obs_names, ['g0'])
        try:
            out = re_order_blob(results_blob=copy.deepcopy(blob),
                                query_path=p)
            return 'ok', out
        except KeyError:
            return 'err', 'missingCell'
        except Exception as e:   # noqa
            return 'err', classify_loop_error(e)


# --------------------------------------------------------------------------
# end to end: generated mapping problems
# --------------------------------------------------------------------------

def gen_e2e_tree(rng, max_depth=5, max_leaves=10):
    """valid taxonomy for an end-to-end run: depth 1..max_depth, chains,
    single-node levels, bounded number of leaves"""
    r = rng.random()
    if r < 0.06:
        # no choice anywhere: a pure chain
        depth = rng.randint(1, max_depth)
        levels = rng.sample(['class', 'subclass', 'supertype', 'cluster',
                             'L0', 'lvl', 'zeta', 'alpha'], depth)
        names = gen.fresh_names(rng, depth)
        tree = {'hierarchy': levels}
        for i, l in enumerate(levels):
            tree[l] = {names[i]: [names[i + 1]] if i + 1 < depth else []}
        return tree
    if r < 0.3:
        # single-node top levels (a chain on top of a branching tree)
        sub = gen.random_tree(rng, max_depth=max(1, max_depth - 2), max_top=3,
                              max_children=3, rows=False,
                              max_leaves=max_leaves)
        sub = strip_tree(sub)
        n_top = rng.randint(1, 2)
        pool = [l for l in ['T0', 'T1', 'alpha', 'zz'] if l not in
                sub['hierarchy']]
        tops = rng.sample(pool, n_top)
        names = gen.fresh_names(rng, n_top, prefix='t')
        tree = {'hierarchy': tops + sub['hierarchy']}
        for i, l in enumerate(tops):
            tree[l] = {names[i]: [names[i + 1]] if i + 1 < n_top
                       else list(sub[sub['hierarchy'][0]].keys())}
        for l in sub['hierarchy']:
            tree[l] = sub[l]
        return tree
    t = gen.random_tree(rng, max_depth=max_depth, max_top=3, max_children=3,
                        rows=False, chain_prob=0.3, max_leaves=max_leaves)
    return strip_tree(t)


def make_problem(rng, tree=None, n_cells=None, max_depth=5, max_leaves=10,
                 duplicate_cells=False, ids='mixed', n_genes=None):
    """a self-contained (JSON-able) mapping problem"""
    if tree is None:
        tree = gen_e2e_tree(rng, max_depth=max_depth, max_leaves=max_leaves)
    mp = pipeline.MappingProblem(rng, tree=copy.deepcopy(tree),
                                 n_cells=n_cells, n_genes=n_genes)
    n = len(mp.cell_ids)
    X = [[float(v) for v in row] for row in mp.X]
    if duplicate_cells and n >= 2:
        for _ in range(rng.randint(1, max(1, n // 3))):
            i, j = rng.sample(range(n), 2)
            X[j] = list(X[i])
    if ids == 'mixed':
        # ids whose sort order, numeric order and file order all differ
        pool = rng.sample(range(1, 2000), n)
        cell_ids = [('c%d' % v if rng.random() < 0.6 else
                     rng.choice(['Z', 'a', '_', '9']) + str(v))
                    for v in pool]
        if len(set(cell_ids)) < n:
            cell_ids = list(mp.cell_ids)
    else:
        cell_ids = list(mp.cell_ids)
    return {
        'tree': strip_tree(mp.tree),
        'ref_genes': list(mp.ref_genes),
        'leaf_order': list(mp.leaves),
        'leaf_n': {k: int(v) for k, v in mp.leaf_n.items()},
        'leaf_sum': {k: [float(x) for x in v] for k, v in mp.leaf_sum.items()},
        'query_genes': list(mp.query_genes),
        'cell_ids': cell_ids,
        'X': X,
        'markers': {k: list(v) for k, v in mp.markers.items()},
    }


def gen_config(rng, problem, flatten=None, drop_level=None, factor=None):
    n = len(problem['cell_ids'])
    h = problem['tree']['hierarchy']
    if flatten is None:
        flatten = rng.random() < 0.2
    if drop_level is None and rng.random() < 0.45:
        cands = h[:-1] + (['not_a_level'] if rng.random() < 0.3 else [])
        if len(h) > 1 and cands:
            drop_level = rng.choice(cands)
    return _gen_config(rng, n, flatten, drop_level, factor)


def maybe_factor_lookup(rng, tree, cfg, prob=0.35, factor=None):
    """call when flatten / drop_level of cfg are final"""
    cfg.pop('bootstrap_factor_lookup', None)
    if rng.random() < prob:
        cfg['bootstrap_factor_lookup'] = gen_factor_lookup(
            rng, tree, cfg, factor=factor)
    return cfg


def gen_factor_lookup(rng, tree, cfg, factor=None, mode=None):
    """the `bootstrap_factor_lookup` option: [level, factor] pairs, complete
    for the tree of the RUN only ('run': no entry for a dropped level, only
    'None' with flatten) or for the stored tree ('stored'), one factor or a
    different one per level"""
    mode = mode or rng.choice(['run', 'run', 'stored'])
    levels = run_levels(tree, cfg)[:-1] if mode == 'run' \
        else list(tree['hierarchy'][:-1])
    same = rng.random() < 0.4
    f0 = factor if factor is not None else rng.choice([1.0, 0.9, 0.5, 0.7])
    pairs = [['None', f0]]
    for l in levels:
        pairs.append([l, f0 if (same or factor is not None)
                      else rng.choice([1.0, 0.9, 0.5, 0.7, 0.3])])
    rng.shuffle(pairs)
    return pairs


def _gen_config(rng, n, flatten, drop_level, factor):
    return {
        'flatten': bool(flatten), 'drop_level': drop_level,
        # small chunks half of the time: many chunk files, whose sorted
        # (lexicographic) order differs from row order once r0 >= 10
        'chunk_size': rng.randint(1, 3) if rng.random() < 0.5
        else rng.randint(1, n + 3),
        'n_processors': rng.randint(1, 4),
        'n_runners_up': rng.randint(0, 5),
        'encoding': rng.choice(['dense', 'csr', 'csc']),
        'bootstrap_factor': factor if factor is not None
        else rng.choice([1.0, 0.9, 0.5]),
        'bootstrap_iteration': rng.choice([1, 4, 10]),
        'rng_seed': rng.randrange(1, 10000),
    }


def write_problem(problem, d, encoding='dense', tree=None, markers=None):
    """stats file + query + marker table in directory d"""
    d = pathlib.Path(d)
    tree = copy.deepcopy(problem['tree'] if tree is None else tree)
    stats = pipeline.write_stats_file(
        d / 'stats.h5', tree, problem['ref_genes'],
        {k: np.array(v) for k, v in problem['leaf_sum'].items()},
        problem['leaf_n'], leaf_order=problem['leaf_order'])
    q = pipeline.write_h5ad(d / 'query.h5ad', np.array(problem['X']),
                            problem['cell_ids'], problem['query_genes'],
                            encoding=encoding)
    m = d / 'markers.json'
    m.write_text(json.dumps(problem['markers'] if markers is None
                            else markers))
    return stats, q, m


def read_trace(prefix):
    events = []
    p = pathlib.Path(prefix)
    for f in sorted(p.parent.glob(p.name + '.*')):
        for line in f.read_text().splitlines():
            if line.strip():
                events.append(json.loads(line))
    return events


def run_mapping_raw(config):
    """the real run_mapping on the caller's OWN dict object (no protective
    copy, unlike pipeline.run_mapping): returns dict(ok, error, json)"""
    from cell_type_mapper.cli.from_specified_markers import run_mapping as rm
    err = None
    with pipeline.quiet() as buf:
        try:
            rm(config=config, output_path=config['extended_result_path'],
               log_path=config.get('log_path'),
               hdf5_output_path=config.get('hdf5_result_path'))
        except BaseException as e:   # noqa
            if isinstance(e, KeyboardInterrupt):
                raise
            err = e
    out = None
    pth = pathlib.Path(config['extended_result_path'])
    if pth.is_file():
        try:
            out = json.loads(pth.read_text())
        except Exception:
            out = None
    return {'ok': err is None, 'error': err, 'json': out,
            'stdout': buf.getvalue()}


def dict_diff(a, b, path=''):
    """[(path, before, after)] of two nested dicts / lists"""
    if isinstance(a, dict) and isinstance(b, dict):
        out = []
        for k in sorted(set(a) | set(b), key=str):
            if k not in a or k not in b:
                out.append(('%s/%s' % (path, k), a.get(k, '<absent>'),
                            b.get(k, '<absent>')))
            else:
                out += dict_diff(a[k], b[k], '%s/%s' % (path, k))
        return out
    return [] if a == b and type(a) == type(b) else [(path, a, b)]


def run_problem(problem, cfg, tree=None, markers=None, want_trace=True,
                workdir=None, tmp_dir=True, reuse=None, edits=None):
    """real run_mapping. returns dict(ok, error, results, out_tree, chunks).
    workdir: a directory the caller keeps across several runs (same-process
    history: the stats / query / marker files are RE-WRITTEN at the same paths);
    default a fresh scratch directory.  tmp_dir=False runs with tmp_dir=None
    (the query is then read in place instead of from a uniquely named copy);
    the system temp directory is redirected into the workdir meanwhile."""
    if workdir is None:
        with pipeline.workdir('ctmverif_ll_') as d:
            return _run_problem_in(d, problem, cfg, tree, markers, want_trace,
                                   tmp_dir, None, None)
    return _run_problem_in(pathlib.Path(workdir), problem, cfg, tree, markers,
                           want_trace, tmp_dir, reuse, edits)


def _run_problem_in(d, problem, cfg, tree, markers, want_trace, tmp_dir,
                    reuse, edits):
    import shutil
    import tempfile
    for sub in ('out', 'tmp', 'systmp'):
        shutil.rmtree(d / sub, ignore_errors=True)
        (d / sub).mkdir()
    for f in d.glob('trace*'):
        f.unlink()
    stats, q, m = write_problem(problem, d, encoding=cfg['encoding'],
                                tree=tree, markers=markers)
    fresh_config = pipeline.mapping_config(
        q, stats, m, d / 'out', (d / 'tmp') if tmp_dir else None,
        n_processors=cfg['n_processors'], chunk_size=cfg['chunk_size'],
        bootstrap_factor=cfg['bootstrap_factor'],
        bootstrap_iteration=cfg['bootstrap_iteration'],
        rng_seed=cfg['rng_seed'], n_runners_up=cfg['n_runners_up'],
        flatten=cfg['flatten'], drop_level=cfg['drop_level'], csv=False,
        min_markers=cfg.get('min_markers', 1),
        bootstrap_factor_lookup=cfg.get('bootstrap_factor_lookup'))
    # reuse: a holder dict kept by the caller across several runs in ONE
    # workdir -- the very same config dict OBJECT is handed to run_mapping
    # again (as a script looping over references would); `edits` = what the
    # caller changes in his own dict before this call
    if reuse is not None and 'config' in reuse:
        config = reuse['config']
        for k, v in (edits or {}).items():
            config[k] = v
    else:
        config = fresh_config
        if reuse is not None:
            reuse['config'] = config
    snapshot = copy.deepcopy(config)
    old = os.environ.get('CELL_TYPE_MAPPER_VERIF_TRACE')
    old_tmpdir = os.environ.get('TMPDIR')
    old_tempdir = tempfile.tempdir
    os.environ['TMPDIR'] = str(d / 'systmp')
    tempfile.tempdir = str(d / 'systmp')
    if want_trace:
        os.environ['CELL_TYPE_MAPPER_VERIF_TRACE'] = str(d / 'trace')
    else:
        os.environ.pop('CELL_TYPE_MAPPER_VERIF_TRACE', None)
    try:
        res = run_mapping_raw(config)
    finally:
        tempfile.tempdir = old_tempdir
        if old_tmpdir is None:
            os.environ.pop('TMPDIR', None)
        else:
            os.environ['TMPDIR'] = old_tmpdir
        if old is None:
            os.environ.pop('CELL_TYPE_MAPPER_VERIF_TRACE', None)
        else:
            os.environ['CELL_TYPE_MAPPER_VERIF_TRACE'] = old
    chunks = None
    nodes = None
    if want_trace:
        events = read_trace(d / 'trace')
        chunks = sorted(
            (e['r0'], e['r1'], e['cell_ids'])
            for e in events if e['kind'] == 'chunk')
        nodes = [e for e in events if e['kind'] == 'node']
    left = sorted(x.name for x in (d / 'tmp').iterdir())
    out = res['json'] or {}
    mutated = dict_diff(snapshot, config)
    return {'ok': res['ok'],
            'error': None if res['ok'] else repr(res['error'])[:300],
            'results': out.get('results'),
            'out_tree': out.get('taxonomy_tree'),
            'chunks': chunks, 'nodes': nodes, 'scratch_left': left,
            'mutated': [[p, repr(a)[:80], repr(b)[:80]]
                        for p, a, b in mutated] or None}


def mutation_violation(ctx, prop, r, detail):
    """generic predicate of every pipeline run of the level-loop suites:
    run_mapping does not alter the config dict it is given (a caller re-using
    his dict must get what he configured)"""
    if r.get('mutated'):
        key = r['mutated'][0][0].strip('/').split('/')[0]
        ctx.violation('%s/config-mutated/%s' % (prop, key),
                      'run_mapping altered the config dict it was given: %r'
                      % (r['mutated'][:3],),
                      dict(detail, mutated=r['mutated']))
        return True
    return False


def flatten_root_genes_fail(problem, markers, nodes):
    """with flatten the only vote is at the root and its marker genes must be
    the union of ALL lists of the marker table (restricted to genes the query
    and the reference have), whatever drop_level says.  nodes = the 'node'
    events of the hook trace.  Returns a message or None."""
    if not nodes:
        return None
    table = problem['markers'] if markers is None else markers
    union = {g for k, v in table.items() if k not in ('log', 'metadata')
             for g in v}
    want = union & set(problem['query_genes']) & set(problem['ref_genes'])
    for e in nodes:
        if e.get('parent') is not None:
            return 'flattened run votes under parent %r' % (e['parent'],)
        got = set(e['query_genes'])
        if got != want:
            return ('root marker genes of the flattened run are not the '
                    'union of all marker lists: missing %r, extra %r'
                    % (sorted(want - got), sorted(got - want)))
        if list(e['query_genes']) != list(e['reference_genes']):
            return 'query and reference gene lists of the root differ'
    return None


def rename_levels(tree, names):
    """the same taxonomy with other level names (hierarchy order kept)"""
    h = tree['hierarchy']
    out = {'hierarchy': list(names)}
    for old, new in zip(h, names):
        out[new] = copy.deepcopy(tree[old])
    return out


def node_genes(nodes):
    """hook trace -> {parent key string: gene list the node voted on}"""
    out = {}
    for e in nodes or []:
        p = e.get('parent')
        out[marker_key(None if p is None else tuple(p))] = \
            list(e['query_genes'])
    return out


def marker_entries(tree, table):
    """marker table {key string: genes} -> [(None | (level, node), genes)];
    keys naming no parent of the tree are split at the first '/' (level names
    carry none)"""
    known = {marker_key(p): p for p in all_parent_keys(tree)}
    out = []
    for k, v in table.items():
        if k in ('log', 'metadata'):
            continue
        if k in known:
            key = known[k]
        else:
            a, _, b = k.partition('/')
            key = (a, b)
        out.append((key, list(v)))
    return out


def model_flat_setup(ctx, problem, cfg, nodes):
    """the Lean model of the drop_level / flatten blocks (`mapSetup`: the table
    becomes the sorted union of ALL lists, whatever drop_level says) and its
    prediction of the gene list the root votes on (`flatRootGenes`, and group
    E's full `Markers.stage`), against the hook trace of the real run.
    Returns None or a dict describing the first difference."""
    from ctmverif import markers_util as mu
    tree = problem['tree']
    entries = marker_entries(tree, problem['markers'])
    case = {'tree': tree, 'entries': entries, 'Q': problem['query_genes'],
            'R': problem['ref_genes']}
    dl = cfg['drop_level']
    extra = [dl] if dl is not None and dl not in tree else []
    can = mu.Canon(case, extra_levels=extra)
    out = ctx.model('levelloop.setup', {
        'tree': can.tree_json,
        'config': {'dropLevel': None if dl is None else can.tc.level_id[dl],
                   'flatten': cfg['flatten'], 'chunkSize': cfg['chunk_size'],
                   'nProc': cfg['n_processors']},
        'lookup': can.lookup(entries), 'Q': can.ids(problem['query_genes']),
        'R': can.ids(problem['ref_genes']),
        'm': cfg.get('min_markers', 1)})
    if 'err' in out['setup']:
        return {'field': 'setup', 'model': out['setup']}
    union = sorted({g for _, v in entries for g in v})
    got = can.unlookup(out['setup']['ok']['lookup'])
    if cfg['flatten'] and got != {'None': union}:
        return {'field': 'setup-lookup', 'model': got, 'indep': union}
    roots = [e for e in (nodes or []) if e.get('parent') is None]
    if cfg['flatten'] and roots:
        flat = can.names(out['flatRoot'])
        stage = out['stageRoot']
        for e in roots:
            if list(e['query_genes']) != flat:
                return {'field': 'flatRootGenes', 'impl': e['query_genes'],
                        'model': flat}
            if isinstance(stage, dict) or stage is None or \
                    list(e['query_genes']) != can.names(stage):
                return {'field': 'stageRoot', 'impl': e['query_genes'],
                        'model': stage}
    return None


def run_levels(tree, cfg):
    """hierarchy of the tree the run votes on (independent of the repo)"""
    h = list(tree['hierarchy'])
    if cfg.get('drop_level') in h and len(h) > 1 and \
            cfg['drop_level'] != h[-1]:
        h = [l for l in h if l != cfg['drop_level']]
    if cfg.get('flatten'):
        h = h[-1:]
    return h


# --------------------------------------------------------------------------
# C01 predicate on a real output (independent computation)
# --------------------------------------------------------------------------

def c01_predicate(tree, cfg, cell_ids, results, out_tree=None):
    """returns list of (class, message); empty = holds"""
    fails = []
    h = tree['hierarchy']
    if results is None:
        return [('no-results', 'no results list in the output')]
    if len(results) != len(cell_ids):
        fails.append(('count', 'expected %d records, got %d'
                      % (len(cell_ids), len(results))))
        return fails
    got_ids = [r.get('cell_id') for r in results]
    if got_ids != list(cell_ids):
        if sorted(map(str, got_ids)) == sorted(map(str, cell_ids)):
            fails.append(('order', 'records not in the query file order: '
                          '%r vs %r' % (got_ids[:6], list(cell_ids)[:6])))
        else:
            fails.append(('ids', 'records carry wrong cell ids: %r vs %r'
                          % (got_ids[:6], list(cell_ids)[:6])))
        return fails
    pm = parent_map(tree)
    voted = set(run_levels(tree, cfg))
    for i, r in enumerate(results):
        for lvl in h:
            if lvl not in r or not isinstance(r[lvl], dict) or \
                    'assignment' not in r[lvl]:
                fails.append(('missing-level', 'cell %r has no assignment at '
                              'level %r' % (r['cell_id'], lvl)))
                return fails
            if r[lvl]['assignment'] not in tree[lvl]:
                fails.append(('not-a-node', 'cell %r level %r: %r is not a '
                              'node of that level'
                              % (r['cell_id'], lvl, r[lvl]['assignment'])))
                return fails
        for pl, cl in zip(h[:-1], h[1:]):
            if pm[cl][r[cl]['assignment']] != r[pl]['assignment']:
                fails.append(('not-a-path', 'cell %r: %s=%r is not the parent '
                              'of %s=%r' % (r['cell_id'], pl,
                                            r[pl]['assignment'], cl,
                                            r[cl]['assignment'])))
                return fails
        for lvl in h:
            want = lvl in voted
            if r[lvl].get('directly_assigned') is not want:
                fails.append(('flag', 'cell %r level %r: directly_assigned=%r,'
                              ' expected %r' % (r['cell_id'], lvl,
                                                r[lvl].get('directly_assigned'),
                                                want)))
                return fails
        extra = [k for k in r if k != 'cell_id' and k not in h]
        if extra:
            fails.append(('extra-level', 'cell %r has keys %r'
                          % (r['cell_id'], extra)))
            return fails
    if out_tree is not None:
        if strip_tree(out_tree) != strip_tree(tree):
            fails.append(('stored-tree', 'taxonomy_tree of the output is not '
                          'the tree stored in the reference file'))
    return fails


# --------------------------------------------------------------------------
# oracle extraction from a real output and model comparison
# --------------------------------------------------------------------------

def extract_oracle(run_tree, results, kappa_of):
    """per cell and voted level: the child chosen under each parent with >= 2
    children IS the oracle.  run_tree = independently built tree of the run.
    Returns {(parent, kappa): vote}; raises ValueError on inconsistency
    (two different votes for the same (parent, kappa))."""
    h = run_tree['hierarchy']
    script = {}
    for i, r in enumerate(results):
        parent = None
        for lvl in h:
            cl, kids = children_of(run_tree, parent)
            e = r[lvl]
            if len(kids) > 1:
                v = {'a': e['assignment'],
                     'p': e['bootstrapping_probability'],
                     'c': e['avg_correlation'],
                     'ru': [(a, True, c, p) for a, c, p in zip(
                         e['runner_up_assignment'],
                         e['runner_up_correlation'],
                         e['runner_up_probability'])]}
                key = (parent, kappa_of[i])
                if key in script and script[key] != v:
                    raise ValueError('two votes for %r' % (key,))
                script[key] = v
            parent = (lvl, e['assignment'])
            if parent[1] not in run_tree[lvl]:
                break
    return script


def sorted_tree(d):
    """tree dict up to dict order / child-list order"""
    return {k: (list(v) if k == 'hierarchy' else
                {n: sorted(c) for n, c in sorted(v.items())})
            for k, v in d.items()}


def chunk_order(chunks):
    """order in which run_type_assignment_on_h5ad_cpu concatenates the
    per-chunk files: sorted by path, i.e. by the string '<r0>_<r1>_...'"""
    names = ['%d_%d_assignment.json' % (r0, r1) for r0, r1 in chunks]
    return sorted(range(len(chunks)), key=lambda k: names[k])


def indep_chunks(n, n_proc, chunk_size):
    cs = min(max(1, -(-n // n_proc)), chunk_size)
    out = []
    r0 = 0
    while r0 < n:
        out.append((r0, min(n, r0 + cs)))
        r0 += cs
    return cs, out


def model_pipeline(ctx, problem, cfg, results, kappa_of=None, borders=None):
    """feed the oracle read off the real output to the model's mapPipeline
    and compare every bookkeeping field.  Returns None if equal, else a dict
    describing the first difference."""
    tree = problem['tree']
    n = len(problem['cell_ids'])
    if kappa_of is None:
        kappa_of = list(range(n))
    rt = reduced_tree(tree,
                      drop=cfg['drop_level']
                      if cfg['drop_level'] in tree['hierarchy'][:-1] else None,
                      flatten=cfg['flatten'])
    try:
        script = extract_oracle(rt, results, kappa_of)
    except ValueError as e:
        return {'field': 'oracle', 'why': str(e)}
    canon = Canon(tree, extra_levels=[cfg['drop_level']]
                  if cfg['drop_level'] is not None else [])
    # how the rows are cut into chunks is not the properties' business: the
    # model takes the borders the workers were really handed (hook trace) as
    # a parameter; without a trace any tiling will do (theorem
    # C01.order_ids_any_chunks), we use the clamp of the present code
    if borders is not None:
        chunks = [tuple(b) for b in borders]
    else:
        _, chunks = indep_chunks(n, cfg['n_processors'], cfg['chunk_size'])
    # cell ids -> order preserving ints
    ids_sorted = sorted(problem['cell_ids'])
    cid = {c: i for i, c in enumerate(ids_sorted)}
    out = ctx.model('levelloop.pipeline', {
        'tree': canon.tree_json(),
        'config': {'dropLevel': None if cfg['drop_level'] is None
                   else canon.level_id[cfg['drop_level']],
                   'flatten': cfg['flatten'],
                   'chunkSize': cfg['chunk_size'],
                   'nProc': cfg['n_processors']},
        'oracle': canon.oracle_json(script),
        'ids': [cid[c] for c in problem['cell_ids']],
        'cells': list(kappa_of),
        'borders': [list(c) for c in chunks],
        'order': chunk_order(chunks)})
    if not out['tiles']:
        return {'field': 'tiles', 'why': 'the chunk borders do not tile the '
                'rows (hypothesis tilesB of the theorems)', 'borders': chunks}
    if 'err' in out['result']:
        return {'field': 'result', 'model': out['result']}
    if not out['runTreeWf']:
        return {'field': 'wfb', 'why': 'the tree of the run does not satisfy '
                'the hypothesis wfb of the theorems', 'model': out['runTree']}
    rtm = out['runTree'].get('ok')
    if rtm is None or sorted_tree(canon.tc.tree_from_json(rtm)) != \
            sorted_tree(rt):
        return {'field': 'runTree', 'model': out['runTree'], 'indep': rt}
    mres = out['result']['ok']
    if len(mres) != len(results):
        return {'field': 'count', 'model': len(mres), 'impl': len(results)}
    for i, (m, r) in enumerate(zip(mres, results)):
        if m['id'] != cid[r['cell_id']]:
            return {'field': 'cell_id', 'row': i,
                    'model': ids_sorted[m['id']], 'impl': r['cell_id']}
        if not levels_equal(m['levels'], canon.levels_json(r), agg_tol=True):
            return {'field': 'levels', 'row': i, 'cell': r['cell_id'],
                    'model': m['levels'], 'impl': canon.levels_json(r)}
    return None
